(* C06_GenProofs.v — proofs for props/C06_Generated.v: the GoLite translations
   (theories/C06_Gen.v, regenerated from /repo by `vh-gen` on every run) of

     verifier.verifyExpiry, verifyAuthenticTimestamp, verifyTimestamp,
     isTSATrustStoreInPolicy, loadX509TSATrustStores / loadX509TrustStoresWithType,
     checkRevocationResults, revocationFinalResult            (/repo)
     tspclient Timestamp.BoundedBefore / BoundedAfter        (tspclient-go)

   against the hand-written model C06_Model. What the dependencies decide
   (time.Now, time.Time.Add, tspclient.ParseSignedToken, SignedToken.Info,
   TSTInfo.Validate, SignedToken.Verify, nx509.ValidateTimestampingCertChain,
   the trust store, the revocation validator, the certificate fields) are the
   Variables of the generated Section: here they are universally quantified,
   and the model's oracle record [token] is computed from their answers. *)
From Coq Require Import List Bool String Ascii NArith ZArith Lia.
From NV Require Import Base GoLib C06_Model C06_Proofs C06_Audit C06_Gen.
Import ListNotations.
Local Open Scope string_scope.
Local Open Scope list_scope.
Local Open Scope Z_scope.

Local Arguments SignerInfo_SignedAttributes {_}.
Local Arguments SignerInfo_UnsignedAttributes {_}.
Local Arguments SignerInfo_CertificateChain {_}.
Local Arguments SignerInfo_Signature {_}.
Local Arguments EnvelopeContent_SignerInfo {_}.
Local Arguments VerificationOutcome_EnvelopeContent {_}.
Local Arguments VerificationOutcome_VerificationLevel {_}.
Local Arguments mk_ValidateContextOptions {_}.
Local Arguments mk_VerifyOptions {_}.

(* ---------- error classes: the format string identifies the return statement ---------- *)
Definition fmt_of (w : why) : string :=
  match w with
  | WSigTime _ => "certificate %q was not valid when the digital signature was produced at %q"
  | WConfig => "failed to check tsa trust store configuration in turst policy with error: %w"
  | WNowBefore _ => "verification time is before certificate %q validity period, it will be valid from %q"
  | WNowAfter _ => "verification time is after certificate %q validity period, it was expired at %q"
  | WNoToken => "no timestamp countersignature was found in the signature envelope"
  | WParse => "failed to parse timestamp countersignature with error: %w"
  | WInfo => "failed to get the timestamp TSTInfo with error: %w"
  | WImprint => "failed to get timestamp from timestamp countersignature with error: %w"
  | WLoad => "failed to load tsa trust store with error: %w"
  | WNoRoots => "no trusted TSA certificate found in trust store"
  | WVerify => "failed to verify the timestamp countersignature with error: %w"
  | WRules => "failed to validate the timestamping certificate chain with error: %w"
  | WTsBefore _ => "timestamp can be before certificate %q validity period, it will be valid from %q"
  | WTsAfter _ => "timestamp can be after certificate %q validity period, it was expired at %q"
  | WRevErr | WRevCount | WRevNil _ => "failed to check timestamping certificate chain revocation with error: %w"
  | WRevoked _ => "timestamping certificate with subject %q is revoked"
  | WRevUnknown _ => "timestamping certificate with subject %q revocation status is unknown"
  end.

(* the error checkRevocationResults returns (wrapped by verifyTimestamp) *)
Definition shape_fmt (w : why) : string :=
  match w with
  | WRevCount => "revocation validator returned %d results for a certificate chain of length %d"
  | WRevNil _ => "revocation validator returned no result for certificate #%d in chain"
  | _ => ""
  end.

(* what verifyTimestamp wraps: [rv] = the error of the revocation validator *)
Definition wrapped_ok (rv : option err) (w : why) (e : err) : Prop :=
  match w with
  | WRevErr => err_wrapped e = olist rv
  | WRevCount | WRevNil _ => exists e', err_wrapped e = [e'] /\ err_fmt e' = shape_fmt w
  | _ => True
  end.

(* the Go error value [g] says what the model's result [m] says *)
Definition res_rel (rv : option err) (m : res) (g : option err) : Prop :=
  match m with
  | Passed => g = None
  | Failed w => exists e, g = Some e /\ err_fmt e = fmt_of w /\ wrapped_ok rv w e
  end.

Lemma res_rel_passed rv m g : res_rel rv m g -> (g = None <-> m = Passed).
Proof.
  destruct m as [|w]; cbn.
  - intros ->. split; reflexivity.
  - intros (e & -> & _). split; discriminate.
Qed.

(* result.Result as the model's rres; a nil entry of the validator's answer is RNil *)
Definition rres_of (z : Z) : rres :=
  if z =? 1 then ROK else if z =? 2 then RNonRevokable
  else if z =? 0 then RUnknown else if z =? 3 then RRevoked else ROther.

Definition rres_of_ptr (p : ptr result_CertRevocationResult) : rres :=
  match ptr_val p with
  | Some r => rres_of (CertRevocationResult_Result r)
  | None => RNil
  end.

Lemma rres_is_ok z : is_ok (rres_of z) = ((z =? 1) || (z =? 2)).
Proof.
  unfold rres_of. destruct (z =? 1); [reflexivity|]. destruct (z =? 2); [reflexivity|].
  destruct (z =? 0); [reflexivity|]. destruct (z =? 3); reflexivity.
Qed.

Lemma rres_is_revoked z : ((z =? 1) || (z =? 2)) = false -> is_revoked (rres_of z) = (z =? 3).
Proof.
  unfold rres_of. intros H. apply orb_false_iff in H. destruct H as [H1 H2]. rewrite H1, H2.
  destruct (z =? 0) eqn:E0; [apply Z.eqb_eq in E0; subst z; reflexivity|].
  destruct (z =? 3); reflexivity.
Qed.

Lemma rres_ok_iff z : rres_of z = ROK <-> z = 1.
Proof.
  unfold rres_of. split.
  - destruct (Z.eqb_spec z 1); [auto|]. destruct (z =? 2); [discriminate|].
    destruct (z =? 0); [discriminate|]. destruct (z =? 3); discriminate.
  - intros ->. reflexivity.
Qed.

Lemma rres_revoked_iff z : rres_of z = RRevoked <-> z = 3.
Proof.
  unfold rres_of. split.
  - destruct (z =? 1); [discriminate|]. destruct (z =? 2); [discriminate|].
    destruct (z =? 0); [discriminate|]. destruct (Z.eqb_spec z 3); [auto|discriminate].
  - intros ->. reflexivity.
Qed.

(* ================= verifyExpiry ================= *)

Definition expiry_of (t : Z) : option Z := if time_is_zero t then None else Some t.

Definition expiry_err : err := Err "fmt" "digital signature has expired on %q" [].

Lemma gen_verifyExpiry_equiv (now : Z) (C : Type) :
  forall (outcome : ptr (notation_go_VerificationOutcome C)) o env lvl,
    ptr_val outcome = Some o ->
    ptr_val (VerificationOutcome_EnvelopeContent o) = Some env ->
    ptr_val (VerificationOutcome_VerificationLevel o) = Some lvl ->
    gen_verifier_verifyExpiry now C outcome
    = Some (PNew (mk_ValidationResult "expiry"
                    (map_get_or String.eqb "" "expiry" (VerificationLevel_Enforcement lvl))
                    (if verify_expiry now (expiry_of (SignedAttributes_Expiry
                           (SignerInfo_SignedAttributes (EnvelopeContent_SignerInfo env))))
                     then None else Some expiry_err))).
Proof.
  intros outcome o env lvl Ho He Hl. unfold gen_verifier_verifyExpiry. rewrite Ho, He, Hl.
  cbv zeta. unfold expiry_of, verify_expiry, time_before.
  destruct (time_is_zero _); cbn [negb andb]; [reflexivity|].
  destruct (now <? _); cbn [negb]; reflexivity.
Qed.

(* the function panics exactly when one of the three pointers is nil *)
Lemma gen_verifyExpiry_none (now : Z) (C : Type) :
  forall (outcome : ptr (notation_go_VerificationOutcome C)),
    gen_verifier_verifyExpiry now C outcome = None <->
    match ptr_val outcome with
    | None => True
    | Some o => ptr_val (VerificationOutcome_EnvelopeContent o) = None
                \/ ptr_val (VerificationOutcome_VerificationLevel o) = None
    end.
Proof.
  intros outcome. unfold gen_verifier_verifyExpiry.
  destruct (ptr_val outcome) as [o|]; [|tauto].
  destruct (ptr_val (VerificationOutcome_EnvelopeContent o)) as [env|]; [|tauto].
  cbv zeta.
  destruct (ptr_val (VerificationOutcome_VerificationLevel o)) as [lvl|].
  - destruct (_ && _); split; try discriminate; intros [H|H]; discriminate.
  - destruct (_ && _); tauto.
Qed.

(* ================= isTSATrustStoreInPolicy ================= *)

Lemma gen_isTSA_equiv policy stores :
  match tsa_in_policy stores with
  | Some b => gen_verifier_isTSATrustStoreInPolicy policy stores = (b, None)
  | None => exists e, gen_verifier_isTSATrustStoreInPolicy policy stores = (false, Some e)
                      /\ err_typ e = "truststore.TrustStoreError"
  end.
Proof.
  unfold gen_verifier_isTSATrustStoreInPolicy.
  induction stores as [|s rest IH]; [reflexivity|].
  cbn [tsa_in_policy gen_verifier_isTSATrustStoreInPolicy_loop1]. unfold colon. rewrite str_cut_byte.
  destruct (cut_byte ":" s) as [[sty name]|]; cbn [negb].
  - destruct (String.eqb sty "tsa"); [reflexivity|exact IH].
  - eexists; split; reflexivity.
Qed.

(* ================= tspclient Timestamp.BoundedAfter / BoundedBefore ================= *)

Section Bounded.
Variable add : Z -> Z -> Z.
Hypothesis add_plus : forall t d, add t d = t + d.

Lemma gen_BoundedAfter_equiv ts u :
  gen_tspclient_go_Timestamp_BoundedAfter add ts u = (u <=? Timestamp_Value ts - Timestamp_Accuracy ts).
Proof.
  unfold gen_tspclient_go_Timestamp_BoundedAfter, time_after, time_equal. cbv zeta. rewrite add_plus.
  destruct (Z.leb_spec u (Timestamp_Value ts - Timestamp_Accuracy ts)) as [H|H].
  - destruct (Z.eqb_spec (Timestamp_Value ts + - Timestamp_Accuracy ts) u) as [E|E]; [apply orb_true_r|].
    rewrite orb_false_r. apply Z.gtb_lt. lia.
  - apply orb_false_iff. split; [|apply Z.eqb_neq; lia].
    destruct (Z.gtb_spec (Timestamp_Value ts + - Timestamp_Accuracy ts) u); [lia|reflexivity].
Qed.

Lemma gen_BoundedBefore_equiv ts u :
  gen_tspclient_go_Timestamp_BoundedBefore add ts u = (Timestamp_Value ts + Timestamp_Accuracy ts <=? u).
Proof.
  unfold gen_tspclient_go_Timestamp_BoundedBefore, time_before, time_equal. cbv zeta. rewrite add_plus.
  destruct (Z.leb_spec (Timestamp_Value ts + Timestamp_Accuracy ts) u) as [H|H].
  - destruct (Z.eqb_spec (Timestamp_Value ts + Timestamp_Accuracy ts) u) as [E|E]; [apply orb_true_r|].
    rewrite orb_false_r. apply Z.ltb_lt. lia.
  - apply orb_false_iff. split; [apply Z.ltb_ge; lia|apply Z.eqb_neq; lia].
Qed.
End Bounded.

(* ================= checkRevocationResults ================= *)

Lemma check_loop : forall (l : list (ptr result_CertRevocationResult)) i k,
  gen_verifier_checkRevocationResults_loop1 l i
  = match first_nil k (map rres_of_ptr l) with
    | None => None
    | Some p => Some (Err "fmt" (shape_fmt (WRevNil p)) [])
    end.
Proof.
  induction l as [|p l IH]; intros i k; [reflexivity|].
  cbn [gen_verifier_checkRevocationResults_loop1 map first_nil]. cbv zeta.
  unfold rres_of_ptr at 1. destruct (ptr_val p) as [r|].
  - assert (N : is_nil (rres_of (CertRevocationResult_Result r)) = false).
    { unfold rres_of. repeat match goal with |- context[if ?c then _ else _] => destruct c end; reflexivity. }
    rewrite N. apply IH.
  - reflexivity.
Qed.

Lemma gen_checkRevocationResults_equiv (C : Type) :
  forall (results : list (ptr result_CertRevocationResult)) (chain : list C),
    gen_verifier_checkRevocationResults C results chain
    = match shape_check (N.of_nat (List.length chain)) (VRes (map rres_of_ptr results)) with
      | None => None
      | Some w => Some (Err "fmt" (shape_fmt w) [])
      end.
Proof.
  intros results chain. unfold gen_verifier_checkRevocationResults, shape_check.
  rewrite map_length. unfold list_len.
  assert (E : (Z.of_nat (List.length results) =? Z.of_nat (List.length chain))
              = (N.of_nat (List.length results) =? N.of_nat (List.length chain))%N).
  { destruct (Z.eqb_spec (Z.of_nat (List.length results)) (Z.of_nat (List.length chain))) as [H|H];
      destruct (N.eqb_spec (N.of_nat (List.length results)) (N.of_nat (List.length chain))) as [H'|H']; try reflexivity; lia. }
  rewrite E. destruct (_ =? _)%N; cbn [negb]; [|reflexivity].
  rewrite (check_loop results 0 0%N). destruct (first_nil 0%N (map rres_of_ptr results)); reflexivity.
Qed.

(* ================= revocationFinalResult =================
   (the same function is compared with the C05 model, subjects included, in
   props/C05_Generated.v; here: with the C06 model, which names certificates
   by their index — the verdict class is what verifyTimestamp uses) *)

Section Final.
Variable C : Type.
Variable subjs : C -> string.

Notation gen_final := (gen_verifier_revocationFinalResult C subjs).
Notation floop1 := (gen_verifier_revocationFinalResult_loop1 C subjs).

Definition gstate := (Z * Z * string * bool * string)%type.

Definition gupd (st : gstate) (r : result_CertRevocationResult) (c : C) : gstate :=
  let '(fin, nok, prob, rf, rs) := st in
  let z := CertRevocationResult_Result r in
  if (z =? 1) || (z =? 2) then (fin, nok + 1, prob, rf, rs)
  else if (z =? 3) then (z, nok, subjs c, true, subjs c)
  else (z, nok, subjs c, rf, rs).

Definition gstep (results : list (ptr result_CertRevocationResult)) (chain : list C)
           (st : gstate) (i : Z) : option gstate :=
  match list_get chain i, list_get results i with
  | Some c, Some p =>
      match ptr_val p with
      | Some r => Some (gupd st r c)
      | None => None
      end
  | _, _ => None
  end.

Fixpoint gfold results chain (idxs : list Z) (st : gstate) : option gstate :=
  match idxs with
  | [] => Some st
  | i :: rest => match gstep results chain st i with
                 | Some st' => gfold results chain rest st'
                 | None => None
                 end
  end.

Definition gfinish (n : Z) (st : gstate) : Z * string :=
  let '(fin, nok, prob, rf, rs) := st in
  let '(f, p) := if rf then (3, rs) else (fin, prob) in
  if (nok =? n) then (1, p) else (f, p).

(* the inner loop over the server results only logs (since a146158 a nil entry is skipped) *)
Lemma servers_loop K r l : gen_verifier_revocationFinalResult_loop2 K r l = K tt.
Proof.
  induction l as [|p l IH]; [reflexivity|].
  cbn [gen_verifier_revocationFinalResult_loop2]. cbv zeta.
  destruct (ptr_val p) as [sv|]; cbn [obind]; [|exact IH].
  destruct (negb (is_none (ServerResult_Error sv))); [|exact IH].
  destruct (CertRevocationResult_RevocationMethod r =? 3); [destruct (ServerResult_RevocationMethod sv =? 1)|]; exact IH.
Qed.

Lemma floop1_gfold results chain : forall idxs fin nok prob rf rs,
  floop1 results chain idxs fin nok prob rf rs
  = match gfold results chain idxs (fin, nok, prob, rf, rs) with
    | Some st => Some (gfinish (list_len results) st)
    | None => None
    end.
Proof.
  induction idxs as [|i rest IH]; intros fin nok prob rf rs.
  - cbn [gen_verifier_revocationFinalResult_loop1 gfold gfinish].
    destruct rf; destruct (nok =? list_len results); reflexivity.
  - cbn [gen_verifier_revocationFinalResult_loop1 gfold]. unfold gstep.
    destruct (list_get chain i) as [c|]; [|reflexivity].
    destruct (list_get results i) as [p|]; [|reflexivity].
    destruct (ptr_val p) as [r|]; [|reflexivity].
    rewrite servers_loop.
    unfold gupd.
    destruct ((CertRevocationResult_Result r =? 1) || (CertRevocationResult_Result r =? 2)); [apply IH|].
    destruct (CertRevocationResult_Result r =? 3); apply IH.
Qed.

(* all inputs, including those on which the Go code panics *)
Lemma gen_final_spec results chain :
  gen_final results chain
  = match gfold results chain (zrange_down (list_len results - 1) 0) (0, 0, "", false, "") with
    | Some st => Some (gfinish (list_len results) st)
    | None => None
    end.
Proof. unfold gen_verifier_revocationFinalResult. apply floop1_gfold. Qed.

(* ---------- against the model: the verdict does not depend on the names ---------- *)
Definition rstep' (a : racc) (r : rres) : racc := rstep a (r, 0%N).
Definition proj (a : racc) := (a_final a, a_numOK a, a_revFound a).

Lemma proj_step a a' x : proj a = proj a' -> proj (rstep a x) = proj (rstep' a' (fst x)).
Proof.
  destruct x as [r s]. destruct a as [f1 n1 p1 b1 s1], a' as [f2 n2 p2 b2 s2]. unfold proj, rstep', rstep. cbn [a_final a_numOK a_revFound fst].
  intros H. inversion H; subst. destruct (is_ok r); [reflexivity|]. destruct (is_revoked r); reflexivity.
Qed.

Lemma proj_fold xs : forall a a', proj a = proj a' ->
  proj (fold_left rstep xs a) = proj (fold_left rstep' (map fst xs) a').
Proof.
  induction xs as [|x xs IH]; intros a a' H; [exact H|].
  cbn [fold_left map]. apply IH. apply proj_step. exact H.
Qed.

Lemma map_fst_index_from {A} (l : list A) : forall k, map fst (index_from k l) = l.
Proof. induction l as [|x l IH]; intros k; cbn; [reflexivity|]. now rewrite IH. Qed.

Definition acc_of (st : gstate) (a : racc) : Prop :=
  let '(fin, nok, prob, rf, rs) := st in
  rres_of fin = a_final a /\ nok = Z.of_nat (a_numOK a) /\ rf = a_revFound a.

Lemma gupd_step st a r c :
  acc_of st a -> acc_of (gupd st r c) (rstep' a (rres_of (CertRevocationResult_Result r))).
Proof.
  destruct st as [[[[fin nok] prob] rf] rs]. destruct a as [af an ap arf ars].
  unfold acc_of, gupd, rstep', rstep. cbn [a_final a_numOK a_prob a_revFound a_revSubj].
  intros [H1 [H2 H3]]. subst.
  rewrite rres_is_ok.
  destruct ((CertRevocationResult_Result r =? 1) || (CertRevocationResult_Result r =? 2)) eqn:Eok.
  - cbn. repeat split; try assumption; try reflexivity. lia.
  - rewrite (rres_is_revoked _ Eok).
    destruct (CertRevocationResult_Result r =? 3); cbn; repeat split; reflexivity.
Qed.

(* what checkRevocationResults established: one non-nil result per certificate *)
Definition in_contract (results : list (ptr result_CertRevocationResult)) (chain : list C) : Prop :=
  List.length results = List.length chain
  /\ Forall (fun p => exists r, ptr_val p = Some r) results.

Lemma gfold_elems results chain : forall (ps : list (ptr result_CertRevocationResult)) (cs : list C) idxs st a,
  List.length ps = List.length cs ->
  Forall (fun p => exists r, ptr_val p = Some r) ps ->
  Forall2 (fun i pc => list_get results i = Some (fst pc) /\ list_get chain i = Some (snd pc)) idxs (combine ps cs) ->
  acc_of st a ->
  exists st', gfold results chain idxs st = Some st'
              /\ acc_of st' (fold_left rstep' (map rres_of_ptr ps) a).
Proof.
  induction ps as [|p ps IH]; intros cs idxs st a Hl Hf H2 Ha.
  - cbn in H2. inversion H2; subst. exists st. split; [reflexivity|exact Ha].
  - destruct cs as [|c cs]; [discriminate Hl|]. cbn [combine] in H2.
    inversion H2 as [|i pc idxs' rest [Hr Hc] H2']; subst. cbn [fst snd] in Hr, Hc.
    inversion Hf as [|? ? [r Hp] Hf']; subst.
    cbn [gfold]. unfold gstep. rewrite Hc, Hr, Hp.
    cbn [map fold_left]. unfold rres_of_ptr at 2. rewrite Hp.
    apply (IH cs idxs' (gupd st r c) _); [cbn in Hl; lia|exact Hf'|exact H2'|apply gupd_step; exact Ha].
Qed.

Lemma forall2_rev {A B} (R : A -> B -> Prop) l1 l2 : Forall2 R l1 l2 -> Forall2 R (rev l1) (rev l2).
Proof.
  induction 1; [constructor|]. cbn. apply Forall2_app; [assumption|]. constructor; [assumption|constructor].
Qed.

Lemma index_pairs (ps : list (ptr result_CertRevocationResult)) (cs : list C) :
  List.length ps = List.length cs ->
  forall results chain off,
    (forall k, (k < List.length ps)%nat -> nth_error results (off + k) = nth_error ps k /\ nth_error chain (off + k) = nth_error cs k) ->
    Forall2 (fun i pc => list_get results i = Some (fst pc) /\ list_get chain i = Some (snd pc))
            (map Z.of_nat (seq off (List.length ps))) (combine ps cs).
Proof.
  revert cs. induction ps as [|p ps IH]; intros cs Hl results chain off H; [constructor|].
  destruct cs as [|c cs]; [discriminate Hl|]. cbn [List.length seq map combine].
  constructor.
  - cbn [fst snd]. rewrite !list_get_nth. destruct (H 0%nat) as [H1 H2]; [cbn; lia|].
    rewrite Nat.add_0_r in H1, H2. rewrite H1, H2. split; reflexivity.
  - apply IH; [cbn in Hl; lia|]. intros k Hk. destruct (H (S k)) as [H1 H2]; [cbn; lia|].
    replace (S off + k)%nat with (off + S k)%nat by lia. exact (conj H1 H2).
Qed.

Lemma rev_combine {A B} (l1 : list A) : forall (l2 : list B), List.length l1 = List.length l2 ->
  rev (combine l1 l2) = combine (rev l1) (rev l2).
Proof.
  induction l1 as [|p ps IH]; intros [|c cs] Hl; try discriminate; [reflexivity|].
  cbn [combine rev]. rewrite IH by (cbn in Hl; lia).
  assert (L : List.length (rev ps) = List.length (rev cs)) by (rewrite !rev_length; cbn in Hl; lia).
  clear -L. revert L. generalize (rev ps) (rev cs). induction l as [|x l IH]; intros [|y l0] L; try discriminate; [reflexivity|].
  cbn. rewrite IH by (cbn in L; lia). reflexivity.
Qed.

Lemma gen_final_equiv :
  forall results chain, in_contract results chain ->
    exists z s, gen_final results chain = Some (z, s)
                /\ rres_of z = fst (final_result (map rres_of_ptr results)).
Proof.
  intros results chain [Hl Hf]. rewrite gen_final_spec.
  unfold list_len. rewrite zrange_down_zero.
  set (n := List.length results).
  assert (H2 : Forall2 (fun i pc => list_get results i = Some (fst pc) /\ list_get chain i = Some (snd pc))
                       (rev (map Z.of_nat (seq 0 n))) (rev (combine results chain))).
  { apply forall2_rev. apply index_pairs; [exact Hl|]. intros k _. split; reflexivity. }
  rewrite (rev_combine _ _ Hl) in H2.
  destruct (gfold_elems results chain (rev results) (rev chain) (rev (map Z.of_nat (seq 0 n))) (0, 0, "", false, "") racc0) as [st' [Hg Ha]].
  - rewrite !rev_length. exact Hl.
  - apply Forall_rev. exact Hf.
  - exact H2.
  - cbn. repeat split; reflexivity.
  - rewrite Hg. destruct st' as [[[[fin nok] prob] rf] rs].
    unfold final_result.
    set (rsm := map rres_of_ptr results).
    assert (Hp : proj (fold_left rstep (rev (index_from 0%N rsm)) racc0)
                 = proj (fold_left rstep' (map rres_of_ptr (rev results)) racc0)).
    { rewrite (proj_fold _ racc0 racc0 eq_refl). rewrite map_rev, map_fst_index_from.
      unfold rsm. rewrite map_rev. reflexivity. }
    set (a := fold_left rstep (rev (index_from 0%N rsm)) racc0) in *.
    set (a' := fold_left rstep' (map rres_of_ptr (rev results)) racc0) in *.
    destruct Ha as [H1 [H3 H4]]. unfold proj in Hp. inversion Hp as [[P1 P2 P3]].
    unfold gfinish.
    assert (Hn : (nok =? Z.of_nat n) = Nat.eqb (a_numOK a) (List.length rsm)).
    { unfold rsm. rewrite map_length. fold n. subst nok. rewrite <- P2.
      destruct (Nat.eqb_spec (a_numOK a) n) as [->|N]; [apply Z.eqb_refl|apply Z.eqb_neq; lia]. }
    rewrite Hn. subst rf. rewrite <- P3.
    destruct (a_revFound a); destruct (Nat.eqb (a_numOK a) (List.length rsm));
      eexists; eexists; (split; [reflexivity|]); cbn [fst]; try reflexivity.
    rewrite H1. symmetry. exact P1.
Qed.

End Final.

(* the model's verdict classes *)
Lemma rev_check_class rs :
  match rev_check (VRes rs) with
  | None => fst (final_result rs) = ROK
  | Some (WRevoked _) => fst (final_result rs) = RRevoked
  | Some (WRevUnknown _) => fst (final_result rs) <> ROK /\ fst (final_result rs) <> RRevoked
  | Some _ => False
  end.
Proof.
  unfold rev_check. destruct (final_result rs) as [f p]. cbn [fst].
  destruct f; try reflexivity; split; discriminate.
Qed.

(* ================= loadX509TSATrustStores ================= *)

Section Load.
Variable C : Type.
Variable store : string -> string -> list C * option err.   (* X509TrustStore.GetCertificates *)

(* what the trust store answered, as the model's sres *)
Definition sres_of (x : list C * option err) : sres :=
  match snd x with
  | Some _ => SErr
  | None => match fst x with [] => SEmpty | _ => SCerts end
  end.

(* the model's table says what the store answers, for the tsa stores the policy names *)
Definition store_agrees (stores : list string) (db : list (string * sres)) : Prop :=
  forall s ty name, In s stores -> cut_byte colon s = Some (ty, name) -> ty = "tsa" ->
                    lookup_db name db = sres_of (store "tsa" name).

Definition nonempty {A} (l : list A) : bool := match l with [] => false | _ => true end.

Lemma set_contains_add (pset : list (string * unit)) s x :
  gen_container_Set_Contains_string (gen_container_Set_Add_string pset s) x
  = String.eqb x s || gen_container_Set_Contains_string pset x.
Proof.
  unfold gen_container_Set_Contains_string, gen_container_Set_Add_string, map_get_ok.
  rewrite (map_get_set String.eqb string_eqb_spec').
  destruct (String.eqb x s); [reflexivity|]. cbn [orb]. reflexivity.
Qed.

Lemma nonempty_app {A} (a b : list A) : nonempty (a ++ b) = nonempty a || nonempty b.
Proof. destruct a; [reflexivity|reflexivity]. Qed.

Lemma load_loop db : forall stores pset seen certs,
  store_agrees stores db ->
  (forall x, gen_container_Set_Contains_string pset x = mem_str x seen) ->
  match load_tsa stores seen db (nonempty certs) with
  | None => exists e, gen_verifier_loadX509TrustStoresWithType_loop1 C "tsa" store stores pset certs = ([], Some e)
  | Some b => exists cs, gen_verifier_loadX509TrustStoresWithType_loop1 C "tsa" store stores pset certs = (cs, None)
                         /\ b = nonempty cs
  end.
Proof.
  induction stores as [|s rest IH]; intros pset seen certs Hs Hp.
  - cbn. exists certs. split; reflexivity.
  - assert (Hs' : store_agrees rest db).
    { intros s0 ty name Hin. apply Hs. right. exact Hin. }
    cbn [load_tsa gen_verifier_loadX509TrustStoresWithType_loop1]. cbv zeta. rewrite Hp.
    destruct (mem_str s seen); [apply IH; assumption|].
    pose proof (Hs s) as Hs0.
    unfold colon in *. rewrite str_cut_byte.
    destruct (cut_byte ":" s) as [[sty name]|]; [|eexists; reflexivity].
    cbn [negb]. rewrite (String.eqb_sym "tsa" sty).
    destruct (String.eqb sty "tsa") eqn:Ety; cbn [negb]; [|apply IH; assumption].
    apply String.eqb_eq in Ety. subst sty.
    rewrite (Hs0 "tsa" name (or_introl eq_refl) eq_refl eq_refl). unfold sres_of.
    destruct (store "tsa" name) as [cs e]. cbn [fst snd].
    destruct e as [e|]; cbn [is_none negb]; [eexists; reflexivity|].
    assert (Hp' : forall x, gen_container_Set_Contains_string (gen_container_Set_Add_string pset s) x = mem_str x (s :: seen)).
    { intros x. rewrite set_contains_add, Hp. reflexivity. }
    specialize (IH (gen_container_Set_Add_string pset s) (s :: seen) (certs ++ cs) Hs' Hp').
    rewrite nonempty_app in IH.
    destruct cs as [|c cs]; cbn [nonempty] in IH.
    + rewrite orb_false_r in IH. exact IH.
    + rewrite orb_true_r in IH. exact IH.
Qed.

Lemma gen_load_equiv db scheme policy stores :
  scheme = "notary.x509" -> store_agrees stores db ->
  match load_tsa stores [] db false with
  | None => exists cs e, gen_verifier_loadX509TSATrustStores C scheme policy stores store = (cs, Some e)
  | Some b => exists cs, gen_verifier_loadX509TSATrustStores C scheme policy stores store = (cs, None)
                         /\ (list_len cs =? 0) = negb b
  end.
Proof.
  intros -> Hs. unfold gen_verifier_loadX509TSATrustStores. cbv zeta. cbn [String.eqb Ascii.eqb Bool.eqb].
  unfold gen_verifier_loadX509TrustStoresWithType. cbv zeta.
  pose proof (load_loop db stores gen_container_New_string [] [] Hs (fun x => eq_refl)) as H.
  cbn [nonempty] in H.
  destruct (load_tsa stores [] db false) as [b|].
  - destruct H as (cs & -> & ->). exists cs. split; [reflexivity|].
    rewrite list_len_zero. destruct cs; reflexivity.
  - destruct H as (e & ->). eexists; eexists; reflexivity.
Qed.

(* for every store there is such a table *)
Definition db_of (stores : list string) : list (string * sres) :=
  flat_map (fun s => match cut_byte colon s with
                     | Some (_, name) => [(name, sres_of (store "tsa" name))]
                     | None => []
                     end) stores.

Lemma lookup_db_of stores : forall name,
  In name (map fst (db_of stores)) -> lookup_db name (db_of stores) = sres_of (store "tsa" name).
Proof.
  unfold db_of. induction stores as [|s rest IH]; intros name Hin; [destruct Hin|].
  cbn [flat_map] in *. destruct (cut_byte colon s) as [[ty n]|]; [|apply IH; exact Hin].
  cbn [app lookup_db map fst] in *.
  destruct (String.eqb name n) eqn:E.
  - apply String.eqb_eq in E. subst. reflexivity.
  - apply IH. destruct Hin as [H|H]; [|exact H]. subst. rewrite String.eqb_refl in E. discriminate.
Qed.

Lemma store_agrees_db_of stores : store_agrees stores (db_of stores).
Proof.
  intros s ty name Hin Hc _. apply lookup_db_of.
  unfold db_of. clear -Hin Hc. induction stores as [|s0 rest IH]; [destruct Hin|].
  cbn [flat_map]. rewrite map_app. apply in_or_app. destruct Hin as [->|Hin].
  - left. rewrite Hc. left. reflexivity.
  - right. apply IH. exact Hin.
Qed.

End Load.

(* ================= verifyTimestamp, verifyAuthenticTimestamp ================= *)

Definition plain (w : why) : bool :=
  match w with WRevErr | WRevCount | WRevNil _ => false | _ => true end.

Lemma plain_wrapped rv w e : plain w = true -> wrapped_ok rv w e.
Proof. destruct w; cbn; try discriminate; intros _; exact I. Qed.

Lemma now_loop_plain t : forall cs k w, now_loop t cs k = Failed w -> plain w = true.
Proof.
  induction cs as [|c cs IH]; intros k w; cbn [now_loop]; [discriminate|].
  destruct (t <? nb c); [intros H; inversion H; reflexivity|].
  destruct (na c <? t); [intros H; inversion H; reflexivity|]. apply IH.
Qed.

Lemma ts_loop_plain lo hi : forall cs k w, ts_loop lo hi cs k = Some w -> plain w = true.
Proof.
  induction cs as [|c cs IH]; intros k w; cbn [ts_loop]; [discriminate|].
  destruct (negb (nb c <=? lo)); [intros H; inversion H; reflexivity|].
  destruct (negb (hi <=? na c)); [intros H; inversion H; reflexivity|]. apply IH.
Qed.

Lemma sa_loop_plain t : forall cs k w, sa_loop t cs k = Failed w -> plain w = true.
Proof.
  induction cs as [|c cs IH]; intros k w; cbn [sa_loop]; [discriminate|].
  destruct ((t <? nb c) || (na c <? t)); [intros H; inversion H; reflexivity|]. apply IH.
Qed.

Lemma shape_check_why n v w : shape_check n v = Some w -> w = WRevCount \/ exists p, w = WRevNil p.
Proof.
  unfold shape_check. destruct v as [|rs]; [discriminate|].
  destruct (negb _); [intros H; inversion H; left; reflexivity|].
  destruct (first_nil 0%N rs) as [p|]; [|discriminate]. intros H; inversion H. right. exists p. reflexivity.
Qed.

Section VT.
Variable now : Z.                 (* time.Now() *)
Variable C : Type.                (* *x509.Certificate *)
Variable subjs : C -> string.     (* cert.Subject.String() *)
Variable Tok : Type.              (* *tspclient.SignedToken *)
Variable parse : list Z -> Tok * option err.                       (* tspclient.ParseSignedToken *)
Variable Inf : Type.              (* *tspclient.TSTInfo *)
Variable info : Tok -> Inf * option err.                           (* SignedToken.Info *)
Variable verify : Tok -> x509_VerifyOptions C -> list C * option err.   (* SignedToken.Verify *)
Variable validate : Inf -> list Z -> ptr tspclient_go_Timestamp * option err.  (* TSTInfo.Validate *)
Variable add : Z -> Z -> Z.       (* time.Time.Add *)
Variable vtc : list C -> option err.                               (* nx509.ValidateTimestampingCertChain *)
Variable newpool : ptr (x509_CertPool C).                          (* x509.NewCertPool() *)
Variable naf nbf : C -> Z.        (* cert.NotAfter, cert.NotBefore *)
Hypothesis add_plus : forall t d, add t d = t + d.

Notation gen_vt := (gen_verifier_verifyTimestamp now C subjs Tok parse Inf info verify validate add vtc newpool naf nbf).
Notation gen_vat := (gen_verifier_verifyAuthenticTimestamp now C subjs Tok parse Inf info verify validate add vtc newpool naf nbf).

Definition cert_of (c : C) : cert := mk_cert (nbf c) (naf c).
Definition err_of (w : why) : option (option err) := Some (Some (Err "fmt" (fmt_of w) [])).

(* ---------- the loops (one Fixpoint per copy the translator made) ---------- *)

Ltac now_loop_proof L :=
  let cs := fresh "cs" in let c := fresh "c" in let IH := fresh "IH" in let k := fresh "k" in
  intros cs; induction cs as [|c cs IH]; intros k; [reflexivity|];
  cbn [L map now_loop cert_of nb na]; cbv zeta; unfold time_before, time_after; rewrite Z.gtb_ltb;
  match goal with |- context[now_loop ?t _ _] =>
    destruct (t <? nbf c); destruct (naf c <? t); cbn [negb andb orb]; try reflexivity; apply IH end.

Lemma nloop2 K t : forall cs k,
  gen_verifier_verifyTimestamp_loop2 C naf nbf K t cs
  = match now_loop t (map cert_of cs) k with Passed => K tt | Failed w => err_of w end.
Proof. now_loop_proof gen_verifier_verifyTimestamp_loop2. Qed.

Lemma nloop5 K t : forall cs k,
  gen_verifier_verifyTimestamp_loop5 C naf nbf K t cs
  = match now_loop t (map cert_of cs) k with Passed => K tt | Failed w => err_of w end.
Proof. now_loop_proof gen_verifier_verifyTimestamp_loop5. Qed.

Lemma nloop8 t : forall cs k,
  gen_verifier_verifyTimestamp_loop8 C naf nbf t cs
  = match now_loop t (map cert_of cs) k with Passed => Some None | Failed w => err_of w end.
Proof. now_loop_proof gen_verifier_verifyTimestamp_loop8. Qed.

Ltac ts_loop_proof L :=
  let cs := fresh "cs" in let c := fresh "c" in let IH := fresh "IH" in let k := fresh "k" in
  intros cs; induction cs as [|c cs IH]; intros k; [reflexivity|];
  cbn [L map ts_loop cert_of nb na]; cbv zeta;
  rewrite (gen_BoundedAfter_equiv add add_plus), (gen_BoundedBefore_equiv add add_plus);
  match goal with |- context[ts_loop ?lo ?hi _ _] =>
    destruct (nbf c <=? lo); destruct (hi <=? naf c); cbn [negb andb orb]; try reflexivity; apply IH end.

Lemma tloop3 K ts : forall cs k,
  gen_verifier_verifyTimestamp_loop3 C add naf nbf K ts cs
  = match ts_loop (Timestamp_Value ts - Timestamp_Accuracy ts) (Timestamp_Value ts + Timestamp_Accuracy ts) (map cert_of cs) k with
    | None => K tt | Some w => err_of w end.
Proof. ts_loop_proof gen_verifier_verifyTimestamp_loop3. Qed.

Lemma tloop6 K ts : forall cs k,
  gen_verifier_verifyTimestamp_loop6 C add naf nbf K ts cs
  = match ts_loop (Timestamp_Value ts - Timestamp_Accuracy ts) (Timestamp_Value ts + Timestamp_Accuracy ts) (map cert_of cs) k with
    | None => K tt | Some w => err_of w end.
Proof. ts_loop_proof gen_verifier_verifyTimestamp_loop6. Qed.

Lemma tloop10 K ts : forall cs k,
  gen_verifier_verifyTimestamp_loop10 C add naf nbf K ts cs
  = match ts_loop (Timestamp_Value ts - Timestamp_Accuracy ts) (Timestamp_Value ts + Timestamp_Accuracy ts) (map cert_of cs) k with
    | None => K tt | Some w => err_of w end.
Proof. ts_loop_proof gen_verifier_verifyTimestamp_loop10. Qed.

(* the loop that fills the root pool: the pool is not modelled (see docs/audit/C06.md) *)
Lemma aloop4 K : forall l, gen_verifier_verifyTimestamp_loop4 C K l = K tt.
Proof. induction l as [|c l IH]; [reflexivity|exact IH]. Qed.

Lemma aloop7 K : forall l, gen_verifier_verifyTimestamp_loop7 C K l = K tt.
Proof. induction l as [|c l IH]; [reflexivity|exact IH]. Qed.

Lemma aloop9 tsp e tok pool r si : forall l,
  gen_verifier_verifyTimestamp_loop9 C subjs Tok verify add vtc naf nbf tsp e tok pool r si l
  = gen_verifier_verifyTimestamp_loop9 C subjs Tok verify add vtc naf nbf tsp e tok pool r si [].
Proof. induction l as [|c l IH]; [reflexivity|exact IH]. Qed.

(* ---------- from the code's inputs and the oracles' answers to the model's input ---------- *)
Section Input.
Variable stores : list string.
Variable sv : trustpolicy_SignatureVerification.
Variable store : string -> string -> list C * option err.
Variable r : revocation_ValidateContextOptions C -> list (ptr result_CertRevocationResult) * option err.
Variable db : list (string * sres).
Variable si : signature_SignerInfo C.

Definition tsbytes := UnsignedAttributes_TimestampSignature (SignerInfo_UnsignedAttributes si).
Definition o_parse := parse tsbytes.
Definition o_info := info (fst o_parse).
Definition o_valid := validate (fst o_info) (SignerInfo_Signature si).
Definition o_ts : tspclient_go_Timestamp :=
  match ptr_val (fst o_valid) with Some t => t | None => mk_Timestamp 0 0 end.
(* the options verifyTimestamp passes to SignedToken.Verify *)
Definition opts_of (ts : tspclient_go_Timestamp) : x509_VerifyOptions C :=
  mk_VerifyOptions "" PNil newpool (Timestamp_Value ts) [] 0.
Definition o_verify := verify (fst o_parse) (opts_of o_ts).
Definition o_rev := r (mk_ValidateContextOptions (fst o_verify) time_zero).

Definition vout_of (x : list (ptr result_CertRevocationResult) * option err) : vout :=
  match snd x with Some _ => VErr | None => VRes (map rres_of_ptr (fst x)) end.

Definition token_of : token :=
  mk_token (negb (list_len tsbytes =? 0)) (is_none (snd o_parse)) (is_none (snd o_info)) (is_none (snd o_valid))
           (Timestamp_Value o_ts) (Timestamp_Accuracy o_ts)
           (is_none (snd o_verify)) (is_none (vtc (fst o_verify)))
           (N.of_nat (List.length (fst o_verify))) (vout_of o_rev).

Definition scheme_of (s : string) : scheme := if String.eqb s "notary.x509" then X509 else SigningAuthority.
Definition opt_of (s : string) : tsopt := if String.eqb s "afterCertExpiry" then OptAfterCertExpiry else OptAlways.

Definition input_of (aexp ats : action) : input :=
  mk_input now
           (scheme_of (SignedAttributes_SigningScheme (SignerInfo_SignedAttributes si)))
           (SignedAttributes_SigningTime (SignerInfo_SignedAttributes si))
           (expiry_of (SignedAttributes_Expiry (SignerInfo_SignedAttributes si)))
           (map cert_of (SignerInfo_CertificateChain si))
           stores (opt_of (SignatureVerification_VerifyTimestamp sv)) db token_of aexp ats.

(* what the dependencies guarantee (outside it the Go code panics):
   Validate returns a timestamp when it returns no error; a chain accepted by
   Verify and ValidateTimestampingCertChain is not empty *)

Record contract : Prop := mk_contract {
  ct_ts : snd o_valid = None -> ptr_val (fst o_valid) <> None;
  ct_chain : snd o_verify = None -> vtc (fst o_verify) = None -> fst o_verify <> [] }.

Lemma contract_in (res : list (ptr result_CertRevocationResult)) (tsa : list C) :
  shape_check (N.of_nat (List.length tsa)) (VRes (map rres_of_ptr res)) = None ->
  in_contract C res tsa.
Proof.
  intros Hsh. pose proof (shape_check_spec (N.of_nat (List.length tsa)) (VRes (map rres_of_ptr res))) as H.
  rewrite Hsh in H. unfold shape_ok in H. apply andb_true_iff in H. destruct H as [Hl Hn].
  apply N.eqb_eq in Hl. rewrite map_length in Hl. split; [lia|].
  rewrite forallb_forall in Hn. rewrite Forall_forall. intros p Hp.
  specialize (Hn (rres_of_ptr p) (in_map _ _ _ Hp)).
  unfold rres_of_ptr in Hn. destruct (ptr_val p) as [cr|]; [|discriminate].
  exists cr. reflexivity.
Qed.

Ltac leaf_err :=
  eexists; split; [reflexivity|]; cbn [res_rel fmt_of];
  eexists; split; [reflexivity|]; split; [reflexivity|]; first [exact I | reflexivity].

(* the verdict on the revocation results *)
Lemma verdict_cases (res : list (ptr result_CertRevocationResult)) (tsa : list C) :
  in_contract C res tsa ->
  exists z s, gen_verifier_revocationFinalResult C subjs res tsa = Some (z, s) /\
    match rev_check (VRes (map rres_of_ptr res)) with
    | None => z = 1
    | Some (WRevoked _) => z = 3
    | Some (WRevUnknown _) => (z =? 1) = false /\ (z =? 3) = false
    | Some _ => False
    end.
Proof.
  intros Hin. destruct (gen_final_equiv C subjs res tsa Hin) as (z & s & Hf & Hz). exists z, s. split; [exact Hf|].
  pose proof (rev_check_class (map rres_of_ptr res)) as Hc.
  destruct (rev_check (VRes (map rres_of_ptr res))) as [w|].
  - destruct w; try contradiction.
    + rewrite Hc in Hz. apply rres_revoked_iff in Hz. exact Hz.
    + destruct Hc as [H1 H3]. rewrite <- Hz in H1, H3.
      split; apply Z.eqb_neq; intros ->; [apply H1|apply H3]; reflexivity.
  - rewrite Hc in Hz. apply rres_ok_iff in Hz. exact Hz.
Qed.

Lemma existsb_cert_of t l : existsb (fun c => na c <? t) (map cert_of l) = existsb (fun c => naf c <? t) l.
Proof. induction l as [|c l IH]; [reflexivity|]. cbn [map existsb cert_of na]. now rewrite IH. Qed.

(* the step after the trust stores were loaded (three copies in the generated code);
   Hts Hch: the two clauses of the contract, unfolded *)
Ltac post_tac Hts Hch :=
  let ts := fresh "ts" in let tsa := fresh "tsa" in let ev := fresh "ev" in let er := fresh "er" in
  let c0 := fresh "c0" in let Hg := fresh "Hg" in let w := fresh "w" in let Hw := fresh "Hw" in
  let res := fresh "res" in let Hsh := fresh "Hsh" in let Hin := fresh "Hin" in
  let z := fresh "z" in let s := fresh "s" in let Hf := fresh "Hf" in let Hz := fresh "Hz" in let p := fresh "p" in
  match goal with |- context[ptr_val ?q] => destruct (ptr_val q) as [ts|]; [|exfalso; apply Hts; reflexivity] end;
  clear Hts; cbv zeta;
  match goal with |- context[verify ?t ?o] => destruct (verify t o) as [tsa ev] end;
  cbn [fst snd] in *;
  destruct ev as [ev|]; cbn [is_none negb]; [leaf_err|];
  destruct (vtc tsa) as [er|]; cbn [is_none negb]; [leaf_err|];
  specialize (Hch eq_refl eq_refl);
  assert (Hg : exists c0, list_get tsa 0 = Some c0) by (destruct tsa; [contradiction|eexists; reflexivity]);
  destruct Hg as [c0 Hg]; rewrite Hg;
  first [rewrite (tloop3 _ _ _ 0%N) | rewrite (tloop6 _ _ _ 0%N) | rewrite (tloop10 _ _ _ 0%N)];
  match goal with |- context[ts_loop ?lo ?hi ?cs ?k] => destruct (ts_loop lo hi cs k) as [w|] eqn:Hw end;
  [ unfold err_of; eexists; split; [reflexivity|]; cbn [res_rel];
    eexists; split; [reflexivity|]; split; [reflexivity|]; apply plain_wrapped; eapply ts_loop_plain; exact Hw |];
  match goal with |- context[r ?o] => destruct (r o) as [res er] end;
  cbn [fst snd] in *; unfold vout_of; cbn [fst snd];
  destruct er as [er|]; [cbn [is_none negb shape_check rev_check]; leaf_err | cbn [is_none negb]];
  rewrite gen_checkRevocationResults_equiv;
  match goal with |- context[shape_check ?n ?v] => destruct (shape_check n v) as [w|] eqn:Hsh end;
  [ destruct (shape_check_why _ _ _ Hsh) as [->|[p ->]]; cbn [is_none negb];
    (eexists; split; [reflexivity|]; cbn [res_rel fmt_of];
     eexists; split; [reflexivity|]; split; [reflexivity|]; eexists; split; reflexivity) |];
  cbn [is_none negb];
  pose proof (contract_in _ _ Hsh) as Hin;
  destruct (verdict_cases _ _ Hin) as (z & s & Hf & Hz); rewrite Hf; cbv zeta; cbv iota;
  match goal with |- context[rev_check ?v] => destruct (rev_check v) as [w|] end;
  [ destruct w; try contradiction;
    [ subst z; cbn [Z.eqb Pos.eqb]; leaf_err
    | destruct Hz as [-> ->]; leaf_err ]
  | subst z; cbn [Z.eqb Pos.eqb]; eexists; split; reflexivity ].

(* the countersignature branch (three copies): goal
   exists e, <generated term> = Some e /\ res_rel (snd o_rev) (countersig (input_of ..)) e *)
Ltac cs_tac Hc He Hsi Hsch Hag policy :=
  let Hts := fresh "Hts" in let Hch := fresh "Hch" in
  let tok := fresh "tok" in let e1 := fresh "e1" in let inf := fresh "inf" in let e2 := fresh "e2" in
  let tsp := fresh "tsp" in let e3 := fresh "e3" in let Hl := fresh "Hl" in
  let b := fresh "b" in let cs := fresh "cs" in let e4 := fresh "e4" in let Hb := fresh "Hb" in
  destruct Hc as [Hts Hch];
  unfold countersig;
  cbn [input_of i_tok i_stores i_tsadb i_chain token_of k_present k_parses k_info k_imprint k_gen k_acc k_verify k_rules k_tsalen k_rev];
  unfold o_rev, o_verify, opts_of, o_ts, o_valid, o_info, o_parse, tsbytes in *;
  match goal with |- context[list_len ?l =? 0] => destruct (list_len l =? 0) end; cbn [negb]; [leaf_err|];
  match goal with |- context[parse ?x] => destruct (parse x) as [tok e1] end; cbn [fst snd] in *;
  destruct e1 as [e1|]; cbn [is_none negb]; [leaf_err|];
  destruct (info tok) as [inf e2]; cbn [fst snd] in *;
  destruct e2 as [e2|]; cbn [is_none negb]; [leaf_err|];
  match goal with |- context[validate inf ?m] => destruct (validate inf m) as [tsp e3] end; cbn [fst snd] in *;
  destruct e3 as [e3|]; cbn [is_none negb]; [leaf_err|];
  rewrite ?He; rewrite ?Hsi; rewrite ?Hsch;
  pose proof (gen_load_equiv C store db "notary.x509" policy stores eq_refl Hag) as Hl;
  destruct (load_tsa stores [] db false) as [b|];
  [ destruct Hl as (cs & -> & Hb); cbn [is_none negb]; rewrite Hb; destruct b; cbn [negb];
    [ rewrite ?aloop4, ?aloop7, ?aloop9; cbn [gen_verifier_verifyTimestamp_loop9]; post_tac Hts Hch
    | leaf_err ]
  | destruct Hl as (cs & e4 & ->); cbn [is_none negb]; leaf_err ].

(* the chain must be valid now (three copies of the loop) *)
Ltac now_tac :=
  let w := fresh "w" in let Hw := fresh "Hw" in
  first [rewrite (nloop2 _ _ _ 0%N) | rewrite (nloop5 _ _ _ 0%N) | rewrite (nloop8 _ _ 0%N)];
  cbn [input_of i_now i_chain];
  match goal with |- context[now_loop ?t ?cs ?k] => destruct (now_loop t cs k) as [|w] eqn:Hw end;
  [ eexists; split; reflexivity
  | unfold err_of; eexists; split; [reflexivity|]; cbn [res_rel];
    eexists; split; [reflexivity|]; split; [reflexivity|]; apply plain_wrapped; eapply now_loop_plain; exact Hw ].

Section Outcome.
Variable policy : string.
Variable o : notation_go_VerificationOutcome C.
Variable env : signature_EnvelopeContent C.
Hypothesis He : ptr_val (VerificationOutcome_EnvelopeContent o) = Some env.
Hypothesis Hsi : EnvelopeContent_SignerInfo env = si.
Hypothesis Hsch : SignedAttributes_SigningScheme (SignerInfo_SignedAttributes si) = "notary.x509".
Hypothesis Hag : store_agrees C store stores db.
Hypothesis Hc : contract.
Variables aexp ats : action.

(* the loop that looks for an expired certificate (verifyTimestamp: afterCertExpiry) *)
Lemma loop1_rel e0 : forall l ex,
  exists e,
    gen_verifier_verifyTimestamp_loop1 C subjs Tok parse Inf info verify validate add vtc newpool naf nbf
      true now si e0 o policy stores store r l ex = Some e
    /\ res_rel (snd o_rev)
         (if ex || existsb (fun c => naf c <? now) l
          then countersig (input_of aexp ats)
          else now_loop now (map cert_of (SignerInfo_CertificateChain si)) 0%N) e.
Proof.
  induction l as [|c l IH]; intros ex.
  - cbn [gen_verifier_verifyTimestamp_loop1 existsb]. rewrite orb_false_r. cbv zeta.
    destruct ex; cbn [negb].
    + cs_tac Hc He Hsi Hsch Hag policy.
    + now_tac.
  - cbn [gen_verifier_verifyTimestamp_loop1 existsb]. cbv zeta. unfold time_after. rewrite Z.gtb_ltb.
    destruct (naf c <? now); cbn [orb negb].
    + rewrite orb_true_r. cs_tac Hc He Hsi Hsch Hag policy.
    + apply IH.
Qed.

(* verifyTimestamp *)
Lemma gen_vt_rel (outcome : ptr (notation_go_VerificationOutcome C)) :
  ptr_val outcome = Some o ->
  exists e, gen_vt policy stores sv store r outcome = Some e
            /\ res_rel (snd o_rev) (verify_timestamp (input_of aexp ats)) e.
Proof.
  intros Ho. unfold gen_verifier_verifyTimestamp. rewrite Ho, He. cbv zeta. rewrite ?Hsi.
  pose proof (gen_isTSA_equiv policy stores) as Ht.
  unfold verify_timestamp. cbn [input_of i_stores].
  destruct (tsa_in_policy stores) as [en|].
  - rewrite Ht. cbn [is_none negb]. unfold perform_ts. cbn [input_of i_opt i_now i_chain].
    destruct en; cbn [negb andb].
    + unfold opt_of. destruct (String.eqb (SignatureVerification_VerifyTimestamp sv) "afterCertExpiry").
      * unfold expired. rewrite existsb_cert_of.
        destruct (loop1_rel None (SignerInfo_CertificateChain si) false) as (e & Hl & Hr).
        cbn [orb] in Hr. exists e. split; [exact Hl|]. cbn [input_of i_now i_chain] in *. exact Hr.
      * cs_tac Hc He Hsi Hsch Hag policy.
    + now_tac.
  - destruct Ht as (e & -> & _). cbn [is_none negb]. leaf_err.
Qed.

End Outcome.

(* verifyAuthenticTimestamp: the signingAuthority loop *)
Definition ts_result (lvl : trustpolicy_VerificationLevel) (e : option err) : ptr notation_go_ValidationResult :=
  PNew (mk_ValidationResult "authenticTimestamp"
          (map_get_or String.eqb "" "authenticTimestamp" (VerificationLevel_Enforcement lvl)) e).

Lemma sa_loop_gen (o : notation_go_VerificationOutcome C) lvl t :
  ptr_val (VerificationOutcome_VerificationLevel o) = Some lvl ->
  forall cs k,
    gen_verifier_verifyAuthenticTimestamp_loop1 C naf nbf o t cs
    = match sa_loop t (map cert_of cs) k with
      | Passed => Some (ts_result lvl None)
      | Failed w => Some (ts_result lvl (Some (Err "fmt" (fmt_of w) [])))
      end.
Proof.
  intros Hl. induction cs as [|c cs IH]; intros k.
  - cbn [gen_verifier_verifyAuthenticTimestamp_loop1 map sa_loop]. rewrite Hl. reflexivity.
  - cbn [gen_verifier_verifyAuthenticTimestamp_loop1 map sa_loop cert_of nb na]. cbv zeta.
    unfold time_before, time_after. rewrite Z.gtb_ltb.
    destruct (t <? nbf c); destruct (naf c <? t); cbn [negb andb orb]; rewrite ?Hl; try reflexivity; apply IH.
Qed.

Lemma gen_vat_rel policy (outcome : ptr (notation_go_VerificationOutcome C)) o env lvl aexp ats :
  ptr_val outcome = Some o ->
  ptr_val (VerificationOutcome_EnvelopeContent o) = Some env ->
  ptr_val (VerificationOutcome_VerificationLevel o) = Some lvl ->
  EnvelopeContent_SignerInfo env = si ->
  (SignedAttributes_SigningScheme (SignerInfo_SignedAttributes si) = "notary.x509" ->
   store_agrees C store stores db /\ contract) ->
  exists e, gen_vat policy stores sv store r outcome = Some (ts_result lvl e)
            /\ res_rel (snd o_rev) (verify_authentic_timestamp (input_of aexp ats)) e.
Proof.
  intros Ho He Hl Hsi Hx. unfold gen_verifier_verifyAuthenticTimestamp. rewrite Ho, He. cbv zeta. rewrite Hsi.
  unfold verify_authentic_timestamp. cbn [input_of i_scheme i_sigtime i_chain]. unfold scheme_of.
  destruct (String.eqb (SignedAttributes_SigningScheme (SignerInfo_SignedAttributes si)) "notary.x509") eqn:Es.
  - apply String.eqb_eq in Es. destruct (Hx Es) as [Hag Hc]. rewrite Hl.
    destruct (gen_vt_rel policy o env He Hsi Es Hag Hc aexp ats outcome Ho) as (e & Hv & Hr).
    rewrite Hv. exists e. split; [reflexivity|exact Hr].
  - rewrite (sa_loop_gen o lvl _ Hl _ 0%N).
    destruct (sa_loop _ _ _) as [|w] eqn:Hw.
    + exists None. split; reflexivity.
    + eexists. split; [reflexivity|]. cbn [res_rel]. eexists. split; [reflexivity|]. split; [reflexivity|].
      apply plain_wrapped. eapply sa_loop_plain. exact Hw.
Qed.

End Input.
End VT.

(* ================= packaging for props/C06_Generated.v ================= *)

(* the dependencies of the translated functions (the Variables of the generated Section) *)
Record deps := mk_deps {
  d_now : Z;                          (* time.Now() *)
  d_C : Type;                         (* *x509.Certificate *)
  d_subjs : d_C -> string;            (* cert.Subject.String() *)
  d_nbf : d_C -> Z;                   (* cert.NotBefore *)
  d_naf : d_C -> Z;                   (* cert.NotAfter *)
  d_Tok : Type;                       (* *tspclient.SignedToken *)
  d_parse : list Z -> d_Tok * option err;                  (* tspclient.ParseSignedToken *)
  d_Inf : Type;                       (* *tspclient.TSTInfo *)
  d_info : d_Tok -> d_Inf * option err;                    (* SignedToken.Info *)
  d_validate : d_Inf -> list Z -> ptr tspclient_go_Timestamp * option err;   (* TSTInfo.Validate *)
  d_newpool : ptr (x509_CertPool d_C);                     (* x509.NewCertPool() *)
  d_verify : d_Tok -> x509_VerifyOptions d_C -> list d_C * option err;      (* SignedToken.Verify *)
  d_vtc : list d_C -> option err;                          (* nx509.ValidateTimestampingCertChain *)
  d_add : Z -> Z -> Z }.                                   (* time.Time.Add *)

Definition store_t (D : deps) := string -> string -> list (d_C D) * option err.   (* X509TrustStore.GetCertificates *)
Definition validator_t (D : deps) :=                                               (* revocation.Validator.ValidateContext *)
  revocation_ValidateContextOptions (d_C D) -> list (ptr result_CertRevocationResult) * option err.

Definition add_is_plus (D : deps) : Prop := forall t d, d_add D t d = t + d.

Definition g_verifyExpiry (D : deps) := gen_verifier_verifyExpiry (d_now D) (d_C D).
Definition g_verifyTimestamp (D : deps) :=
  gen_verifier_verifyTimestamp (d_now D) (d_C D) (d_subjs D) (d_Tok D) (d_parse D) (d_Inf D) (d_info D)
    (d_verify D) (d_validate D) (d_add D) (d_vtc D) (d_newpool D) (d_naf D) (d_nbf D).
Definition g_verifyAuthenticTimestamp (D : deps) :=
  gen_verifier_verifyAuthenticTimestamp (d_now D) (d_C D) (d_subjs D) (d_Tok D) (d_parse D) (d_Inf D) (d_info D)
    (d_verify D) (d_validate D) (d_add D) (d_vtc D) (d_newpool D) (d_naf D) (d_nbf D).

(* the model's input computed from the code's inputs and the dependencies' answers *)
Definition model_input (D : deps) (stores : list string) (sv : trustpolicy_SignatureVerification)
           (r : validator_t D) (db : list (string * sres)) (si : signature_SignerInfo (d_C D))
           (aexp ats : action) : input :=
  input_of (d_now D) (d_C D) (d_Tok D) (d_parse D) (d_Inf D) (d_info D) (d_verify D) (d_validate D) (d_vtc D)
           (d_newpool D) (d_naf D) (d_nbf D) stores sv r db si aexp ats.

Definition dep_contract (D : deps) (si : signature_SignerInfo (d_C D)) : Prop :=
  contract (d_C D) (d_Tok D) (d_parse D) (d_Inf D) (d_info D) (d_verify D) (d_validate D) (d_vtc D) (d_newpool D) si.

(* the error the revocation validator returned for the TSA chain *)
Definition validator_err (D : deps) (r : validator_t D) (si : signature_SignerInfo (d_C D)) : option err :=
  snd (o_rev (d_C D) (d_Tok D) (d_parse D) (d_Inf D) (d_info D) (d_verify D) (d_validate D) (d_newpool D) r si).

Definition scheme_str {C} (si : signature_SignerInfo C) : string :=
  SignedAttributes_SigningScheme (SignerInfo_SignedAttributes si).

(* the pointers verifyExpiry / verifyAuthenticTimestamp dereference are not nil *)
Definition outcome_ok {C} (outcome : ptr (notation_go_VerificationOutcome C))
           (env : signature_EnvelopeContent C) (lvl : trustpolicy_VerificationLevel) : Prop :=
  exists o, ptr_val outcome = Some o
            /\ ptr_val (VerificationOutcome_EnvelopeContent o) = Some env
            /\ ptr_val (VerificationOutcome_VerificationLevel o) = Some lvl.

Definition expiry_result (lvl : trustpolicy_VerificationLevel) (e : option err) : ptr notation_go_ValidationResult :=
  PNew (mk_ValidationResult "expiry"
          (map_get_or String.eqb "" "expiry" (VerificationLevel_Enforcement lvl)) e).

Lemma g_verifyExpiry_equiv (D : deps) outcome env lvl :
  outcome_ok outcome env lvl ->
  g_verifyExpiry D outcome
  = Some (expiry_result lvl
            (if verify_expiry (d_now D)
                  (expiry_of (SignedAttributes_Expiry (SignerInfo_SignedAttributes (EnvelopeContent_SignerInfo env))))
             then None else Some expiry_err)).
Proof. intros (o & Ho & He & Hl). exact (gen_verifyExpiry_equiv (d_now D) (d_C D) outcome o env lvl Ho He Hl). Qed.

Lemma g_verifyExpiry_iff (D : deps) outcome env lvl :
  outcome_ok outcome env lvl ->
  exists e, g_verifyExpiry D outcome = Some (expiry_result lvl e) /\
    let expiry := SignedAttributes_Expiry (SignerInfo_SignedAttributes (EnvelopeContent_SignerInfo env)) in
    (e = None <-> (expiry = time_zero \/ d_now D < expiry)).
Proof.
  intros H. rewrite (g_verifyExpiry_equiv D outcome env lvl H). eexists. split; [reflexivity|].
  cbv zeta. unfold expiry_of, verify_expiry, time_is_zero.
  destruct (Z.eqb_spec (SignedAttributes_Expiry (SignerInfo_SignedAttributes (EnvelopeContent_SignerInfo env))) time_zero) as [E|E].
  - split; [intros _; left; exact E|reflexivity].
  - destruct (Z.ltb_spec (d_now D) (SignedAttributes_Expiry (SignerInfo_SignedAttributes (EnvelopeContent_SignerInfo env)))) as [L|L].
    + split; [intros _; right; exact L|reflexivity].
    + split; [discriminate|]. intros [H1|H1]; [contradiction|lia].
Qed.

Lemma g_verifyTimestamp_equiv (D : deps) : add_is_plus D ->
  forall policy stores sv (store : store_t D) (r : validator_t D) db outcome env lvl aexp ats,
    outcome_ok outcome env lvl ->
    let si := EnvelopeContent_SignerInfo env in
    scheme_str si = "notary.x509" ->
    store_agrees (d_C D) store stores db -> dep_contract D si ->
    exists e, g_verifyTimestamp D policy stores sv store r outcome = Some e
              /\ res_rel (validator_err D r si) (verify_timestamp (model_input D stores sv r db si aexp ats)) e.
Proof.
  intros Hadd policy stores sv store r db outcome env lvl aexp ats (o & Ho & He & Hl) si Hs Hag Hc.
  exact (gen_vt_rel (d_now D) (d_C D) (d_subjs D) (d_Tok D) (d_parse D) (d_Inf D) (d_info D) (d_verify D)
           (d_validate D) (d_add D) (d_vtc D) (d_newpool D) (d_naf D) (d_nbf D) Hadd stores sv store r db si
           policy o env He eq_refl Hs Hag Hc aexp ats outcome Ho).
Qed.

Lemma g_verifyAuthenticTimestamp_equiv (D : deps) : add_is_plus D ->
  forall policy stores sv (store : store_t D) (r : validator_t D) db outcome env lvl aexp ats,
    outcome_ok outcome env lvl ->
    let si := EnvelopeContent_SignerInfo env in
    (scheme_str si = "notary.x509" -> store_agrees (d_C D) store stores db /\ dep_contract D si) ->
    exists e, g_verifyAuthenticTimestamp D policy stores sv store r outcome = Some (ts_result lvl e)
              /\ res_rel (validator_err D r si) (verify_authentic_timestamp (model_input D stores sv r db si aexp ats)) e.
Proof.
  intros Hadd policy stores sv store r db outcome env lvl aexp ats (o & Ho & He & Hl) si Hx.
  exact (gen_vat_rel (d_now D) (d_C D) (d_subjs D) (d_Tok D) (d_parse D) (d_Inf D) (d_info D) (d_verify D)
           (d_validate D) (d_add D) (d_vtc D) (d_newpool D) (d_naf D) (d_nbf D) Hadd stores sv store r db si
           policy outcome o env lvl aexp ats Ho He Hl eq_refl Hx).
Qed.

(* ---------- the property's theorems on the generated function ---------- *)

Lemma valid_at_cert_of (D : deps) t (l : list (d_C D)) :
  Forall (Valid_at t) (map (cert_of (d_C D) (d_naf D) (d_nbf D)) l)
  <-> Forall (fun c => d_nbf D c <= t <= d_naf D c) l.
Proof.
  induction l as [|c l IH]; [split; constructor|].
  cbn [map]. split; intros H; inversion H; subst; constructor; try (apply IH; assumption); assumption.
Qed.

Section Transport.
Variable D : deps.
Hypothesis Hadd : add_is_plus D.
Variables (policy : string) (stores : list string) (sv : trustpolicy_SignatureVerification).
Variables (store : store_t D) (r : validator_t D) (db : list (string * sres)).
Variables (outcome : ptr (notation_go_VerificationOutcome (d_C D))) (env : signature_EnvelopeContent (d_C D)).
Variable lvl : trustpolicy_VerificationLevel.
Variables aexp ats : action.
Hypothesis Hout : outcome_ok outcome env lvl.
Let si := EnvelopeContent_SignerInfo env.
Hypothesis Hx : scheme_str si = "notary.x509" -> store_agrees (d_C D) store stores db /\ dep_contract D si.
Let i := model_input D stores sv r db si aexp ats.

(* the result is never a panic and always carries type and action *)
Lemma g_vat_total : exists e, g_verifyAuthenticTimestamp D policy stores sv store r outcome = Some (ts_result lvl e).
Proof.
  destruct (g_verifyAuthenticTimestamp_equiv D Hadd policy stores sv store r db outcome env lvl aexp ats Hout Hx) as (e & H & _).
  exists e. exact H.
Qed.

Lemma g_vat_passed e :
  g_verifyAuthenticTimestamp D policy stores sv store r outcome = Some (ts_result lvl e) ->
  (e = None <-> verify_authentic_timestamp i = Passed).
Proof.
  intros Hg.
  destruct (g_verifyAuthenticTimestamp_equiv D Hadd policy stores sv store r db outcome env lvl aexp ats Hout Hx) as (e' & H & Hr).
  rewrite Hg in H. inversion H; subst e'. exact (res_rel_passed _ _ _ Hr).
Qed.

(* C06_passes_only_if on the code's own function: no contract on the policy *)
Lemma g_passes_only_if :
  g_verifyAuthenticTimestamp D policy stores sv store r outcome = Some (ts_result lvl None) ->
  (scheme_str si <> "notary.x509" ->
   Forall (fun c => d_nbf D c <= SignedAttributes_SigningTime (SignerInfo_SignedAttributes si) <= d_naf D c)
          (SignerInfo_CertificateChain si)) /\
  (scheme_str si = "notary.x509" -> ~ Applies i ->
   Forall (fun c => d_nbf D c <= d_now D <= d_naf D c) (SignerInfo_CertificateChain si)) /\
  (scheme_str si = "notary.x509" -> Applies i -> Token_ok i).
Proof.
  intros Hg. apply g_vat_passed in Hg. destruct Hg as [Hg _]. specialize (Hg eq_refl).
  destruct (passes_only_if i Hg) as (H1 & H2 & H3).
  assert (Hs : i_scheme i = scheme_of (scheme_str si)) by reflexivity.
  unfold scheme_of in Hs.
  split; [|split].
  - intros Hn. apply (valid_at_cert_of D). apply H1. rewrite Hs.
    destruct (String.eqb_spec (scheme_str si) "notary.x509"); [contradiction|reflexivity].
  - intros Hy Ha. apply (valid_at_cert_of D). apply H2; [|exact Ha]. rewrite Hs, Hy. reflexivity.
  - intros Hy Ha. apply H3; [|exact Ha]. rewrite Hs, Hy. reflexivity.
Qed.

(* both directions, per case *)
Lemma g_sa_iff e :
  g_verifyAuthenticTimestamp D policy stores sv store r outcome = Some (ts_result lvl e) ->
  scheme_str si <> "notary.x509" ->
  (e = None <->
   Forall (fun c => d_nbf D c <= SignedAttributes_SigningTime (SignerInfo_SignedAttributes si) <= d_naf D c)
          (SignerInfo_CertificateChain si)).
Proof.
  intros Hg Hn. rewrite (g_vat_passed e Hg).
  assert (Hs : i_scheme i = SigningAuthority).
  { change (i_scheme i) with (scheme_of (scheme_str si)). unfold scheme_of.
    destruct (String.eqb_spec (scheme_str si) "notary.x509"); [contradiction|reflexivity]. }
  rewrite (sa_iff i Hs). apply (valid_at_cert_of D).
Qed.

Lemma g_x509_no_tsa_iff e :
  g_verifyAuthenticTimestamp D policy stores sv store r outcome = Some (ts_result lvl e) ->
  forallb (contains_byte colon) stores = true -> scheme_str si = "notary.x509" -> ~ Applies i ->
  (e = None <-> Forall (fun c => d_nbf D c <= d_now D <= d_naf D c) (SignerInfo_CertificateChain si)).
Proof.
  intros Hg Hwf Hy Ha. rewrite (g_vat_passed e Hg).
  assert (Hs : i_scheme i = X509).
  { change (i_scheme i) with (scheme_of (scheme_str si)). unfold scheme_of. rewrite Hy. reflexivity. }
  rewrite (x509_no_tsa i Hwf Hs Ha). apply (valid_at_cert_of D).
Qed.

Lemma g_x509_tsa_iff e :
  g_verifyAuthenticTimestamp D policy stores sv store r outcome = Some (ts_result lvl e) ->
  forallb (contains_byte colon) stores = true -> scheme_str si = "notary.x509" -> Applies i ->
  (e = None <-> Token_ok i).
Proof.
  intros Hg Hwf Hy Ha. rewrite (g_vat_passed e Hg).
  assert (Hs : i_scheme i = X509).
  { change (i_scheme i) with (scheme_of (scheme_str si)). unfold scheme_of. rewrite Hy. reflexivity. }
  exact (x509_tsa i Hwf Hs Ha).
Qed.

End Transport.
