(* C03_Model.v — trust comes only from the stores the applicable policy statement
   names, typed by the signing scheme. Definitions only. Mirrors

     verifier/trustpolicy/oci.go   GetApplicableTrustPolicy   (statement selection)
     verifier/helpers.go           loadX509TrustStores, loadX509TSATrustStores,
                                   loadX509TrustStoresWithType, isTSATrustStoreInPolicy
     verifier/verifier.go          processSignature (authenticity step and what follows it),
                                   verifyAuthenticity, verifyAuthenticTimestamp/verifyTimestamp
                                   (only as far as the tsa trust stores are requested)

   External facts are inputs: the trust store is a function (type, name) -> content
   (an association list, a missing entry = the store cannot be loaded), certificates
   are numbers whose equality is x509.Certificate.Equal (raw DER bytes), the core
   library's VerifyAuthenticity is "some chain certificate Equal some trust
   certificate" (notation-core-go signature/signer.go), and [i_token] / [st_ts] say whether the
   timestamp path gets as far as loading the tsa stores (see [input], [stmt]). *)
From NV Require Import Base.

Inductive scheme := SX509 | SSA | SOther.
(* SOther: any other value of SignedAttributes.SigningScheme. notation-core-go rejects
   such envelopes while parsing, so the branch is not reachable through Verify *)

Inductive action := Enforce | Log | SkipLevel.
(* action of the authenticity validation in a statement's level; SkipLevel = the
   statement's level is "skip" (Verify returns before processSignature) *)

Inductive content := Certs (l : list N) | LoadError.
Definition fsys := list ((string * string) * content).

Record stmt := mk_stmt {
  st_name : string;
  st_scopes : list string;     (* registryScopes *)
  st_stores : list string;     (* trustStores *)
  st_action : action;          (* action of authenticity in the statement's level *)
  st_ts : bool }.              (* the statement's verifyTimestamp option demands verification of a
                                  countersignature for this chain: "always"/absent, or
                                  "afterCertExpiry" with an expired chain certificate *)

Record input := mk_input {
  i_scheme : scheme;
  i_policy : list stmt;        (* trust policy document, in order *)
  i_repo : string;             (* artifact path of the reference (text before the last '@') *)
  i_fs : fsys;                 (* what X509TrustStore.GetCertificates answers *)
  i_chain : list N;            (* certificate chain of the signature, leaf first *)
  i_token : bool }.            (* the envelope carries a timestamp countersignature that parses and
                                  matches the signature (steps of verifyTimestamp before
                                  loadX509TSATrustStores; oracle = tspclient-go) *)

(* authenticity result classes *)
Inductive aclass :=
| APass
| ANoMatch                       (* *signature.SignatureAuthenticityError *)
| AEmpty                         (* "no trusted certificates are found to verify authenticity" *)
| ALoad (ty name : string)       (* the error GetCertificates returned for this store *)
| AFormat (s : string)           (* trust store value without ':' *)
| AScheme                        (* unrecognized signing scheme *)
| AOtherErr.                     (* anything else (never produced by the model) *)

Definition call := (string * string)%type.     (* (store type, named store) *)

Record obs := mk_obs {
  o_auth : option aclass;        (* authenticity entry of the outcome; None = no entry *)
  o_calls : list call;           (* GetCertificates calls seen by the trust store, in order *)
  o_stop : bool }.               (* Verify returned the authenticity error itself *)

(* ---------- the trust store ---------- *)
Definition key_eqb (a b : string * string) : bool :=
  String.eqb (fst a) (fst b) && String.eqb (snd a) (snd b).

Fixpoint fs_get (fs : fsys) (ty name : string) : content :=
  match fs with
  | [] => LoadError
  | (k, c) :: fs' => if key_eqb (ty, name) k then c else fs_get fs' ty name
  end.

(* ---------- GetApplicableTrustPolicy ---------- *)
Definition wildcard : string := "*".
Definition has_scope (x : string) (s : stmt) : bool := mem_str x (st_scopes s).

(* loop state: (wildcardPolicy, applicablePolicy); later statements overwrite *)
Definition sel_step (repo : string) (st : option stmt * option stmt) (s : stmt)
  : option stmt * option stmt :=
  if has_scope wildcard s then (Some s, snd st)
  else if has_scope repo s then (fst st, Some s)
  else st.

Definition select (policy : list stmt) (repo : string) : option stmt :=
  let st := fold_left (sel_step repo) policy (None, None) in
  match snd st with
  | Some s => Some s
  | None => fst st
  end.

(* ---------- loadX509TrustStoresWithType ---------- *)
Definition colon : ascii := ":"%char.

Inductive lres :=
| LOk (certs : list N)
| LErrLoad (ty name : string)
| LErrFormat (s : string).

(* [processed] is processedStoreSet. The certificates and the call log that the Go
   loop accumulates front to back are returned front to back here: the result for
   [s :: rest] is s's certificates followed by those of the rest. *)
Fixpoint load (fs : fsys) (ty : string) (stores processed : list string) : lres * list call :=
  match stores with
  | [] => (LOk [], [])
  | s :: rest =>
      if mem_str s processed then load fs ty rest processed
      else match cut_byte colon s with
           | None => (LErrFormat s, [])
           | Some (sty, name) =>
               if negb (String.eqb ty sty) then load fs ty rest processed
               else match fs_get fs ty name with
                    | LoadError => (LErrLoad ty name, [(ty, name)])
                    | Certs l =>
                        let r := load fs ty rest (s :: processed) in
                        (match fst r with LOk cs => LOk (l ++ cs) | e => e end,
                         (ty, name) :: snd r)
                    end
           end
  end.

(* loadX509TrustStores: scheme -> store type *)
Definition ty_ca : string := "ca".
Definition ty_sa : string := "signingAuthority".
Definition ty_tsa : string := "tsa".

Definition store_type_of (s : scheme) : option string :=
  match s with
  | SX509 => Some ty_ca
  | SSA => Some ty_sa
  | SOther => None
  end.

(* ---------- verifyAuthenticity ---------- *)
Definition mem_cert (c : N) (l : list N) : bool := existsb (N.eqb c) l.

Definition verify_authenticity (trust chain : list N) : aclass :=
  match trust with
  | [] => AEmpty
  | _ => if existsb (fun c => mem_cert c trust) chain then APass else ANoMatch
  end.

(* authenticity step of processSignature *)
Definition auth_stage (sch : scheme) (fs : fsys) (chain : list N) (stores : list string)
  : aclass * list call :=
  match store_type_of sch with
  | None => (AScheme, [])
  | Some ty =>
      let r := load fs ty stores [] in
      (match fst r with
       | LOk certs => verify_authenticity certs chain
       | LErrLoad t n => ALoad t n
       | LErrFormat s => AFormat s
       end, snd r)
  end.

(* ---------- isTSATrustStoreInPolicy: None = error ---------- *)
Fixpoint tsa_in_policy (stores : list string) : option bool :=
  match stores with
  | [] => Some false
  | s :: rest =>
      match cut_byte colon s with
      | None => None
      | Some (sty, _) => if String.eqb sty ty_tsa then Some true else tsa_in_policy rest
      end
  end.

(* trust store calls of verifyAuthenticTimestamp: only under notary.x509, only if a tsa
   store is configured, only when the timestamp path reaches loadX509TSATrustStores *)
Definition tsa_calls (sch : scheme) (fs : fsys) (ts : bool) (stores : list string) : list call :=
  match sch with
  | SX509 =>
      match tsa_in_policy stores with
      | Some true => if ts then snd (load fs ty_tsa stores []) else []
      | _ => []
      end
  | _ => []
  end.

Definition is_pass (c : aclass) : bool := match c with APass => true | _ => false end.

(* ---------- Verify, restricted to what this property observes ---------- *)
Definition model (i : input) : obs :=
  match select (i_policy i) (i_repo i) with
  | None => mk_obs None [] false
  | Some st =>
      match st_action st with
      | SkipLevel => mk_obs None [] false
      | a =>
          let r := auth_stage (i_scheme i) (i_fs i) (i_chain i) (st_stores st) in
          if (match a with Enforce => true | _ => false end) && negb (is_pass (fst r))
          then mk_obs (Some (fst r)) (snd r) true
          else mk_obs (Some (fst r))
                      (snd r ++ tsa_calls (i_scheme i) (i_fs i) (i_token i && st_ts st) (st_stores st)) false
      end
  end.

(* ---------- boolean equalities ---------- *)
Definition aclass_eqb (a b : aclass) : bool :=
  match a, b with
  | APass, APass | ANoMatch, ANoMatch | AEmpty, AEmpty | AScheme, AScheme
  | AOtherErr, AOtherErr => true
  | ALoad t n, ALoad t' n' => String.eqb t t' && String.eqb n n'
  | AFormat s, AFormat s' => String.eqb s s'
  | _, _ => false
  end.

Definition obs_eqb (a b : obs) : bool :=
  opt_eqb aclass_eqb (o_auth a) (o_auth b)
  && list_eqb key_eqb (o_calls a) (o_calls b)
  && Bool.eqb (o_stop a) (o_stop b).

(* ---------- input contract: what a validated policy document guarantees ----------
   every trust store value of every statement is <type>:<name> with a known type and a
   non-empty name without ':', and no scope value occurs in two statements
   (validateTrustStore, validateRegistryScopes); the scheme is one core accepts. *)
Definition valid_store (s : string) : bool :=
  match cut_byte colon s with
  | None => false
  | Some (t, n) =>
      (String.eqb t ty_ca || String.eqb t ty_sa || String.eqb t ty_tsa)
      && negb (String.eqb n "") && negb (contains_byte colon n)
  end.

Fixpoint nodup_str (l : list string) : bool :=
  match l with
  | [] => true
  | x :: r => negb (mem_str x r) && nodup_str r
  end.

Definition wf (i : input) : bool :=
  forallb (fun s => forallb valid_store (st_stores s)) (i_policy i)
  && nodup_str (flat_map st_scopes (i_policy i))
  && match i_scheme i with SOther => false | _ => true end.

(* the trust store value <type>:<name> *)
Definition store_value (ty name : string) : string := ty ++ String colon name.
Definition is_x509 (s : scheme) : bool := match s with SX509 => true | _ => false end.

(* ---------- the property oracle, on observations only ----------
   Written independently of the loops above: find/filter/first-occurrence lists.
   It checks what the property is about: authenticity passes exactly when the
   declarative condition holds (every listed store of the scheme's type loads and one of
   them holds a chain certificate), a failure under "enforce" ends the verification, and
   the trust store is asked only for stores the applicable statement lists, of the
   scheme's type (or tsa, on the timestamp path). The exact failure class and the exact
   call sequence are compared by the correspondence (model vs implementation). *)

(* the applicable statement: the one scoped to the repository, else the wildcard one *)
Definition applicable (policy : list stmt) (repo : string) : option stmt :=
  match find (fun s => negb (has_scope wildcard s) && has_scope repo s) policy with
  | Some s => Some s
  | None => find (has_scope wildcard) policy
  end.

(* names of the listed stores of type [ty], in order *)
Definition names_of_type (ty : string) (stores : list string) : list string :=
  flat_map (fun s => match cut_byte colon s with
                     | Some (t, n) => if String.eqb t ty then [n] else []
                     | None => [] end) stores.

(* first occurrences *)
Fixpoint uniq (l : list string) : list string :=
  match l with
  | [] => []
  | x :: r => x :: filter (fun y => negb (String.eqb x y)) (uniq r)
  end.

Definition loads_ok (fs : fsys) (ty n : string) : bool :=
  match fs_get fs ty n with Certs _ => true | LoadError => false end.

(* the stores consulted: up to and including the first that fails to load *)
Fixpoint upto_err (fs : fsys) (ty : string) (names : list string) : list string :=
  match names with
  | [] => []
  | n :: r => if loads_ok fs ty n then n :: upto_err fs ty r else [n]
  end.

Definition certs_of (fs : fsys) (ty n : string) : list N :=
  match fs_get fs ty n with Certs l => l | LoadError => [] end.

Definition expected_auth (i : input) (ty : string) (stores : list string) : aclass :=
  let wanted := uniq (names_of_type ty stores) in
  match find (fun n => negb (loads_ok (i_fs i) ty n)) wanted with
  | Some n => ALoad ty n
  | None =>
      let trust := flat_map (certs_of (i_fs i) ty) wanted in
      match trust with
      | [] => AEmpty
      | _ => if existsb (fun n => existsb (fun c => mem_cert c (certs_of (i_fs i) ty n)) (i_chain i)) wanted
             then APass else ANoMatch
      end
  end.

Definition expected_calls (fs : fsys) (ty : string) (stores : list string) : list call :=
  map (fun n => (ty, n)) (upto_err fs ty (uniq (names_of_type ty stores))).

Definition call_allowed (i : input) (st : stmt) (ty : string) (stopped : bool) (k : call) : bool :=
  mem_str (store_value (fst k) (snd k)) (st_stores st)
  && (String.eqb (fst k) ty
      || (String.eqb (fst k) ty_tsa && negb stopped && is_x509 (i_scheme i) && i_token i && st_ts st)).

Definition spec_ok (i : input) (o : obs) : bool :=
  match applicable (i_policy i) (i_repo i) with
  | None => match o_auth o, o_calls o with None, [] => negb (o_stop o) | _, _ => false end
  | Some st =>
    match st_action st, store_type_of (i_scheme i) with
    | SkipLevel, _ =>
      match o_auth o, o_calls o with None, [] => negb (o_stop o) | _, _ => false end
    | a, Some ty =>
      match o_auth o with
      | None => false
      | Some c =>
          Bool.eqb (is_pass c) (is_pass (expected_auth i ty (st_stores st)))
          && Bool.eqb (o_stop o) ((match a with Enforce => true | _ => false end) && negb (is_pass c))
          && forallb (call_allowed i st ty (o_stop o)) (o_calls o)
      end
    | _, None => false     (* excluded by wf *)
    end
  end.

(* ---------- cases ---------- *)
Record case := mk_case { c_id : N; c_in : input; c_obs : obs }.

Definition run (cs : list case) : list (N * N * N) :=
  run_cases c_id
    (fun c => obs_eqb (model (c_in c)) (c_obs c))
    (fun c => negb (wf (c_in c)) || spec_ok (c_in c) (c_obs c))
    (fun _ => 0%N) cs.

(* ---------- variations of an input (used to state non-interference) ---------- *)
Definition with_fs (i : input) (fs : fsys) : input :=
  mk_input (i_scheme i) (i_policy i) (i_repo i) fs (i_chain i) (i_token i).
Definition with_policy (i : input) (p : list stmt) : input :=
  mk_input (i_scheme i) p (i_repo i) (i_fs i) (i_chain i) (i_token i).
