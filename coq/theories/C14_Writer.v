(* C14_Writer.v — the writer of a cache entry as a PROGRAM over an explicit world.

   C14_Model.v describes a writer by the events it may perform (ECreate, EWrite, EClose,
   ERename, EFail, ECrash) and a program counter inside [step].  This file states the
   same writer as a program in the shape of the Go function internal/file.WriteFile:
   a function of the operating-system calls it makes, each call taking the world and
   returning the new world and its answer.  It is hand written; the theorems of
   C14_GenProofs.v / props/C14_Generated.v prove that the function GoLite generates from
   the body of WriteFile IS this program, for every world type and every behaviour of
   the calls.

   Then, about the program:
   - [writer_steps]: run against ANY behaviour of the operating system (each answer an
     arbitrary function of the whole history of calls so far and of the arguments), the
     sequence of calls is one of five: the complete store, or a store cut short by the
     first failing call followed by the clean-up Close + Remove(temp).
   - [writer_runs_model]: read as events of C14_Model (Part 1), every such sequence is an
     enabled trace of one writer of the directory semantics, ending in PDone exactly when
     the program reports success. *)
From Coq Require Import List Bool String Ascii NArith ZArith Lia.
From NV Require Import Base Generated GoLib C14_Model C14_Proofs C14_Audit.
Import ListNotations.
Open Scope string_scope.
Open Scope list_scope.

(* ---------- the program, for any world W and any type F of file handles ---------- *)
Section Prog.
Variables W F : Type.
Variable create : W -> string -> string -> W * (F * option err).   (* os.CreateTemp(dir, pattern) *)
Variable write : W -> F -> list Z -> W * (Z * option err).          (* os.File.Write *)
Variable close : W -> F -> W * option err.                          (* os.File.Close *)
Variable name : F -> string.                                        (* os.File.Name: no effect *)
Variable rename : W -> string -> string -> W * option err.          (* os.Rename(old, new) *)
Variable remove : W -> string -> W * option err.                    (* os.Remove *)

(* the deferred clean-up of WriteFile when a step failed: Close, then Remove(temp); answers ignored *)
Definition cleanup (w : W) (f : F) : W := fst (remove (fst (close w f)) (name f)).

(* world after the call, and whether WriteFile returns nil *)
Definition writer_prog (w : W) (dir path : string) (content : list Z) : W * bool :=
  let r1 := create w dir gen_temp_file_pattern in
  let f := fst (snd r1) in
  match snd (snd r1) with
  | Some _ => (fst r1, false)
  | None =>
      let r2 := write (fst r1) f content in
      match snd (snd r2) with
      | Some _ => (cleanup (fst r2) f, false)
      | None =>
          let r3 := close (fst r2) f in
          match snd r3 with
          | Some _ => (cleanup (fst r3) f, false)
          | None =>
              let r4 := rename (fst r3) (name f) path in
              match snd r4 with
              | Some _ => (cleanup (fst r4) f, false)
              | None => (fst r4, true)
              end
          end
      end
  end.
End Prog.

(* ---------- the world as the history of calls ---------- *)
Section Log.
Variable F : Type.
Variable name : F -> string.

Inductive call :=
| CCreate (dir pat : string) (r : F * option err)
| CWrite (f : F) (b : list Z) (r : Z * option err)
| CClose (f : F) (r : option err)
| CRename (old new : string) (r : option err)
| CRemove (p : string) (r : option err).

(* a behaviour of the operating system: every answer is an arbitrary function of the
   history so far and of the arguments (this covers every deterministic or scripted
   environment, including other processes acting in between) *)
Record behaviour := mk_beh {
  b_create : list call -> string -> string -> F * option err;
  b_write : list call -> F -> list Z -> Z * option err;
  b_close : list call -> F -> option err;
  b_rename : list call -> string -> string -> option err;
  b_remove : list call -> string -> option err }.

Variable B : behaviour.
Definition l_create (w : list call) d p := (w ++ [CCreate d p (b_create B w d p)], b_create B w d p).
Definition l_write (w : list call) f b := (w ++ [CWrite f b (b_write B w f b)], b_write B w f b).
Definition l_close (w : list call) f := (w ++ [CClose f (b_close B w f)], b_close B w f).
Definition l_rename (w : list call) a b := (w ++ [CRename a b (b_rename B w a b)], b_rename B w a b).
Definition l_remove (w : list call) p := (w ++ [CRemove p (b_remove B w p)], b_remove B w p).

Definition run_logged (dir path : string) (content : list Z) : list call * bool :=
  writer_prog (list call) F l_create l_write l_close name l_rename l_remove [] dir path content.

(* the five sequences of calls *)
Inductive writer_run (dir path : string) (content : list Z) : list call -> bool -> Prop :=
| WR_create_failed : forall f e,
    writer_run dir path content [CCreate dir gen_temp_file_pattern (f, Some e)] false
| WR_write_failed : forall f n e rc rr,
    writer_run dir path content
      [CCreate dir gen_temp_file_pattern (f, None); CWrite f content (n, Some e);
       CClose f rc; CRemove (name f) rr] false
| WR_close_failed : forall f n e rc rr,
    writer_run dir path content
      [CCreate dir gen_temp_file_pattern (f, None); CWrite f content (n, None); CClose f (Some e);
       CClose f rc; CRemove (name f) rr] false
| WR_rename_failed : forall f n e rc rr,
    writer_run dir path content
      [CCreate dir gen_temp_file_pattern (f, None); CWrite f content (n, None); CClose f None;
       CRename (name f) path (Some e); CClose f rc; CRemove (name f) rr] false
| WR_stored : forall f n,
    writer_run dir path content
      [CCreate dir gen_temp_file_pattern (f, None); CWrite f content (n, None); CClose f None;
       CRename (name f) path None] true.

Theorem writer_steps : forall dir path content,
  writer_run dir path content (fst (run_logged dir path content)) (snd (run_logged dir path content)).
Proof.
  intros dir path content. unfold run_logged, writer_prog, cleanup.
  cbn [l_create fst snd app].
  destruct (b_create B [] dir gen_temp_file_pattern) as [f [e|]] eqn:E1; cbn [fst snd].
  - apply WR_create_failed.
  - cbn [l_write fst snd app].
    destruct (b_write B _ f content) as [n [e|]] eqn:E2; cbn [fst snd].
    + cbn [l_close l_remove fst snd app]. apply WR_write_failed.
    + cbn [l_close fst snd app].
      destruct (b_close B _ f) as [e|] eqn:E3; cbn [fst snd].
      * cbn [l_close l_remove fst snd app]. apply WR_close_failed.
      * cbn [l_rename fst snd app].
        destruct (b_rename B _ (name f) path) as [e|] eqn:E4; cbn [fst snd].
        -- cbn [l_close l_remove fst snd app]. apply WR_rename_failed.
        -- apply WR_stored.
Qed.

(* consequences that do not mention the behaviour *)

(* every byte is written through the handle CreateTemp returned for the given directory and the
   generated pattern; the destination [path] occurs only as the target of the one Rename *)
Definition writes_only_temp (dir : string) (log : list call) : Prop :=
  forall f b r, In (CWrite f b r) log -> exists r0, hd_error log = Some (CCreate dir gen_temp_file_pattern (f, r0)).

Lemma run_writes_only_temp : forall dir path content log ok,
  writer_run dir path content log ok -> writes_only_temp dir log.
Proof.
  intros dir path content log ok H f0 b r I.
  destruct H; cbn in I;
    repeat (destruct I as [I|I]; [try discriminate; inversion I; subst; eexists; reflexivity|]); contradiction.
Qed.

(* after a failure that follows the creation, the last call removes the temporary file *)
Lemma run_failure_removes : forall dir path content log,
  writer_run dir path content log false ->
  (exists f e, log = [CCreate dir gen_temp_file_pattern (f, Some e)]) \/
  (exists f r0 mid rr, log = CCreate dir gen_temp_file_pattern (f, r0) :: mid ++ [CRemove (name f) rr]).
Proof.
  intros dir path content log H. inversion H; subst.
  - left. eauto.
  - right. exists f, None, [CWrite f content (n, Some e); CClose f rc], rr. reflexivity.
  - right. exists f, None, [CWrite f content (n, None); CClose f (Some e); CClose f rc], rr. reflexivity.
  - right. exists f, None, [CWrite f content (n, None); CClose f None; CRename (name f) path (Some e); CClose f rc], rr.
    reflexivity.
Qed.

(* ---------- the calls read as events of C14_Model, Part 1 ----------
   writer id [wid] stores content [c] for URL [u]; [nm] gives the directory entry a path denotes
   (the model's directory is the cache root).  Reading of the answers:
     CreateTemp = nil   : the temporary file exists, empty            ECreate
     Write = (_, nil)   : all bytes were moved (contract of io.Writer) EWrite (all)
     Write = (n, error) : n bytes were moved                          EWrite n
     Close = nil        : closed                                      EClose
     Rename = nil       : atomically renamed over the key             ERename
     after the first error (clean-up): Close has no effect on the directory;
     Remove = nil       : the temporary name is gone                  EFail
     Remove = error     : the temporary file is left behind for ever  ECrash  *)
Section Events.
Variable wid : N.
Variable u : string.
Variable c : data.
Variable nm : string -> string.

Fixpoint events (failed : bool) (log : list call) : list event :=
  match log with
  | [] => []
  | CCreate _ _ (f, None) :: l => if failed then events true l else ECreate wid u c (nm (name f)) :: events false l
  | CCreate _ _ (_, Some _) :: l => events true l
  | CWrite _ b (_, None) :: l => if failed then events true l else EWrite wid (List.length b) :: events false l
  | CWrite _ _ (n, Some _) :: l => if failed then events true l else EWrite wid (Z.to_nat n) :: events true l
  | CClose _ None :: l => if failed then events true l else EClose wid :: events false l
  | CClose _ (Some _) :: l => events true l
  | CRename _ _ None :: l => if failed then events true l else ERename wid :: events false l
  | CRename _ _ (Some _) :: l => events true l
  | CRemove _ None :: l => if failed then EFail wid :: events true l else events false l
  | CRemove _ (Some _) :: l => if failed then ECrash wid :: events true l else events false l
  end.
End Events.
End Log.

Arguments CCreate {F}. Arguments CWrite {F}. Arguments CClose {F}. Arguments CRename {F}. Arguments CRemove {F}.

(* bytes of the Go side as the model's data *)
Definition data_of_bytes (b : list Z) : data := map (fun z => ascii_of_N (Z.to_N z)) b.

Lemma data_of_bytes_length : forall b, List.length (data_of_bytes b) = List.length b.
Proof. intros b. apply map_length. Qed.

Ltac gpe := rewrite ?(get_put_eq N.eqb Neqb_spec), ?(get_put_eq String.eqb Seqb_spec).

Section RunsModel.
Variable sha : string -> list N.
Variable F : Type.
Variable name : F -> string.
Variable nm : string -> string.
Notation step := (step sha).
Notation exec := (exec sha).

Lemma st_fail : forall s w wr, getN w (s_w s) = Some wr -> w_inplace wr = false ->
  (w_pc wr = POpen \/ w_pc wr = PClosed) ->
  step s (EFail w) = Some (mk_state (delS (w_tmp wr) (s_dir s)) (s_ino s) (putN w (with_pc wr PFailed) (s_w s)) (s_r s)).
Proof. intros s w wr G I [P|P]; cbn; rewrite G, P, I; reflexivity. Qed.

Lemma st_crash : forall s w wr, getN w (s_w s) = Some wr -> (w_pc wr = POpen \/ w_pc wr = PClosed) ->
  step s (ECrash w) = Some (set_w s w (with_pc wr PDead)).
Proof. intros s w wr G [P|P]; cbn; rewrite G, P; reflexivity. Qed.

Ltac t_crash t side :=
  erewrite exec_cons; [|eapply st_crash; [cbn [set_w s_w]; gpe; reflexivity|side; reflexivity]];
  eexists; split; [reflexivity|]; right; exists t, PDead;
  cbn [set_w s_w s_dir with_pc w_url w_content w_tmp w_ino w_inplace]; gpe;
  split; [reflexivity|]; split; [right; reflexivity|]; split; [discriminate|];
  intros N; rewrite (get_put_neq String.eqb Seqb_spec) by congruence; reflexivity.
Ltac t_fail t side :=
  erewrite exec_cons; [|eapply st_fail; [cbn [set_w s_w]; gpe; reflexivity|reflexivity|side; reflexivity]];
  eexists; split; [reflexivity|]; right; exists t, PFailed;
  cbn [set_w s_w s_dir with_pc w_url w_content w_tmp w_ino w_inplace]; gpe;
  split; [reflexivity|]; split; [left; reflexivity|]; split;
  [intros _; rewrite (get_del_eq String.eqb); reflexivity
  |intros N; rewrite (get_del_neq String.eqb Seqb_spec) by congruence;
   rewrite (get_put_neq String.eqb Seqb_spec) by congruence; reflexivity].

(* what the end of a run looks like in the model *)
Definition end_state (s s' : state) (wid : N) (u : string) (c : data) (ok : bool) : Prop :=
  if ok then
    (* stored: the key denotes the writer's inode with the complete content; no temporary name is left *)
    exists t, getN wid (s_w s') = Some (mk_w u c t wid PDone false) /\
              getS (key sha u) (s_dir s') = Some wid /\ getN wid (s_ino s') = Some c /\
              (t <> key sha u -> getS t (s_dir s') = None)
  else
    (* nothing happened at all, or the writer has failed and its temporary name is gone, or the Remove of
       the clean-up failed too and the writer is dead (the model's crash); the key is untouched *)
    s' = s \/
    exists t pc, getN wid (s_w s') = Some (mk_w u c t wid pc false) /\ (pc = PFailed \/ pc = PDead) /\
                 (pc = PFailed -> getS t (s_dir s') = None) /\
                 (t <> key sha u -> getS (key sha u) (s_dir s') = getS (key sha u) (s_dir s)).

Theorem writer_runs_model : forall (B : behaviour F) dir path content wid u s,
  (* the writer id is unused *)
  getN wid (s_w s) = None -> getN wid (s_ino s) = None ->
  (* os.CreateTemp (asked, first of all calls, for [dir] and the generated pattern): a successful creation
     returns a NEW name of the temporary form (O_EXCL; os.prefixAndSuffix, see C14_gen_created_name_is_temp) *)
  (forall f, b_create F B [] dir gen_temp_file_pattern = (f, None) ->
      is_temp (nm (name f)) = true /\ getS (nm (name f)) (s_dir s) = None) ->
  (* the destination is the key of the URL *)
  nm path = key sha u ->
  let r := run_logged F name B dir path content in
  exists s', exec s (events F name wid u (data_of_bytes content) nm false (fst r)) = Some s' /\
             end_state s s' wid u (data_of_bytes content) (snd r).
Proof.
  intros B dir path content wid u s Gw Gi HC0 HP r.
  pose proof (writer_steps F name B dir path content) as R. fold r in R.
  set (c := data_of_bytes content) in *.
  (* the first call of the run is the creation, answered by the behaviour on the empty history *)
  assert (forall f r0 l, fst r = CCreate dir gen_temp_file_pattern (f, r0) :: l ->
            b_create F B [] dir gen_temp_file_pattern = (f, r0)) as First.
  { intros f r0 l E. unfold r, run_logged, writer_prog in E. cbn [l_create fst snd app] in E.
    destruct (b_create F B [] dir gen_temp_file_pattern) as [f1 [e1|]] eqn:E1; cbn [fst snd] in E.
    - inversion E. reflexivity.
    - cbn [l_write fst snd app cleanup l_close l_remove l_rename] in E.
      destruct (snd (b_write F B _ f1 content)); cbn [fst snd app l_close l_remove l_rename cleanup] in E;
        [inversion E; reflexivity|].
      destruct (b_close F B _ f1); cbn [fst snd app l_close l_remove l_rename cleanup] in E;
        [inversion E; reflexivity|].
      destruct (b_rename F B _ (name f1) path); cbn [fst snd app l_close l_remove l_rename cleanup] in E;
        inversion E; reflexivity. }
  assert (forall (l1 : data) (k : nat), k = List.length l1 -> firstn k l1 = l1) as FN.
  { intros l1 k E. rewrite E. apply firstn_all. }
  destruct (fst r) as [|c0 l] eqn:EL; destruct (snd r) eqn:EO; inversion R; subst.
  - (* stored *)
    destruct (HC0 f (First _ _ _ eq_refl)) as [T Fr]. set (t := nm (name f)) in *.
    cbn [events].
    rewrite (exec_cons sha _ _ _ _ (st_create sha _ _ u c _ Gw Fr Gi T)).
    erewrite exec_cons; [|eapply (st_write sha _ wid u c t wid false []); cbn [s_w s_ino]; gpe; reflexivity].
    cbn [app skipn List.length]. rewrite (FN c (List.length content)) by (symmetry; apply data_of_bytes_length).
    erewrite exec_cons; [|eapply (st_close sha _ wid u c t wid); cbn [s_w s_ino]; gpe; reflexivity].
    erewrite exec_cons; [|eapply (st_rename sha _ wid u c t wid wid); cbn [set_w s_w s_dir]; gpe; reflexivity].
    eexists. split; [reflexivity|]. exists t. cbn [set_w s_w s_dir s_ino].
    gpe. split; [reflexivity|]. split; [reflexivity|]. split; [reflexivity|].
    intros N. rewrite (get_put_neq String.eqb Seqb_spec) by congruence. apply (get_del_eq String.eqb).
  - (* create failed *)
    exists s. split; [reflexivity|]. left. reflexivity.
  - (* write failed *)
    destruct (HC0 f (First _ _ _ eq_refl)) as [T Fr]. set (t := nm (name f)) in *.
    destruct rc as [erc|]; destruct rr as [er|]; cbn [events];
      rewrite (exec_cons sha _ _ _ _ (st_create sha _ _ u c _ Gw Fr Gi T));
      (erewrite exec_cons; [|eapply (st_write sha _ wid u c t wid false []); cbn [s_w s_ino]; gpe; reflexivity]);
      [t_crash t ltac:(left)|t_fail t ltac:(left)|t_crash t ltac:(left)|t_fail t ltac:(left)].
  - (* close failed *)
    destruct (HC0 f (First _ _ _ eq_refl)) as [T Fr]. set (t := nm (name f)) in *.
    destruct rc as [erc|]; destruct rr as [er|]; cbn [events];
      rewrite (exec_cons sha _ _ _ _ (st_create sha _ _ u c _ Gw Fr Gi T));
      (erewrite exec_cons; [|eapply (st_write sha _ wid u c t wid false []); cbn [s_w s_ino]; gpe; reflexivity]);
      [t_crash t ltac:(left)|t_fail t ltac:(left)|t_crash t ltac:(left)|t_fail t ltac:(left)].
  - (* rename failed *)
    destruct (HC0 f (First _ _ _ eq_refl)) as [T Fr]. set (t := nm (name f)) in *.
    destruct rc as [erc|]; destruct rr as [er|]; cbn [events];
      rewrite (exec_cons sha _ _ _ _ (st_create sha _ _ u c _ Gw Fr Gi T));
      (erewrite exec_cons; [|eapply (st_write sha _ wid u c t wid false []); cbn [s_w s_ino]; gpe; reflexivity]);
      cbn [app skipn List.length]; rewrite (FN c (List.length content)) by (symmetry; apply data_of_bytes_length);
      (erewrite exec_cons; [|eapply (st_close sha _ wid u c t wid); cbn [s_w s_ino]; gpe; reflexivity]);
      [t_crash t ltac:(right)|t_fail t ltac:(right)|t_crash t ltac:(right)|t_fail t ltac:(right)].
Qed.

End RunsModel.
