(* C16_Model.v — model of the plugin manager's use of a plugin name
   (plugin/manager.go, plugin/manager_unix.go, plugin/plugin.go NewCLIPlugin /
   GetMetadata, dir/fs.go SysPath, internal/file CopyToDir / CopyDirToDir, and the
   fragment of verifier.processSignature that hands the signature's
   verificationPlugin attribute to pluginManager.Get), over an explicit file
   system (a finite map from clean rooted paths to nodes) and with an explicit
   effect log: every stat, readdir, chmod, exec, RemoveAll, MkdirAll and file
   write the code performs is recorded with the path it is performed on.
   Definitions only.

   Mirrors (statement by statement):
     validatePluginName, CLIManager.Get, CLIManager.Uninstall, CLIManager.Install,
     parsePluginFromDir, parsePluginName, isExecutableFile, setExecutable,
     NewCLIPlugin, CLIPlugin.GetMetadata (its outcome class), file.CopyToDir,
     file.CopyDirToDir, CLIManager.List, extractCriticalStringExtendedAttribute,
     getVerificationPlugin (strings.TrimSpace on UTF-8), the part of
     processSignature before and including pluginManager.Get (verify_plan).
   Inputs (oracle facts, not modelled): what a plugin executable prints when it
   is run (node field [m]); comparison of the two plugin versions (versions are
   1.0.<v>, compared through [v]); the kernel's path resolution (ENOENT /
   ENOTDIR / ENAMETOOLONG as in [walk]). *)
From NV Require Import Base C16_Path.
Open Scope string_scope.

Definition bslash : ascii := "\"%char.
Definition nul : ascii := Ascii.zero.
Definition bin_prefix : string := "notation-".

(* plugin.BinaryPrefix + name (manager_unix.go binName) *)
Definition bin_name (n : string) : string := bin_prefix ++ n.

(* validatePluginName: nil error iff true *)
Definition valid_name (n : string) : bool :=
  negb (String.eqb n "" || String.eqb n "." || String.eqb n ".."
        || (contains_byte slash n || contains_byte bslash n || contains_byte nul n)).

(* parsePluginName (unix): strings.CutPrefix(fileName, "notation-"), and the
   rest must pass validatePluginName (since /repo 30cc14e: a file named
   notation-. or notation-.. or notation-a\b is no plugin executable) *)
Definition parse_plugin_name (f : string) : option string :=
  match cut_prefix bin_prefix f with
  | Some n => if valid_name n then Some n else None
  | None => None
  end.

(* ---------- file system ---------- *)

(* a regular file carries its user-executable bit and what it prints when run
   as a plugin with get-plugin-metadata: None = not a metadata document,
   Some (name, v) = a valid metadata document with that name and version 1.0.v *)
Inductive node := NDir | NFile (x : bool) (m : option (string * N)).
Definition fs := list (string * node).

Fixpoint fs_lookup (p : string) (w : fs) : option node :=
  match w with
  | [] => None
  | (q, n) :: w' => if String.eqb p q then Some n else fs_lookup p w'
  end.

Definition fs_remove_all (p : string) (w : fs) : fs :=
  filter (fun e => negb (withinb p (fst e))) w.

Definition fs_set (p : string) (n : node) (w : fs) : fs :=
  (p, n) :: filter (fun e => negb (String.eqb (fst e) p)) w.

(* the directories on the way to a clean rooted path, top-down, ending with the
   path itself ("/" excluded) *)
Fixpoint prefixes_from (cur : string) (cs : list string) : list string :=
  match cs with
  | [] => []
  | c :: r => let n := child_path cur c in n :: prefixes_from n r
  end.
Definition prefixes (p : string) : list string := prefixes_from "/" (comps_of p).

(* os.MkdirAll: false = a component is a regular file (the directories above
   it have been created by then) *)
Fixpoint mkdirs (w : fs) (ps : list string) : bool * fs :=
  match ps with
  | [] => (true, w)
  | p :: r =>
      match fs_lookup p w with
      | Some NDir => mkdirs w r
      | Some (NFile _ _) => (false, w)
      | None => mkdirs ((p, NDir) :: w) r
      end
  end.
Definition mkdir_all (w : fs) (p : string) : bool * fs := mkdirs w (prefixes p).

(* os.Stat on a clean rooted path: the kernel walks the components *)
Inductive sres := SNotExist | SOtherErr | SOk (n : node).

Fixpoint walk (w : fs) (cur : string) (cs : list string) : sres :=
  match cs with
  | [] => SOk NDir
  | c :: r =>
      if (255 <? String.length c)%nat then SOtherErr            (* ENAMETOOLONG *)
      else
        let nxt := child_path cur c in
        match fs_lookup nxt w with
        | None => SNotExist                                      (* ENOENT *)
        | Some NDir => match r with [] => SOk NDir | _ => walk w nxt r end
        | Some f => match r with [] => SOk f | _ => SOtherErr end (* ENOTDIR *)
        end
  end.

Definition stat (w : fs) (p : string) : sres := walk w "/" (comps_of p).

(* ---------- effects, errors ---------- *)

Inductive eff :=
| EStat (p : string)
| EReadDir (p : string)
| EChmod (p : string)
| EExec (p : string) (ran : bool)    (* ran = the file had its executable bit *)
| ERemoveAll (p : string)
| EMkdirAll (p : string)
| EWrite (p : string).

Definition eff_path (e : eff) : string :=
  match e with
  | EStat p | EReadDir p | EChmod p | EExec p _ | ERemoveAll p | EMkdirAll p | EWrite p => p
  end.

(* error classes as the harness canonicalises them:
   EInvalid  = message contains "invalid plugin name"
   ENotExist = errors.Is(err, fs.ErrNotExist) (for Verify: message says so)
   EEmpty    = Verify only: the attribute is an empty/blank string
   EOther    = any other error *)
Inductive err := ENone | EInvalid | ENotExist | EEmpty | EOther.

Inductive mres := MNone | MOk (v : N) | MErr.

(* CLIPlugin.GetMetadata on file p for plugin name nm: outcome and whether a
   process ran *)
Definition run_meta (w : fs) (p nm : string) : mres * bool :=
  match fs_lookup p w with
  | Some (NFile true (Some (mn, v))) =>
      (if String.eqb mn "" then MErr else if String.eqb mn nm then MOk v else MErr, true)
  | Some (NFile true None) => (MErr, true)
  | _ => (MErr, false)
  end.

(* ---------- CLIManager.Get (with NewCLIPlugin) ---------- *)
Definition get (w : fs) (root name : string) : err * option string * list eff :=
  if negb (valid_name name) then (EInvalid, None, [])
  else
    let p := pjoin [root; pjoin [name; bin_name name]] in
    match stat w p with
    | SNotExist => (ENotExist, None, [EStat p])
    | SOtherErr => (EOther, None, [EStat p])
    | SOk NDir => (EOther, None, [EStat p])          (* ErrNotRegularFile *)
    | SOk (NFile _ _) => (ENone, Some p, [EStat p])
    end.

Record outcome := mk_out {
  r_err : err; r_meta : mres; r_fs : fs; r_log : list eff; r_strs : list string }.

(* Get followed, on success, by GetMetadata of the returned plugin *)
Definition get_meta (w : fs) (root name : string) : outcome :=
  match get w root name with
  | (ENone, Some p, l) =>
      let '(m, ran) := run_meta w p name in
      mk_out ENone m w (l ++ [EExec p ran]) []
  | (e, _, l) => mk_out e MNone w l []
  end.

(* ---------- CLIManager.Uninstall ---------- *)
Definition uninstall (w : fs) (root name : string) : err * fs * list eff :=
  if negb (valid_name name) then (EInvalid, w, [])
  else
    let p := pjoin [root; name] in
    match stat w p with
    | SNotExist => (ENotExist, w, [EStat p])
    | SOtherErr => (EOther, w, [EStat p])
    | SOk _ => (ENone, fs_remove_all p w, [EStat p; ERemoveAll p])
    end.

(* ---------- directory reading ---------- *)
Definition dir_prefix (d : string) : string := if String.eqb d "/" then "/" else d ++ "/".

Fixpoint insert_by_name (e : string * node) (l : list (string * node)) : list (string * node) :=
  match l with
  | [] => [e]
  | h :: t => if String.leb (fst e) (fst h) then e :: l else h :: insert_by_name e t
  end.
Definition sort_by_name (l : list (string * node)) : list (string * node) :=
  fold_right insert_by_name [] l.

(* os.ReadDir: the direct children of d (name, node), sorted by name *)
Definition children (w : fs) (d : string) : list (string * node) :=
  sort_by_name
    (flat_map (fun e =>
       match cut_prefix (dir_prefix d) (fst e) with
       | Some c => if negb (String.eqb c "") && no_slash c then [(c, snd e)] else []
       | None => []
       end) w).

(* ---------- parsePluginFromDir ---------- *)
Record scan := mk_scan {
  sc_found : bool; sc_file : string; sc_name : string;
  sc_cand : string; sc_files : list string; sc_log : list eff }.

Definition scan0 : scan := mk_scan false "" "" "" [] [].

(* the WalkDir callback for one entry of the source directory; None = the error
   "found more than one plugin executable files" *)
Definition scan_step (src : string) (st : option scan) (e : string * node) : option scan :=
  match st with
  | None => None
  | Some st =>
      match snd e with
      | NDir => Some st                                  (* fs.SkipDir *)
      | NFile x _ =>
          match parse_plugin_name (fst e) with
          | None => Some st
          | Some nm =>
              let p := child_path src (fst e) in
              let files := (sc_files st ++ [p])%list in
              let log := (sc_log st ++ [EStat p])%list in       (* isExecutableFile *)
              if negb x then
                Some (mk_scan (sc_found st) (sc_file st) (sc_name st) nm files log)
              else if sc_found st then None
              else Some (mk_scan true p nm nm files log)
          end
      end
  end.

(* result of parsePluginFromDir on a directory: error, or (file, name, fs) *)
Definition parse_dir (w : fs) (src : string) : option (string * string * fs) * list eff :=
  match fold_left (scan_step src) (children w src) (Some scan0) with
  | None => (None, [EReadDir src])
  | Some st =>
      let log := EReadDir src :: sc_log st in
      if sc_found st then (Some (sc_file st, sc_name st, w), log)
      else
        match sc_files st with
        | [cand] =>
            (* setExecutable(candidate) *)
            match fs_lookup cand w with
            | Some (NFile _ m) =>
                (Some (cand, sc_cand st, fs_set cand (NFile true m) w),
                 (log ++ [EStat cand; EChmod cand])%list)
            | _ => (None, (log ++ [EStat cand])%list)
            end
        | _ => (None, log)
        end
  end.

(* ---------- file.CopyToDir / CopyDirToDir ---------- *)
(* result: success, the file system reached, effects *)
Definition copy_to_dir (w : fs) (file dst : string) : bool * fs * list eff :=
  match stat w file with
  | SOk (NFile x m) =>
      match mkdir_all w dst with
      | (false, w1) => (false, w1, [EStat file; EMkdirAll dst])
      | (true, w1) =>
          let t := child_path dst (base_name file) in
          (true, fs_set t (NFile x m) w1, [EStat file; EMkdirAll dst; EWrite t])
      end
  | _ => (false, w, [EStat file])
  end.

Fixpoint copy_files (w : fs) (src : string) (es : list (string * node)) (dst : string)
  : bool * fs * list eff :=
  match es with
  | [] => (true, w, [])
  | (c, NDir) :: r => copy_files w src r dst                 (* fs.SkipDir *)
  | (c, NFile _ _) :: r =>
      match copy_to_dir w (child_path src c) dst with
      | (false, w1, l) => (false, w1, l)
      | (true, w1, l) => let '(o, w2, l2) := copy_files w1 src r dst in (o, w2, (l ++ l2)%list)
      end
  end.

Definition copy_dir_to_dir (w : fs) (src dst : string) : bool * fs * list eff :=
  let '(o, w1, l) := copy_files w src (children w src) dst in
  (o, w1, (EStat src :: EReadDir src :: l)).

(* ---------- CLIManager.Install ---------- *)
Definition is_not_exist (e : err) : bool := match e with ENotExist => true | _ => false end.

(* "check plugin existence and get existing plugin metadata" and the version
   rules: Some e = Install returns the error e here *)
Definition install_verdict (w : fs) (root name : string) (newv : N) (ow : bool)
  : option err * list eff :=
  let '(ge, gp, glog) := get w root name in
  match ge, gp with
  | ENone, Some p =>
      (* existingPlugin.GetMetadata *)
      let '(om, oran) := run_meta w p name in
      let l := (glog ++ [EExec p oran])%list in
      if ow then (None, l)
      else match om with
           | MOk oldv =>
               match (newv ?= oldv)%N with
               | Gt => (None, l)
               | _ => (Some EOther, l)        (* downgrade / equal version *)
               end
           | _ => (Some EOther, l)
           end
  | e, _ => if negb (is_not_exist e) && negb ow then (Some e, glog) else (None, glog)
  end.

(* "clean up before installation" and the copy *)
Definition install_finish (w : fs) (root name file src : string) (from_file : bool)
  : outcome :=
  let '(ue, w2, ulog) := uninstall w root name in
  match ue with
  | ENone | ENotExist =>
      let dst := pjoin [root; name] in
      let '(o, w3, clog) :=
        if from_file then copy_to_dir w2 file dst else copy_dir_to_dir w2 src dst in
      mk_out (if o then ENone else EOther) MNone w3 (ulog ++ clog) []
  | e => mk_out e MNone w2 ulog []
  end.

(* from "validate and get new plugin metadata" on; [log] is what happened before *)
Definition install_core (w : fs) (root name file src : string) (from_file ow : bool)
           (log : list eff) : outcome :=
  (* NewCLIPlugin(ctx, pluginName, pluginExecutableFile): stat; newPlugin.GetMetadata *)
  let '(nm, ran) := run_meta w file name in
  let log := (log ++ [EStat file; EExec file ran])%list in
  match nm with
  | MOk newv =>
      let '(v, vlog) := install_verdict w root name newv ow in
      match v with
      | Some e => mk_out e MNone w (log ++ vlog) []
      | None =>
          let r := install_finish w root name file src from_file in
          mk_out (r_err r) MNone (r_fs r) (log ++ vlog ++ r_log r) []
      end
  | _ => mk_out EOther MNone w log []
  end.

Definition install (w : fs) (root src : string) (ow : bool) : outcome :=
  if String.eqb src "" then mk_out EOther MNone w [] []
  else
    (* parsePluginFromDir: os.Stat(path) *)
    match stat w src with
    | SNotExist => mk_out ENotExist MNone w [EStat src] []
    | SOtherErr => mk_out EOther MNone w [EStat src] []
    | SOk NDir =>
        match parse_dir w src with
        | (None, l) => mk_out EOther MNone w (EStat src :: l) []
        | (Some (file, name, w1), l) =>
            install_core w1 root name file src false ow (EStat src :: l)
        end
    | SOk (NFile x _) =>
        match parse_plugin_name (base_name src) with
        | None => mk_out EOther MNone w [EStat src] []
        | Some name =>
            (* isExecutableFile(pluginExecutableFile) *)
            if negb x then mk_out EOther MNone w [EStat src; EStat src] []
            else install_core w root name src src true ow [EStat src; EStat src]
        end
    end.

(* ---------- CLIManager.List ---------- *)
Inductive ekind := KDir | KFile | KLinkDir | KLinkFile | KLinkDangling | KOther.

Definition is_kdir (k : ekind) : bool := match k with KDir => true | _ => false end.

(* entries of the root in fs.WalkDir (= ReadDir) order *)
Definition list_plugins (root_exists : bool) (es : list (string * ekind)) : list string :=
  if root_exists then map fst (filter (fun e => is_kdir (snd e)) es) else [].

(* ---------- verifier: the signature-supplied name ---------- *)
(* strings.TrimSpace(s) == "": every rune of s is white space (unicode.IsSpace):
   the ASCII ones, and in UTF-8 U+0085, U+00A0 (C2 85, C2 A0), U+1680 (E1 9A 80),
   U+2000..U+200A, U+2028, U+2029, U+202F (E2 80 80..8A, A8, A9, AF),
   U+205F (E2 81 9F), U+3000 (E3 80 80); a byte that starts no such encoding is
   a rune (or an encoding error) that is not white space *)
Definition is_space (a : ascii) : bool :=
  let n := N_of_ascii a in ((9 <=? n) && (n <=? 13) || (n =? 32))%N.
Definition is_space2 (a b : ascii) : bool :=
  let x := N_of_ascii a in let y := N_of_ascii b in
  ((x =? 194) && ((y =? 133) || (y =? 160)))%N.
Definition is_space3 (a b c : ascii) : bool :=
  let x := N_of_ascii a in let y := N_of_ascii b in let z := N_of_ascii c in
  (((x =? 225) && (y =? 154) && (z =? 128))
   || ((x =? 226) && (y =? 128)
       && (((128 <=? z) && (z <=? 138)) || (z =? 168) || (z =? 169) || (z =? 175)))
   || ((x =? 226) && (y =? 129) && (z =? 159))
   || ((x =? 227) && (y =? 128) && (z =? 128)))%N.
Fixpoint all_space (s : string) : bool :=
  match s with
  | EmptyString => true
  | String a s1 =>
      if is_space a then all_space s1
      else match s1 with
           | String b s2 =>
               if is_space2 a b then all_space s2
               else match s2 with
                    | String c s3 => if is_space3 a b c then all_space s3 else false
                    | EmptyString => false
                    end
           | EmptyString => false
           end
  end.

(* calls made on the plugin manager *)
Inductive mcall := CGet (name : string).

(* getVerificationPlugin + the lookup in processSignature: the manager calls
   made with the attribute value, and the manager's behaviour on them *)
Definition verify_calls (name : string) : list mcall :=
  if all_space name then [] else [CGet name].

Definition verify_lookup (w : fs) (root name : string) : outcome :=
  match verify_calls name with
  | [] => mk_out EEmpty MNone w [] []
  | _ => let r := get_meta w root name in mk_out (r_err r) MNone (r_fs r) (r_log r) []
  end.

(* the same fragment with everything it consults before the manager is called:
   the attribute as extractCriticalStringExtendedAttribute classifies it, whether
   getVerificationPluginMinVersion fails on a present attribute, whether the
   verifier has a plugin manager. Whether the signing certificate is trusted is
   NOT consulted (authenticity is evaluated later). *)
Inductive vattr :=
| VAbsent                         (* errExtendedAttributeNotExist: no plugin *)
| VNotCritical (s : string)       (* present, not marked critical *)
| VNotString                      (* present, critical, value not a string *)
| VStr (s : string).              (* present, critical, a string *)

Definition verify_plan (a : vattr) (minv_bad has_pm : bool) : err * list mcall :=
  match a with
  | VAbsent => (ENone, [])
  | VNotCritical _ => (EOther, [])
  | VNotString => (EOther, [])
  | VStr s =>
      if all_space s then (EEmpty, [])
      else if minv_bad then (EOther, [])
      else if negb has_pm then (EOther, [])
      else (ENone, [CGet s])
  end.

Definition verify_x (w : fs) (root : string) (a : vattr) (minv_bad has_pm : bool) : outcome :=
  match verify_plan a minv_bad has_pm with
  | (_, CGet s :: _) =>
      let r := get_meta w root s in mk_out (r_err r) MNone (r_fs r) (r_log r) []
  | (e, []) => mk_out e MNone w [] []
  end.

(* ---------- operations, inputs, observations ---------- *)
Inductive op :=
| OGet (name : string)
| OUninstall (name : string)
| OVerify (name : string)
| OVerifyAbsent                      (* a signature without the verificationPlugin attribute *)
| OVerifyX (a : vattr) (minv_bad has_pm trusted : bool)
    (* end-to-end verification with the attribute in any shape; trusted = the
       signing certificate chains to the policy's trust store *)
| OInstall (src : string) (overwrite : bool)
| OList (root_exists : bool) (entries : list (string * ekind))
| OPath (name : string).

Record input := mk_input {
  i_world : fs;        (* a world template *)
  i_extra : fs;        (* entries added for this case (install sources, planted files) *)
  i_root : string;     (* the plugin root as given to dir.NewSysFS *)
  i_op : op }.

Definition world (i : input) : fs := (i_extra i ++ i_world i)%list.

Definition exec_op (i : input) : outcome :=
  let w := world i in
  let root := i_root i in
  match i_op i with
  | OGet name => get_meta w root name
  | OUninstall name =>
      let '(e, w', l) := uninstall w root name in mk_out e MNone w' l []
  | OVerify name => verify_lookup w root name
  | OVerifyAbsent => mk_out ENone MNone w [] []       (* no plugin: the manager is not called *)
  | OVerifyX a mb pm _ => verify_x w root a mb pm
  | OInstall src ow => install w root src ow
  | OList ex es => mk_out ENone MNone w [] (list_plugins ex es)
  | OPath name =>
      mk_out ENone MNone w [] [pjoin [root; name]; pjoin [root; pjoin [name; bin_name name]]]
  end.

(* --- what the harness can observe --- *)
Record obs := mk_obs {
  o_err : err;
  o_meta : mres;
  o_exec : list string;               (* processes that ran: their argv[0], in order *)
  o_removed : list string;            (* paths present before and absent after *)
  o_written : list (string * node);   (* paths created or changed, with the new node *)
  o_strs : list string }.             (* OList: the listing; OPath: the two joined paths *)

Definition node_eqb (a b : node) : bool :=
  match a, b with
  | NDir, NDir => true
  | NFile x m, NFile y k =>
      Bool.eqb x y
      && opt_eqb (fun p q => String.eqb (fst p) (fst q) && (snd p =? snd q)%N) m k
  | _, _ => false
  end.

Definition ran_paths (l : list eff) : list string :=
  flat_map (fun e => match e with EExec p true => [p] | _ => [] end) l.

Definition is_none {A} (o : option A) : bool := match o with None => true | _ => false end.

Definition removed (w w' : fs) : list string :=
  map fst (filter (fun e => is_none (fs_lookup (fst e) w')) w).

Definition written (w w' : fs) : list (string * node) :=
  filter (fun e => opt_eqb node_eqb (fs_lookup (fst e) w') (Some (snd e))
                   && negb (opt_eqb node_eqb (fs_lookup (fst e) w) (Some (snd e)))) w'.

(* effects that change the file system *)
Definition mutating (e : eff) : bool :=
  match e with ERemoveAll _ | EMkdirAll _ | EWrite _ | EChmod _ => true | _ => false end.

(* The before/after difference is only computed when the log contains a
   mutating effect; without one the file system is unchanged and the difference
   is empty (lemma [model_diff_exact] in C16_Proofs: the two lists always equal
   [removed]/[written] of the initial and final file system). *)
Definition model (i : input) : obs :=
  let r := exec_op i in
  let mut := existsb mutating (r_log r) in
  mk_obs (r_err r) (r_meta r) (ran_paths (r_log r))
         (if mut then removed (world i) (r_fs r) else [])
         (if mut then written (world i) (r_fs r) else [])
         (r_strs r).

(* ---------- boolean equalities ---------- *)
Definition err_eqb (a b : err) : bool :=
  match a, b with
  | ENone, ENone | EInvalid, EInvalid | ENotExist, ENotExist | EEmpty, EEmpty | EOther, EOther => true
  | _, _ => false
  end.

Definition mres_eqb (a b : mres) : bool :=
  match a, b with
  | MNone, MNone | MErr, MErr => true
  | MOk v, MOk u => (v =? u)%N
  | _, _ => false
  end.

Definition subset {A} (eqb : A -> A -> bool) (a b : list A) : bool :=
  forallb (fun x => existsb (eqb x) b) a.
Definition set_eqb {A} (eqb : A -> A -> bool) (a b : list A) : bool :=
  subset eqb a b && subset eqb b a.

Definition entry_eqb (a b : string * node) : bool :=
  String.eqb (fst a) (fst b) && node_eqb (snd a) (snd b).

Definition obs_eqb (a b : obs) : bool :=
  err_eqb (o_err a) (o_err b) && mres_eqb (o_meta a) (o_meta b)
  && list_eqb String.eqb (o_exec a) (o_exec b)
  && set_eqb String.eqb (o_removed a) (o_removed b)
  && set_eqb entry_eqb (o_written a) (o_written b)
  && list_eqb String.eqb (o_strs a) (o_strs b).

(* ---------- the property oracle (on observations only) ---------- *)

(* the only directory a plugin name may designate *)
Definition allowed (root name : string) : string := child_path (clean root) name.

(* a name the property admits: a single path component (and no NUL) *)
Definition safe_name (n : string) : bool := single_componentb n && negb (contains_byte nul n).

Definition is_dir_node (n : node) : bool := match n with NDir => true | _ => false end.

(* every observed execution, removal and write lies in [a] (or in the install
   source [src]); the only other change tolerated is the creation of missing
   ancestor directories of [a] (MkdirAll) *)
Definition insideb (a src : option string) (p : string) : bool :=
  match a with Some a => withinb a p | None => false end
  || match src with Some s => withinb s p | None => false end.

Definition contained (i : input) (o : obs) (a : option string) (src : option string) : bool :=
  let inside := insideb a src in
  forallb inside (o_exec o)
  && forallb inside (o_removed o)
  && forallb (fun e =>
       inside (fst e)
       || match a with
          | Some a => is_dir_node (snd e) && is_none (fs_lookup (fst e) (world i))
                      && mem_str (fst e) (prefixes a)
          | None => false
          end) (o_written o).

Definition no_effects (o : obs) : bool :=
  match o_exec o, o_removed o, o_written o with [], [], [] => true | _, _, _ => false end.

Definition rejected (e : err) : bool := match e with EInvalid | EEmpty => true | _ => false end.

(* Get / Uninstall / Verify with a caller-supplied name *)
Definition name_ok (i : input) (o : obs) (is_verify is_uninstall : bool) (name : string) : bool :=
  match o_err o with
  | EInvalid => no_effects o
  | EEmpty => is_verify && all_space name && no_effects o
  | _ =>
      safe_name name
      && contained i o (Some (allowed (i_root i) name)) None
      && match o_written o with [] => true | _ => false end
      && (if is_uninstall then match o_exec o with [] => true | _ => false end
          else match o_removed o with [] => true | _ => false end)
      (* the only file a lookup may execute is <root>/<name>/notation-<name>
         (an install source is executed only by the Install that names it) *)
      && forallb (String.eqb (child_path (allowed (i_root i) name) (bin_name name))) (o_exec o)
  end.

(* the names an install source can stand for: notation-<name> file names *)
Definition candidates (w : fs) (src : string) : list string :=
  match stat w src with
  | SOk NDir =>
      flat_map (fun e => match snd e, parse_plugin_name (fst e) with
                         | NFile _ _, Some n => [n] | _, _ => [] end) (children w src)
  | SOk (NFile _ _) =>
      match parse_plugin_name (base_name src) with Some n => [n] | None => [] end
  | _ => []
  end.

(* what follows "notation-" in the names of the regular files an install
   source offers, whether or not it is acceptable as a plugin name *)
Definition raw_name (f : string) : list string :=
  match cut_prefix bin_prefix f with Some n => [n] | None => [] end.
Definition raw_names (w : fs) (src : string) : list string :=
  match stat w src with
  | SOk NDir =>
      flat_map (fun e => match snd e with NFile _ _ => raw_name (fst e) | NDir => [] end)
               (children w src)
  | SOk (NFile _ _) => raw_name (base_name src)
  | _ => []
  end.

(* a source that offers an acceptable name *)
Definition install_ok_some (i : input) (o : obs) (src : string) : bool :=
  let only_src := contained i o None (Some src) in
  match o_err o with
  | ENone =>
      existsb (fun n => safe_name n
                        && contained i o (Some (allowed (i_root i) n)) (Some src))
              (candidates (world i) src)
  | EInvalid => only_src
  | _ =>
      only_src
      || existsb (fun n => safe_name n
                           && contained i o (Some (allowed (i_root i) n)) (Some src))
                 (candidates (world i) src)
  end.

(* a source that offers no acceptable name: Install fails, no process runs,
   nothing is changed *)
Definition install_ok (i : input) (o : obs) (src : string) : bool :=
  match candidates (world i) src with
  | [] => no_effects o && negb (err_eqb (o_err o) ENone)
  | _ => install_ok_some i o src
  end.

Definition spec_ok (i : input) (o : obs) : bool :=
  match i_op i with
  | OGet name => name_ok i o false false name
  | OUninstall name => name_ok i o false true name
  | OVerify name => name_ok i o true false name
  | OVerifyAbsent => no_effects o && err_eqb (o_err o) ENone
  | OVerifyX a mb pm _ =>
      match a with
      | VStr s =>
          if mb || negb pm
          then no_effects o && negb (err_eqb (o_err o) ENone)
          else name_ok i o true false s
      | VAbsent => no_effects o && err_eqb (o_err o) ENone
      | _ => no_effects o && negb (err_eqb (o_err o) ENone)
      end
  | OInstall src _ => install_ok i o src
  | OList ex es =>
      no_effects o
      && list_eqb String.eqb (o_strs o)
           (if ex then map fst (filter (fun e => is_kdir (snd e)) es) else [])
  | OPath name =>
      no_effects o
      && match o_strs o with
         | [d; _] => if single_componentb name && is_abs (i_root i)
                     then String.eqb d (allowed (i_root i) name) else true
         | _ => false
         end
  end.

(* ---------- input contract ---------- *)
(* the plugin root is a rooted path (dir.PluginFS is built from the user's
   libexec directory); an install source is given as a clean rooted path *)
Definition wf (i : input) : bool :=
  is_abs (i_root i)
  && match i_op i with
     | OInstall src _ => is_abs src && String.eqb (clean src) src && negb (String.eqb src "/")
     | _ => true
     end.

(* ---------- cases ---------- *)
Record case := mk_case { c_id : N; c_in : input; c_obs : obs }.

Definition run (cs : list case) : list (N * N * N) :=
  run_cases c_id
    (fun c => obs_eqb (model (c_in c)) (c_obs c))
    (fun c => negb (wf (c_in c)) || spec_ok (c_in c) (c_obs c))
    (fun _ => 0%N) cs.
