(* C07_MultiProofs.v — proofs about C07_Multi (several signatures on one
   artifact, one notation.Verify). *)
From NV Require Import Base Generated C07_Model C07_Proofs C07_Multi.
From Coq Require Import Lia Permutation.
Open Scope string_scope.
Open Scope list_scope.

Definition idc : descr -> descr := fun d => d.

(* ---------- one signature ---------- *)

Lemma csign_closed : forall i kn a hn an,
  wf i = true -> spec_row (i_ks i) spec_table = Some (kn, a, hn, an) ->
  csign i = mk_sres descr 0 (exp_shash i an) (exp_plugsig i kn hn) (exp_plugenv i) (Some (exp_env descr idc i a an)).
Proof.
  intros i kn a hn an H Hrow. unfold csign.
  apply (sign_closed descr (fun d => d) dec_descr (fun _ => ["targetArtifact"]) present_keys c_recode);
    auto using concrete_rt.
Qed.

Lemma signed_of_eq : forall mi s an, expected_signed (step_input mi s) an = signed_of mi s.
Proof. reflexivity. Qed.

Lemma expired_exp_env : forall mi s a an,
  expired (mi_vnow mi) (exp_env descr idc (step_input mi s) a an) = step_expired mi s.
Proof.
  intros mi s a an. unfold expired, exp_env, exp_expiry, step_expired. cbn [e_expiry step_input i_dur i_now].
  destruct (ms_dur s =? 0)%Z; reflexivity.
Qed.

Lemma positive_step : forall mi s an,
  positive (step_input mi s) (signed_of mi s) an
  = ms_trusted s && submap (mi_vmeta mi) (d_anns (signed_of mi s)) && content_equal (signed_of mi s) (mi_vdesc mi).
Proof. reflexivity. Qed.

Definition good_vres (mi : minput) (s : mstep) : vres :=
  mk_vres 0 None (Some (mi_vdesc mi)) (Some (d_anns (signed_of mi s))).

(* verifier.Verify on the envelope a well-formed step produced *)
Lemma verify_one_spec : forall mi s kn a hn an,
  wf (step_input mi s) = true -> spec_row (ms_ks s) spec_table = Some (kn, a, hn, an) ->
  let v := verify_one mi s (exp_env descr idc (step_input mi s) a an) in
  if satisfies mi s then v = good_vres mi s
  else v_code v <> 0%N /\ v_ret v = None /\ v_meta v = None.
Proof.
  intros mi s kn a hn an Hwf Hrow v.
  pose proof (model_verify true (step_input mi s) kn a hn an Hwf Hrow) as V. cbv zeta in V.
  rewrite signed_of_eq, positive_step in V.
  subst v. unfold verify_one, satisfies. rewrite expired_exp_env.
  destruct (ms_trusted s) eqn:Ht; cbn [negb andb].
  2:{ repeat split; discriminate. }
  destruct (step_expired mi s) eqn:He; cbn [negb andb].
  { repeat split; discriminate. }
  change (verify descr dec_descr true (step_input mi s) (exp_env descr (fun d => d) (step_input mi s) a an))
    with (verify_oci descr dec_descr (step_input mi s) (exp_env descr idc (step_input mi s) a an) (mi_vdesc mi)) in V.
  cbn [andb] in V.
  destruct (content_equal (signed_of mi s) (mi_vdesc mi)); destruct (submap (mi_vmeta mi) (d_anns (signed_of mi s)));
    cbn [andb] in *; try exact V.
Qed.

(* ---------- the contract ---------- *)

Record mwf_facts (mi : minput) : Prop := mk_mwf {
  mw_steps : forall s, In s (mi_steps mi) -> wf (step_input mi s) = true;
  mw_range : forall k, In k (mi_order mi) -> exists s, nth_error (mi_steps mi) (N.to_nat k) = Some s;
  mw_nodup : nodup_N (mi_order mi) = true;
  mw_max : (0 < mi_max mi)%Z }.

Lemma mwf_elim : forall mi, mwf mi = true -> mwf_facts mi.
Proof.
  intros mi H. unfold mwf in H.
  apply andb_split in H. destruct H as [H H4].
  apply andb_split in H. destruct H as [H H3].
  apply andb_split in H. destruct H as [H1 H2].
  constructor.
  - intros s Hin. rewrite forallb_forall in H1. apply H1. exact Hin.
  - intros k Hin. rewrite forallb_forall in H2. specialize (H2 k Hin). apply N.ltb_lt in H2.
    destruct (nth_error (mi_steps mi) (N.to_nat k)) as [s|] eqn:E; [eauto|].
    apply nth_error_None in E. lia.
  - exact H3.
  - apply Z.ltb_lt. exact H4.
Qed.

Lemma step_row : forall mi s, wf (step_input mi s) = true ->
  exists kn a hn an, spec_row (ms_ks s) spec_table = Some (kn, a, hn, an).
Proof. intros mi s H. exact (wf_row (step_input mi s) H). Qed.

(* a listed, well-formed step is stored with the envelope of the closed form *)
Lemma stored_wf : forall mi k s,
  nth_error (mi_steps mi) (N.to_nat k) = Some s -> wf (step_input mi s) = true ->
  exists kn a hn an, spec_row (ms_ks s) spec_table = Some (kn, a, hn, an) /\
    stored mi k = Some (s, exp_env descr idc (step_input mi s) a an).
Proof.
  intros mi k s Hn Hwf. destruct (step_row mi s Hwf) as (kn & a & hn & an & Hrow).
  exists kn, a, hn, an. split; [exact Hrow|].
  unfold stored. rewrite Hn. rewrite (csign_closed _ kn a hn an Hwf Hrow). reflexivity.
Qed.

Lemma step_sat_nth : forall mi k s, nth_error (mi_steps mi) (N.to_nat k) = Some s -> step_sat mi k = satisfies mi s.
Proof. intros mi k s H. unfold step_sat. rewrite H. reflexivity. Qed.

(* ---------- the loop ---------- *)

Definition codes_of (mi : minput) (l : list N) : list (N * N) :=
  map (fun k => (k, match stored mi k with Some (s, e) => v_code (verify_one mi s e) | None => 0%N end)) l.

Lemma app_assoc3 {A} : forall (a b : list A) (x : A) (c : list A), (a ++ [x]) ++ b ++ c = a ++ (x :: b) ++ c.
Proof. intros. rewrite <- app_assoc. reflexivity. Qed.

(* closed form of the loop over a list of listed, well-formed signatures *)
Lemma vloop_spec : forall mi l st,
  (forall s, In s (mi_steps mi) -> wf (step_input mi s) = true) ->
  (forall k, In k l -> exists s, nth_error (mi_steps mi) (N.to_nat k) = Some s) ->
  l_won st = None -> (0 <= l_processed st)%Z ->
  let n := Z.to_nat (mi_max mi - l_processed st) in
  let r := vloop mi l st in
  (forall pre k post s,
     firstn n l = pre ++ k :: post -> (forall j, In j pre -> step_sat mi j = false) ->
     nth_error (mi_steps mi) (N.to_nat k) = Some s -> satisfies mi s = true ->
     l_won r = Some (k, good_vres mi s) /\ l_fetched r = l_fetched st ++ pre ++ [k] /\
     l_tried r = l_tried st ++ codes_of mi pre ++ [(k, 0%N)] /\
     l_processed r = (l_processed st + Z.of_nat (List.length pre) + 1)%Z) /\
  ((forall j, In j (firstn n l) -> step_sat mi j = false) ->
     l_won r = None /\ l_fetched r = l_fetched st ++ firstn n l /\
     l_tried r = l_tried st ++ codes_of mi (firstn n l) /\
     l_processed r = (l_processed st + Z.of_nat (List.length (firstn n l)))%Z).
Proof.
  intros mi l. induction l as [|k0 l IH]; intros st Hsteps Hrange Hwon Hp n r.
  - subst r n. cbn [vloop]. rewrite firstn_nil. split.
    + intros pre k post s E. destruct pre; discriminate.
    + intros _. cbn [codes_of map List.length]. rewrite !app_nil_r. repeat split; [exact Hwon|lia].
  - subst r. cbn [vloop].
    destruct (mi_max mi <=? l_processed st)%Z eqn:Hm.
    + apply Z.leb_le in Hm. assert (n = 0%nat) by (subst n; lia). rewrite H. cbn [firstn]. split.
      * intros pre k post s E. destruct pre; discriminate.
      * intros _. cbn [codes_of map List.length]. rewrite !app_nil_r. repeat split; [exact Hwon|lia].
    + apply Z.leb_gt in Hm.
      assert (Hn : n = S (Z.to_nat (mi_max mi - (l_processed st + 1)))) by (subst n; lia).
      destruct (Hrange k0 (or_introl eq_refl)) as (s0 & Hn0).
      assert (Hwf0 : wf (step_input mi s0) = true) by (apply Hsteps; eapply nth_error_In; exact Hn0).
      destruct (stored_wf mi k0 s0 Hn0 Hwf0) as (kn & a & hn & an & Hrow & Hst).
      rewrite Hst.
      pose proof (verify_one_spec mi s0 kn a hn an Hwf0 Hrow) as V. cbv zeta in V.
      set (e0 := exp_env descr idc (step_input mi s0) a an) in *.
      rewrite Hn. cbn [firstn].
      destruct (satisfies mi s0) eqn:Hsat.
      * (* the first listed signature satisfies: stop *)
        rewrite V. cbn [good_vres v_code N.eqb l_won l_fetched l_tried l_processed]. split.
        -- intros pre k post s E Hpre Hnk Hs.
           destruct pre as [|j pre].
           ++ cbn [app] in E. inversion E; subst k. rewrite Hn0 in Hnk. inversion Hnk; subst s.
              cbn [codes_of map app List.length]. repeat split. lia.
           ++ cbn [app] in E. inversion E; subst j.
              specialize (Hpre k0 (or_introl eq_refl)). rewrite (step_sat_nth mi k0 s0 Hn0), Hsat in Hpre. discriminate.
        -- intros Hall. specialize (Hall k0 (or_introl eq_refl)).
           rewrite (step_sat_nth mi k0 s0 Hn0), Hsat in Hall. discriminate.
      * (* it fails: continue *)
        destruct V as (Vc & _).
        destruct (v_code (verify_one mi s0 e0) =? 0)%N eqn:Ec; [apply N.eqb_eq in Ec; contradiction|].
        set (st' := mk_lstate (l_processed st + 1) (l_fetched st ++ [k0])
                              (l_tried st ++ [(k0, v_code (verify_one mi s0 e0))]) None).
        assert (Hp' : (0 <= l_processed st')%Z) by (cbn; lia).
        specialize (IH st' Hsteps (fun k Hk => Hrange k (or_intror Hk)) eq_refl Hp').
        cbv zeta in IH. cbn [l_processed l_fetched l_tried st'] in IH.
        fold st'. destruct IH as [IH1 IH2].
        assert (Hc0 : codes_of mi [k0] = [(k0, v_code (verify_one mi s0 e0))]).
        { unfold codes_of. cbn [map]. rewrite Hst. reflexivity. }
        split.
        -- intros pre k post s E Hpre Hnk Hs.
           destruct pre as [|j pre].
           ++ cbn [app] in E. inversion E; subst k. rewrite Hn0 in Hnk. inversion Hnk; subst s. congruence.
           ++ cbn [app] in E. inversion E; subst j.
              destruct (IH1 pre k post s H1 (fun j Hj => Hpre j (or_intror Hj)) Hnk Hs) as (R1 & R2 & R3 & R4).
              rewrite R1, R2, R3, R4. repeat split.
              ** rewrite <- app_assoc. reflexivity.
              ** change (codes_of mi (k0 :: pre)) with (codes_of mi [k0] ++ codes_of mi pre).
                 rewrite Hc0, <- !app_assoc. reflexivity.
              ** cbn [List.length]. lia.
        -- intros Hall.
           destruct (IH2 (fun j Hj => Hall j (or_intror Hj))) as (R1 & R2 & R3 & R4).
           rewrite R1, R2, R3, R4. repeat split.
           ++ rewrite <- app_assoc. reflexivity.
           ++ change (codes_of mi (k0 :: firstn (Z.to_nat (mi_max mi - (l_processed st + 1))) l))
                with (codes_of mi [k0] ++ codes_of mi (firstn (Z.to_nat (mi_max mi - (l_processed st + 1))) l)).
              rewrite Hc0, <- !app_assoc. reflexivity.
           ++ cbn [List.length]. lia.
Qed.

(* ---------- notation.Verify ---------- *)

Lemma sign_codes_ok : forall mi, (forall s, In s (mi_steps mi) -> wf (step_input mi s) = true) ->
  sign_codes mi = map (fun _ => 0%N) (mi_steps mi).
Proof.
  intros mi H. unfold sign_codes. apply map_ext_in. intros s Hin.
  destruct (step_row mi s (H s Hin)) as (kn & a & hn & an & Hrow).
  rewrite (csign_closed _ kn a hn an (H s Hin) Hrow). reflexivity.
Qed.

Lemma max_pos_leb : forall mi, (0 < mi_max mi)%Z -> (mi_max mi <=? 0)%Z = false.
Proof. intros mi H. apply Z.leb_gt. exact H. Qed.

(* what the library signed several times, it verifies: the signature of the
   k-th call is listed within the attempt limit and nothing listed before it
   satisfies the request *)
Lemma multi_roundtrip : forall mi pre k post s,
  mwf mi = true ->
  firstn (Z.to_nat (mi_max mi)) (mi_order mi) = pre ++ k :: post ->
  (forall j, In j pre -> step_sat mi j = false) ->
  nth_error (mi_steps mi) (N.to_nat k) = Some s -> satisfies mi s = true ->
  let o := mmodel mi in
  mo_signs o = map (fun _ => 0%N) (mi_steps mi) /\
  mo_code o = 0%N /\ mo_winner o = Some k /\ mo_ret o = Some (mi_vdesc mi) /\
  mo_meta o = Some (d_anns (mi_desc mi) ++ ms_meta s) /\
  mo_fetched o = pre ++ [k] /\ mo_tried o = codes_of mi pre ++ [(k, 0%N)].
Proof.
  intros mi pre k post s Hwf E Hpre Hnk Hs o. destruct (mwf_elim mi Hwf) as [W1 W2 W3 W4].
  pose proof (vloop_spec mi (mi_order mi) lstate0 W1 W2 eq_refl (Z.le_refl 0)) as L. cbv zeta in L.
  cbn [lstate0 l_processed l_fetched l_tried] in L. rewrite Z.sub_0_r in L.
  destruct L as [L _]. destruct (L pre k post s E Hpre Hnk Hs) as (R1 & R2 & R3 & R4).
  subst o. unfold mmodel, mverify. rewrite (max_pos_leb mi W4), R1, R2, R3.
  cbn [mo_signs mo_code mo_winner mo_ret mo_meta mo_fetched mo_tried good_vres v_ret v_meta app].
  rewrite (sign_codes_ok mi W1). repeat split.
Qed.

Lemma find_split {A} (f : A -> bool) : forall l k, find f l = Some k ->
  exists pre post, l = pre ++ k :: post /\ (forall j, In j pre -> f j = false) /\ f k = true.
Proof.
  induction l as [|x l IH]; intros k H; [discriminate|]. cbn [find] in H.
  destruct (f x) eqn:E.
  - inversion H; subst. exists [], l. repeat split; [intros j []|exact E].
  - destruct (IH k H) as (pre & post & E1 & E2 & E3). exists (x :: pre), post. subst l. repeat split; [|exact E3].
    intros j [<-|Hj]; [exact E|apply E2; exact Hj].
Qed.

(* position-independent form: SOME listed signature within the limit satisfies
   the request -> Verify succeeds, returns the resolved descriptor, and the
   metadata read back is that of a signature that satisfies the request *)
Lemma multi_some_satisfies : forall mi k,
  mwf mi = true -> In k (firstn (Z.to_nat (mi_max mi)) (mi_order mi)) -> step_sat mi k = true ->
  let o := mmodel mi in
  mo_code o = 0%N /\ mo_ret o = Some (mi_vdesc mi) /\
  exists k' s', mo_winner o = Some k' /\ nth_error (mi_steps mi) (N.to_nat k') = Some s' /\
                satisfies mi s' = true /\ mo_meta o = Some (d_anns (mi_desc mi) ++ ms_meta s').
Proof.
  intros mi k Hwf Hin Hsat o.
  destruct (find (step_sat mi) (firstn (Z.to_nat (mi_max mi)) (mi_order mi))) as [k'|] eqn:F.
  - destruct (find_split _ _ _ F) as (pre & post & E1 & E2 & E3).
    unfold step_sat in E3. destruct (nth_error (mi_steps mi) (N.to_nat k')) as [s'|] eqn:Hn; [|discriminate].
    destruct (multi_roundtrip mi pre k' post s' Hwf E1 E2 Hn E3) as (_ & R2 & R3 & R4 & R5 & _).
    subst o. repeat split; try assumption. exists k', s'. repeat split; assumption.
  - pose proof (find_none _ _ F k Hin) as C. congruence.
Qed.

(* no listed signature within the limit satisfies the request -> Verify fails
   and returns nothing; every one of them was downloaded and tried *)
Lemma multi_none : forall mi,
  mwf mi = true ->
  (forall j, In j (firstn (Z.to_nat (mi_max mi)) (mi_order mi)) -> step_sat mi j = false) ->
  let o := mmodel mi in
  mo_code o <> 0%N /\ mo_winner o = None /\ mo_ret o = None /\ mo_meta o = None /\
  mo_fetched o = firstn (Z.to_nat (mi_max mi)) (mi_order mi).
Proof.
  intros mi Hwf Hall o. destruct (mwf_elim mi Hwf) as [W1 W2 W3 W4].
  pose proof (vloop_spec mi (mi_order mi) lstate0 W1 W2 eq_refl (Z.le_refl 0)) as L. cbv zeta in L.
  cbn [lstate0 l_processed l_fetched l_tried] in L. rewrite Z.sub_0_r in L.
  destruct L as [_ L]. destruct (L Hall) as (R1 & R2 & R3 & R4).
  subst o. unfold mmodel, mverify. rewrite (max_pos_leb mi W4), R1, R2.
  cbn [mo_code mo_winner mo_ret mo_meta mo_fetched app]. repeat split.
  destruct (mi_max mi <=? _)%Z; [discriminate|]. destruct (_ =? 0)%Z; discriminate.
Qed.

(* Verify succeeds exactly when some listed signature within the limit satisfies *)
Lemma multi_iff : forall mi, mwf mi = true ->
  (mo_code (mmodel mi) = 0%N <->
   exists k, In k (firstn (Z.to_nat (mi_max mi)) (mi_order mi)) /\ step_sat mi k = true).
Proof.
  intros mi Hwf. split.
  - intros Hc.
    destruct (existsb (step_sat mi) (firstn (Z.to_nat (mi_max mi)) (mi_order mi))) eqn:E.
    + apply existsb_exists in E. exact E.
    + exfalso. assert (Hall : forall j, In j (firstn (Z.to_nat (mi_max mi)) (mi_order mi)) -> step_sat mi j = false).
      { intros j Hj. destruct (step_sat mi j) eqn:S; [|reflexivity].
        assert (existsb (step_sat mi) (firstn (Z.to_nat (mi_max mi)) (mi_order mi)) = true)
          by (apply existsb_exists; eauto). congruence. }
      destruct (multi_none mi Hwf Hall) as (C & _). contradiction.
  - intros (k & Hin & Hs). exact (proj1 (multi_some_satisfies mi k Hwf Hin Hs)).
Qed.

(* ---------- the order of the listing does not decide whether it verifies ---------- *)

Definition set_order (mi : minput) (o : list N) : minput :=
  mk_minput (mi_desc mi) (mi_consts mi) (mi_steps mi) o (mi_vdesc mi) (mi_vmeta mi) (mi_vnow mi) (mi_max mi).

Lemma nodup_N_NoDup : forall l, nodup_N l = true <-> NoDup l.
Proof.
  induction l as [|k l IH]; cbn [nodup_N].
  - split; [constructor|reflexivity].
  - split.
    + intros H. apply andb_split in H. destruct H as [H1 H2]. apply negb_true_iff in H1. constructor.
      * intros Hin. assert (existsb (N.eqb k) l = true) by (apply existsb_exists; exists k; split; [exact Hin|apply N.eqb_refl]). congruence.
      * apply IH. exact H2.
    + intros H. inversion H; subst. apply andb_true_intro. split.
      * apply negb_true_iff. destruct (existsb (N.eqb k) l) eqn:E; [|reflexivity].
        apply existsb_exists in E. destruct E as (x & Hx & Ex). apply N.eqb_eq in Ex. subst x. contradiction.
      * apply IH. assumption.
Qed.

Lemma mwf_perm : forall mi o, mwf mi = true -> Permutation (mi_order mi) o -> mwf (set_order mi o) = true.
Proof.
  intros mi o H P. unfold mwf in *.
  apply andb_split in H. destruct H as [H H4].
  apply andb_split in H. destruct H as [H H3].
  apply andb_split in H. destruct H as [H1 H2].
  cbn [set_order mi_steps mi_order mi_max]. rewrite H4, andb_true_r.
  apply andb_true_intro. split; [apply andb_true_intro; split|].
  - rewrite forallb_forall in *. intros s Hs. specialize (H1 s Hs). exact H1.
  - rewrite forallb_forall in *. intros k Hk. apply H2. apply (Permutation_in k (Permutation_sym P)). exact Hk.
  - apply nodup_N_NoDup. apply (Permutation_NoDup P). apply nodup_N_NoDup. exact H3.
Qed.

Lemma step_sat_set_order : forall mi o k, step_sat (set_order mi o) k = step_sat mi k.
Proof. reflexivity. Qed.

Lemma multi_order_irrelevant : forall mi o,
  mwf mi = true -> Permutation (mi_order mi) o ->
  (Z.of_nat (List.length (mi_order mi)) <= mi_max mi)%Z ->
  (mo_code (mmodel mi) = 0%N <-> mo_code (mmodel (set_order mi o)) = 0%N).
Proof.
  intros mi o Hwf P Hlen.
  pose proof (mwf_perm mi o Hwf P) as Hwf'.
  rewrite (multi_iff mi Hwf), (multi_iff _ Hwf'). cbn [set_order mi_max mi_order].
  rewrite !firstn_all2 by (try rewrite <- (Permutation_length P); lia).
  split; intros (k & Hin & Hs); exists k; (split; [|exact Hs]).
  - apply (Permutation_in k P). exact Hin.
  - apply (Permutation_in k (Permutation_sym P)). exact Hin.
Qed.

(* ---------- one signature: the multi model is the single-signature model ---------- *)

Lemma multi_single : forall mi s,
  mwf mi = true -> mi_steps mi = [s] -> mi_order mi = [0%N] -> step_expired mi s = false ->
  let o := mmodel mi in let o1 := model (step_input mi s) in
  (mo_code o = 0%N <-> o_verify o1 = 0%N) /\ mo_ret o = o_ret o1 /\ mo_meta o = o_meta o1 /\
  mo_signs o = [o_sign o1].
Proof.
  intros mi s Hwf Hst Hor Hex o o1. destruct (mwf_elim mi Hwf) as [W1 W2 W3 W4].
  assert (Hw : wf (step_input mi s) = true) by (apply W1; rewrite Hst; left; reflexivity).
  destruct (step_row mi s Hw) as (kn & a & hn & an & Hrow).
  pose proof (model_closed true (step_input mi s) kn a hn an Hw Hrow) as C. cbv zeta in C.
  pose proof (model_verify true (step_input mi s) kn a hn an Hw Hrow) as V. cbv zeta in V.
  rewrite signed_of_eq, positive_step in V.
  assert (Hn : nth_error (mi_steps mi) (N.to_nat 0) = Some s) by (rewrite Hst; reflexivity).
  assert (F : firstn (Z.to_nat (mi_max mi)) (mi_order mi) = [0%N]).
  { rewrite Hor. destruct (Z.to_nat (mi_max mi)) eqn:E; [lia|]. cbn. destruct n; reflexivity. }
  assert (Hsat : satisfies mi s = ms_trusted s && submap (mi_vmeta mi) (d_anns (signed_of mi s)) && content_equal (signed_of mi s) (mi_vdesc mi)).
  { unfold satisfies. rewrite Hex. cbn [negb]. rewrite andb_true_r.
    destruct (ms_trusted s), (content_equal _ _), (submap _ _); reflexivity. }
  subst o1. unfold model. rewrite C. cbn [o_verify o_ret o_meta o_sign].
  destruct (satisfies mi s) eqn:S.
  - rewrite <- Hsat in V. rewrite V. cbn [v_code v_ret v_meta].
    destruct (multi_roundtrip mi [] 0%N [] s Hwf F (fun j H => match H with end) Hn S) as (R1 & R2 & R3 & R4 & R5 & _).
    subst o. rewrite R1, R2, R4, R5, Hst. cbn [map]. unfold exp_ret. cbn [step_input i_vtarget]. repeat split.
  - rewrite <- Hsat in V. destruct V as (V1 & V2 & V3).
    assert (Hall : forall j, In j (firstn (Z.to_nat (mi_max mi)) (mi_order mi)) -> step_sat mi j = false).
    { rewrite F. intros j [<-|[]]. rewrite (step_sat_nth mi 0%N s Hn). exact S. }
    destruct (multi_none mi Hwf Hall) as (R1 & R2 & R3 & R4 & _).
    subst o. rewrite R3, R4, V2, V3. repeat split; try (intros; contradiction).
    unfold mmodel, mverify. rewrite (max_pos_leb mi W4). destruct (l_won _) as [[? ?]|]; cbn [mo_signs];
      rewrite (sign_codes_ok mi W1), Hst; reflexivity.
Qed.

(* ---------- the oracle ---------- *)

Lemma opt_N_eqb_refl : forall k : N, opt_eqb N.eqb (Some k) (Some k) = true.
Proof. intros k. cbn. apply N.eqb_refl. Qed.

Lemma mmodel_spec_ok : forall mi, mwf mi = true -> mspec_ok mi (mmodel mi) = true.
Proof.
  intros mi Hwf. unfold mspec_ok. rewrite Hwf. cbn [negb]. destruct (mwf_elim mi Hwf) as [W1 W2 W3 W4].
  assert (Hs : mo_signs (mmodel mi) = map (fun _ => 0%N) (mi_steps mi)).
  { unfold mmodel, mverify. rewrite (max_pos_leb mi W4). destruct (l_won _) as [[? ?]|]; cbn [mo_signs]; apply sign_codes_ok; exact W1. }
  rewrite Hs. rewrite map_length, Nat.eqb_refl.
  replace (forallb (fun c => (c =? 0)%N) (map (fun _ => 0%N) (mi_steps mi))) with true
    by (symmetry; apply forallb_forall; intros x Hx; apply in_map_iff in Hx; destruct Hx as (? & <- & _); reflexivity).
  cbn [andb]. unfold first_sat.
  destruct (find (step_sat mi) (firstn (Z.to_nat (mi_max mi)) (mi_order mi))) as [k|] eqn:F.
  - destruct (find_split _ _ _ F) as (pre & post & E1 & E2 & E3).
    unfold step_sat in E3. destruct (nth_error (mi_steps mi) (N.to_nat k)) as [s|] eqn:Hn; [|discriminate].
    destruct (multi_roundtrip mi pre k post s Hwf E1 E2 Hn E3) as (_ & R2 & R3 & R4 & R5 & _).
    rewrite R2, R3, R4, R5. cbn [N.eqb andb]. rewrite opt_N_eqb_refl. cbn [opt_eqb andb].
    assert (Hws : wf (step_input mi s) = true) by (apply W1; eapply nth_error_In; exact Hn).
    destruct (step_row mi s Hws) as (kn & a & hn & an & Hrow).
    destruct (wf_elim (step_input mi s) Hws) as (Hl & _).
    pose proof (legal_elim _ kn a hn an Hl Hrow) as LF. destruct LF.
    cbn [step_input i_target i_meta target_anns i_vtarget] in *.
    rewrite (descr_eqb_refl _ lf_vtnodup). cbn [signed_of d_anns].
    rewrite (amap_eqb_refl _ lf_nodup). reflexivity.
  - destruct (multi_none mi Hwf (find_none _ _ F)) as (R1 & R2 & R3 & R4 & _).
    rewrite R2, R3, R4. destruct (mo_code (mmodel mi)); [congruence|reflexivity].
Qed.

(* ---------- examples (non-vacuity): the same signer signs twice ---------- *)

Definition mex_consts : consts := mk_consts "notation-go/1.3.0+unreleased" "vh-plugin" "1.2.3" "vh-envelope-plugin/9".
Definition mex_desc : descr :=
  mk_descr "application/vnd.oci.image.manifest.v1+json"
           "sha256:9834876dcfb05cb167a5c24953eba58c4ac89b1adf57f28f2f9d09af107ee8f0" 528 [] [] "" "" "".
Definition mex_step (stage : string) (dur : Z) : mstep :=
  mk_mstep Local (mk_ks KEC 256) mt_jws [("stage", stage)] dur "" 1700000000123456789 true.

(* stage=dev then stage=prod, Verify demands stage=prod, listing in call order *)
Definition mex_meta : minput :=
  mk_minput mex_desc mex_consts [mex_step "dev" 0; mex_step "prod" 0] [0%N; 1%N] mex_desc [("stage", "prod")]
            1700000005000000000 10.

(* the first signature has expired (1 s), the second is fresh; nothing demanded *)
Definition mex_expiry : minput :=
  mk_minput mex_desc mex_consts [mex_step "prod" 1000000000; mex_step "prod" 3600000000000] [0%N; 1%N] mex_desc []
            1700000005000000000 10.

Lemma example_multi_meta :
  mwf mex_meta = true /\
  mmodel mex_meta = mk_mobs [0%N; 0%N] 0 [0%N; 1%N] [(0%N, 3%N); (1%N, 0%N)] (Some 1%N) (Some mex_desc) (Some [("stage", "prod")]).
Proof. split; vm_compute; reflexivity. Qed.

Lemma example_multi_expiry :
  mwf mex_expiry = true /\
  mmodel mex_expiry = mk_mobs [0%N; 0%N] 0 [0%N; 1%N] [(0%N, 6%N); (1%N, 0%N)] (Some 1%N) (Some mex_desc) (Some [("stage", "prod")]).
Proof. split; vm_compute; reflexivity. Qed.

(* with an attempt limit below the position of the satisfying signature the
   promise does not apply: Verify stops with "limit exceeded" *)
Lemma example_multi_limit :
  let mi := mk_minput mex_desc mex_consts [mex_step "dev" 0; mex_step "prod" 0] [0%N; 1%N] mex_desc [("stage", "prod")]
                      1700000005000000000 1 in
  mwf mi = true /\ mo_code (mmodel mi) = 11%N /\ mo_fetched (mmodel mi) = [0%N].
Proof. repeat split; vm_compute; reflexivity. Qed.

(* ---------- one signature, verified at a given time ---------- *)

Lemma expired_exp_env_i : forall vnow i a an, expired vnow (exp_env descr idc i a an) = input_expired vnow i.
Proof.
  intros. unfold expired, exp_env, exp_expiry, input_expired. cbn [e_expiry].
  destruct (i_dur i =? 0)%Z; reflexivity.
Qed.

Lemma model_unfold : forall i,
  model i = let s := csign i in
            match r_env descr s with
            | None => mk_obs (r_err descr s) (r_shash descr s) (r_plugsig descr s) (r_plugenv descr s) None 7 None None None
            | Some e =>
                let v := verify descr dec_descr true i e in
                mk_obs (r_err descr s) (r_shash descr s) (r_plugsig descr s) (r_plugenv descr s)
                       (Some (view descr dec_descr (fun _ => ["targetArtifact"]) present_keys e))
                       (v_code v) (v_hash v) (v_ret v) (v_meta v)
            end.
Proof. reflexivity. Qed.

(* before the expiry the clock does not matter: the timed model is the model of C07_Property *)
Lemma model_at_before : forall vnow i, wf i = true -> input_expired vnow i = false -> model_at vnow i = model i.
Proof.
  intros vnow i Hwf Hex. destruct (wf_row i Hwf) as (kn & a & hn & an & Hrow).
  rewrite model_unfold. unfold model_at. cbv zeta. rewrite (csign_closed i kn a hn an Hwf Hrow).
  cbn [r_env r_err r_shash r_plugsig r_plugenv]. unfold verify_at. rewrite expired_exp_env_i, Hex.
  destruct (_ || _); reflexivity.
Qed.

Lemma verify_fail_nothing : forall i e,
  v_code (verify descr dec_descr true i e) <> 0%N ->
  v_ret (verify descr dec_descr true i e) = None /\ v_meta (verify descr dec_descr true i e) = None.
Proof.
  intros i e. unfold verify. destruct (i_vtarget i) as [vd|vb vmt vok].
  - unfold verify_oci.
    destruct (negb (i_trusted i)); [split; reflexivity|].
    destruct (dec_descr (e_payload descr e)) as [p|]; [|split; reflexivity].
    destruct (final_code _ _ _); cbn; [congruence|split; reflexivity..].
  - unfold verify_blob.
    destruct (negb (vmt =? "") && negb vok); [split; reflexivity|].
    destruct (negb _); [split; reflexivity|].
    destruct (negb (i_trusted i)); [split; reflexivity|].
    destruct (dec_descr (e_payload descr e)) as [p|]; [|split; reflexivity].
    destruct (verifier_algorithms _) as [an|]; [|split; reflexivity].
    destruct (b_readerr vb); [split; reflexivity|].
    destruct (blob_descriptor vb vmt (i_vmeta i) an) as [desc|]; [|split; reflexivity].
    destruct (final_code _ _ _); cbn; [congruence|split; reflexivity..].
Qed.

Lemma final_code_023 : forall m vm p, final_code m vm p = 0%N \/ final_code m vm p = 2%N \/ final_code m vm p = 3%N.
Proof.
  intros m vm p. rewrite final_code_cases. destruct (negb m && _); [auto|]. destruct (submap _ _); auto.
Qed.

(* which requests are refused before the expiry is looked at *)
Lemma verify_code_14 : forall i e,
  (e_format descr e = mt_jws \/ e_format descr e = mt_cose) ->
  let c := v_code (verify descr dec_descr true i e) in
  (c = 1%N -> i_trusted i = false) /\
  (c = 4%N -> match i_vtarget i with TOCI _ => False | TBlob _ vmt vok => vmt <> "" /\ vok = false end).
Proof.
  intros i e Hf. unfold verify. destruct (i_vtarget i) as [vd|vb vmt vok].
  - unfold verify_oci. destruct (i_trusted i); cbn [negb].
    + destruct (dec_descr (e_payload descr e)) as [p|]; [|cbn; split; discriminate].
      destruct (final_code_023 (negb (content_equal p vd)) (i_vmeta i) p) as [E|[E|E]]; rewrite E; cbn; split; discriminate.
    + cbn. split; [reflexivity|discriminate].
  - unfold verify_blob.
    destruct (negb (vmt =? "") && negb vok) eqn:M.
    + cbn. split; [discriminate|]. intros _. apply andb_split in M. destruct M as [M1 M2].
      apply negb_true_iff in M1, M2. apply String.eqb_neq in M1. split; assumption.
    + replace ((e_format descr e =? mt_jws) || (e_format descr e =? mt_cose)) with true
        by (destruct Hf as [E|E]; rewrite E; reflexivity).
      cbn [negb]. destruct (i_trusted i); cbn [negb]; [|cbn; split; [reflexivity|discriminate]].
      destruct (dec_descr (e_payload descr e)) as [p|]; [|cbn; split; discriminate].
      destruct (verifier_algorithms _) as [an|]; [|cbn; split; discriminate].
      destruct (b_readerr vb); [cbn; split; discriminate|].
      destruct (blob_descriptor vb vmt (i_vmeta i) an) as [desc|]; [|cbn; split; discriminate].
      match goal with |- context [final_code ?m ?vm ?p] => destruct (final_code_023 m vm p) as [E|[E|E]]; rewrite E end;
        cbn; split; discriminate.
Qed.

(* after the expiry a signature of a well-formed input is still produced, and does not verify:
   nothing is returned; the refusal is "expired" unless the request was refused before (signer
   not trusted, invalid content media type) *)
Lemma model_at_after : forall vnow i, wf i = true -> input_expired vnow i = true ->
  let o := model_at vnow i in
  o_sign o = 0%N /\ o_verify o <> 0%N /\ o_ret o = None /\ o_meta o = None /\
  (i_trusted i = true ->
   match i_vtarget i with TOCI _ => True | TBlob _ vmt vok => vmt = "" \/ vok = true end ->
   o_verify o = 6%N).
Proof.
  intros vnow i Hwf Hex o. destruct (wf_row i Hwf) as (kn & a & hn & an & Hrow).
  destruct (wf_elim i Hwf) as (Hl & _). pose proof (legal_elim i kn a hn an Hl Hrow) as LF.
  subst o. unfold model_at. cbv zeta. rewrite (csign_closed i kn a hn an Hwf Hrow).
  cbn [r_env r_err r_shash r_plugsig r_plugenv o_sign o_verify o_ret o_meta]. unfold verify_at.
  rewrite expired_exp_env_i, Hex.
  set (e := exp_env descr idc i a an).
  assert (Hf : e_format descr e = mt_jws \/ e_format descr e = mt_cose) by (destruct LF; assumption).
  destruct (verify_code_14 i e Hf) as [K1 K4]. cbv zeta in K1, K4.
  pose proof (verify_fail_nothing i e) as N.
  destruct (v_code (verify descr dec_descr true i e) =? 4)%N eqn:E4; cbn [orb].
  - apply N.eqb_eq in E4. destruct N as [N1 N2]; [congruence|]. repeat split; try assumption; try congruence.
    intros _ Hm. specialize (K4 E4). destruct (i_vtarget i) as [|vb vmt vok]; [contradiction|].
    destruct K4 as [K K']. destruct Hm as [Hm|Hm]; congruence.
  - destruct (v_code (verify descr dec_descr true i e) =? 1)%N eqn:E1.
    + apply N.eqb_eq in E1. destruct N as [N1 N2]; [congruence|]. repeat split; try assumption; try congruence.
      intros Ht _. specialize (K1 E1). congruence.
    + cbn. repeat split; try discriminate.
Qed.

Lemma tspec_model_at : forall vnow i, wf i = true -> tspec_ok vnow i (model_at vnow i) = true.
Proof.
  intros vnow i Hwf. unfold tspec_ok. destruct (input_expired vnow i) eqn:E; cbn [negb].
  - rewrite Hwf. cbn [negb]. destruct (model_at_after vnow i Hwf E) as (A1 & A2 & A3 & A4 & _).
    rewrite A1, A3, A4. destruct (o_verify (model_at vnow i)); [congruence|reflexivity].
  - rewrite (model_at_before vnow i Hwf E). apply model_spec_ok. exact Hwf.
Qed.

(* a blob signed for one second by an envelope plugin, verified 5 s later / 0.5 s later *)
Definition tex_blob : input :=
  mk_input (TBlob ex_blob_b "text/plain" true) (Plug false true "EC-384") (mk_ks KEC 384) mt_jws [("releasedBy", "me")] second
           "" 1700000000999999999 ex_consts true (TBlob ex_blob_b "text/plain" true) [].

Lemma example_expired_blob :
  wf tex_blob = true /\ input_expired 1700000005000000000 tex_blob = true /\
  o_sign (model_at 1700000005000000000 tex_blob) = 0%N /\ o_verify (model_at 1700000005000000000 tex_blob) = 6%N /\
  o_vhash (model_at 1700000005000000000 tex_blob) = None /\
  input_expired 1700000000999999999 tex_blob = false /\ o_verify (model_at 1700000000999999999 tex_blob) = 0%N.
Proof. repeat split; vm_compute; reflexivity. Qed.
