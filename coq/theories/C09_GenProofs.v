(* C09_GenProofs.v — proofs of the equivalences between the GoLite translations
   (theories/C09_Gen.v, regenerated from /repo by `vh-gen` on every run,
   docs/GOLITE.md; targets in harness/cmd/vh-gen/targets_c09.go) and the
   hand-written C09 model (C09_Model.v, C02_Levels.v, C04_DN.v), and the
   theorems of C09_Property.v transported onto the generated functions.
   props/C09_Generated.v states the theorems and closes each with [exact].
   Compiled by make (once per content of C09_Gen.v): a change of a translated
   Go body changes C09_Gen.v and this file is re-checked.

   Every lemma quantifies over ALL inputs of the generated function. A Go map
   argument is an arbitrary association list (any order, shadowed bindings
   allowed); the generated code ranges over [map_entries m] (each key once, with
   its first binding), so the model is applied to [map_entries m] where it
   iterates a map. Errors are compared through an abstraction to the model's
   verdict: which rule fired (by the format string of the error).            *)
From Coq Require Import List Bool String Ascii NArith ZArith Lia.
From NV Require Import Base Regex Generated GoLib C02_Levels C04_DN C09_Model C09_Spec C09_Proofs C09_Audit C09_Gen.
From NV Require C02_Core.
Import ListNotations.
Local Open Scope string_scope.
Local Open Scope list_scope.

(* ---------- the abstraction of errors: which rule fired ----------
   The table of the correspondence harness (harness/cmd/vh-c09, c09Classes):
   the first phrase that occurs decides. It is applied to the error's own
   format string; an error whose own format names no rule and that wraps
   exactly one error (fmt.Errorf("...: %w", err)) has the class of what it
   wraps. *)
Definition class_table : list (string * errc) :=
  [("trust policy document cannot be nil", ENil);
   ("has empty version", EVersionEmpty);
   ("uses unsupported version", EVersionUnsupported);
   ("can not have zero trust policy statements", ENoStatements);
   ("use the same name", EDupName);
   ("is missing a name", ENameEmpty);
   ("signature verification level is empty or missing", ELevelEmpty);
   ("invalid signature verification level", ELevelUnknown);
   ("can't be used to customize signature verification", ESkipCustom);
   ("in custom signature verification is not supported", EOverride);
   ("can not be overridden in custom signature verification", EOverride);
   ("can not be skipped in custom signature verification", EOverride);
   ("verifyTimestamp must be", ETimestamp);
   ("is set to skip signature verification but configured with", ESkipWithStores);
   ("is either missing trust stores or trusted identities", EMissingStoresOrIds);
   ("has malformed trust store value", EStoreMalformed);
   ("uses an unsupported trust store type", EStoreType);
   ("uses an unsupported trust store name", EStoreName);
   ("uses a wildcard trusted identity", EIdWildcardMixed);
   ("has an empty trusted identity", EIdEmpty);
   ("missing separator", EIdNoSep);
   ("without an identity value", EIdNoValue);
   ("with invalid identity value", EIdDN);
   ("has overlapping x509 trustedIdentities", EIdOverlap);
   ("has zero registry scopes", EScopesZero);
   ("uses wildcard registry scope", EScopeWildcardMixed);
   ("with wild card(s) is not valid", EScopeWildcardIn);
   ("is not valid, make sure it is a fully qualified repository", EScopeInvalid);
   ("is present in multiple oci trust policy statements", EScopeDup);
   ("have globalPolicy set to true", EGlobalMulti);
   ("global blob trust policy statement cannot have verification level set to skip", EGlobalSkip)].

Fixpoint classify (t : list (string * errc)) (msg : string) : errc :=
  match t with
  | [] => EOther
  | (p, c) :: t' => if str_contains p msg then c else classify t' msg
  end.

Fixpoint errc_of_err (e : err) : errc :=
  match e with
  | Err _ f w =>
      match classify class_table f with
      | EOther => match w with [x] => errc_of_err x | _ => EOther end
      | c => c
      end
  end.

Definition errc_of (e : option err) : errc :=
  match e with None => EOk | Some x => errc_of_err x end.

Definition errc_of_opt (r : option (option err)) : option errc := option_map errc_of r.

(* which error of GetVerificationLevel an error value is *)
Definition lerr_table : list (string * level_error) :=
  [("signature verification level is empty or missing", ErrEmptyLevel);
   ("invalid signature verification level", ErrUnknownLevel);
   ("can't be used to customize signature verification", ErrSkipCustom);
   ("verification type %q in custom signature verification is not supported", ErrUnknownType);
   ("verification action %q in custom signature verification is not supported", ErrUnknownAction);
   ("can not be overridden in custom signature verification", ErrIntegrityOverride);
   ("can not be skipped in custom signature verification", ErrSkipNotRevocation)].

Fixpoint lerr_classify (t : list (string * level_error)) (f : string) : option level_error :=
  match t with
  | [] => None
  | (p, c) :: t' => if str_contains p f then Some c else lerr_classify t' f
  end.

Definition lerr_of (e : err) : option level_error := lerr_classify lerr_table (err_fmt e).

(* x is the error value the model's level error e stands for (and its class) *)
Definition lerr_ok (x : err) (e : level_error) : Prop :=
  lerr_of x = Some e /\ errc_of_err x = level_errc e.

(* ---------- small tools ---------- *)

Ltac case_const c x :=
  let E := fresh "E" in
  destruct (String.eqb c x) eqn:E; [apply String.eqb_eq in E; subst x|].

(* decide the comparisons between closed strings *)
Ltac ground_eqb :=
  repeat match goal with
  | |- context [String.eqb ?a ?b] =>
      let v := eval vm_compute in (String.eqb a b) in
      match v with
      | true => change (String.eqb a b) with true
      | false => change (String.eqb a b) with false
      end
  end; cbn [negb orb andb].

Lemma eqb_sym_false a b : String.eqb a b = false -> String.eqb b a = false.
Proof. rewrite String.eqb_sym. auto. Qed.

Ltac use_neq :=
  repeat match goal with
  | H : String.eqb ?c ?x = false |- context [String.eqb ?x ?c] => rewrite (eqb_sym_false _ _ H)
  end; cbn [orb negb].

Lemma forallb_ext_in {A} (f g : A -> bool) l :
  (forall x, In x l -> f x = g x) -> forallb f l = forallb g l.
Proof.
  induction l as [|a l IH]; intros H; [reflexivity|]. cbn.
  rewrite (H a (or_introl eq_refl)), IH; [reflexivity|]. intros x Hx. apply H. right. exact Hx.
Qed.

Lemma map_set_rel (m : amap) enf k v :
  (forall x, map_get String.eqb x m = lookup x enf) ->
  forall x, map_get String.eqb x (map_set String.eqb k v m) = lookup x (set_key k v enf).
Proof.
  intros H x. unfold map_set, set_key. cbn [map_get lookup].
  destruct (String.eqb x k) eqn:E; [reflexivity|].
  rewrite (map_get_del_other String.eqb string_eqb_spec') by exact E. rewrite H.
  rewrite <- map_del_remove_key. rewrite <- (map_get_lookup x (map_del String.eqb k enf)).
  rewrite (map_get_del_other String.eqb string_eqb_spec') by exact E. apply map_get_lookup.
Qed.

(* ---------- isValidTrustStoreType ---------- *)

Lemma gp_store_types_pinned : truststore_Types = gen_store_types.
Proof. reflexivity. Qed.

Lemma isValidTrustStoreType_loop s l :
  gen_trustpolicy_isValidTrustStoreType_loop1 s l = mem_str s l.
Proof.
  unfold mem_str. induction l as [|p l IH]; [reflexivity|].
  cbn. destruct (String.eqb s p); [reflexivity|exact IH].
Qed.

Lemma gp_isValidTrustStoreType_equiv :
  forall s, gen_trustpolicy_isValidTrustStoreType s = mem_str s gen_store_types.
Proof.
  intros s. unfold gen_trustpolicy_isValidTrustStoreType.
  rewrite isValidTrustStoreType_loop, gp_store_types_pinned. reflexivity.
Qed.

(* ---------- file.IsValidFileName ---------- *)

Lemma gp_IsValidFileName_equiv :
  forall s, gen_file_IsValidFileName s = is_valid_file_name s.
Proof. intros s. reflexivity. Qed.

(* ---------- validateTrustStore ---------- *)

Lemma gp_validateTrustStore_equiv :
  forall name stores,
    errc_of (gen_trustpolicy_validateTrustStore name stores) = validate_trust_store stores.
Proof.
  intros name stores. unfold gen_trustpolicy_validateTrustStore.
  induction stores as [|st rest IH]; [reflexivity|].
  cbn [validate_trust_store gen_trustpolicy_validateTrustStore_loop1]. rewrite str_cut_byte.
  destruct (cut_byte ":" st) as [[ty nm]|]; [|vm_compute; reflexivity].
  cbn [negb]. rewrite gp_isValidTrustStoreType_equiv.
  destruct (mem_str ty gen_store_types); cbn [negb]; [|vm_compute; reflexivity].
  rewrite gp_IsValidFileName_equiv.
  destruct (is_valid_file_name nm); cbn [negb]; [|vm_compute; reflexivity].
  exact IH.
Qed.

(* ---------- pkix.IsSubsetDN ---------- *)

Lemma gp_IsSubsetDN_equiv :
  forall dn1 dn2, gen_pkix_IsSubsetDN dn1 dn2 = is_subset_dn dn1 dn2.
Proof.
  intros a b. unfold gen_pkix_IsSubsetDN, is_subset_dn.
  transitivity (forallb (fun kv => match map_get String.eqb (fst kv) a, map_get String.eqb (fst kv) b with
                                   | Some v, Some v' => String.eqb v v' | _, _ => false end) (map_entries String.eqb a)).
  - assert (H : forall l, (forall k v, In (k, v) l -> map_get String.eqb k a = Some v) ->
        gen_pkix_IsSubsetDN_loop1 b l
        = forallb (fun kv => match map_get String.eqb (fst kv) a, map_get String.eqb (fst kv) b with
                             | Some v, Some v' => String.eqb v v' | _, _ => false end) l).
    { induction l as [|[k v] l IH]; intros Hin; [reflexivity|].
      cbn [forallb fst snd gen_pkix_IsSubsetDN_loop1]. rewrite (Hin k v (or_introl eq_refl)).
      unfold map_get_ok. destruct (map_get String.eqb k b) as [v'|]; cbn [negb orb andb].
      - destruct (String.eqb v v'); cbn [negb]; [|reflexivity].
        apply IH. intros k0 v0 H0. apply Hin. right. exact H0.
      - reflexivity. }
    apply H. intros k v Hin. eapply map_entries_in; [apply string_eqb_spec'|exact Hin].
  - rewrite (forallb_map_entries String.eqb string_eqb_spec'
               (fun k o => match o, map_get String.eqb k b with Some v, Some v' => String.eqb v v' | _, _ => false end) a).
    apply forallb_ext_in. intros kv _. rewrite !map_get_lookup. reflexivity.
Qed.

(* ---------- validateOverlappingDNs ---------- *)

Definition overlap_err : err :=
  Err "fmt" "trust policy statement %q has overlapping x509 trustedIdentities, %q overlaps with %q" [].

Lemma overlapping_inner (K : unit -> option err) i dn1 l : forall j0,
  gen_trustpolicy_validateOverlappingDNs_loop2 K (Z.of_nat i) dn1 l (Z.of_nat j0)
  = if existsb (fun jb => negb (Nat.eqb i (fst jb)) && is_subset_dn (parsedDN_ParsedMap dn1) (snd jb))
         (combine (seq j0 (List.length l)) (map parsedDN_ParsedMap l))
    then Some overlap_err else K tt.
Proof.
  induction l as [|d l IH]; intros j0; [reflexivity|].
  cbn [List.length seq map combine existsb fst snd gen_trustpolicy_validateOverlappingDNs_loop2].
  rewrite gp_IsSubsetDN_equiv.
  replace (Z.eqb (Z.of_nat i) (Z.of_nat j0)) with (Nat.eqb i j0).
  2:{ destruct (Nat.eqb_spec i j0) as [->|N]; [symmetry; apply Z.eqb_refl|].
      symmetry. apply Z.eqb_neq. lia. }
  destruct (negb (Nat.eqb i j0) && is_subset_dn (parsedDN_ParsedMap dn1) (parsedDN_ParsedMap d)); [reflexivity|].
  cbn [orb]. replace (Z.of_nat j0 + 1)%Z with (Z.of_nat (S j0)) by lia. apply IH.
Qed.

Lemma overlapping_outer pds l : forall i0,
  gen_trustpolicy_validateOverlappingDNs_loop1 pds l (Z.of_nat i0)
  = if existsb (fun ia => existsb (fun jb => negb (Nat.eqb (fst ia) (fst jb)) && is_subset_dn (snd ia) (snd jb))
                            (combine (seq 0 (List.length pds)) (map parsedDN_ParsedMap pds)))
         (combine (seq i0 (List.length l)) (map parsedDN_ParsedMap l))
    then Some overlap_err else None.
Proof.
  induction l as [|d l IH]; intros i0; [reflexivity|].
  cbn [List.length seq map combine existsb fst snd gen_trustpolicy_validateOverlappingDNs_loop1].
  change 0%Z with (Z.of_nat 0). rewrite overlapping_inner.
  match goal with |- (if ?c then _ else _) = _ => destruct c end; [reflexivity|].
  cbn [orb]. replace (Z.of_nat i0 + 1)%Z with (Z.of_nat (S i0)) by lia. apply IH.
Qed.

Lemma gp_validateOverlappingDNs_equiv :
  forall name pds,
    gen_trustpolicy_validateOverlappingDNs name pds
    = if overlapping (map parsedDN_ParsedMap pds) then Some overlap_err else None.
Proof.
  intros name pds. unfold gen_trustpolicy_validateOverlappingDNs, overlapping, indexed.
  rewrite map_length. change 0%Z with (Z.of_nat 0). apply overlapping_outer.
Qed.

(* ---------- slices.Contains ---------- *)

Lemma gp_Contains_equiv :
  forall l v, gen_slices_Contains_string l v = mem_str v l.
Proof.
  intros l v. unfold gen_slices_Contains_string, mem_str.
  induction l as [|x l IH]; [reflexivity|]. cbn. destruct (String.eqb v x); [reflexivity|exact IH].
Qed.

(* ---------- validateTrustedIdentities (oracle: pkix.ParseDistinguishedName) ---------- *)

(* the oracle answers like the model of ParseDistinguishedName (C04_DN): the
   parsed map on success, some error otherwise *)
Definition parse_agrees (parse : string -> list (string * string) * option err) : Prop :=
  forall v, match parse_distinguished_name v with
            | DOk m => parse v = (m, None)
            | DErr _ => exists dn e, parse v = (dn, Some e)
            end.

Lemma ids_loop_spec parse (Hp : parse_agrees parse) name ids : forall acc,
  errc_of (gen_trustpolicy_validateTrustedIdentities_loop1 parse name ids acc)
  = match ids_loop ids with
    | inl e => e
    | inr dns => if overlapping (map parsedDN_ParsedMap acc ++ dns) then EIdOverlap else EOk
    end.
Proof.
  induction ids as [|id rest IH]; intros acc.
  - cbn [gen_trustpolicy_validateTrustedIdentities_loop1 ids_loop]. rewrite gp_validateOverlappingDNs_equiv, app_nil_r.
    destruct (overlapping (map parsedDN_ParsedMap acc)); [vm_compute; reflexivity|reflexivity].
  - cbn [gen_trustpolicy_validateTrustedIdentities_loop1 ids_loop].
    destruct (String.eqb id "") eqn:E0; [vm_compute; reflexivity|].
    unfold wildcard, x509_subject. destruct (String.eqb id "*") eqn:E1; cbn [negb]; [apply IH|].
    rewrite str_cut_byte. destruct (cut_byte ":" id) as [[p v]|]; [|vm_compute; reflexivity].
    cbn [negb]. destruct (String.eqb p "x509.subject") eqn:E2; [|apply IH].
    destruct (String.eqb v "") eqn:E3; [vm_compute; reflexivity|].
    pose proof (Hp v) as Hv. destruct (parse_distinguished_name v) as [m|e].
    + rewrite Hv. cbn [is_none negb]. rewrite IH, map_app. cbn [map parsedDN_ParsedMap].
      destruct (ids_loop rest) as [e|dns]; [reflexivity|].
      rewrite <- app_assoc. reflexivity.
    + destruct Hv as [dn [e' Hv]]. rewrite Hv. cbn [is_none negb]. vm_compute. reflexivity.
Qed.

Lemma gp_validateTrustedIdentities_equiv :
  forall parse, parse_agrees parse ->
  forall name ids,
    errc_of (gen_trustpolicy_validateTrustedIdentities parse name ids) = validate_trusted_identities ids.
Proof.
  intros parse Hp name ids. unfold gen_trustpolicy_validateTrustedIdentities, validate_trusted_identities.
  rewrite list_len_gt1, gp_Contains_equiv. unfold wildcard.
  destruct (Nat.ltb 1 (List.length ids) && mem_str "*" ids); [vm_compute; reflexivity|].
  rewrite (ids_loop_spec parse Hp). cbn [map app]. reflexivity.
Qed.

(* ---------- GetVerificationLevel ---------- *)

Definition sv_lvl := SignatureVerification_VerificationLevel.
(* the override as the map it denotes: every key once, first binding *)
Definition sv_ov (sv : trustpolicy_SignatureVerification) : amap :=
  map_entries String.eqb (SignatureVerification_Override sv).

(* a returned level against the model's (name, enforcement): equal as maps *)
Definition level_rel (p : ptr trustpolicy_VerificationLevel) (name : string) (enf : amap) : Prop :=
  exists l, ptr_val p = Some l /\ VerificationLevel_Name l = name
            /\ forall k, map_get String.eqb k (VerificationLevel_Enforcement l) = lookup k enf.

Lemma search_loop3 K value l : forall d,
  gen_trustpolicy_SignatureVerification_GetVerificationLevel_loop3 K value l d
  = K (if existsb (fun a => String.eqb a value) l then value else d).
Proof.
  induction l as [|a l IH]; intros d; [reflexivity|].
  cbn [gen_trustpolicy_SignatureVerification_GetVerificationLevel_loop3 existsb].
  destruct (String.eqb a value) eqn:E; [apply String.eqb_eq in E; subst a; reflexivity|]. apply IH.
Qed.

Lemma search_loop4 K key l : forall d,
  gen_trustpolicy_SignatureVerification_GetVerificationLevel_loop4 K key l d
  = K (if existsb (fun a => String.eqb a key) l then key else d).
Proof.
  induction l as [|a l IH]; intros d; [reflexivity|].
  cbn [gen_trustpolicy_SignatureVerification_GetVerificationLevel_loop4 existsb].
  destruct (String.eqb a key) eqn:E; [apply String.eqb_eq in E; subst a; reflexivity|]. apply IH.
Qed.

Definition copy_entry (c : trustpolicy_VerificationLevel) (kv : string * string) : trustpolicy_VerificationLevel :=
  set_VerificationLevel_Enforcement (map_set String.eqb (fst kv) (snd kv) (VerificationLevel_Enforcement c)) c.

Lemma copy_loop5 K l : forall c,
  gen_trustpolicy_SignatureVerification_GetVerificationLevel_loop5 K l c = K (fold_left copy_entry l c).
Proof. induction l as [|kv l IH]; intros c; [reflexivity|]. cbn. apply IH. Qed.

(* the override loop, for a custom level equal (as a map) to the model's enforcement *)
Lemma override_loop2 K : forall es c enf,
  VerificationLevel_Name c = "custom" ->
  (forall k, map_get String.eqb k (VerificationLevel_Enforcement c) = lookup k enf) ->
  match apply_overrides enf es with
  | inl e => exists x, gen_trustpolicy_SignatureVerification_GetVerificationLevel_loop2 K es c = Some (PNil, Some x)
                       /\ lerr_ok x e
  | inr enf' => exists c', gen_trustpolicy_SignatureVerification_GetVerificationLevel_loop2 K es c = K c'
                           /\ VerificationLevel_Name c' = "custom"
                           /\ forall k, map_get String.eqb k (VerificationLevel_Enforcement c') = lookup k enf'
  end.
Proof.
  induction es as [|[key value] es IH]; intros c enf Hn Hm.
  - cbn. eexists; split; [reflexivity|]. split; assumption.
  - cbn [apply_overrides apply_override gen_trustpolicy_SignatureVerification_GetVerificationLevel_loop2 fst snd].
    rewrite search_loop4.
    unfold mem_str; cbn [gen_validation_types gen_validation_actions trustpolicy_ValidationTypes trustpolicy_ValidationActions existsb].
    case_const "integrity" key; [|case_const "authenticity" key; [|case_const "authenticTimestamp" key; [|case_const "expiry" key; [|case_const "revocation" key]]]];
      ground_eqb.
    6:{ use_neq. eexists; split; [reflexivity|split; vm_compute; reflexivity]. }
    all: rewrite search_loop3; cbn [existsb trustpolicy_ValidationActions].
    all: (case_const "enforce" value; [|case_const "log" value; [|case_const "skip" value]]; ground_eqb).
    all: use_neq.
    all: try (eexists; split; [reflexivity|split; vm_compute; reflexivity]).
    all: match goal with |- context [apply_overrides (set_key ?k ?v ?enf) ?es] =>
           specialize (IH (set_VerificationLevel_Enforcement (map_set String.eqb k v (VerificationLevel_Enforcement c)) c)
                          (set_key k v enf) Hn (map_set_rel _ _ k v Hm));
           destruct (apply_overrides (set_key k v enf) es); exact IH
         end.
Qed.

(* the table of levels the generated code searches is the table of Generated.v *)
Lemma gp_levels_pinned :
  map (fun p => match ptr_val p with
                | Some l => (VerificationLevel_Name l, VerificationLevel_Enforcement l)
                | None => ("", [])
                end) trustpolicy_VerificationLevels = gen_levels.
Proof. reflexivity. Qed.

Lemma gp_GetVerificationLevel_equiv :
  forall sv,
    match get_level (sv_lvl sv) (sv_ov sv) with
    | inl e => exists x, gen_trustpolicy_SignatureVerification_GetVerificationLevel sv = Some (PNil, Some x)
                         /\ lerr_ok x e
    | inr (name, enf) => exists p, gen_trustpolicy_SignatureVerification_GetVerificationLevel sv = Some (p, None)
                                   /\ level_rel p name enf
    end.
Proof.
  intros [lvl ov ts]. unfold gen_trustpolicy_SignatureVerification_GetVerificationLevel, sv_lvl, sv_ov, get_level.
  cbn [SignatureVerification_VerificationLevel SignatureVerification_Override].
  destruct (String.eqb lvl "") eqn:E0.
  { eexists; split; [reflexivity|split; vm_compute; reflexivity]. }
  set (sv := mk_SignatureVerification lvl ov ts).
  assert (H1 : gen_trustpolicy_SignatureVerification_GetVerificationLevel_loop1 sv trustpolicy_VerificationLevels PNil
               = gen_trustpolicy_SignatureVerification_GetVerificationLevel_loop1 sv []
                   (if String.eqb "skip" lvl then trustpolicy_LevelSkip
                    else if String.eqb "audit" lvl then trustpolicy_LevelAudit
                    else if String.eqb "permissive" lvl then trustpolicy_LevelPermissive
                    else if String.eqb "strict" lvl then trustpolicy_LevelStrict else PNil)).
  { unfold trustpolicy_VerificationLevels.
    cbn [gen_trustpolicy_SignatureVerification_GetVerificationLevel_loop1 trustpolicy_LevelStrict trustpolicy_LevelPermissive
         trustpolicy_LevelAudit trustpolicy_LevelSkip ptr_val trustpolicy_LevelStrict_v trustpolicy_LevelPermissive_v
         trustpolicy_LevelAudit_v trustpolicy_LevelSkip_v VerificationLevel_Name sv SignatureVerification_VerificationLevel].
    destruct (String.eqb "strict" lvl), (String.eqb "permissive" lvl), (String.eqb "audit" lvl), (String.eqb "skip" lvl); reflexivity. }
  rewrite H1. clear H1.
  cbn [gen_trustpolicy_SignatureVerification_GetVerificationLevel_loop1].
  unfold map_len. subst sv. cbn [SignatureVerification_Override].
  remember (map_entries String.eqb ov) as es eqn:Ees. clear Ees ov.
  (* the base level: five cases *)
  case_const "skip" lvl; [|case_const "audit" lvl; [|case_const "permissive" lvl; [|case_const "strict" lvl]]].
  5:{ assert (F : find_level lvl gen_levels = None).
      { cbn [find_level gen_levels]. rewrite E, E1, E2, E3. reflexivity. }
      rewrite F. cbn [ptr_val]. eexists; split; [reflexivity|split; vm_compute; reflexivity]. }
  all: cbn [find_level gen_levels]; ground_eqb.
  all: cbn [ptr_val trustpolicy_LevelSkip trustpolicy_LevelAudit trustpolicy_LevelPermissive trustpolicy_LevelStrict].
  all: destruct es as [|kv es'];
    [ cbn [List.length Z.of_nat Z.eqb]; eexists; split; [reflexivity|];
      eexists; split; [reflexivity|]; split; [reflexivity|]; intros k; apply map_get_lookup
    | replace (Z.of_nat (List.length (kv :: es')) =? 0)%Z with false
        by (symmetry; apply Z.eqb_neq; cbn [List.length]; lia) ].
  all: cbn [ptr_eqb_glob]; ground_eqb.
  { (* skip cannot be customised *)
    eexists; split; [reflexivity|split; vm_compute; reflexivity]. }
  all: rewrite copy_loop5.
  all: match goal with |- context [fold_left copy_entry ?l ?c] =>
         let v := eval vm_compute in (fold_left copy_entry l c) in change (fold_left copy_entry l c) with v
       end.
  all: match goal with |- context [apply_overrides ?base ?es] =>
         match goal with |- context [gen_trustpolicy_SignatureVerification_GetVerificationLevel_loop2 ?K es ?c] =>
           pose proof (override_loop2 K es c base eq_refl) as H8
         end
       end.
  all: match type of H8 with ?A -> _ =>
         assert (Hm : A) by (intros k; cbn [VerificationLevel_Enforcement map_get lookup];
           repeat match goal with |- context [String.eqb k ?s] =>
             let E := fresh "E" in
             destruct (String.eqb k s) eqn:E; [apply String.eqb_eq in E; subst k; ground_eqb; try reflexivity|]
           end; reflexivity);
         specialize (H8 Hm); clear Hm
       end.
  all: match goal with |- context [apply_overrides ?base ?es] => destruct (apply_overrides base es) as [e|enf'] end.
  all: try (destruct H8 as [x [Hx1 Hx2]]; exists x; split; assumption).
  all: destruct H8 as [c' [Hc1 [Hc2 Hc3]]]; eexists; split; [exact Hc1|];
       exists c'; split; [reflexivity|split; assumption].
Qed.

(* ---------- validatePolicyCore ---------- *)

Lemma classify_not_ok t : (forall p, ~ In (p, EOk) t) -> forall f, classify t f <> EOk.
Proof.
  induction t as [|[p c] t IH]; intros H f; cbn; [discriminate|].
  destruct (str_contains p f).
  - intros ->. apply (H p). left. reflexivity.
  - apply IH. intros q Hq. apply (H q). right. exact Hq.
Qed.

Lemma class_table_no_ok : forall p, ~ In (p, EOk) class_table.
Proof.
  intros p H. unfold class_table in H. cbn [In] in H.
  repeat (destruct H as [H|H]; [discriminate H|]). exact H.
Qed.

(* no error value is classified as "no error" *)
Fixpoint errc_of_err_not_ok (e : err) : errc_of_err e <> EOk.
Proof.
  destruct e as [t f w]. cbn [errc_of_err].
  pose proof (classify_not_ok class_table class_table_no_ok f) as Hc.
  destruct (classify class_table f); try discriminate; try (exfalso; apply Hc; reflexivity).
  destruct w as [|y [|z w']]; try discriminate. apply errc_of_err_not_ok.
Qed.

Lemma errc_of_some_not_ok x : errc_of (Some x) <> EOk.
Proof. apply errc_of_err_not_ok. Qed.

(* the model's statement record of a generated SignatureVerification *)
Definition sigver_of (sv : trustpolicy_SignatureVerification) : sigver :=
  mk_sv (sv_lvl sv) (sv_ov sv) (SignatureVerification_VerifyTimestamp sv).

Lemma is_empty_len {A} (l : list A) : (list_len l =? 0)%Z = is_empty l.
Proof. rewrite list_len_zero. destruct l; reflexivity. Qed.

Lemma not_empty_len {A} (l : list A) : (list_len l >? 0)%Z = negb (is_empty l).
Proof. rewrite list_len_pos. destruct l; reflexivity. Qed.

Lemma gp_validatePolicyCore_equiv :
  forall parse, parse_agrees parse ->
  forall name sv stores ids,
    exists r, gen_trustpolicy_validatePolicyCore parse name sv stores ids = Some r
              /\ errc_of r = validate_policy_core name (sigver_of sv) stores ids.
Proof.
  intros parse Hp name sv stores ids.
  unfold gen_trustpolicy_validatePolicyCore, validate_policy_core, sigver_of.
  cbn [C09_Model.sv_level C09_Model.sv_override C09_Model.sv_ts].
  destruct (String.eqb name "") eqn:En.
  { eexists; split; [reflexivity|vm_compute; reflexivity]. }
  pose proof (gp_GetVerificationLevel_equiv sv) as HL.
  destruct (get_level (sv_lvl sv) (sv_ov sv)) as [e|[lname enf]].
  - destruct HL as [x [Hx [_ Hc]]]. rewrite Hx. cbn [is_none negb olist].
    eexists; split; [reflexivity|]. cbn [errc_of errc_of_err].
    replace (classify class_table "trust policy statement %q has invalid signatureVerification: %w") with EOther
      by (vm_compute; reflexivity).
    exact Hc.
  - destruct HL as [p [Hx [l [Hp1 [Hp2 Hp3]]]]]. rewrite Hx. cbn [is_none negb].
    unfold ts_ok, gen_option_always, gen_option_after_cert_expiry. cbv zeta.
    set (ts := SignatureVerification_VerifyTimestamp sv).
    (* whatever boolean shape the source gives the option check *)
    match goal with
    | |- context [if ?c then Some (Some (Err _ "trust policy statement %q has invalid signatureVerification: verifyTimestamp must be %q or %q, but got %q" _)) else _] =>
        replace c with (negb (String.eqb ts "" || String.eqb ts "always" || String.eqb ts "afterCertExpiry"))
          by (destruct (String.eqb ts ""), (String.eqb ts "always"), (String.eqb ts "afterCertExpiry"); reflexivity)
    end.
    destruct (negb (String.eqb ts "" || String.eqb ts "always" || String.eqb ts "afterCertExpiry")).
    { eexists; split; [reflexivity|vm_compute; reflexivity]. }
    rewrite Hp1, Hp2.
    destruct (String.eqb lname "skip") eqn:Es.
    all: rewrite ?not_empty_len, ?is_empty_len.
    all: try (destruct (negb (is_empty stores) || negb (is_empty ids));
              [eexists; split; [reflexivity|vm_compute; reflexivity]|eexists; split; reflexivity]).
    all: destruct (is_empty stores || is_empty ids); [eexists; split; [reflexivity|vm_compute; reflexivity]|].
    all: pose proof (gp_validateTrustStore_equiv name stores) as HS;
         pose proof (gp_validateTrustedIdentities_equiv parse Hp name ids) as HI.
    all: destruct (gen_trustpolicy_validateTrustStore name stores) as [es|]; cbn [is_none negb];
         [ eexists; split; [reflexivity|]; rewrite <- HS; unfold andthen;
           pose proof (errc_of_some_not_ok es) as N; destruct (errc_of (Some es)); try reflexivity; exfalso; apply N; reflexivity
         | rewrite <- HS; cbn [errc_of andthen] ].
    all: destruct (gen_trustpolicy_validateTrustedIdentities parse name ids) as [ei|]; cbn [is_none negb];
         eexists; (split; [reflexivity|]); exact HI.
Qed.

(* ---------- corollaries: the model's input contract ---------- *)

(* for an override with unique keys (the model's input contract [wf]: it is a Go
   map) the entries are the list itself *)
Lemma gp_override_entries_unique :
  forall sv, unique_keys (SignatureVerification_Override sv) = true ->
    sv_ov sv = SignatureVerification_Override sv.
Proof.
  intros sv H. unfold sv_ov. apply (map_entries_unique String.eqb).
  revert H. induction (SignatureVerification_Override sv) as [|[k v] m IH]; cbn; [reflexivity|].
  rewrite !andb_true_iff. intros [H1 H2]. split; [exact H1|apply IH; exact H2].
Qed.

(* ====================================================================== *)
(* The two Validate methods                                                *)
(* ====================================================================== *)

(* ---------- validateRegistryScopeFormat ---------- *)

Lemma gp_validateRegistryScopeFormat_equiv :
  forall sc, errc_of (gen_trustpolicy_validateRegistryScopeFormat sc) = validate_scope_format sc.
Proof.
  intros sc. unfold gen_trustpolicy_validateRegistryScopeFormat, validate_scope_format.
  cbv zeta. rewrite str_len_gt1. change "*" with (String "*"%char EmptyString) at 1.
  rewrite str_contains_byte.
  destruct (Nat.ltb 1 (String.length sc) && contains_byte "*" sc); [vm_compute; reflexivity|].
  change "/" with (String "/"%char EmptyString) at 1. rewrite str_cut_byte.
  destruct (cut_byte "/" sc) as [[d r]|]; [|vm_compute; reflexivity].
  cbn [negb]. unfold re_match.
  change (matches _ d) with (matches gen_re_domain d).
  change (matches _ r) with (matches gen_re_repository r).
  destruct (String.eqb d "" || (String.eqb r "" || (negb (matches gen_re_domain d) || negb (matches gen_re_repository r)))) eqn:E.
  - replace (String.eqb d "" || String.eqb r "" || negb (matches gen_re_domain d) || negb (matches gen_re_repository r)) with true
      by (rewrite <- E; destruct (String.eqb d ""), (String.eqb r ""), (matches gen_re_domain d), (matches gen_re_repository r); reflexivity).
    vm_compute. reflexivity.
  - replace (String.eqb d "" || String.eqb r "" || negb (matches gen_re_domain d) || negb (matches gen_re_repository r)) with false
      by (rewrite <- E; destruct (String.eqb d ""), (String.eqb r ""), (matches gen_re_domain d), (matches gen_re_repository r); reflexivity).
    reflexivity.
Qed.

(* ---------- validateRegistryScopes ---------- *)

Definition cnt (k : string) (l : list string) : nat := List.length (filter (String.eqb k) l).

(* the counting map of the Go code holds the number of occurrences seen so far *)
Definition counts (m : list (string * Z)) (seen : list string) : Prop :=
  forall k, map_get_or String.eqb 0%Z k m = Z.of_nat (cnt k seen).

Lemma cnt_app k a b : cnt k (a ++ b) = (cnt k a + cnt k b)%nat.
Proof. unfold cnt. rewrite filter_app, app_length. reflexivity. Qed.

Lemma cnt_mem k l : mem_str k l = Nat.ltb 0 (cnt k l).
Proof.
  unfold mem_str, cnt. induction l as [|x l IH]; [reflexivity|].
  cbn [existsb filter]. destruct (String.eqb k x); [reflexivity|exact IH].
Qed.

Lemma has_dup_cnt l : has_dup l = true <-> exists k, (2 <= cnt k l)%nat.
Proof.
  induction l as [|x r IH]; cbn [has_dup].
  - split; [discriminate|]. intros [k H]. cbn in H. lia.
  - rewrite orb_true_iff, IH. split.
    + intros [H|[k H]].
      * exists x. rewrite cnt_mem in H. apply Nat.ltb_lt in H. unfold cnt in *. cbn [filter].
        rewrite String.eqb_refl. cbn [List.length]. lia.
      * exists k. unfold cnt in *. cbn [filter]. destruct (String.eqb k x); cbn [List.length]; lia.
    + intros [k H]. unfold cnt in H. cbn [filter] in H. destruct (String.eqb k x) eqn:E.
      * apply String.eqb_eq in E. subst x. left. rewrite cnt_mem. apply Nat.ltb_lt. unfold cnt. cbn [List.length] in H. lia.
      * right. exists k. exact H.
Qed.

Lemma counts_add m seen sc :
  counts m seen ->
  counts (map_set String.eqb sc (map_get_or String.eqb 0%Z sc m + 1)%Z m) (seen ++ [sc]).
Proof.
  intros H k. unfold map_get_or. rewrite (map_get_set String.eqb string_eqb_spec').
  rewrite cnt_app. unfold cnt at 2. cbn [filter].
  destruct (String.eqb k sc) eqn:E.
  - apply String.eqb_eq in E. subst k. pose proof (H sc) as Hs. unfold map_get_or in Hs. rewrite Hs.
    cbn [List.length]. lia.
  - pose proof (H k) as Hk. unfold map_get_or in Hk. rewrite Hk. cbn [List.length]. lia.
Qed.

Definition dup_err : err :=
  Err "fmt" "registry scope %q is present in multiple oci trust policy statements, one registry scope value can only be associated with one statement" [].

Lemma dup_loop m : forall l,
  gen_trustpolicy_validateRegistryScopes_loop2 (fun _ => None) m l
  = if existsb (fun kv => (map_get_or String.eqb 0%Z (fst kv) m >? 1)%Z) l then Some dup_err else None.
Proof.
  induction l as [|kv l IH]; [reflexivity|].
  cbn [gen_trustpolicy_validateRegistryScopes_loop2 existsb].
  destruct (map_get_or String.eqb 0%Z (fst kv) m >? 1)%Z; [reflexivity|exact IH].
Qed.

Lemma map_get_in {V} (m : list (string * V)) k v : map_get String.eqb k m = Some v -> In (k, v) m.
Proof.
  induction m as [|[k' v'] m IH]; cbn; [discriminate|].
  destruct (String.eqb k k') eqn:E.
  - intros H. inversion H; subst. apply String.eqb_eq in E. subst. left. reflexivity.
  - intros H. right. apply IH. exact H.
Qed.

Lemma dup_check m seen :
  counts m seen ->
  existsb (fun kv => (map_get_or String.eqb 0%Z (fst kv) m >? 1)%Z) (map_entries String.eqb m) = has_dup seen.
Proof.
  intros H. apply eq_true_iff_eq. rewrite existsb_exists, has_dup_cnt. split.
  - intros [[k v] [_ Hk]]. cbn [fst] in Hk. exists k. rewrite H in Hk. apply Z.gtb_lt in Hk. lia.
  - intros [k Hk]. pose proof (H k) as Hm. unfold map_get_or in Hm.
    destruct (map_get String.eqb k m) as [v|] eqn:G; [|lia].
    exists (k, v). split.
    + apply map_get_in. rewrite (map_get_entries String.eqb string_eqb_spec'). exact G.
    + cbn [fst]. unfold map_get_or. rewrite G. apply Z.gtb_lt. lia.
Qed.

(* the scopes of one statement *)
Lemma scopes_inner_loop K scs : forall m seen,
  counts m seen ->
  (exists e, gen_trustpolicy_validateRegistryScopes_loop3 K scs m = Some e
             /\ errc_of (Some e) = scopes_inner scs /\ scopes_inner scs <> EOk)
  \/ (scopes_inner scs = EOk
      /\ exists m', gen_trustpolicy_validateRegistryScopes_loop3 K scs m = K m' /\ counts m' (seen ++ scs)).
Proof.
  induction scs as [|sc rest IH]; intros m seen Hc.
  - right. split; [reflexivity|]. exists m. split; [reflexivity|]. rewrite app_nil_r. exact Hc.
  - cbn [gen_trustpolicy_validateRegistryScopes_loop3 scopes_inner]. unfold wildcard.
    assert (Hnext : forall e0, e0 = EOk ->
      (exists e, gen_trustpolicy_validateRegistryScopes_loop3 K rest
                   (map_set String.eqb sc (map_get_or String.eqb 0%Z sc m + 1)%Z m) = Some e
                 /\ errc_of (Some e) = (e0 ;; scopes_inner rest) /\ (e0 ;; scopes_inner rest) <> EOk)
      \/ ((e0 ;; scopes_inner rest) = EOk
          /\ exists m', gen_trustpolicy_validateRegistryScopes_loop3 K rest
                          (map_set String.eqb sc (map_get_or String.eqb 0%Z sc m + 1)%Z m) = K m'
                        /\ counts m' (seen ++ sc :: rest))).
    { intros e0 ->. cbn [andthen].
      destruct (IH _ (seen ++ [sc]) (counts_add m seen sc Hc)) as [H|[H1 [m' [H2 H3]]]]; [left; exact H|].
      right. split; [exact H1|]. exists m'. split; [exact H2|]. rewrite <- app_assoc in H3. exact H3. }
    destruct (String.eqb sc "*"); cbn [negb]; [apply Hnext; reflexivity|].
    pose proof (gp_validateRegistryScopeFormat_equiv sc) as Hf.
    destruct (gen_trustpolicy_validateRegistryScopeFormat sc) as [e|]; cbn [is_none negb].
    + left. exists e. rewrite <- Hf. pose proof (errc_of_some_not_ok e) as N.
      split; [reflexivity|]. unfold andthen. destruct (errc_of (Some e)); try (split; [reflexivity|discriminate]).
      exfalso. apply N. reflexivity.
    + apply Hnext. rewrite <- Hf. reflexivity.
Qed.

Lemma scopes_outer_loop : forall ss m seen,
  counts m seen ->
  errc_of (gen_trustpolicy_validateRegistryScopes_loop1 ss m)
  = (scopes_loop (map (fun s => mk_stmt "" (mk_sv "" [] "") [] [] (OCITrustPolicy_RegistryScopes s) false) ss)
     ;; (if has_dup (seen ++ flat_map OCITrustPolicy_RegistryScopes ss) then EScopeDup else EOk)).
Proof.
  induction ss as [|s rest IH]; intros m seen Hc.
  - cbn [gen_trustpolicy_validateRegistryScopes_loop1 map scopes_loop flat_map andthen].
    rewrite dup_loop, (dup_check m seen Hc), app_nil_r.
    destruct (has_dup seen); [vm_compute; reflexivity|reflexivity].
  - cbn [gen_trustpolicy_validateRegistryScopes_loop1 map scopes_loop flat_map C09_Model.s_scopes].
    rewrite is_empty_len, list_len_gt1, gp_Contains_equiv. unfold wildcard.
    destruct (is_empty (OCITrustPolicy_RegistryScopes s)); [vm_compute; reflexivity|].
    destruct (Nat.ltb 1 (List.length (OCITrustPolicy_RegistryScopes s)) && mem_str "*" (OCITrustPolicy_RegistryScopes s));
      [vm_compute; reflexivity|].
    destruct (scopes_inner_loop (fun m0 => gen_trustpolicy_validateRegistryScopes_loop1 rest m0)
                (OCITrustPolicy_RegistryScopes s) m seen Hc) as [[e [H1 [H2 H3]]]|[H1 [m' [H2 H3]]]].
    + rewrite H1, H2. unfold andthen.
      destruct (scopes_inner (OCITrustPolicy_RegistryScopes s)); try reflexivity. exfalso. apply H3. reflexivity.
    + rewrite H2, H1. cbn [andthen]. rewrite (IH m' _ H3), <- app_assoc. reflexivity.
Qed.

(* the model's statement of a generated one *)
Definition stmt_of_oci (s : trustpolicy_OCITrustPolicy) : stmt :=
  mk_stmt (OCITrustPolicy_Name s) (sigver_of (OCITrustPolicy_SignatureVerification s))
          (OCITrustPolicy_TrustStores s) (OCITrustPolicy_TrustedIdentities s) (OCITrustPolicy_RegistryScopes s) false.

Definition stmt_of_blob (s : trustpolicy_BlobTrustPolicy) : stmt :=
  mk_stmt (BlobTrustPolicy_Name s) (sigver_of (BlobTrustPolicy_SignatureVerification s))
          (BlobTrustPolicy_TrustStores s) (BlobTrustPolicy_TrustedIdentities s) [] (BlobTrustPolicy_GlobalPolicy s).

Definition doc_of_oci (d : trustpolicy_OCIDocument) : doc :=
  mk_doc (OCIDocument_Version d) (map stmt_of_oci (OCIDocument_TrustPolicies d)).

Definition doc_of_blob (d : trustpolicy_BlobDocument) : doc :=
  mk_doc (BlobDocument_Version d) (map stmt_of_blob (BlobDocument_TrustPolicies d)).

Lemma scopes_loop_ext : forall (ss : list trustpolicy_OCITrustPolicy),
  scopes_loop (map (fun s => mk_stmt "" (mk_sv "" [] "") [] [] (OCITrustPolicy_RegistryScopes s) false) ss)
  = scopes_loop (map stmt_of_oci ss).
Proof. induction ss as [|s r IH]; [reflexivity|]. cbn. rewrite IH. reflexivity. Qed.

Lemma gp_validateRegistryScopes_equiv :
  forall d, errc_of (gen_trustpolicy_validateRegistryScopes d) = validate_registry_scopes (d_stmts (doc_of_oci d)).
Proof.
  intros d. unfold gen_trustpolicy_validateRegistryScopes, validate_registry_scopes, doc_of_oci.
  cbn [d_stmts]. rewrite (scopes_outer_loop _ [] []); [|intros k; reflexivity].
  rewrite scopes_loop_ext. cbn [app].
  assert (F : forall ss, flat_map C09_Model.s_scopes (map stmt_of_oci ss) = flat_map OCITrustPolicy_RegistryScopes ss).
  { induction ss as [|s r IH]; [reflexivity|]. cbn. rewrite IH. reflexivity. }
  rewrite F. reflexivity.
Qed.

(* ---------- OCIDocument.Validate ---------- *)

Lemma set_contains_add (pset : list (string * unit)) s x :
  gen_container_Set_Contains_string (gen_container_Set_Add_string pset s) x
  = String.eqb x s || gen_container_Set_Contains_string pset x.
Proof.
  unfold gen_container_Set_Contains_string, gen_container_Set_Add_string, map_get_ok.
  rewrite (map_get_set String.eqb string_eqb_spec').
  destruct (String.eqb x s); reflexivity.
Qed.

Lemma wrapper_class x :
  errc_of (Some (Err "fmt" "oci trust policy: %w" [x])) = errc_of (Some x)
  /\ errc_of (Some (Err "fmt" "blob trust policy: %w" [x])) = errc_of (Some x).
Proof. split; reflexivity. Qed.

Lemma oci_loop_spec parse (Hp : parse_agrees parse) dv : forall ss pset names,
  (forall x, gen_container_Set_Contains_string pset x = mem_str x names) ->
  exists r, gen_trustpolicy_OCIDocument_Validate_loop1 parse dv ss pset = Some r
            /\ errc_of r = (oci_loop (map stmt_of_oci ss) names ;; validate_registry_scopes (d_stmts (doc_of_oci dv))).
Proof.
  induction ss as [|s rest IH]; intros pset names Hn.
  - cbn [gen_trustpolicy_OCIDocument_Validate_loop1 map oci_loop andthen].
    pose proof (gp_validateRegistryScopes_equiv dv) as Hs.
    destruct (gen_trustpolicy_validateRegistryScopes dv) as [e|]; cbn [is_none negb];
      eexists; (split; [reflexivity|]); exact Hs.
  - cbn [gen_trustpolicy_OCIDocument_Validate_loop1 map oci_loop]. rewrite Hn.
    cbn [stmt_of_oci C09_Model.s_name]. destruct (mem_str (OCITrustPolicy_Name s) names); [eexists; split; [reflexivity|vm_compute; reflexivity]|].
    unfold core_of. cbn [stmt_of_oci C09_Model.s_name C09_Model.s_sv C09_Model.s_stores C09_Model.s_ids].
    destruct (gp_validatePolicyCore_equiv parse Hp (OCITrustPolicy_Name s) (OCITrustPolicy_SignatureVerification s)
                (OCITrustPolicy_TrustStores s) (OCITrustPolicy_TrustedIdentities s)) as [r [Hr1 Hr2]].
    rewrite Hr1. rewrite <- Hr2. destruct r as [x|]; cbn [is_none negb olist].
    + eexists; split; [reflexivity|]. rewrite (proj1 (wrapper_class x)).
      pose proof (errc_of_some_not_ok x) as N. unfold andthen.
      destruct (errc_of (Some x)); try reflexivity. exfalso. apply N. reflexivity.
    + cbn [errc_of andthen]. apply IH. intros y. rewrite set_contains_add, Hn. reflexivity.
Qed.

Lemma gp_OCIDocument_Validate_equiv :
  forall parse, parse_agrees parse ->
  forall p, exists r, gen_trustpolicy_OCIDocument_Validate parse p = Some r
                      /\ errc_of r = validate_ptr OCI (option_map doc_of_oci (ptr_val p)).
Proof.
  intros parse Hp p. unfold gen_trustpolicy_OCIDocument_Validate.
  destruct (ptr_val p) as [dv|]; cbn [option_map validate_ptr validate].
  2:{ eexists; split; [reflexivity|vm_compute; reflexivity]. }
  unfold validate_oci, doc_of_oci at 1 2 3. cbn [d_version d_stmts].
  destruct (String.eqb (OCIDocument_Version dv) ""); [eexists; split; [reflexivity|vm_compute; reflexivity]|].
  rewrite gp_Contains_equiv. change trustpolicy_supportedOCIPolicyVersions with supported_versions.
  destruct (mem_str (OCIDocument_Version dv) supported_versions); cbn [negb];
    [|eexists; split; [reflexivity|vm_compute; reflexivity]].
  rewrite is_empty_len.
  assert (He : is_empty (map stmt_of_oci (OCIDocument_TrustPolicies dv)) = is_empty (OCIDocument_TrustPolicies dv))
    by (destruct (OCIDocument_TrustPolicies dv); reflexivity).
  rewrite He. destruct (is_empty (OCIDocument_TrustPolicies dv)); [eexists; split; [reflexivity|vm_compute; reflexivity]|].
  apply (oci_loop_spec parse Hp dv). intros x. reflexivity.
Qed.

(* ---------- BlobDocument.Validate ---------- *)

Lemma blob_loop_spec parse (Hp : parse_agrees parse) : forall ss pset names fg,
  (forall x, gen_container_Set_Contains_string pset x = mem_str x names) ->
  exists r, gen_trustpolicy_BlobDocument_Validate_loop1 parse ss pset fg = Some r
            /\ errc_of r = blob_loop (map stmt_of_blob ss) names fg.
Proof.
  induction ss as [|s rest IH]; intros pset names fg Hn.
  - eexists; split; reflexivity.
  - cbn [gen_trustpolicy_BlobDocument_Validate_loop1 map blob_loop]. rewrite Hn.
    cbn [stmt_of_blob C09_Model.s_name C09_Model.s_global C09_Model.s_sv].
    destruct (mem_str (BlobTrustPolicy_Name s) names); [eexists; split; [reflexivity|vm_compute; reflexivity]|].
    unfold core_of. cbn [stmt_of_blob C09_Model.s_name C09_Model.s_sv C09_Model.s_stores C09_Model.s_ids].
    destruct (gp_validatePolicyCore_equiv parse Hp (BlobTrustPolicy_Name s) (BlobTrustPolicy_SignatureVerification s)
                (BlobTrustPolicy_TrustStores s) (BlobTrustPolicy_TrustedIdentities s)) as [r [Hr1 Hr2]].
    rewrite Hr1. rewrite <- Hr2. destruct r as [x|]; cbn [is_none negb olist].
    + eexists; split; [reflexivity|]. rewrite (proj2 (wrapper_class x)).
      pose proof (errc_of_some_not_ok x) as N. unfold andthen.
      destruct (errc_of (Some x)); try reflexivity. exfalso. apply N. reflexivity.
    + cbn [errc_of andthen]. unfold sigver_of. cbn [C09_Model.sv_level].
      change (VerificationLevel_Name trustpolicy_LevelSkip_v) with "skip". unfold sv_lvl.
      assert (Hn' : forall y, gen_container_Set_Contains_string (gen_container_Set_Add_string pset (BlobTrustPolicy_Name s)) y
                              = mem_str y (BlobTrustPolicy_Name s :: names))
        by (intros y; rewrite set_contains_add, Hn; reflexivity).
      destruct (BlobTrustPolicy_GlobalPolicy s).
      * destruct fg; [eexists; split; [reflexivity|vm_compute; reflexivity]|].
        destruct (String.eqb (SignatureVerification_VerificationLevel (BlobTrustPolicy_SignatureVerification s)) "skip");
          [eexists; split; [reflexivity|vm_compute; reflexivity]|].
        apply IH. exact Hn'.
      * apply IH. exact Hn'.
Qed.

Lemma gp_BlobDocument_Validate_equiv :
  forall parse, parse_agrees parse ->
  forall p, exists r, gen_trustpolicy_BlobDocument_Validate parse p = Some r
                      /\ errc_of r = validate_ptr Blob (option_map doc_of_blob (ptr_val p)).
Proof.
  intros parse Hp p. unfold gen_trustpolicy_BlobDocument_Validate.
  destruct (ptr_val p) as [dv|]; cbn [option_map validate_ptr validate].
  2:{ eexists; split; [reflexivity|vm_compute; reflexivity]. }
  unfold validate_blob, doc_of_blob. cbn [d_version d_stmts].
  destruct (String.eqb (BlobDocument_Version dv) ""); [eexists; split; [reflexivity|vm_compute; reflexivity]|].
  rewrite gp_Contains_equiv. change trustpolicy_supportedBlobPolicyVersions with supported_versions.
  destruct (mem_str (BlobDocument_Version dv) supported_versions); cbn [negb];
    [|eexists; split; [reflexivity|vm_compute; reflexivity]].
  rewrite is_empty_len.
  assert (He : is_empty (map stmt_of_blob (BlobDocument_TrustPolicies dv)) = is_empty (BlobDocument_TrustPolicies dv))
    by (destruct (BlobDocument_TrustPolicies dv); reflexivity).
  rewrite He. destruct (is_empty (BlobDocument_TrustPolicies dv)); [eexists; split; [reflexivity|vm_compute; reflexivity]|].
  apply (blob_loop_spec parse Hp). intros x. reflexivity.
Qed.

(* ---------- the property, transported onto the code as translated ---------- *)

(* Validate returns nil exactly for a non-nil document that obeys every rule
   (C09_ptr_iff of props/C09_Property.v), now a statement about the generated
   functions. The document is read through doc_of_oci / doc_of_blob (override
   maps as the maps they denote). *)
Lemma gp_OCIDocument_Validate_accepts_iff :
  forall parse, parse_agrees parse ->
  forall p, gen_trustpolicy_OCIDocument_Validate parse p = Some None
            <-> exists dv, ptr_val p = Some dv /\ WellFormed OCI (doc_of_oci dv).
Proof.
  intros parse Hp p. destruct (gp_OCIDocument_Validate_equiv parse Hp p) as [r [H1 H2]].
  rewrite H1. transitivity (validate_ptr OCI (option_map doc_of_oci (ptr_val p)) = EOk).
  - rewrite <- H2. destruct r as [x|]; split; intros H; try reflexivity; try discriminate.
    exfalso. exact (errc_of_some_not_ok x H).
  - rewrite ptr_iff. split.
    + intros [d [Hd Hw]]. destruct (ptr_val p) as [dv|]; [|discriminate]. exists dv. split; [reflexivity|].
      cbn in Hd. inversion Hd. subst d. exact Hw.
    + intros [dv [Hd Hw]]. rewrite Hd. exists (doc_of_oci dv). split; [reflexivity|exact Hw].
Qed.

Lemma gp_BlobDocument_Validate_accepts_iff :
  forall parse, parse_agrees parse ->
  forall p, gen_trustpolicy_BlobDocument_Validate parse p = Some None
            <-> exists dv, ptr_val p = Some dv /\ WellFormed Blob (doc_of_blob dv).
Proof.
  intros parse Hp p. destruct (gp_BlobDocument_Validate_equiv parse Hp p) as [r [H1 H2]].
  rewrite H1. transitivity (validate_ptr Blob (option_map doc_of_blob (ptr_val p)) = EOk).
  - rewrite <- H2. destruct r as [x|]; split; intros H; try reflexivity; try discriminate.
    exfalso. exact (errc_of_some_not_ok x H).
  - rewrite ptr_iff. split.
    + intros [d [Hd Hw]]. destruct (ptr_val p) as [dv|]; [|discriminate]. exists dv. split; [reflexivity|].
      cbn in Hd. inversion Hd. subst d. exact Hw.
    + intros [dv [Hd Hw]]. rewrite Hd. exists (doc_of_blob dv). split; [reflexivity|exact Hw].
Qed.

(* ====================================================================== *)
(* Corollaries: what the generated functions guarantee                     *)
(* ====================================================================== *)

(* ---------- the verifyTimestamp option check inside validatePolicyCore ----------
   Direct characterisation, for EVERY oracle (no hypothesis about the parser):
   a statement that passes has a known option; an unknown option on a named
   statement whose level is accepted is rejected with the timestamp error. *)

Definition ts_known (ts : string) : Prop := ts = "" \/ ts = "always" \/ ts = "afterCertExpiry".

Lemma gp_validatePolicyCore_timestamp_accepted :
  forall parse name sv stores ids,
    gen_trustpolicy_validatePolicyCore parse name sv stores ids = Some None ->
    ts_known (SignatureVerification_VerifyTimestamp sv).
Proof.
  intros parse name sv stores ids. unfold gen_trustpolicy_validatePolicyCore, ts_known.
  destruct (String.eqb name ""); [discriminate|].
  destruct (gen_trustpolicy_SignatureVerification_GetVerificationLevel sv) as [[p e]|]; [|discriminate].
  destruct (negb (is_none e)); [discriminate|]. cbv zeta.
  set (ts := SignatureVerification_VerifyTimestamp sv).
  destruct (String.eqb ts "") eqn:E1; [apply String.eqb_eq in E1; auto|].
  destruct (String.eqb ts "always") eqn:E2; [apply String.eqb_eq in E2; auto|].
  destruct (String.eqb ts "afterCertExpiry") eqn:E3; [apply String.eqb_eq in E3; auto|].
  cbn [negb andb orb]. discriminate.
Qed.

Lemma gp_validatePolicyCore_timestamp_rejected :
  forall parse name sv stores ids p,
    name <> "" ->
    gen_trustpolicy_SignatureVerification_GetVerificationLevel sv = Some (p, None) ->
    ~ ts_known (SignatureVerification_VerifyTimestamp sv) ->
    exists e, gen_trustpolicy_validatePolicyCore parse name sv stores ids = Some (Some e)
              /\ errc_of (Some e) = ETimestamp.
Proof.
  intros parse name sv stores ids p Hn Hl Hts. unfold gen_trustpolicy_validatePolicyCore.
  destruct (String.eqb name "") eqn:En; [apply String.eqb_eq in En; contradiction|].
  rewrite Hl. cbn [is_none negb]. unfold ts_known in Hts. cbv zeta.
  set (ts := SignatureVerification_VerifyTimestamp sv) in *.
  destruct (String.eqb ts "") eqn:E1; [apply String.eqb_eq in E1; tauto|].
  destruct (String.eqb ts "always") eqn:E2; [apply String.eqb_eq in E2; tauto|].
  destruct (String.eqb ts "afterCertExpiry") eqn:E3; [apply String.eqb_eq in E3; tauto|].
  cbn [negb andb orb]. eexists; split; [reflexivity|vm_compute; reflexivity].
Qed.

(* ---------- GetVerificationLevel and the 24 enforcement maps (C02_Levels) ---------- *)

Lemma level_of_ext a b : (forall k, lookup k a = lookup k b) -> level_of a = level_of b.
Proof. intros H. unfold level_of, enf_action, lookup_default. rewrite !H. reflexivity. Qed.

(* a level the generated function returns: the shared skip level (only without
   override), or integrity enforced and one of the 24 maps of C02 *)
Definition gen_level_sound (sv : trustpolicy_SignatureVerification) (l : trustpolicy_VerificationLevel) : Prop :=
  (sv_lvl sv = "skip" /\ sv_ov sv = [] /\ VerificationLevel_Name l = "skip")
  \/ (In (sv_lvl sv) base_names
      /\ map_get String.eqb "integrity" (VerificationLevel_Enforcement l) = Some "enforce"
      /\ In (level_of (VerificationLevel_Enforcement l)) all_24).

Lemma gp_GetVerificationLevel_sound :
  forall sv p,
    gen_trustpolicy_SignatureVerification_GetVerificationLevel sv = Some (p, None) ->
    exists l, ptr_val p = Some l /\ gen_level_sound sv l.
Proof.
  intros sv p H. pose proof (gp_GetVerificationLevel_equiv sv) as HL.
  destruct (get_level (sv_lvl sv) (sv_ov sv)) as [e|[n enf]] eqn:G.
  - destruct HL as [x [Hx _]]. rewrite H in Hx. discriminate.
  - destruct HL as [p' [Hg [l [Hl1 [Hl2 Hl3]]]]]. rewrite H in Hg. injection Hg as <-.
    exists l. split; [exact Hl1|]. unfold gen_level_sound.
    destruct (String.eqb (sv_lvl sv) "skip") eqn:Es.
    + left. apply String.eqb_eq in Es. rewrite Es in G.
      pose proof (C02_Core.get_level_skip _ _ _ G) as Hov. rewrite Hov in G.
      vm_compute in G. injection G as <- _. auto.
    + right. apply String.eqb_neq in Es.
      destruct (C02_Core.get_level_sound _ _ _ _ Es G) as [Hb [_ [Hi H24]]].
      split; [exact Hb|]. split.
      * rewrite Hl3. unfold lookup_default in Hi. destruct (lookup "integrity" enf); [subst; reflexivity|discriminate].
      * rewrite (level_of_ext _ enf); [exact H24|]. intros k. rewrite <- map_get_lookup. apply Hl3.
Qed.

Lemma legal_overrides_unique : forallb unique_keys all_legal_overrides = true.
Proof. vm_compute. reflexivity. Qed.

(* every one of the 24 maps is returned by the generated function for some
   statement with a named base level *)
Lemma gp_GetVerificationLevel_all_24 :
  forall lv, In lv all_24 ->
    exists sv p l, gen_trustpolicy_SignatureVerification_GetVerificationLevel sv = Some (p, None)
                   /\ ptr_val p = Some l /\ In (sv_lvl sv) base_names
                   /\ level_of (VerificationLevel_Enforcement l) = lv.
Proof.
  intros lv H. apply C02_Core.reachable_iff in H. unfold reachable_levels in H.
  apply in_flat_map in H. destruct H as [n [Hn H]].
  apply in_flat_map in H. destruct H as [ov [Hov H]].
  destruct (get_level n ov) as [e|[nm enf]] eqn:G; [destruct H|].
  destruct H as [H|[]]. subst lv.
  set (sv := mk_SignatureVerification n ov "").
  assert (Hu : sv_ov sv = ov).
  { apply (gp_override_entries_unique sv). cbn.
    exact (proj1 (forallb_forall _ _) legal_overrides_unique ov Hov). }
  pose proof (gp_GetVerificationLevel_equiv sv) as HL. rewrite Hu in HL.
  change (sv_lvl sv) with n in HL. rewrite G in HL.
  destruct HL as [p [Hg [l [Hl1 [Hl2 Hl3]]]]].
  exists sv, p, l. split; [exact Hg|]. split; [exact Hl1|]. split; [exact Hn|].
  apply level_of_ext. intros k. rewrite <- map_get_lookup. apply Hl3.
Qed.

(* ---------- accepted documents: what every statement guarantees ---------- *)

(* the generated GetVerificationLevel succeeds on the statement and the level
   enforces integrity, unless the statement is skip *)
Definition gen_yields_integrity (sv : trustpolicy_SignatureVerification) : Prop :=
  exists p l, gen_trustpolicy_SignatureVerification_GetVerificationLevel sv = Some (p, None)
              /\ ptr_val p = Some l
              /\ (sv_lvl sv = "skip"
                  \/ map_get String.eqb "integrity" (VerificationLevel_Enforcement l) = Some "enforce").

(* type:name with a type of truststore.Types and a name that is a single safe path component *)
Definition gen_store_safe (st : string) : Prop :=
  exists ty nm, st = (ty ++ ":" ++ nm)%string /\ In ty truststore_Types /\ SafeComponent nm.

Lemma yields_transport sv :
  YieldsIntegrity (mk_stmt "" (sigver_of sv) [] [] [] false) -> gen_yields_integrity sv.
Proof.
  intros [n [enf [G Hi]]]. cbn in G, Hi.
  pose proof (gp_GetVerificationLevel_equiv sv) as HL. rewrite G in HL.
  destruct HL as [p [Hg [l [Hl1 [Hl2 Hl3]]]]]. exists p, l. split; [exact Hg|]. split; [exact Hl1|].
  destruct Hi as [Hi|Hi]; [left; exact Hi|right; rewrite Hl3; exact Hi].
Qed.

Lemma yields_any_stmt s sv : s_sv s = sigver_of sv -> YieldsIntegrity s -> gen_yields_integrity sv.
Proof.
  intros E [n [enf [G Hi]]]. apply yields_transport. exists n, enf. rewrite E in G, Hi. exact (conj G Hi).
Qed.

Definition gen_stmt_ok (sv : trustpolicy_SignatureVerification) (stores : list string) : Prop :=
  gen_yields_integrity sv
  /\ ts_known (SignatureVerification_VerifyTimestamp sv)
  /\ Forall gen_store_safe stores.

Lemma accepted_stmt k d s sv :
  validate k d = EOk -> In s (d_stmts d) -> s_sv s = sigver_of sv ->
  gen_stmt_ok sv (s_stores s).
Proof.
  intros Hv Hs E. split; [|split].
  - pose proof (integrity k d Hv) as HI. rewrite Forall_forall in HI. exact (yields_any_stmt s sv E (HI s Hs)).
  - pose proof (proj1 (validate_iff k d) Hv) as [_ [_ [_ [HS _]]]].
    rewrite Forall_forall in HS. destruct (HS s Hs) as [_ [_ [Ht _]]].
    rewrite E in Ht. unfold TimestampOK, sigver_of in Ht. cbn in Ht. exact Ht.
  - apply Forall_forall. intros st Hst.
    destruct (names_safe k d s st Hv Hs Hst) as [ty [nm [H1 [H2 H3]]]].
    exists ty, nm. rewrite gp_store_types_pinned. auto.
Qed.

Lemma gp_OCIDocument_accepted_statements :
  forall parse, parse_agrees parse ->
  forall p dv, ptr_val p = Some dv ->
    gen_trustpolicy_OCIDocument_Validate parse p = Some None ->
    Forall (fun s => gen_stmt_ok (OCITrustPolicy_SignatureVerification s) (OCITrustPolicy_TrustStores s))
           (OCIDocument_TrustPolicies dv).
Proof.
  intros parse Hp p dv Hd H. apply (gp_OCIDocument_Validate_accepts_iff parse Hp) in H.
  destruct H as [dv' [Hd' Hw]]. rewrite Hd in Hd'. injection Hd' as <-.
  apply (validate_iff OCI) in Hw. apply Forall_forall. intros s Hs.
  apply (accepted_stmt OCI (doc_of_oci dv) (stmt_of_oci s)); [exact Hw| |reflexivity].
  unfold doc_of_oci. cbn [d_stmts]. apply in_map. exact Hs.
Qed.

Lemma gp_BlobDocument_accepted_statements :
  forall parse, parse_agrees parse ->
  forall p dv, ptr_val p = Some dv ->
    gen_trustpolicy_BlobDocument_Validate parse p = Some None ->
    Forall (fun s => gen_stmt_ok (BlobTrustPolicy_SignatureVerification s) (BlobTrustPolicy_TrustStores s))
           (BlobDocument_TrustPolicies dv).
Proof.
  intros parse Hp p dv Hd H. apply (gp_BlobDocument_Validate_accepts_iff parse Hp) in H.
  destruct H as [dv' [Hd' Hw]]. rewrite Hd in Hd'. injection Hd' as <-.
  apply (validate_iff Blob) in Hw. apply Forall_forall. intros s Hs.
  apply (accepted_stmt Blob (doc_of_blob dv) (stmt_of_blob s)); [exact Hw| |reflexivity].
  unfold doc_of_blob. cbn [d_stmts]. apply in_map. exact Hs.
Qed.

(* the document-level rules of blob.go: at most one global statement, and it is not skip *)
Lemma gp_BlobDocument_accepted_global :
  forall parse, parse_agrees parse ->
  forall p dv, ptr_val p = Some dv ->
    gen_trustpolicy_BlobDocument_Validate parse p = Some None ->
    (forall i j s t, nth_error (BlobDocument_TrustPolicies dv) i = Some s ->
                     nth_error (BlobDocument_TrustPolicies dv) j = Some t ->
                     BlobTrustPolicy_GlobalPolicy s = true -> BlobTrustPolicy_GlobalPolicy t = true -> i = j)
    /\ Forall (fun s => BlobTrustPolicy_GlobalPolicy s = true ->
                        SignatureVerification_VerificationLevel (BlobTrustPolicy_SignatureVerification s) <> "skip")
              (BlobDocument_TrustPolicies dv).
Proof.
  intros parse Hp p dv Hd H. apply (gp_BlobDocument_Validate_accepts_iff parse Hp) in H.
  destruct H as [dv' [Hd' Hw]]. rewrite Hd in Hd'. injection Hd' as <-.
  destruct Hw as [_ [_ [_ [_ [H1 H2]]]]]. unfold doc_of_blob in H1, H2. cbn [d_stmts] in H1, H2. split.
  - intros i j s t Hi Hj Hs Ht.
    apply (H1 i j (stmt_of_blob s) (stmt_of_blob t)); try (apply map_nth_error; assumption); assumption.
  - apply Forall_forall. intros s Hs. rewrite Forall_forall in H2.
    exact (H2 (stmt_of_blob s) (in_map stmt_of_blob _ s Hs)).
Qed.

(* ---------- the constructors ----------
   verifier.NewVerifierWithOptions is outside the GoLite subset (interface nil
   test, verifier/verifier.go:150); its model [new_verifier] (nil checks, then the
   two Validate calls) succeeds exactly when a document is given and the
   GENERATED Validate returns nil on every document given. *)
Lemma gp_constructor_glue :
  forall parse, parse_agrees parse ->
  forall po pb,
    new_verifier (option_map doc_of_oci (ptr_val po)) (option_map doc_of_blob (ptr_val pb)) = EOk
    <-> (ptr_val po <> None \/ ptr_val pb <> None)
        /\ (ptr_val po <> None -> gen_trustpolicy_OCIDocument_Validate parse po = Some None)
        /\ (ptr_val pb <> None -> gen_trustpolicy_BlobDocument_Validate parse pb = Some None).
Proof.
  intros parse Hp po pb.
  rewrite forced, (gp_OCIDocument_Validate_accepts_iff parse Hp po), (gp_BlobDocument_Validate_accepts_iff parse Hp pb).
  assert (Y : forall A B (f : A -> B) (o : option A), option_map f o <> None <-> o <> None).
  { intros A B f o. destruct o; cbn; split; intros H; try discriminate; exfalso; apply H; reflexivity. }
  rewrite !Y.
  assert (Z : forall A B (f : A -> B) (o : option A) (P : B -> Prop),
             (forall d, option_map f o = Some d -> P d) <-> (o <> None -> exists dv, o = Some dv /\ P (f dv))).
  { intros A B f o P. destruct o as [a|]; cbn; split.
    - intros H _. exists a. split; [reflexivity|apply H; reflexivity].
    - intros H d E. injection E as <-. destruct (H ltac:(discriminate)) as [dv [E W]]. injection E as <-. exact W.
    - intros _ N. exfalso. apply N. reflexivity.
    - intros _ d E. discriminate E. }
  rewrite !Z. reflexivity.
Qed.

(* ---------- non-vacuity ---------- *)

(* the model of ParseDistinguishedName packaged as an oracle: [parse_agrees] is satisfiable *)
Definition model_parse (v : string) : list (string * string) * option err :=
  match parse_distinguished_name v with
  | DOk m => (m, None)
  | DErr _ => ([], Some (Err "fmt" "distinguished name (DN) %q is not valid" []))
  end.

Lemma model_parse_agrees : parse_agrees model_parse.
Proof.
  intros v. unfold model_parse.
  destruct (parse_distinguished_name v); [reflexivity|eexists; eexists; reflexivity].
Qed.

(* a document the generated Validate accepts (the example of C09_Property.v as generated records) *)
Definition ex_gen_oci : trustpolicy_OCIDocument :=
  mk_OCIDocument "1.0"
    [ mk_OCITrustPolicy "wabbit-networks-images"
        (mk_SignatureVerification "strict" [("revocation", "skip")] "afterCertExpiry")
        ["ca:valid-trust-store"; "signingAuthority:valid-trust-store"]
        ["x509.subject:C=US, ST=WA, O=wabbit-network.io, OU=org1"; "x509.subject:C=US,S=CA,O=acme"]
        ["registry.acme-rockets.io/software/net-monitor"; "localhost:5000/a"];
      mk_OCITrustPolicy "unsigned" (mk_SignatureVerification "skip" [] "") [] []
        ["registry.acme-rockets.io/software/unsigned"];
      mk_OCITrustPolicy "rest" (mk_SignatureVerification "audit" [] "") ["ca:a"] ["*"] ["*"] ].

Definition ex_gen_blob_global_skip : trustpolicy_BlobDocument :=
  mk_BlobDocument "1.0"
    [ mk_BlobTrustPolicy "a" (mk_SignatureVerification "strict" [] "") ["ca:s"] ["*"] false;
      mk_BlobTrustPolicy "g" (mk_SignatureVerification "skip" [] "") [] [] true ].

Lemma gen_examples :
  gen_trustpolicy_OCIDocument_Validate model_parse (PNew ex_gen_oci) = Some None
  /\ errc_of_opt (gen_trustpolicy_BlobDocument_Validate model_parse (PNew ex_gen_blob_global_skip)) = Some EGlobalSkip
  /\ errc_of_opt (gen_trustpolicy_OCIDocument_Validate model_parse PNil) = Some ENil.
Proof. repeat split; vm_compute; reflexivity. Qed.
