(* C09_Spec.v — the rules of the property text as a declarative predicate
   (definitions only). [WellFormed k d] is a conjunction with one clause per
   rule, written with In / Forall / NoDup / equations; the only computed
   notions it mentions are the leaf predicates of the specification itself:
   the three regular expressions of Generated.v ([matches]), the
   distinguished-name parser and inclusion of C04_DN, [cut_byte] (strings.Cut)
   and [dn_maps] (the parsed x509.subject identities of a statement, in order). *)
From NV Require Import Base Regex Generated C02_Levels C04_DN C09_Model.
Open Scope string_scope.
Open Scope list_scope.

(* --- signatureVerification --- *)

(* an override entry: known type, known action, never integrity, skip only for revocation *)
Definition OverrideEntryOK (kv : string * string) : Prop :=
  In (fst kv) gen_validation_types /\ In (snd kv) gen_validation_actions
  /\ fst kv <> "integrity"
  /\ (snd kv = "skip" -> fst kv = "revocation").

(* a known level; overrides only on non-skip levels *)
Definition LevelOK (sv : sigver) : Prop :=
  In (sv_level sv) (map fst gen_levels)
  /\ (sv_override sv <> [] ->
      sv_level sv <> "skip" /\ Forall OverrideEntryOK (sv_override sv)).

Definition TimestampOK (sv : sigver) : Prop :=
  sv_ts sv = "" \/ sv_ts sv = gen_option_always \/ sv_ts sv = gen_option_after_cert_expiry.

(* --- trust stores --- *)

Definition FileNameSafe (nm : string) : Prop :=
  nm <> "." /\ nm <> ".." /\ matches gen_re_filename nm = true.

(* type:name, split at the first colon *)
Definition StoreOK (st : string) : Prop :=
  exists ty nm, cut_byte ":" st = Some (ty, nm) /\ In ty gen_store_types /\ FileNameSafe nm.

(* --- trusted identities --- *)

Definition IdentityOK (id : string) : Prop :=
  id <> ""
  /\ (id = wildcard
      \/ exists p v, cut_byte ":" id = Some (p, v)
           /\ (p = x509_subject -> v <> "" /\ exists m, parse_distinguished_name v = DOk m)).

(* no identity is included in another one *)
Definition NoOverlap (dns : list amap) : Prop :=
  forall i j a b, i <> j -> nth_error dns i = Some a -> nth_error dns j = Some b ->
    is_subset_dn a b = false.

(* the wildcard stands alone *)
Definition LoneWildcard (l : list string) : Prop := In wildcard l -> l = [wildcard].

(* --- one statement --- *)

Definition StmtOK (s : stmt) : Prop :=
  s_name s <> ""
  /\ LevelOK (s_sv s)
  /\ TimestampOK (s_sv s)
  /\ (sv_level (s_sv s) = "skip" -> s_stores s = [] /\ s_ids s = [])
  /\ (sv_level (s_sv s) <> "skip" ->
      s_stores s <> [] /\ s_ids s <> []
      /\ Forall StoreOK (s_stores s)
      /\ LoneWildcard (s_ids s) /\ Forall IdentityOK (s_ids s)
      /\ NoOverlap (dn_maps (s_ids s))).

(* --- registry scopes --- *)

Definition ScopeOK (sc : string) : Prop :=
  sc = wildcard
  \/ (contains_byte "*" sc = false
      /\ exists d r, cut_byte "/" sc = Some (d, r) /\ d <> "" /\ r <> ""
           /\ matches gen_re_domain d = true /\ matches gen_re_repository r = true).

Definition StmtScopesOK (s : stmt) : Prop :=
  s_scopes s <> [] /\ LoneWildcard (s_scopes s) /\ Forall ScopeOK (s_scopes s).

(* --- documents --- *)

Definition AtMostOneGlobal (ss : list stmt) : Prop :=
  forall i j s t, nth_error ss i = Some s -> nth_error ss j = Some t ->
    s_global s = true -> s_global t = true -> i = j.

Definition WellFormed (k : kind) (d : doc) : Prop :=
  In (d_version d) supported_versions
  /\ d_stmts d <> []
  /\ NoDup (map s_name (d_stmts d))
  /\ Forall StmtOK (d_stmts d)
  /\ match k with
     | OCI =>
         Forall StmtScopesOK (d_stmts d)
         (* every scope string occurs once in the whole document *)
         /\ NoDup (flat_map s_scopes (d_stmts d))
     | Blob =>
         AtMostOneGlobal (d_stmts d)
         /\ Forall (fun s => s_global s = true -> sv_level (s_sv s) <> "skip") (d_stmts d)
     end.

(* --- what an accepted statement yields --- *)

(* GetVerificationLevel succeeds and the level enforces integrity, unless the
   statement is skip (then it is the skip level) *)
Definition YieldsIntegrity (s : stmt) : Prop :=
  exists n enf, get_level (sv_level (s_sv s)) (sv_override (s_sv s)) = inr (n, enf)
    /\ (sv_level (s_sv s) = "skip" \/ lookup "integrity" enf = Some "enforce").

(* a byte of a file name: [a-zA-Z0-9_.-] *)
Definition fn_byte (c : N) : Prop :=
  (48 <= c <= 57 \/ 65 <= c <= 90 \/ 97 <= c <= 122 \/ c = 95 \/ c = 45 \/ c = 46)%N.

(* a single path component other than "." and "..": non-empty, over the file
   name alphabet (so no '/', no '\', no NUL) *)
Definition SafeComponent (nm : string) : Prop :=
  nm <> "" /\ nm <> "." /\ nm <> ".." /\ Forall fn_byte (bytes nm).

(* --- the rules in code order, each as a check of its own --- *)

Fixpoint first_error (l : list errc) : errc :=
  match l with [] => EOk | e :: r => e ;; first_error r end.

Definition name_rule (s : stmt) : errc := if String.eqb (s_name s) "" then ENameEmpty else EOk.

Definition level_rule (s : stmt) : errc :=
  match get_level (sv_level (s_sv s)) (sv_override (s_sv s)) with
  | inl e => level_errc e
  | inr _ => EOk
  end.

Definition ts_rule (s : stmt) : errc := if ts_ok (sv_ts (s_sv s)) then EOk else ETimestamp.

Definition is_skip (s : stmt) : bool := String.eqb (sv_level (s_sv s)) "skip".

Definition presence_rule (s : stmt) : errc :=
  if is_skip s then
    (if negb (is_empty (s_stores s)) || negb (is_empty (s_ids s)) then ESkipWithStores else EOk)
  else if is_empty (s_stores s) || is_empty (s_ids s) then EMissingStoresOrIds else EOk.

Definition stores_rule (s : stmt) : errc := if is_skip s then EOk else validate_trust_store (s_stores s).
Definition ids_rule (s : stmt) : errc := if is_skip s then EOk else validate_trusted_identities (s_ids s).

Definition stmt_rules (s : stmt) : list errc :=
  [name_rule s; level_rule s; ts_rule s; presence_rule s; stores_rule s; ids_rule s].

Definition dup_rule (seen : list string) (s : stmt) : errc :=
  if mem_str (s_name s) seen then EDupName else EOk.

Definition version_rules (d : doc) : list errc :=
  [ (if String.eqb (d_version d) "" then EVersionEmpty else EOk);
    (if mem_str (d_version d) supported_versions then EOk else EVersionUnsupported);
    (if is_empty (d_stmts d) then ENoStatements else EOk) ].

(* OCI: the statement loop ... *)
Fixpoint oci_stmt_rules (ss : list stmt) (seen : list string) : list errc :=
  match ss with
  | [] => []
  | s :: r => dup_rule seen s :: stmt_rules s ++ oci_stmt_rules r (s_name s :: seen)
  end.

(* ... then the scope loop, then the count map *)
Definition scope_rules (s : stmt) : list errc :=
  [ (if is_empty (s_scopes s) then EScopesZero else EOk);
    (if Nat.ltb 1 (List.length (s_scopes s)) && mem_str wildcard (s_scopes s)
     then EScopeWildcardMixed else EOk) ]
  ++ map (fun sc => if String.eqb sc wildcard then EOk else validate_scope_format sc) (s_scopes s).

Definition oci_rules (d : doc) : list errc :=
  version_rules d ++ oci_stmt_rules (d_stmts d) [] ++ flat_map scope_rules (d_stmts d)
  ++ [if has_dup (flat_map s_scopes (d_stmts d)) then EScopeDup else EOk].

(* blob: the statement loop with the two global rules *)
Fixpoint blob_stmt_rules (ss : list stmt) (seen : list string) (found_global : bool) : list errc :=
  match ss with
  | [] => []
  | s :: r =>
      dup_rule seen s :: stmt_rules s
      ++ [ (if s_global s && found_global then EGlobalMulti else EOk);
           (if s_global s && is_skip s then EGlobalSkip else EOk) ]
      ++ blob_stmt_rules r (s_name s :: seen) (found_global || s_global s)
  end.

Definition blob_rules (d : doc) : list errc :=
  version_rules d ++ blob_stmt_rules (d_stmts d) [] false.

(* --- pinned behaviour of the three regular expressions of Generated.v ---
   The regular expressions define "file-name-safe" and "valid repository
   path"; these lists pin what they must accept and reject, so that an edit of
   a regular expression in the source that changes the verdict on any of these
   strings breaks theorem C09_pinned_strings. *)
Definition pinned_good_scopes : list string :=
  ["*"; "registry.acme-rockets.io/software/net-monitor"; "localhost:5000/a"; "a/b"; "example.com/a/b_c";
   "10.0.0.1:80/x"; "reg.io/a__b"; "reg.io/a-b"; "reg.io/a.b"; "reg.io/a---b"; "Reg-1.IO/x/y/z"; "r/0";
   "local/oci"; "ghcr.io/o/r"].
Definition pinned_bad_scopes : list string :=
  [""; "noslash"; "/repo"; "domain/"; "domain.com/Repo"; "dom_ain/repo"; "reg.io/a:tag"; "reg.io/a@sha256:x";
   "reg.io//a"; "reg.io/a/"; "-dom/a"; "dom-/a"; "reg.io/a..b"; "reg.io/a_.b"; "https://reg.io/a";
   "reg.io:port/a"; "reg.io:/a"; "reg.io/a b"; "reg..io/a"; "reg.io/a___b"; "reg.io/-a"; "reg.io/a-";
   "reg.io/*"; "*/*"; "**"; "*/a"; "reg.io/a*"; "* "; " a/b"; "a/b "; "a/B"; ".a/b"; "a./b"; "a/.b"; "a/b."].
Definition pinned_good_names : list string :=
  ["valid-ts"; "store_1"; "a"; "A.b-c_d"; "..."; "-"; "_"; "0"; ".a"; "a."; "..a"; "acme-rockets"].
Definition pinned_bad_names : list string :=
  ["."; ".."; ""; "a/b"; "../x"; "a b"; "a:b"; "a\b"; "a*"; "/"; "./a"; "a/.."; " a"; "a "; "a~"; "a+b"; "a,b"; "a@b"].

(* ====================================================================== *)
(* Audit additions: the clauses of the property text spelled out further   *)
(* ====================================================================== *)

(* --- "x509.subject identities parse, contain C, ST and O" ---
   pkix.ParseDistinguishedName accepts exactly: no "=#", go-ldap's ParseDN
   succeeds, every RDN single-valued and no attribute type twice ([add_rdns]),
   and C, ST and O present with a non-empty value. *)
Definition MandatoryPresent (m : amap) : Prop :=
  lookup_default "C" m <> "" /\ lookup_default "ST" m <> "" /\ lookup_default "O" m <> "".

Definition DNAccepted (v : string) (m : amap) : Prop :=
  has_eqhash (list_ascii_of_string v) = false
  /\ exists rdns, parse_dn v = POk rdns /\ add_rdns rdns [] = DOk m /\ MandatoryPresent m.

(* [IdentityOK] with the mandatory attributes visible *)
Definition IdentityExplicit (id : string) : Prop :=
  id <> ""
  /\ (id = wildcard
      \/ exists p v, cut_byte ":" id = Some (p, v)
           /\ (p = x509_subject -> v <> "" /\ exists m, DNAccepted v m)).

(* --- "and do not overlap" ---
   a is within b: every attribute of a occurs in b with the same value *)
Definition Within (a b : amap) : Prop := forall k v, lookup k a = Some v -> lookup k b = Some v.

(* stated on the identities of the statement themselves (positions in
   trustedIdentities), not on the list of parsed maps *)
Definition IdentitiesDisjoint (ids : list string) : Prop :=
  forall i j idi idj vi vj mi mj, i <> j ->
    nth_error ids i = Some idi -> nth_error ids j = Some idj ->
    x509_value idi = Some vi -> x509_value idj = Some vj ->
    parse_distinguished_name vi = DOk mi -> parse_distinguished_name vj = DOk mj ->
    ~ Within mi mj.

(* --- "every scope ... used by at most one statement", read literally ---
   no scope string occurs in two different statements (positions) *)
Definition ScopesOneStatement (ss : list stmt) : Prop :=
  forall i j s t sc, nth_error ss i = Some s -> nth_error ss j = Some t ->
    In sc (s_scopes s) -> In sc (s_scopes t) -> i = j.

(* the rules of an OCI document with that literal reading in place of
   "every scope string occurs once in the whole document" *)
Definition WellFormedLiteralOCI (d : doc) : Prop :=
  In (d_version d) supported_versions
  /\ d_stmts d <> []
  /\ NoDup (map s_name (d_stmts d))
  /\ Forall StmtOK (d_stmts d)
  /\ Forall StmtScopesOK (d_stmts d)
  /\ ScopesOneStatement (d_stmts d).

(* --- construction of a verifier --- *)

(* the blob document a constructor can be given: New has no such parameter *)
Definition blob_given (c : ctor) (blob : option doc) : option doc :=
  match c with CtorNew => None | _ => blob end.
