(* C03_GenProofs.v — the GoLite translations of the functions of /repo that C03 depends on
   (theories/C03_Gen.v, regenerated from /repo by `vh-gen` on every run, docs/GOLITE.md)
   against the hand-written C03 model (C03_Model.v), and the theorems of C03_Property.v /
   C03_WithC08.v transported onto them. props/C03_Generated.v states the theorems and closes
   each with [exact].

   Part A  loadX509TrustStoresWithType / loadX509TrustStores / loadX509TSATrustStores /
           isTSATrustStoreInPolicy = the model's [load] / [store_type_of] / [tsa_in_policy];
           the trust store (interface truststore.X509TrustStore) is a FUNCTION parameter of the
           generated code, certificates are an opaque type instantiated with the model's
           certificate identities (N).
   Part B  the same for EVERY trust store function (no hypothesis about the oracle): the
           model's trust store is built from the answers of the function at the listed stores;
           soundness, load errors, non-interference transported from C03_Proofs.
   Part C  isCriticalFailure = the model's stop condition.
   Part D  getArtifactPathFromReference, OCIDocument.GetApplicableTrustPolicy,
           BlobDocument.GetApplicableTrustPolicy / GetGlobalTrustPolicy = the model's [select]
           (on the rendering of C03_WithC08 for blob documents), composed with the loading.
   Part E  verifyX509TrustedIdentities: the wildcard identity never fails; a nil result has a
           witness (skeleton; the DN comparison is C04's). *)
From Coq Require Import List Bool String Ascii NArith ZArith Lia.
From NV Require Import Base GoLib C03_Model C03_Proofs C03_Audit C03_WithC08 C03_Gen.
Import ListNotations.
Local Open Scope string_scope.
Local Open Scope list_scope.

(* ================================================================== *)
(* Part A — the loading loop against the model                         *)

Definition tstore := string -> string -> list N * option err.

(* the injected trust store answers like the model's file system *)
Definition store_agrees (store : tstore) (fs : fsys) : Prop :=
  forall ty name,
    match fs_get fs ty name with
    | Certs l => store ty name = (l, None)
    | LoadError => exists cs e, store ty name = (cs, Some e)
    end.

(* ... at the stores of type [ty] that [stores] lists (all the loop can ask for) *)
Definition store_agrees_on (store : tstore) (fs : fsys) (ty : string) (stores : list string) : Prop :=
  forall s name, In s stores -> cut_byte colon s = Some (ty, name) ->
    match fs_get fs ty name with
    | Certs l => store ty name = (l, None)
    | LoadError => exists cs e, store ty name = (cs, Some e)
    end.

Lemma store_agrees_everywhere store fs ty stores : store_agrees store fs -> store_agrees_on store fs ty stores.
Proof. intros H s name _ _. apply H. Qed.

Definition format_err : err :=
  Err "truststore.TrustStoreError"
      "error while loading the trust store, trust policy statement %q is missing separator in trust store value %q. The required format is <TrustStoreType>:<TrustStoreName>" [].

(* what the generated function returns for a verdict of the model *)
Definition load_rel (store : tstore) (acc : list N) (m : lres) (g : list N * option err) : Prop :=
  match m with
  | LOk cs => g = (acc ++ cs, None)
  | LErrFormat _ => g = ([], Some format_err)
  | LErrLoad ty name => exists cs e, store ty name = (cs, Some e) /\ g = ([], Some e)
  end.

Lemma set_contains_add (pset : list (string * unit)) s x :
  gen_container_Set_Contains_string (gen_container_Set_Add_string pset s) x
  = String.eqb x s || gen_container_Set_Contains_string pset x.
Proof.
  unfold gen_container_Set_Contains_string, gen_container_Set_Add_string, map_get_ok.
  rewrite (map_get_set String.eqb string_eqb_spec').
  destruct (String.eqb x s); [reflexivity|]. cbn [orb]. reflexivity.
Qed.

Lemma load_loop_on store fs ty : forall stores pset proc acc,
  store_agrees_on store fs ty stores ->
  (forall x, gen_container_Set_Contains_string pset x = mem_str x proc) ->
  load_rel store acc (fst (load fs ty stores proc))
           (gen_verifier_loadX509TrustStoresWithType_loop1 N ty store stores pset acc).
Proof.
  induction stores as [|s rest IH]; intros pset proc acc Hs Hp.
  - cbn. rewrite app_nil_r. reflexivity.
  - assert (Hr : store_agrees_on store fs ty rest) by (intros s0 n0 Hin; apply Hs; now right).
    cbn [load gen_verifier_loadX509TrustStoresWithType_loop1]. rewrite Hp.
    destruct (mem_str s proc); [apply IH; assumption|].
    pose proof (Hs s) as Hg. revert Hg.
    unfold colon. rewrite str_cut_byte.
    destruct (cut_byte ":" s) as [[sty name]|]; intros Hg; [|reflexivity].
    cbn [negb]. destruct (String.eqb ty sty) eqn:Ety; cbn [negb]; [|apply IH; assumption].
    apply String.eqb_eq in Ety. subst sty.
    specialize (Hg name (or_introl eq_refl) eq_refl). destruct (fs_get fs ty name) as [l|].
    + rewrite Hg. cbn [is_none negb fst].
      specialize (IH (gen_container_Set_Add_string pset s) (s :: proc) (acc ++ l) Hr).
      assert (Hp' : forall x, gen_container_Set_Contains_string (gen_container_Set_Add_string pset s) x = mem_str x (s :: proc)).
      { intros x. rewrite set_contains_add, Hp. reflexivity. }
      specialize (IH Hp').
      destruct (fst (load fs ty rest (s :: proc))) as [cs|ty' n'|f]; cbn [load_rel] in *.
      * rewrite IH, <- app_assoc. reflexivity.
      * exact IH.
      * exact IH.
    + destruct Hg as [cs [e Hg]]. rewrite Hg. cbn [is_none negb fst load_rel].
      exists cs, e. split; [exact Hg|reflexivity].
Qed.

Lemma load_with_type_on store fs ty policy stores :
  store_agrees_on store fs ty stores ->
  load_rel store [] (fst (load fs ty stores []))
           (gen_verifier_loadX509TrustStoresWithType N ty policy stores store).
Proof.
  intros Hs. unfold gen_verifier_loadX509TrustStoresWithType.
  apply (load_loop_on store fs ty); [exact Hs|]. intros x. reflexivity.
Qed.

Theorem gen_load_with_type :
  forall store fs, store_agrees store fs ->
  forall ty policy stores,
    load_rel store [] (fst (load fs ty stores []))
             (gen_verifier_loadX509TrustStoresWithType N ty policy stores store).
Proof.
  intros store fs Hs ty policy stores. apply load_with_type_on. now apply store_agrees_everywhere.
Qed.

(* loadX509TrustStores: the store type is decided by the signing scheme *)
Definition scheme_of (s : string) : scheme :=
  if String.eqb s "notary.x509" then SX509
  else if String.eqb s "notary.x509.signingAuthority" then SSA else SOther.

Theorem gen_load_scheme :
  forall store scheme policy stores,
    match store_type_of (scheme_of scheme) with
    | Some ty => gen_verifier_loadX509TrustStores N scheme policy stores store
                 = gen_verifier_loadX509TrustStoresWithType N ty policy stores store
    | None => exists e, gen_verifier_loadX509TrustStores N scheme policy stores store = ([], Some e)
                        /\ err_typ e = "truststore.TrustStoreError"
    end.
Proof.
  intros store scheme policy stores. unfold gen_verifier_loadX509TrustStores, scheme_of.
  destruct (String.eqb scheme "notary.x509"); [reflexivity|].
  destruct (String.eqb scheme "notary.x509.signingAuthority"); [reflexivity|].
  eexists; split; reflexivity.
Qed.

Theorem gen_load_tsa :
  forall store scheme policy stores,
    if String.eqb scheme "notary.x509"
    then gen_verifier_loadX509TSATrustStores N scheme policy stores store
         = gen_verifier_loadX509TrustStoresWithType N ty_tsa policy stores store
    else exists e, gen_verifier_loadX509TSATrustStores N scheme policy stores store = ([], Some e)
                   /\ err_typ e = "truststore.TrustStoreError".
Proof.
  intros store scheme policy stores. unfold gen_verifier_loadX509TSATrustStores.
  destruct (String.eqb scheme "notary.x509"); [reflexivity|]. eexists; split; reflexivity.
Qed.

Theorem gen_tsa_in_policy :
  forall policy stores,
    match tsa_in_policy stores with
    | Some b => gen_verifier_isTSATrustStoreInPolicy policy stores = (b, None)
    | None => exists e, gen_verifier_isTSATrustStoreInPolicy policy stores = (false, Some e)
                        /\ err_typ e = "truststore.TrustStoreError"
    end.
Proof.
  intros policy stores. unfold gen_verifier_isTSATrustStoreInPolicy.
  induction stores as [|s rest IH]; [reflexivity|].
  cbn [tsa_in_policy gen_verifier_isTSATrustStoreInPolicy_loop1]. unfold colon. rewrite str_cut_byte.
  destruct (cut_byte ":" s) as [[sty name]|]; cbn [negb].
  - unfold ty_tsa. destruct (String.eqb sty "tsa"); [reflexivity|exact IH].
  - eexists; split; reflexivity.
Qed.

(* ================================================================== *)
(* Part B — for every trust store function                             *)

Definition content_of (r : list N * option err) : content :=
  match snd r with None => Certs (fst r) | Some _ => LoadError end.

(* the model's trust store, read off the function at the listed stores of type [ty] *)
Definition fs_of (store : tstore) (ty : string) (stores : list string) : fsys :=
  flat_map (fun s => match cut_byte colon s with
                     | Some (t, n) => if String.eqb ty t then [((ty, n), content_of (store ty n))] else []
                     | None => [] end) stores.

Lemma key_eqb_refl k : key_eqb k k = true.
Proof. unfold key_eqb. now rewrite !String.eqb_refl. Qed.

Lemma fs_of_get store ty : forall stores s name,
  In s stores -> cut_byte colon s = Some (ty, name) ->
  fs_get (fs_of store ty stores) ty name = content_of (store ty name).
Proof.
  induction stores as [|x rest IH]; intros s name Hin Hcut; [contradiction|].
  unfold fs_of. cbn [flat_map]. fold (fs_of store ty rest).
  destruct (cut_byte colon x) as [[t n]|] eqn:Ex.
  - destruct (String.eqb ty t) eqn:Et.
    + cbn [app fs_get]. unfold key_eqb at 1. cbn [fst snd]. rewrite String.eqb_refl. cbn [andb].
      destruct (String.eqb name n) eqn:En.
      * apply String.eqb_eq in En. now subst n.
      * destruct Hin as [->|Hin]; [|now apply (IH s)].
        rewrite Hcut in Ex. inversion Ex; subst. now rewrite String.eqb_refl in En.
    + cbn [app]. destruct Hin as [->|Hin]; [|now apply (IH s)].
      rewrite Hcut in Ex. inversion Ex; subst. now rewrite String.eqb_refl in Et.
  - cbn [app]. destruct Hin as [->|Hin]; [congruence|now apply (IH s)].
Qed.

Lemma fs_of_agrees store ty stores : store_agrees_on store (fs_of store ty stores) ty stores.
Proof.
  intros s name Hin Hcut. rewrite (fs_of_get store ty stores s name Hin Hcut).
  unfold content_of. destruct (store ty name) as [l [e|]]; cbn [fst snd]; [exists l, e|]; reflexivity.
Qed.

Lemma content_certs r l : content_of r = Certs l -> r = (l, None).
Proof. destruct r as [l' [e|]]; unfold content_of; cbn [fst snd]; [discriminate|]. now intros [= ->]. Qed.

Lemma content_error r : content_of r = LoadError -> exists cs e, r = (cs, Some e).
Proof. destruct r as [l' [e|]]; unfold content_of; cbn [fst snd]; [|discriminate]. intros _. now exists l', e. Qed.

(* the model verdict for a trust store function *)
Theorem gen_load_any_store : forall (store : tstore) ty policy stores,
  load_rel store [] (fst (load (fs_of store ty stores) ty stores []))
           (gen_verifier_loadX509TrustStoresWithType N ty policy stores store).
Proof. intros. apply load_with_type_on, fs_of_agrees. Qed.

(* every certificate handed to the authenticity check is held by a listed store of the
   wanted type, which the trust store delivered without error *)
Theorem gen_load_sound : forall (store : tstore) ty policy stores certs c,
  gen_verifier_loadX509TrustStoresWithType N ty policy stores store = (certs, None) -> In c certs ->
  exists name l, In (store_value ty name) stores /\ store ty name = (l, None) /\ In c l.
Proof.
  intros store ty policy stores certs c Hg Hc.
  pose proof (gen_load_any_store store ty policy stores) as R. rewrite Hg in R.
  destruct (fst (load (fs_of store ty stores) ty stores [])) as [cs|t n|f] eqn:El; cbn [load_rel app] in R.
  - inversion R; subst cs.
    destruct (load_sound _ _ _ _ _ _ El Hc) as (s & name & l & Hin & Hcut & Hfs & Hl).
    exists name, l. rewrite <- (cut_store_value s ty name Hcut). split; [exact Hin|]. split; [|exact Hl].
    rewrite (fs_of_get store ty stores s name Hin Hcut) in Hfs. now apply content_certs.
  - destruct R as (cs & e & _ & R). discriminate.
  - discriminate.
Qed.

(* a listed store of the wanted type that the trust store cannot deliver: the loading fails *)
Theorem gen_load_error : forall (store : tstore) ty policy stores name cs e,
  contains_byte colon ty = false ->
  In (store_value ty name) stores -> store ty name = (cs, Some e) ->
  exists e', gen_verifier_loadX509TrustStoresWithType N ty policy stores store = ([], Some e').
Proof.
  intros store ty policy stores name cs e Hty Hin Hst.
  pose proof (gen_load_any_store store ty policy stores) as R.
  assert (Hcut : cut_byte colon (store_value ty name) = Some (ty, name)) by now apply listed_cut.
  assert (Hfs : fs_get (fs_of store ty stores) ty name = LoadError).
  { rewrite (fs_of_get store ty stores _ name Hin Hcut), Hst. reflexivity. }
  pose proof (load_error_never_ok _ ty _ name Hcut Hfs stores [] Hin (fun H => H)) as Hn.
  destruct (fst (load (fs_of store ty stores) ty stores [])) as [cs'|t n|f]; cbn [load_rel] in R.
  - exfalso. now apply (Hn cs').
  - destruct R as (cs' & e' & _ & R). now exists e'.
  - now exists format_err.
Qed.

(* the loading reads the trust store only at the listed stores of the wanted type *)
Theorem gen_load_frame : forall (store store' : tstore) ty policy stores,
  (forall name, In (store_value ty name) stores -> store ty name = store' ty name) ->
  gen_verifier_loadX509TrustStoresWithType N ty policy stores store
  = gen_verifier_loadX509TrustStoresWithType N ty policy stores store'.
Proof.
  intros store store' ty policy stores H.
  pose proof (gen_load_any_store store ty policy stores) as R.
  pose proof (gen_load_any_store store' ty policy stores) as R'.
  assert (E : load (fs_of store' ty stores) ty stores [] = load (fs_of store ty stores) ty stores []).
  { apply load_ext. intros s name Hin Hcut.
    rewrite (fs_of_get store' ty stores s name Hin Hcut), (fs_of_get store ty stores s name Hin Hcut).
    rewrite H; [reflexivity|]. now rewrite <- (cut_store_value s ty name Hcut). }
  rewrite E in R'.
  destruct (fst (load (fs_of store ty stores) ty stores [])) as [cs|t n|f] eqn:El; cbn [load_rel] in R, R'.
  - congruence.
  - destruct (load_error_listed _ _ _ _ _ _ El) as (-> & _ & s & Hin & Hcut).
    destruct R as (cs & e & Hs & R), R' as (cs' & e' & Hs' & R').
    rewrite H in Hs by now rewrite <- (cut_store_value s ty n Hcut). congruence.
  - congruence.
Qed.

(* ---- the same through loadX509TrustStores: the type is the one of the scheme ---- *)
Definition type_for (scheme ty : string) : Prop :=
  (scheme = "notary.x509" /\ ty = "ca") \/
  (scheme = "notary.x509.signingAuthority" /\ ty = "signingAuthority").

Lemma scheme_cases scheme :
  (type_for scheme "ca" /\ store_type_of (scheme_of scheme) = Some "ca")
  \/ (type_for scheme "signingAuthority" /\ store_type_of (scheme_of scheme) = Some "signingAuthority")
  \/ ((forall ty, ~ type_for scheme ty) /\ store_type_of (scheme_of scheme) = None).
Proof.
  unfold scheme_of, type_for. destruct (String.eqb scheme "notary.x509") eqn:E1.
  { apply String.eqb_eq in E1. left. split; [left; split|]; auto. }
  destruct (String.eqb scheme "notary.x509.signingAuthority") eqn:E2.
  { apply String.eqb_eq in E2. right. left. split; [right; split|]; auto. }
  right. right. split; [|reflexivity]. intros ty [[H _]|[H _]]; subst scheme; discriminate.
Qed.

Lemma type_for_fun scheme ty ty' : type_for scheme ty -> type_for scheme ty' -> ty = ty'.
Proof. intros [[-> ->]|[-> ->]] [[H ->]|[H ->]]; try reflexivity; discriminate. Qed.

Lemma type_for_no_colon scheme ty : type_for scheme ty -> contains_byte colon ty = false.
Proof. intros [[_ ->]|[_ ->]]; reflexivity. Qed.

Theorem gen_trust_sound : forall (store : tstore) scheme policy stores certs c,
  gen_verifier_loadX509TrustStores N scheme policy stores store = (certs, None) -> In c certs ->
  exists ty name l, type_for scheme ty /\ In (store_value ty name) stores /\
                    store ty name = (l, None) /\ In c l.
Proof.
  intros store scheme policy stores certs c Hg Hc.
  pose proof (gen_load_scheme store scheme policy stores) as S.
  destruct (scheme_cases scheme) as [[T E]|[[T E]|[T E]]]; rewrite E in S.
  1,2: rewrite S in Hg; destruct (gen_load_sound _ _ _ _ _ _ Hg Hc) as (name & l & H);
       eexists _, name, l; split; [exact T|exact H].
  destruct S as (e & S & _). congruence.
Qed.

Theorem gen_trust_error : forall (store : tstore) scheme policy stores ty name cs e,
  type_for scheme ty -> In (store_value ty name) stores -> store ty name = (cs, Some e) ->
  exists e', gen_verifier_loadX509TrustStores N scheme policy stores store = ([], Some e').
Proof.
  intros store scheme policy stores ty name cs e T Hin Hst.
  pose proof (gen_load_scheme store scheme policy stores) as S.
  destruct (scheme_cases scheme) as [[T' E]|[[T' E]|[T' E]]]; rewrite E in S.
  1,2: rewrite S; rewrite <- (type_for_fun _ _ _ T T');
       exact (gen_load_error store ty policy stores name cs e (type_for_no_colon _ _ T) Hin Hst).
  exfalso. exact (T' ty T).
Qed.

Theorem gen_trust_frame : forall (store store' : tstore) scheme policy stores,
  (forall ty name, type_for scheme ty -> In (store_value ty name) stores -> store ty name = store' ty name) ->
  gen_verifier_loadX509TrustStores N scheme policy stores store
  = gen_verifier_loadX509TrustStores N scheme policy stores store'.
Proof.
  intros store store' scheme policy stores H.
  pose proof (gen_load_scheme store scheme policy stores) as S.
  pose proof (gen_load_scheme store' scheme policy stores) as S'.
  destruct (scheme_cases scheme) as [[T E]|[[T E]|[T E]]]; rewrite E in S, S'.
  1,2: rewrite S, S'; apply gen_load_frame; intros name; apply H; exact T.
  unfold gen_verifier_loadX509TrustStores in *. revert S S'. unfold scheme_of in E.
  destruct (String.eqb scheme "notary.x509"); [discriminate|].
  destruct (String.eqb scheme "notary.x509.signingAuthority"); [discriminate|]. reflexivity.
Qed.

(* the model's authenticity stage up to the call of core's VerifyAuthenticity: what
   [auth_stage] reports for a load failure is what the generated loading returns, and the
   certificates it hands to [verify_authenticity] are the ones the generated loading returns *)
Theorem gen_auth_stage_trust : forall (store : tstore) fs, store_agrees store fs ->
  forall scheme policy stores chain,
    let g := gen_verifier_loadX509TrustStores N scheme policy stores store in
    match store_type_of (scheme_of scheme) with
    | None => fst (auth_stage (scheme_of scheme) fs chain stores) = AScheme /\ exists e, g = ([], Some e)
    | Some ty =>
        match fst (load fs ty stores []) with
        | LOk certs => g = (certs, None)
                       /\ fst (auth_stage (scheme_of scheme) fs chain stores) = verify_authenticity certs chain
        | LErrLoad t n => fst (auth_stage (scheme_of scheme) fs chain stores) = ALoad t n
                          /\ exists cs e, store t n = (cs, Some e) /\ g = ([], Some e)
        | LErrFormat s => fst (auth_stage (scheme_of scheme) fs chain stores) = AFormat s
                          /\ g = ([], Some format_err)
        end
    end.
Proof.
  intros store fs Hs scheme policy stores chain g. subst g.
  pose proof (gen_load_scheme store scheme policy stores) as S. unfold auth_stage.
  destruct (store_type_of (scheme_of scheme)) as [ty|].
  - rewrite S. pose proof (gen_load_with_type store fs Hs ty policy stores) as R. cbn [fst].
    destruct (fst (load fs ty stores [])) as [cs|t n|f]; cbn [load_rel app] in R; split; auto.
  - cbn [fst]. split; [reflexivity|]. destruct S as (e & S & _). now exists e.
Qed.

(* ================================================================== *)
(* Part C — isCriticalFailure                                          *)

Definition action_str (a : action) : string :=
  match a with Enforce => "enforce" | Log => "log" | SkipLevel => "skip" end.

Theorem gen_is_critical_spec : forall r,
  gen_verifier_isCriticalFailure r =
  match ptr_val r with
  | None => None      (* nil result: run-time panic *)
  | Some v => Some (String.eqb (ValidationResult_Action v) "enforce" && negb (is_none (ValidationResult_Error v)))
  end.
Proof.
  intros r. unfold gen_verifier_isCriticalFailure. destruct (ptr_val r) as [v|]; [|reflexivity].
  destruct (String.eqb (ValidationResult_Action v) "enforce"), (ValidationResult_Error v); reflexivity.
Qed.

(* on the authenticity result that processSignature builds (action of the statement's level,
   error nil exactly on a pass) isCriticalFailure is the model's stop bit *)
Theorem gen_is_critical_stop : forall i st r v,
  select (i_policy i) (i_repo i) = Some st -> st_action st <> SkipLevel ->
  ptr_val r = Some v ->
  ValidationResult_Action v = action_str (st_action st) ->
  is_none (ValidationResult_Error v)
  = is_pass (fst (auth_stage (i_scheme i) (i_fs i) (i_chain i) (st_stores st))) ->
  gen_verifier_isCriticalFailure r = Some (o_stop (model i)).
Proof.
  intros i st r v Hs Ha Hv Hact Herr. rewrite gen_is_critical_spec, Hv, Hact, Herr.
  rewrite (model_stop i st Hs Ha). unfold auth_of.
  destruct (st_action st); [reflexivity|reflexivity|congruence].
Qed.

(* ================================================================== *)
(* Part D — which statement's trust store list is used                  *)

(* ---- strings.LastIndex(ref, "@") and ref[:i] are the model's last_at (as in C08_GenProofs;
   repeated here so that C03 does not depend on the proofs about C08's generated file) ---- *)
Lemma last_index_from_at s : forall i acc,
  str_last_index_from "@" s i acc
  = match M8.last_at s with
    | Some p => (i + Z.of_nat (String.length p))%Z
    | None => acc
    end.
Proof.
  induction s as [|a s IH]; intros i acc; [reflexivity|].
  cbn [str_last_index_from M8.last_at has_prefix]. rewrite IH.
  destruct (M8.last_at s) as [p|].
  - cbn [String.length]. lia.
  - rewrite andb_true_r, (ascii_eqb_sym "@" a).
    destruct (Ascii.eqb a "@"); [cbn [String.length]; lia|reflexivity].
Qed.

Lemma last_index_at s :
  str_last_index "@" s
  = match M8.last_at s with Some p => Z.of_nat (String.length p) | None => (-1)%Z end.
Proof.
  unfold str_last_index. rewrite last_index_from_at. destruct (M8.last_at s); reflexivity.
Qed.

Lemma last_at_take s : forall p, M8.last_at s = Some p ->
  take (String.length p) s = p /\ (String.length p <= String.length s)%nat.
Proof.
  induction s as [|a s IH]; intros p H; [discriminate|].
  cbn [M8.last_at] in H. destruct (M8.last_at s) as [q|].
  - inversion H; subst p. destruct (IH q eq_refl) as [H1 H2]. cbn [String.length take].
    rewrite H1. split; [reflexivity|lia].
  - destruct (Ascii.eqb a "@"); [|discriminate]. inversion H; subst p.
    cbn [String.length take]. split; [reflexivity|lia].
Qed.

Lemma slice_last_at s p : M8.last_at s = Some p ->
  str_slice s 0 (Z.of_nat (String.length p)) = Some p.
Proof.
  intros H. destruct (last_at_take s p H) as [H1 H2]. unfold str_slice, str_len.
  replace ((0 <=? 0)%Z && (0 <=? Z.of_nat (String.length p))%Z
           && (Z.of_nat (String.length p) <=? Z.of_nat (String.length s))%Z) with true.
  - rewrite Z.sub_0_r, Nat2Z.id. cbn [Z.to_nat drop]. rewrite H1. reflexivity.
  - symmetry. rewrite !andb_true_iff. repeat split; apply Z.leb_le; lia.
Qed.

(* getArtifactPathFromReference never panics: no '@' -> an error; else the text before the
   LAST '@', handed out iff validateRegistryScopeFormat accepts it (C08 owns that function) *)
Theorem gen_artifact_path : forall ref,
  match M8.last_at ref with
  | None => exists e, gen_trustpolicy_getArtifactPathFromReference ref = Some ("", Some e)
  | Some p =>
      gen_trustpolicy_getArtifactPathFromReference ref =
      match gen_trustpolicy_validateRegistryScopeFormat p with
      | Some e => Some ("", Some e)
      | None => Some (p, None)
      end
  end.
Proof.
  intros ref. unfold gen_trustpolicy_getArtifactPathFromReference. cbv zeta. rewrite last_index_at.
  destruct (M8.last_at ref) as [p|] eqn:L.
  - replace (Z.of_nat (String.length p) <? 0)%Z with false by (symmetry; apply Z.ltb_ge; lia).
    rewrite (slice_last_at ref p L).
    destruct (gen_trustpolicy_validateRegistryScopeFormat p) as [e|]; reflexivity.
  - change (-1 <? 0)%Z with true. cbv iota. eexists; reflexivity.
Qed.

(* ---- generated statements as statements of C08's model (what C03_WithC08 renders) ---- *)
Definition sv_of (sv : trustpolicy_SignatureVerification) : M8.sigver :=
  M8.mk_sv (SignatureVerification_VerificationLevel sv) (SignatureVerification_Override sv)
           (SignatureVerification_VerifyTimestamp sv).

Definition m8_of_oci (p : trustpolicy_OCITrustPolicy) : M8.stmt :=
  M8.mk_stmt (OCITrustPolicy_Name p) (OCITrustPolicy_RegistryScopes p)
             (sv_of (OCITrustPolicy_SignatureVerification p))
             (OCITrustPolicy_TrustStores p) (OCITrustPolicy_TrustedIdentities p) false.

Definition m8_of_blob (p : trustpolicy_BlobTrustPolicy) : M8.stmt :=
  M8.mk_stmt (BlobTrustPolicy_Name p) []
             (sv_of (BlobTrustPolicy_SignatureVerification p))
             (BlobTrustPolicy_TrustStores p) (BlobTrustPolicy_TrustedIdentities p)
             (BlobTrustPolicy_GlobalPolicy p).

Lemma gen_contains l v : gen_slices_Contains_string l v = mem_str v l.
Proof.
  unfold gen_slices_Contains_string, mem_str.
  induction l as [|x l IH]; [reflexivity|].
  cbn [gen_slices_Contains_string_loop1 existsb]. destruct (String.eqb v x); [reflexivity|exact IH].
Qed.

(* the clone methods hand out a NEW object with the same name, trust stores, identities, scopes *)
Lemma oci_clone_new p : exists c, gen_trustpolicy_OCITrustPolicy_clone p = PNew c
  /\ OCITrustPolicy_Name c = OCITrustPolicy_Name p
  /\ OCITrustPolicy_TrustStores c = OCITrustPolicy_TrustStores p
  /\ OCITrustPolicy_TrustedIdentities c = OCITrustPolicy_TrustedIdentities p
  /\ OCITrustPolicy_RegistryScopes c = OCITrustPolicy_RegistryScopes p.
Proof. eexists. split; [reflexivity|]. cbn. auto. Qed.

Lemma blob_clone_new p : exists c, gen_trustpolicy_BlobTrustPolicy_clone p = PNew c
  /\ BlobTrustPolicy_Name c = BlobTrustPolicy_Name p
  /\ BlobTrustPolicy_TrustStores c = BlobTrustPolicy_TrustStores p
  /\ BlobTrustPolicy_TrustedIdentities c = BlobTrustPolicy_TrustedIdentities p
  /\ BlobTrustPolicy_GlobalPolicy c = BlobTrustPolicy_GlobalPolicy p.
Proof. eexists. split; [reflexivity|]. cbn. auto. Qed.

(* ---- OCIDocument.GetApplicableTrustPolicy ---- *)
Definition gstep (path : string) (st : option trustpolicy_OCITrustPolicy * option trustpolicy_OCITrustPolicy)
           (p : trustpolicy_OCITrustPolicy) :=
  if mem_str wildcard (OCITrustPolicy_RegistryScopes p) then (Some p, snd st)
  else if mem_str path (OCITrustPolicy_RegistryScopes p) then (fst st, Some p)
  else st.

Definition optp (o : option trustpolicy_OCITrustPolicy) : ptr trustpolicy_OCITrustPolicy :=
  match o with Some p => gen_trustpolicy_OCITrustPolicy_clone p | None => PNil end.

Definition no_oci_err : err :=
  Err "fmt" "artifact %q has no applicable oci trust policy statement. Trust policy applicability for a given artifact is determined by registryScopes. To create a trust policy, see: %s" [].

Definition oci_result (st : option trustpolicy_OCITrustPolicy * option trustpolicy_OCITrustPolicy)
  : ptr trustpolicy_OCITrustPolicy * option err :=
  match opt_or (snd st) (fst st) with
  | Some p => (gen_trustpolicy_OCITrustPolicy_clone p, None)
  | None => (PNil, Some no_oci_err)
  end.

Lemma oci_loop path : forall l w a,
  gen_trustpolicy_OCIDocument_GetApplicableTrustPolicy_loop1 path l (optp w) (optp a)
  = Some (oci_result (fold_left (gstep path) l (w, a))).
Proof.
  induction l as [|p l IH]; intros w a.
  - cbn [gen_trustpolicy_OCIDocument_GetApplicableTrustPolicy_loop1 fold_left].
    unfold oci_result. cbn [fst snd].
    destruct a as [pa|]; cbn [optp opt_or].
    + destruct (oci_clone_new pa) as (c & -> & _). reflexivity.
    + cbn [ptr_val]. destruct w as [pw|]; cbn [optp opt_or].
      * destruct (oci_clone_new pw) as (c & -> & _). reflexivity.
      * reflexivity.
  - cbn [gen_trustpolicy_OCIDocument_GetApplicableTrustPolicy_loop1 fold_left]. cbv zeta.
    rewrite !gen_contains. unfold gstep at 2. cbn [fst snd]. unfold wildcard.
    destruct (mem_str "*" (OCITrustPolicy_RegistryScopes p)).
    + exact (IH (Some p) a).
    + destruct (mem_str path (OCITrustPolicy_RegistryScopes p)); [exact (IH w (Some p))|exact (IH w a)].
Qed.

Lemma gstep_m8 path : forall l w a,
  fold_left (M8.oci_step path) (map m8_of_oci l) (option_map m8_of_oci w, option_map m8_of_oci a)
  = (option_map m8_of_oci (fst (fold_left (gstep path) l (w, a))),
     option_map m8_of_oci (snd (fold_left (gstep path) l (w, a)))).
Proof.
  induction l as [|p l IH]; intros w a; [reflexivity|].
  cbn [map fold_left]. unfold M8.oci_step at 2, gstep at 2 4. cbn [fst snd].
  change (M8.has_scope M8.wildcard (m8_of_oci p)) with (mem_str wildcard (OCITrustPolicy_RegistryScopes p)).
  change (M8.has_scope path (m8_of_oci p)) with (mem_str path (OCITrustPolicy_RegistryScopes p)).
  destruct (mem_str wildcard (OCITrustPolicy_RegistryScopes p)).
  - exact (IH (Some p) a).
  - destruct (mem_str path (OCITrustPolicy_RegistryScopes p)); [exact (IH w (Some p))|exact (IH w a)].
Qed.

Lemma fold_gstep_in path : forall l w a p,
  opt_or (snd (fold_left (gstep path) l (w, a))) (fst (fold_left (gstep path) l (w, a))) = Some p ->
  In p l \/ opt_or a w = Some p.
Proof.
  induction l as [|x l IH]; intros w a p H; [right; exact H|].
  cbn [fold_left] in H. unfold gstep at 2 4 in H. cbn [fst snd] in H.
  destruct (mem_str wildcard (OCITrustPolicy_RegistryScopes x)).
  - destruct (IH _ _ _ H) as [Hin|Ho]; [left; now right|].
    destruct a as [pa|]; cbn [opt_or] in Ho; [right; exact Ho|]. inversion Ho; subst. left; now left.
  - destruct (mem_str path (OCITrustPolicy_RegistryScopes x)).
    + destruct (IH _ _ _ H) as [Hin|Ho]; [left; now right|]. cbn [opt_or] in Ho. inversion Ho; subst. left; now left.
    + destruct (IH _ _ _ H) as [Hin|Ho]; [left; now right|right; exact Ho].
Qed.

(* what the generated selection hands out for a verdict of the model's [select] *)
Definition oci_sel_rel (g : M8.stmt -> action * bool) (ps : list trustpolicy_OCITrustPolicy)
           (r : ptr trustpolicy_OCITrustPolicy * option err) (m : option stmt) : Prop :=
  match m with
  | Some st => exists p, In p ps /\ tr g (m8_of_oci p) = st
                         /\ r = (gen_trustpolicy_OCITrustPolicy_clone p, None)
  | None => r = (PNil, Some no_oci_err)
  end.

Theorem gen_oci_select : forall g d ref,
  match M8.last_at ref with
  | None => exists e, gen_trustpolicy_OCIDocument_GetApplicableTrustPolicy d ref = Some (PNil, Some e)
  | Some path =>
      match gen_trustpolicy_validateRegistryScopeFormat path with
      | Some e => gen_trustpolicy_OCIDocument_GetApplicableTrustPolicy d ref = Some (PNil, Some e)
      | None => exists r, gen_trustpolicy_OCIDocument_GetApplicableTrustPolicy d ref = Some r
                  /\ oci_sel_rel g (OCIDocument_TrustPolicies d) r
                       (select (map (tr g) (map m8_of_oci (OCIDocument_TrustPolicies d))) path)
      end
  end.
Proof.
  intros g d ref. pose proof (gen_artifact_path ref) as A.
  unfold gen_trustpolicy_OCIDocument_GetApplicableTrustPolicy.
  destruct (M8.last_at ref) as [path|].
  - rewrite A. destruct (gen_trustpolicy_validateRegistryScopeFormat path) as [e|]; [reflexivity|].
    cbn [is_none negb]. cbv zeta.
    pose proof (oci_loop path (OCIDocument_TrustPolicies d) None None) as L. cbn [optp] in L. rewrite L.
    eexists; split; [reflexivity|].
    rewrite oci_select. pose proof (gstep_m8 path (OCIDocument_TrustPolicies d) None None) as F.
    cbn [option_map] in F. rewrite F. unfold M8.oci_pick, oci_result. cbn [fst snd].
    pose proof (fold_gstep_in path (OCIDocument_TrustPolicies d) None None) as Hin.
    destruct (snd (fold_left (gstep path) (OCIDocument_TrustPolicies d) (None, None))) as [pa|];
      cbn [option_map opt_or oci_sel_rel] in *.
    + exists pa. destruct (Hin pa eq_refl) as [H|H]; [|discriminate]. auto.
    + destruct (fst (fold_left (gstep path) (OCIDocument_TrustPolicies d) (None, None))) as [pw|];
        cbn [option_map opt_or oci_sel_rel] in *; [|reflexivity].
      exists pw. destruct (Hin pw eq_refl) as [H|H]; [|discriminate]. auto.
  - destruct A as (e & ->). exists e. reflexivity.
Qed.

(* the certificates handed to the authenticity check of Verify come only from stores that
   the statement [select] picks lists, of the scheme's type - for every trust store function *)
Theorem gen_verify_trust : forall g d ref c scheme (store : tstore) certs x,
  gen_trustpolicy_OCIDocument_GetApplicableTrustPolicy d ref = Some (PNew c, None) ->
  gen_verifier_loadX509TrustStores N scheme (OCITrustPolicy_Name c) (OCITrustPolicy_TrustStores c) store
  = (certs, None) -> In x certs ->
  exists path p ty name l,
    M8.last_at ref = Some path /\ In p (OCIDocument_TrustPolicies d) /\
    select (map (tr g) (map m8_of_oci (OCIDocument_TrustPolicies d))) path = Some (tr g (m8_of_oci p)) /\
    type_for scheme ty /\ In (store_value ty name) (OCITrustPolicy_TrustStores p) /\
    store ty name = (l, None) /\ In x l.
Proof.
  intros g d ref c scheme store certs x Hsel Hload Hx.
  pose proof (gen_oci_select g d ref) as S.
  destruct (M8.last_at ref) as [path|]; [|destruct S as (e & S); congruence].
  destruct (gen_trustpolicy_validateRegistryScopeFormat path) as [e|]; [congruence|].
  destruct S as (r & Hr & R). rewrite Hsel in Hr. inversion Hr; subst r. clear Hr.
  destruct (select _ path) as [st|] eqn:Es; cbn [oci_sel_rel] in R; [|discriminate].
  destruct R as (p & Hin & Htr & Hc). destruct (oci_clone_new p) as (c' & Hc' & Hn & Hts & _).
  rewrite Hc' in Hc. inversion Hc; subst c'. rewrite Hts in Hload.
  destruct (gen_trust_sound _ _ _ _ _ _ Hload Hx) as (ty & name & l & T & Hl & Hst & Hxl).
  exists path, p, ty, name, l. subst st. repeat split; auto.
Qed.

(* ---- BlobDocument.GetApplicableTrustPolicy / GetGlobalTrustPolicy ---- *)
Definition name_isb (n : string) (p : trustpolicy_BlobTrustPolicy) : bool :=
  String.eqb (BlobTrustPolicy_Name p) n.

Definition blob_found (o : option trustpolicy_BlobTrustPolicy) (e : err)
  : ptr trustpolicy_BlobTrustPolicy * option err :=
  match o with
  | Some p => (gen_trustpolicy_BlobTrustPolicy_clone p, None)
  | None => (PNil, Some e)
  end.

Theorem gen_blob_by_name : forall d n,
  gen_trustpolicy_BlobDocument_GetApplicableTrustPolicy d n =
  if String.eqb (str_trim_space n) ""
  then (PNil, Some (Err "errors" "policy name cannot be empty" []))
  else blob_found (find (name_isb n) (BlobDocument_TrustPolicies d))
                  (Err "fmt" "no applicable blob trust policy with name %q" []).
Proof.
  intros d n. unfold gen_trustpolicy_BlobDocument_GetApplicableTrustPolicy.
  destruct (String.eqb (str_trim_space n) ""); [reflexivity|].
  induction (BlobDocument_TrustPolicies d) as [|p l IH]; [reflexivity|].
  cbn [gen_trustpolicy_BlobDocument_GetApplicableTrustPolicy_loop1 find]. unfold name_isb at 1.
  destruct (String.eqb (BlobTrustPolicy_Name p) n); [reflexivity|exact IH].
Qed.

Theorem gen_blob_global : forall d,
  gen_trustpolicy_BlobDocument_GetGlobalTrustPolicy d =
  blob_found (find BlobTrustPolicy_GlobalPolicy (BlobDocument_TrustPolicies d))
             (Err "fmt" "no global blob trust policy" []).
Proof.
  intros d. unfold gen_trustpolicy_BlobDocument_GetGlobalTrustPolicy.
  induction (BlobDocument_TrustPolicies d) as [|p l IH]; [reflexivity|].
  cbn [gen_trustpolicy_BlobDocument_GetGlobalTrustPolicy_loop1 find].
  destruct (BlobTrustPolicy_GlobalPolicy p); [reflexivity|exact IH].
Qed.

Lemma find_map_blob (q : M8.stmt -> bool) l :
  find q (map m8_of_blob l) = option_map m8_of_blob (find (fun p => q (m8_of_blob p)) l).
Proof.
  induction l as [|p l IH]; [reflexivity|]. cbn [map find].
  destruct (q (m8_of_blob p)); [reflexivity|exact IH].
Qed.

Definition blob_sel_rel (g : M8.stmt -> action * bool) (glob : bool) (ps : list trustpolicy_BlobTrustPolicy)
           (r : ptr trustpolicy_BlobTrustPolicy * option err) (m : option stmt) : Prop :=
  match m with
  | Some st => exists p, In p ps /\ enc g glob (m8_of_blob p) = st
                         /\ r = (gen_trustpolicy_BlobTrustPolicy_clone p, None)
  | None => exists e, r = (PNil, Some e)
  end.

(* on documents BlobDocument.Validate accepts (unique names) without a statement named "*",
   a call that names a policy hands out the statement that [select] picks on the rendering of
   C03_WithC08 (scope = name) *)
Theorem gen_blob_select_name : forall g d n,
  String.eqb (str_trim_space n) "" = false ->
  M8.names_unique (map m8_of_blob (BlobDocument_TrustPolicies d)) = true ->
  (forall p, In p (BlobDocument_TrustPolicies d) -> BlobTrustPolicy_Name p <> wildcard) ->
  blob_sel_rel g false (BlobDocument_TrustPolicies d)
    (gen_trustpolicy_BlobDocument_GetApplicableTrustPolicy d n)
    (select (map (enc g false) (map m8_of_blob (BlobDocument_TrustPolicies d))) n).
Proof.
  intros g d n Hb Hu Hstar. rewrite gen_blob_by_name, Hb.
  rewrite (blob_name_select g (map m8_of_blob (BlobDocument_TrustPolicies d)) n Hu).
  2:{ intros x Hx. apply in_map_iff in Hx. destruct Hx as (p & <- & Hp). exact (Hstar p Hp). }
  rewrite find_map_blob. change (fun p => M8.name_is n (m8_of_blob p)) with (name_isb n).
  destruct (find (name_isb n) (BlobDocument_TrustPolicies d)) as [p|] eqn:F;
    cbn [option_map blob_sel_rel blob_found].
  - exists p. apply find_some in F. destruct F as [F _]. auto.
  - eexists; reflexivity.
Qed.

Theorem gen_blob_select_global : forall g d,
  M8.global_unique (map m8_of_blob (BlobDocument_TrustPolicies d)) = true ->
  (forall p, In p (BlobDocument_TrustPolicies d) ->
             BlobTrustPolicy_Name p <> wildcard /\ BlobTrustPolicy_Name p <> "") ->
  blob_sel_rel g true (BlobDocument_TrustPolicies d)
    (gen_trustpolicy_BlobDocument_GetGlobalTrustPolicy d)
    (select (map (enc g true) (map m8_of_blob (BlobDocument_TrustPolicies d))) "").
Proof.
  intros g d Hu Hn. rewrite gen_blob_global.
  rewrite (blob_global_select g (map m8_of_blob (BlobDocument_TrustPolicies d)) Hu).
  2:{ intros x Hx. apply in_map_iff in Hx. destruct Hx as (p & <- & Hp). exact (Hn p Hp). }
  rewrite find_map_blob. change (fun p => M8.s_global (m8_of_blob p)) with BlobTrustPolicy_GlobalPolicy.
  destruct (find BlobTrustPolicy_GlobalPolicy (BlobDocument_TrustPolicies d)) as [p|] eqn:F;
    cbn [option_map blob_sel_rel blob_found].
  - exists p. apply find_some in F. destruct F as [F _]. auto.
  - eexists; reflexivity.
Qed.

(* VerifyBlob: the certificates handed to the authenticity check come only from stores listed
   by the statement handed out (the first one of that name / the first global one) *)
Theorem gen_verifyblob_trust : forall d (r : ptr trustpolicy_BlobTrustPolicy * option err) c scheme (store : tstore) certs x,
  (exists n, r = gen_trustpolicy_BlobDocument_GetApplicableTrustPolicy d n)
  \/ r = gen_trustpolicy_BlobDocument_GetGlobalTrustPolicy d ->
  r = (PNew c, None) ->
  gen_verifier_loadX509TrustStores N scheme (BlobTrustPolicy_Name c) (BlobTrustPolicy_TrustStores c) store
  = (certs, None) -> In x certs ->
  exists p ty name l,
    In p (BlobDocument_TrustPolicies d) /\ BlobTrustPolicy_Name p = BlobTrustPolicy_Name c /\
    type_for scheme ty /\ In (store_value ty name) (BlobTrustPolicy_TrustStores p) /\
    store ty name = (l, None) /\ In x l.
Proof.
  intros d r c scheme store certs x Hr Hc Hload Hx.
  assert (H : exists p, In p (BlobDocument_TrustPolicies d) /\ r = (gen_trustpolicy_BlobTrustPolicy_clone p, None)).
  { destruct Hr as [(n & Hr)|Hr]; subst r.
    - rewrite gen_blob_by_name in *. destruct (String.eqb (str_trim_space n) ""); [discriminate|].
      destruct (find (name_isb n) (BlobDocument_TrustPolicies d)) as [p|] eqn:F; cbn [blob_found] in *; [|discriminate].
      exists p. apply find_some in F. destruct F as [F _]. auto.
    - rewrite gen_blob_global in *.
      destruct (find BlobTrustPolicy_GlobalPolicy (BlobDocument_TrustPolicies d)) as [p|] eqn:F; cbn [blob_found] in *; [|discriminate].
      exists p. apply find_some in F. destruct F as [F _]. auto. }
  destruct H as (p & Hin & Hp). destruct (blob_clone_new p) as (c' & Hc' & Hn & Hts & _).
  rewrite Hp, Hc' in Hc. inversion Hc; subst c'. rewrite Hts in Hload.
  destruct (gen_trust_sound _ _ _ _ _ _ Hload Hx) as (ty & name & l & T & Hl & Hst & Hxl).
  exists p, ty, name, l. repeat split; auto.
Qed.

(* ================================================================== *)
(* Part E — verifyX509TrustedIdentities (skeleton)                      *)

Section Identities.
Variable Cert : Type.
Variable parse : string -> list (string * string) * option err.
Variable subject : Cert -> string.

Notation vti := (gen_verifier_verifyX509TrustedIdentities Cert parse subject).
Notation vti_loop1 := (gen_verifier_verifyX509TrustedIdentities_loop1 Cert parse subject).

(* the identity "*" accepts every chain, whatever the parser and the certificates are (the C03
   driver uses it so that the identity step cannot overwrite the authenticity result) *)
Theorem gen_identities_wildcard : forall policy ids certs,
  mem_str "*" ids = true -> vti policy ids certs = Some None.
Proof.
  intros policy ids certs H. unfold gen_verifier_verifyX509TrustedIdentities.
  rewrite gen_contains, H. reflexivity.
Qed.

Lemma vti_loop2 ldn : forall (K : unit -> option (option err)) l,
  gen_verifier_verifyX509TrustedIdentities_loop2 K ldn l = Some None ->
  (exists dn, In dn l /\ gen_pkix_IsSubsetDN dn ldn = true) \/ K tt = Some None.
Proof.
  induction l as [|dn l IH]; intros H; [right; exact H|].
  cbn [gen_verifier_verifyX509TrustedIdentities_loop2] in H.
  destruct (gen_pkix_IsSubsetDN dn ldn) eqn:E.
  - left. exists dn. split; [now left|exact E].
  - destruct (IH H) as [(dn' & Hin & Hs)|HK]; [left; exists dn'; split; [now right|exact Hs]|right; exact HK].
Qed.

Definition id_witness (ids : list string) (acc : list (list (string * string))) (certs : list Cert) : Prop :=
  exists dn leaf rest ldn,
    (In dn acc \/ exists id v, In id ids /\ cut_byte colon id = Some ("x509.subject", v) /\ v <> ""
                               /\ parse v = (dn, None)) /\
    certs = leaf :: rest /\ parse (subject leaf) = (ldn, None) /\ gen_pkix_IsSubsetDN dn ldn = true.

Lemma vti_loop1_nil certs : forall ids acc,
  vti_loop1 certs ids acc = Some None -> id_witness ids acc certs.
Proof.
  induction ids as [|id ids IH]; intros acc H.
  - cbn [gen_verifier_verifyX509TrustedIdentities_loop1] in H.
    destruct (Z.eqb (list_len acc) 0); [discriminate|].
    unfold list_get in H. cbn [Z.ltb Z.compare Z.to_nat nth_error] in H.
    destruct certs as [|leaf rest]; [discriminate|]. cbn [nth_error] in H.
    destruct (parse (subject leaf)) as [ldn [e|]] eqn:P; cbn [is_none negb] in H; [discriminate|].
    apply vti_loop2 in H. destruct H as [(dn & Hin & Hs)|H]; [|discriminate].
    exists dn, leaf, rest, ldn. auto.
  - cbn [gen_verifier_verifyX509TrustedIdentities_loop1] in H. revert H.
    unfold colon. rewrite str_cut_byte.
    destruct (cut_byte ":" id) as [[pre v]|] eqn:Ecut; cbn [negb]; [|discriminate].
    destruct (String.eqb pre "x509.subject") eqn:Ep.
    + apply String.eqb_eq in Ep. subst pre.
      destruct (String.eqb v "") eqn:Ev; [discriminate|].
      destruct (parse v) as [dn [e|]] eqn:P; cbn [is_none negb]; [discriminate|].
      intros H. destruct (IH _ H) as (dn' & leaf & rest & ldn & Hsrc & Hc & Hp & Hs).
      exists dn', leaf, rest, ldn. split; [|auto].
      destruct Hsrc as [Hin|(id' & v' & Hin & R)].
      * apply in_app_or in Hin. destruct Hin as [Hin|[<-|[]]]; [left; exact Hin|].
        right. exists id, v. split; [now left|]. split; [exact Ecut|]. split; [|exact P].
        intros ->. discriminate.
      * right. exists id', v'. split; [now right|exact R].
    + intros H. destruct (IH _ H) as (dn' & leaf & rest & ldn & Hsrc & R).
      exists dn', leaf, rest, ldn. split; [|exact R].
      destruct Hsrc as [Hin|(id' & v' & Hin & R')]; [left; exact Hin|].
      right. exists id', v'. split; [now right|exact R'].
Qed.

(* a nil result has a witness: "*" is listed, or some listed x509.subject identity parses to a DN
   that IsSubsetDN finds in the parsed subject of the LEAF certificate *)
Theorem gen_identities_nil_witness : forall policy ids certs,
  vti policy ids certs = Some None ->
  mem_str "*" ids = true \/ id_witness ids [] certs.
Proof.
  intros policy ids certs H. unfold gen_verifier_verifyX509TrustedIdentities in H.
  rewrite gen_contains in H. destruct (mem_str "*" ids); [left; reflexivity|].
  right. cbv zeta in H. exact (vti_loop1_nil certs ids [] H).
Qed.
End Identities.

(* ================================================================== *)
(* the tsa stores: loaded only under notary.x509, only from listed stores of type tsa *)
Theorem gen_tsa_sound : forall (store : tstore) scheme policy stores certs c,
  gen_verifier_loadX509TSATrustStores N scheme policy stores store = (certs, None) -> In c certs ->
  scheme = "notary.x509" /\
  exists name l, In (store_value ty_tsa name) stores /\ store ty_tsa name = (l, None) /\ In c l.
Proof.
  intros store scheme policy stores certs c Hg Hc.
  pose proof (gen_load_tsa store scheme policy stores) as S.
  destruct (String.eqb scheme "notary.x509") eqn:E.
  - apply String.eqb_eq in E. split; [exact E|]. rewrite S in Hg. exact (gen_load_sound _ _ _ _ _ _ Hg Hc).
  - destruct S as (e & S & _). congruence.
Qed.

(* ---------- a concrete, non-trivial instance of the hypotheses ---------- *)
Definition gx_sv := mk_SignatureVerification "strict" [] "".
Definition gx_doc : trustpolicy_OCIDocument :=
  mk_OCIDocument "1.0"
    [ mk_OCITrustPolicy "wild" gx_sv ["ca:other"] ["*"] ["*"];
      mk_OCITrustPolicy "exact" gx_sv ["tsa:good"; "ca:good"; "signingAuthority:good"; "ca:good"] ["*"]
                        ["reg.example/repo"] ].
Definition gx_store : tstore := fun ty name =>
  if String.eqb name "good" then
    (if String.eqb ty "ca" then ([7%N; 8%N], None) else ([9%N], None))
  else ([], Some (Err "test" "cannot load" [])).
Definition gx_blob : trustpolicy_BlobDocument :=
  mk_BlobDocument "1.0"
    [ mk_BlobTrustPolicy "b1" gx_sv ["ca:other"] ["*"] false;
      mk_BlobTrustPolicy "b2" gx_sv ["signingAuthority:good"] ["*"] true ].
