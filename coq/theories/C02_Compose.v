(* C02_Compose.v — composition of the models of the VerifyCore family.

   VerifyCore.process_signature (C02) takes the outcome of each native
   validation as an abstract fact of the scenario. The sibling properties have
   models that COMPUTE those facts:
     C03_Model.auth_stage            loadX509TrustStores + verifyAuthenticity
     C04_Model.verify_identities     verifyX509TrustedIdentities on the chain's subjects
     C05_Model.model                 verifyRevocation / revocationFinalResult
     C06_Model.verify_expiry, verify_authentic_timestamp
   [scenario_of] fills the facts by calling them on one common input
   ([full_input]) and [verify_full] is processSignature on the result, so that
   the theorems of C02 and those of C03..C06 combine into end-to-end statements.

   Adapters (the sub-models' interfaces do not line up exactly):
   * a certificate of the chain is one record [fcert] = identity number (C03:
     equality = x509.Certificate.Equal), subject string (C04, C05) and validity
     window (C06); the sub-models see projections of the same list;
   * C03's model starts from a policy DOCUMENT and selects the statement; here
     the applicable statement is given (its stores and identities), so C03's
     authenticity stage [auth_stage] is called directly (lemma auth_stage_pass);
   * the five authenticity classes of VerifyCore ([s_auth]) are images of C03's
     [aclass] ([auth_code]); only "0 = pass" is ever inspected by VerifyCore;
   * C05's model is called with one context-aware validator and a non-skipped
     action: its result class does not depend on either;
   * C06's actions (no skip) are images of the level's ([act6]); the two
     functions called do not read them.
   Definitions and lemmas (the statements are in props/C02_Compose.v). *)
From NV Require Import Base Regex Generated C02_Levels VerifyCore C02_Model C02_Core C02_Proofs C02_Struct.
From NV Require C03_Model C03_Proofs C04_DN C04_Model C04_Proofs C05_Model C05_Proofs C06_Model C06_Proofs.
Open Scope string_scope.
Open Scope list_scope.

Record fcert := mk_fcert {
  fc_id : N;               (* identity of the certificate (raw DER bytes) *)
  fc_subject : string;     (* Subject.String() *)
  fc_nb : Z; fc_na : Z }.  (* NotBefore, NotAfter *)

Record full_input := mk_full {
  f_level : level;                               (* the enforcement map (C02_Levels) *)
  f_sa : bool;                                   (* scheme: notary.x509.signingAuthority (else notary.x509) *)
  f_integrity_ok : bool;
  f_chain : list fcert;                          (* signing chain, leaf first *)
  f_stores : list string;                        (* trustStores of the applicable statement *)
  f_identities : list string;                    (* trustedIdentities of the applicable statement *)
  f_fs : C03_Model.fsys;                         (* what the trust store answers for (type, name) *)
  f_rev : C05_Model.vout;                        (* what the revocation validator answers *)
  f_now : Z; f_sigtime : Z; f_expiry : option Z; (* clock, authentic signing time, expiry *)
  f_opt : C06_Model.tsopt;                       (* verifyTimestamp option *)
  f_tsadb : list (string * C06_Model.sres);      (* tsa stores *)
  f_tok : C06_Model.token;                       (* facts about the timestamp countersignature *)
  (* the plugin situation and the extended attributes, as in VerifyCore *)
  f_plugin_attr : attr; f_minver_attr : attr; f_minver_valid : bool;
  f_other : list (string * bool); f_nonstring_crit : bool;
  f_pm : pm; f_presp : presp }.

(* ---------- adapters ---------- *)
Definition scheme3 (i : full_input) : C03_Model.scheme :=
  if f_sa i then C03_Model.SSA else C03_Model.SX509.
Definition scheme6 (i : full_input) : C06_Model.scheme :=
  if f_sa i then C06_Model.SigningAuthority else C06_Model.X509.
Definition ids_of (i : full_input) : list N := map fc_id (f_chain i).
Definition subjects_of (i : full_input) : list string := map fc_subject (f_chain i).
Definition certs6 (i : full_input) : list C06_Model.cert :=
  map (fun c => C06_Model.mk_cert (fc_nb c) (fc_na c)) (f_chain i).
Definition act6 (a : action) : C06_Model.action :=
  match a with Enforce => C06_Model.Enforce | _ => C06_Model.Log end.

(* the inputs of the sub-models *)
Definition in5 (i : full_input) : C05_Model.input :=
  C05_Model.mk_input C05_Model.Enforce (f_sa i) 1 (subjects_of i) (f_rev i).
Definition in6 (i : full_input) : C06_Model.input :=
  C06_Model.mk_input (f_now i) (scheme6 i) (f_sigtime i) (f_expiry i) (certs6 i) (f_stores i)
                     (f_opt i) (f_tsadb i) (f_tok i) (act6 (l_exp (f_level i))) (act6 (l_ts (f_level i))).

(* ---------- the native facts, computed by the sub-models ---------- *)
Definition auth_class (i : full_input) : C03_Model.aclass :=
  fst (C03_Model.auth_stage (scheme3 i) (f_fs i) (ids_of i) (f_stores i)).

Definition auth_code (c : C03_Model.aclass) : N :=
  match c with
  | C03_Model.APass => 0
  | C03_Model.ALoad _ _ | C03_Model.AFormat _ | C03_Model.AScheme => 1
  | C03_Model.AEmpty => 2
  | C03_Model.ANoMatch => 3
  | C03_Model.AOtherErr => 4
  end.

Definition identity_class (i : full_input) : C04_Model.vclass :=
  C04_Model.verify_identities (f_identities i) (subjects_of i).

Definition rev_class (i : full_input) : option C05_Model.rclass :=
  C05_Model.o_result (C05_Model.model (in5 i)).

Definition rev_passes (i : full_input) : bool :=
  match rev_class i with Some C05_Model.Pass => true | _ => false end.

Definition expiry_passes (i : full_input) : bool := C06_Model.verify_expiry (f_now i) (f_expiry i).
Definition ts_result (i : full_input) : C06_Model.res := C06_Model.verify_authentic_timestamp (in6 i).

Definition scenario_of (i : full_input) : scenario :=
  mk_sc (f_integrity_ok i) (f_plugin_attr i) (f_minver_attr i) (f_minver_valid i) (f_other i)
        (f_nonstring_crit i)
        (auth_code (auth_class i))
        (C04_Model.is_pass (identity_class i))
        (negb (expiry_passes i))
        (negb (C06_Model.is_failed (ts_result i)))
        (rev_passes i)
        (f_pm i) (f_presp i).

Definition verify_full (i : full_input) : obs := process_signature (f_level i) (scenario_of i).

(* ---------- the declarative content of each passing fact (from C03..C06) ---------- *)

(* C03: some chain certificate is in a listed store of the scheme's type *)
Definition Anchored (i : full_input) : Prop :=
  exists ty name l c,
    C03_Model.store_type_of (scheme3 i) = Some ty /\ In (C03_Model.store_value ty name) (f_stores i) /\
    C03_Model.fs_get (f_fs i) ty name = C03_Model.Certs l /\ In c l /\ In c (ids_of i).

(* C04: the wildcard, or some x509.subject identity lies within the LEAF subject (and every
   identity can be interpreted) *)
Definition Identity_matches (i : full_input) : Prop :=
  mem_str C04_Model.wildcard (f_identities i) = true
  \/ exists leaf rest m,
       subjects_of i = leaf :: rest /\ C04_DN.parse_distinguished_name leaf = C04_DN.DOk m /\
       (forall id, In id (f_identities i) -> C04_Proofs.interpretable id) /\
       exists id v d, In id (f_identities i) /\ C04_Model.x509_value id = Some v /\
                      C04_DN.parse_distinguished_name v = C04_DN.DOk d /\ C04_Model.within d m.

(* C05: the validator answered with exactly one result per certificate of the chain (anything else
   is a failed validation since fix d78db00, checkRevocationResults), and every certificate is OK or
   non-revokable *)
Definition Unrevoked (i : full_input) : Prop :=
  exists rs, f_rev i = C05_Model.VRes rs /\ List.length rs = List.length (f_chain i) /\
             Forall (fun r => r = C05_Model.ROK \/ r = C05_Model.RNonRevokable) rs.

(* C06: no expiry or an expiry after now *)
Definition Not_expired (i : full_input) : Prop :=
  f_expiry i = None \/ exists e, f_expiry i = Some e /\ (f_now i < e)%Z.

(* C06: what a passed authentic-timestamp validation means, by scheme *)
Definition Timestamp_ok (i : full_input) : Prop :=
  (f_sa i = true -> Forall (C06_Model.Valid_at (f_sigtime i)) (certs6 i))
  /\ (f_sa i = false -> ~ C06_Model.Applies (in6 i) -> Forall (C06_Model.Valid_at (f_now i)) (certs6 i))
  /\ (f_sa i = false -> C06_Model.Applies (in6 i) -> C06_Model.Token_ok (in6 i)).

(* the policy contract of C06 (every trust store value has a separator). The former validator
   contract of C05 (one result per certificate) is no longer assumed: the code checks it. *)
Definition contracts (i : full_input) : Prop := C06_Model.wf (in6 i) = true.

(* ---------- each fact, from the sub-model's theorem ---------- *)
Lemma auth_pass_anchored i : auth_code (auth_class i) = 0%N -> Anchored i.
Proof.
  intros H. assert (E : auth_class i = C03_Model.APass) by (destruct (auth_class i); cbn in H; congruence).
  exact (C03_Proofs.auth_stage_pass _ _ _ _ E).
Qed.

Lemma anchored_needed i : ~ Anchored i -> auth_code (auth_class i) <> 0%N.
Proof. intros N H. exact (N (auth_pass_anchored i H)). Qed.

Lemma identity_pass_matches i : C04_Model.is_pass (identity_class i) = true -> Identity_matches i.
Proof.
  unfold identity_class, Identity_matches. intros H.
  destruct (mem_str C04_Model.wildcard (f_identities i)) eqn:W; [left; reflexivity | right].
  assert (P : C04_Model.verify_identities (f_identities i) (subjects_of i) = C04_Model.VPass)
    by (destruct (C04_Model.verify_identities (f_identities i) (subjects_of i)); cbn in H; congruence).
  destruct (subjects_of i) as [|leaf rest] eqn:S.
  - exfalso. unfold C04_Model.verify_identities in P. rewrite W in P.
    destruct (C04_Model.collect_ids (f_identities i)) as [e|[|m ms]] eqn:C; try discriminate.
    (* collect_ids never returns VPass as an error *)
    clear - C P. subst e. revert C. generalize (f_identities i). intros ids.
    induction ids as [|id ids IH]; cbn; [discriminate|].
    repeat match goal with
           | |- context [match ?x with _ => _ end] => destruct x eqn:?; try discriminate
           end; auto.
  - apply (C04_Proofs.match_iff _ leaf rest W) in P.
    destruct P as (m & PM & INT & id & v & d & HIn & XV & PD & WI).
    exists leaf, rest, m. repeat split; try assumption. exists id, v, d. tauto.
Qed.

Lemma rev_passes_iff i : rev_passes i = true <-> Unrevoked i.
Proof.
  unfold rev_passes, rev_class, Unrevoked.
  destruct (f_rev i) as [|rs] eqn:R.
  - split.
    + intros H. exfalso. unfold C05_Model.model, in5 in H. cbn in H. rewrite R in H. discriminate.
    + intros (rs & E & _). discriminate.
  - assert (A : C05_Model.i_action (in5 i) <> C05_Model.Skip) by (cbn; discriminate).
    assert (V : C05_Model.i_vout (in5 i) = C05_Model.VRes rs) by exact R.
    pose proof (C05_Proofs.pass_iff_total (in5 i) rs A V) as P.
    assert (L : List.length (C05_Model.i_chain (in5 i)) = List.length (f_chain i))
      by (cbn; unfold subjects_of; now rewrite map_length).
    rewrite L in P. split.
    + intros H. exists rs. split; [reflexivity|]. apply P.
      destruct (C05_Model.o_result (C05_Model.model (in5 i))) as [[]|]; try discriminate. reflexivity.
    + intros (rs' & E & LEN & OK). injection E as <-.
      rewrite (proj2 P (conj LEN OK)). reflexivity.
Qed.

Lemma rev_pass_unrevoked i : rev_passes i = true -> Unrevoked i.
Proof. apply rev_passes_iff. Qed.

Lemma expiry_pass_not_expired i : expiry_passes i = true -> Not_expired i.
Proof.
  unfold expiry_passes, Not_expired, C06_Model.verify_expiry.
  destruct (f_expiry i) as [e|]; [|auto]. intros H. right. exists e. split; [reflexivity|].
  now apply Z.ltb_lt.
Qed.

Lemma expiry_fail_expired i : expiry_passes i = false ->
  exists e, f_expiry i = Some e /\ (e <= f_now i)%Z.
Proof.
  unfold expiry_passes, C06_Model.verify_expiry. destruct (f_expiry i) as [e|]; [|discriminate].
  intros H. exists e. split; [reflexivity|]. apply Z.ltb_ge in H. exact H.
Qed.

Lemma ts_pass_ok i : C06_Model.wf (in6 i) = true ->
  C06_Model.is_failed (ts_result i) = false -> Timestamp_ok i.
Proof.
  unfold ts_result. intros W H.
  assert (P : C06_Model.verify_authentic_timestamp (in6 i) = C06_Model.Passed)
    by (destruct (C06_Model.verify_authentic_timestamp (in6 i)); cbn in H; congruence).
  unfold Timestamp_ok. split; [|split].
  - intros SA. assert (S : C06_Model.i_scheme (in6 i) = C06_Model.SigningAuthority)
      by (cbn; unfold scheme6; now rewrite SA).
    exact (proj1 (C06_Proofs.sa_iff (in6 i) S) P).
  - intros SA NA. assert (S : C06_Model.i_scheme (in6 i) = C06_Model.X509)
      by (cbn; unfold scheme6; now rewrite SA).
    exact (proj1 (C06_Proofs.x509_no_tsa (in6 i) W S NA) P).
  - intros SA A. assert (S : C06_Model.i_scheme (in6 i) = C06_Model.X509)
      by (cbn; unfold scheme6; now rewrite SA).
    exact (proj1 (C06_Proofs.x509_tsa (in6 i) W S A) P).
Qed.

(* ---------- the scenario without plugin ---------- *)
Lemma no_plugin_caps i : f_plugin_attr i = AAbsent -> caps_of (scenario_of i) = [].
Proof. intros H. unfold caps_of, usable_caps, scenario_of. cbn. now rewrite H. Qed.

Lemma wf_no_plugin_irrelevant i : wf_sc (scenario_of i) = wf_sc (mk_sc true AAbsent AAbsent false [] false 0 true false true true (f_pm i) PErr).
Proof. reflexivity. Qed.

Definition strict_level : level := mk_level Enforce Enforce Enforce Enforce.
Definition audit_level : level := mk_level Log Log Log Log.

Lemma strict_is_strict : level_for "strict" [] = Some strict_level.
Proof. vm_compute. reflexivity. Qed.
Lemma audit_is_audit : level_for "audit" [] = Some audit_level.
Proof. vm_compute. reflexivity. Qed.

(* end to end, strict: acceptance means that every sub-validation holds in the
   declarative sense its own property proves *)
Theorem full_accept_strict i :
  f_level i = strict_level -> f_plugin_attr i = AAbsent -> wf_sc (scenario_of i) = true -> contracts i ->
  accepted (verify_full i) = true ->
  f_integrity_ok i = true /\ Anchored i /\ Identity_matches i /\ Not_expired i /\ Timestamp_ok i /\ Unrevoked i
  /\ f_nonstring_crit i = false /\ other_crit (scenario_of i) = [].
Proof.
  intros L NP W W6 A. unfold verify_full in A. rewrite L in A.
  change (process_signature strict_level (scenario_of i)) with (verify_core strict_level (scenario_of i)) in A.
  rewrite (core_exact _ _ W) in A. apply negb_true_iff in A.
  unfold should_fail_impl, plugin_or_attribute_problem, enforced_failure in A.
  rewrite !orb_false_iff in A. destruct A as [[I [[[NS _] _] NPr]] [[[EA EX] ET] ER]].
  unfold strict_level in *. cbn [l_auth l_exp l_ts l_rev enforced] in *.
  unfold authenticity_failed, identity_failed, revocation_failed in *.
  rewrite (no_plugin_caps i NP) in *. cbn [has_cap existsb] in *.
  cbn [scenario_of s_auth s_identity_ok s_expired s_ts_ok s_rev_ok s_integrity_ok s_nonstring_crit] in *.
  apply orb_false_iff in EA. destruct EA as [EA1 EA2].
  apply negb_false_iff in I, EA1, EA2, EX, ER. apply negb_false_iff in ET.
  apply N.eqb_eq in EA1.
  assert (OCn : other_crit (scenario_of i) = []).
  { unfold nothing_processes, has_critical, plugin_demanded, asked in NPr.
    rewrite (no_plugin_caps i NP) in NPr. cbn [scenario_of s_plugin_attr] in NPr.
    rewrite NP in NPr. cbn [negb andb caps_to_verify filter nonempty] in NPr. rewrite andb_true_r in NPr.
    apply orb_false_iff in NPr. destruct NPr as [NPr _].
    destruct (other_crit (scenario_of i)); [reflexivity | discriminate]. }
  apply negb_true_iff in ET.
  exact (conj I (conj (auth_pass_anchored i EA1) (conj (identity_pass_matches i EA2)
        (conj (expiry_pass_not_expired i EX) (conj (ts_pass_ok i W6 ET)
        (conj (rev_pass_unrevoked i ER) (conj NS OCn))))))).
Qed.

(* contrapositive, one fact at a time: a missing anchor / identity / revoked
   certificate / expiry rejects under strict *)
Theorem full_reject_strict i :
  f_level i = strict_level -> f_plugin_attr i = AAbsent -> wf_sc (scenario_of i) = true -> contracts i ->
  (~ Anchored i \/ ~ Identity_matches i \/ ~ Not_expired i \/ ~ Timestamp_ok i \/ ~ Unrevoked i) ->
  accepted (verify_full i) = false.
Proof.
  intros L NP W C H. destruct (accepted (verify_full i)) eqn:A; [|reflexivity]. exfalso.
  destruct (full_accept_strict i L NP W C A) as (_ & H1 & H2 & H3 & H4 & H5 & _). tauto.
Qed.

(* end to end, audit: the same failures are reported, with action log, and do
   not reject *)
Definition full_expected_audit (i : full_input) : list result :=
  [mk_res TIntegrity Enforce false;
   mk_res TAuth Log (negb (auth_code (auth_class i) =? 0)%N || negb (C04_Model.is_pass (identity_class i)));
   mk_res TExpiry Log (negb (expiry_passes i));
   mk_res TTimestamp Log (C06_Model.is_failed (ts_result i));
   mk_res TRev Log (negb (rev_passes i))].

Theorem full_log_reports i :
  f_level i = audit_level -> f_plugin_attr i = AAbsent -> wf_sc (scenario_of i) = true ->
  f_integrity_ok i = true -> f_nonstring_crit i = false -> f_minver_attr i = AAbsent ->
  other_crit (scenario_of i) = [] ->
  accepted (verify_full i) = true /\ o_results (verify_full i) = full_expected_audit i.
Proof.
  intros L NP W I NS MV OC. unfold verify_full. rewrite L.
  change (process_signature audit_level (scenario_of i)) with (verify_core audit_level (scenario_of i)).
  assert (A : accepted (verify_core audit_level (scenario_of i)) = true).
  { rewrite (core_exact _ _ W). apply negb_true_iff.
    unfold should_fail_impl, plugin_or_attribute_problem, enforced_failure, plugin_unusable,
      plugin_exec_problem, nothing_processes, has_critical, plugin_demanded, asked.
    rewrite (no_plugin_caps i NP), OC. cbn [scenario_of s_integrity_ok s_nonstring_crit s_plugin_attr s_minver_attr].
    rewrite I, NS, NP, MV. reflexivity. }
  split; [exact A|].
  rewrite (accepted_results _ _ W A). unfold expected_results, full_expected_audit, audit_level.
  cbn [l_auth l_exp l_ts l_rev action_eqb app].
  unfold authenticity_failed, identity_failed, revocation_failed.
  rewrite (no_plugin_caps i NP). cbn [has_cap existsb].
  cbn [scenario_of s_auth s_identity_ok s_expired s_ts_ok s_rev_ok]. rewrite !negb_involutive. reflexivity.
Qed.

(* hence: under audit an unanchored, unpinned, expired, revoked signature is
   accepted, and each failure is in the outcome, marked failed, with action log *)
Corollary full_log_failures_reported i :
  f_level i = audit_level -> f_plugin_attr i = AAbsent -> wf_sc (scenario_of i) = true ->
  f_integrity_ok i = true -> f_nonstring_crit i = false -> f_minver_attr i = AAbsent ->
  other_crit (scenario_of i) = [] -> contracts i ->
  accepted (verify_full i) = true
  /\ (~ Anchored i \/ ~ Identity_matches i -> In (mk_res TAuth Log true) (o_results (verify_full i)))
  /\ (~ Not_expired i -> In (mk_res TExpiry Log true) (o_results (verify_full i)))
  /\ (~ Timestamp_ok i -> In (mk_res TTimestamp Log true) (o_results (verify_full i)))
  /\ (~ Unrevoked i -> In (mk_res TRev Log true) (o_results (verify_full i))).
Proof.
  intros L NP W I NS MV OC W6.
  destruct (full_log_reports i L NP W I NS MV OC) as [A R]. split; [exact A|]. rewrite R.
  unfold full_expected_audit. split; [|split; [|split]].
  - intros H. right. left. f_equal.
    destruct (auth_code (auth_class i) =? 0)%N eqn:E1; cbn; [|reflexivity].
    destruct (C04_Model.is_pass (identity_class i)) eqn:E2; cbn; [|reflexivity].
    exfalso. apply N.eqb_eq in E1. destruct H as [H|H]; apply H;
      [now apply auth_pass_anchored | now apply identity_pass_matches].
  - intros H. right. right. left. f_equal.
    destruct (expiry_passes i) eqn:E; cbn; [|reflexivity]. exfalso. apply H. now apply expiry_pass_not_expired.
  - intros H. right. right. right. left. f_equal.
    destruct (C06_Model.is_failed (ts_result i)) eqn:E; [reflexivity|]. exfalso. apply H. now apply ts_pass_ok.
  - intros H. right. right. right. right. left. f_equal.
    destruct (rev_passes i) eqn:E; cbn; [|reflexivity]. exfalso. apply H. now apply rev_pass_unrevoked.
Qed.

(* ================================================================== *)
(* audit round: ANY (customised) level, no plugin demanded — and the   *)
(* facts the sub-properties characterise in both directions             *)
(* ================================================================== *)

Lemma identity_matches_pass i : Identity_matches i -> C04_Model.is_pass (identity_class i) = true.
Proof.
  unfold Identity_matches, identity_class. intros [W | (leaf & rest & m & S & PM & INT & id & v & d & HIn & XV & PD & WI)].
  - unfold C04_Model.verify_identities. now rewrite W.
  - destruct (mem_str C04_Model.wildcard (f_identities i)) eqn:W.
    + unfold C04_Model.verify_identities. now rewrite W.
    + rewrite S. rewrite (proj2 (C04_Proofs.match_iff _ leaf rest W)); [reflexivity|].
      exists m. split; [exact PM|]. split; [exact INT|]. exists id, v, d. tauto.
Qed.

Lemma identity_iff i : C04_Model.is_pass (identity_class i) = true <-> Identity_matches i.
Proof. split; [apply identity_pass_matches | apply identity_matches_pass]. Qed.

Lemma not_expired_passes i : Not_expired i -> expiry_passes i = true.
Proof.
  unfold Not_expired, expiry_passes, C06_Model.verify_expiry. intros [-> | (e & -> & H)]; [reflexivity|].
  now apply Z.ltb_lt.
Qed.

Lemma expiry_iff i : expiry_passes i = true <-> Not_expired i.
Proof. split; [apply expiry_pass_not_expired | apply not_expired_passes]. Qed.

Lemma ts_ok_pass i : C06_Model.wf (in6 i) = true -> Timestamp_ok i -> C06_Model.is_failed (ts_result i) = false.
Proof.
  unfold ts_result, Timestamp_ok. intros W (SA & NT & TS).
  assert (P : C06_Model.verify_authentic_timestamp (in6 i) = C06_Model.Passed); [|now rewrite P].
  destruct (f_sa i) eqn:F.
  - assert (S : C06_Model.i_scheme (in6 i) = C06_Model.SigningAuthority) by (cbn; unfold scheme6; now rewrite F).
    exact (proj2 (C06_Proofs.sa_iff (in6 i) S) (SA eq_refl)).
  - assert (S : C06_Model.i_scheme (in6 i) = C06_Model.X509) by (cbn; unfold scheme6; now rewrite F).
    destruct (C06_Model.applies (in6 i)) eqn:A.
    + apply C06_Proofs.applies_iff in A. exact (proj2 (C06_Proofs.x509_tsa (in6 i) W S A) (TS eq_refl A)).
    + assert (NA : ~ C06_Model.Applies (in6 i)) by (intros H; apply C06_Proofs.applies_iff in H; congruence).
      exact (proj2 (C06_Proofs.x509_no_tsa (in6 i) W S NA) (NT eq_refl NA)).
Qed.

Lemma ts_iff i : C06_Model.wf (in6 i) = true ->
  (C06_Model.is_failed (ts_result i) = false <-> Timestamp_ok i).
Proof. intros W. split; [now apply ts_pass_ok | now apply ts_ok_pass]. Qed.

(* what the level of the statement enforces, as a declarative condition on the input *)
Definition Enforced_ok (i : full_input) : Prop :=
  (l_auth (f_level i) = Enforce -> auth_class i = C03_Model.APass /\ Identity_matches i)
  /\ (l_exp (f_level i) = Enforce -> Not_expired i)
  /\ (l_ts (f_level i) = Enforce -> Timestamp_ok i)
  /\ (l_rev (f_level i) = Enforce -> Unrevoked i).

Definition No_critical (i : full_input) : Prop :=
  f_nonstring_crit i = false /\ other_crit (scenario_of i) = []
  /\ (f_minver_attr i = AAbsent \/ f_minver_attr i = ANotCritical).

Lemma enforced_false_iff a f : enforced a f = false <-> (a = Enforce -> f = false).
Proof. destruct a, f; cbn; split; try congruence; try (intros H; now apply H); intros; discriminate. Qed.

(* end to end for EVERY enforcement map: a signature that demands no plugin is accepted exactly when it
   is intact, every validation the map ENFORCES holds in the declarative sense of its own property, and
   it carries no critical extended attribute. Validations whose action is log or skip do not occur. *)
Theorem full_accept_iff i : f_plugin_attr i = AAbsent -> contracts i ->
  (accepted (verify_full i) = true <-> f_integrity_ok i = true /\ Enforced_ok i /\ No_critical i).
Proof.
  intros NP W6. unfold verify_full.
  change (process_signature (f_level i) (scenario_of i)) with (verify_core (f_level i) (scenario_of i)).
  rewrite exact_all, negb_true_iff.
  unfold should_fail_impl, plugin_or_attribute_problem, enforced_failure, plugin_unusable, plugin_exec_problem,
    nothing_processes, has_critical, plugin_demanded, asked, authenticity_failed, identity_failed, revocation_failed.
  rewrite (no_plugin_caps i NP).
  cbn [scenario_of s_integrity_ok s_nonstring_crit s_plugin_attr s_minver_attr s_auth s_identity_ok s_expired s_ts_ok s_rev_ok
       caps_to_verify filter has_cap existsb nonempty].
  rewrite NP. cbn [negb andb orb is_none]. rewrite !orb_false_iff, !andb_true_r, !negb_false_iff, !enforced_false_iff.
  unfold Enforced_ok, No_critical.
  rewrite <- identity_iff, <- expiry_iff, <- (ts_iff i W6), <- rev_passes_iff.
  assert (AC : auth_class i = C03_Model.APass <-> (auth_code (auth_class i) =? 0)%N = true)
    by (destruct (auth_class i); cbn; split; congruence).
  assert (OC : nonempty (other_crit (scenario_of i)) = false <-> other_crit (scenario_of i) = [])
    by (destruct (other_crit (scenario_of i)); cbn; split; congruence).
  assert (MV : match f_minver_attr i with AAbsent | ANotCritical => false | _ => true end = false
               <-> (f_minver_attr i = AAbsent \/ f_minver_attr i = ANotCritical))
    by (destruct (f_minver_attr i); split; try tauto; try congruence; intros [H|H]; congruence).
  rewrite AC, <- OC, <- MV. rewrite !orb_false_iff, !negb_false_iff, ?negb_true_iff.
  tauto.
Qed.

(* the authenticity class "pass" implies the declarative anchoring (C03; the converse does not hold:
   a load error of another listed store fails the whole stage) *)
Lemma auth_class_pass_anchored i : auth_class i = C03_Model.APass -> Anchored i.
Proof. intros H. apply auth_pass_anchored. now rewrite H. Qed.

(* hence: whatever the map, an enforced validation that does not hold rejects *)
Theorem full_reject_any_level i : f_plugin_attr i = AAbsent -> contracts i ->
  (l_auth (f_level i) = Enforce /\ (~ Anchored i \/ ~ Identity_matches i))
  \/ (l_exp (f_level i) = Enforce /\ ~ Not_expired i)
  \/ (l_ts (f_level i) = Enforce /\ ~ Timestamp_ok i)
  \/ (l_rev (f_level i) = Enforce /\ ~ Unrevoked i) ->
  accepted (verify_full i) = false.
Proof.
  intros NP W6 H. destruct (accepted (verify_full i)) eqn:A; [|reflexivity]. exfalso.
  apply (full_accept_iff i NP W6) in A. destruct A as (_ & (EA & EX & ET & ER) & _).
  destruct H as [[L [H|H]] | [[L H] | [[L H] | [L H]]]].
  - apply H. apply auth_class_pass_anchored. exact (proj1 (EA L)).
  - apply H. exact (proj2 (EA L)).
  - exact (H (EX L)).
  - exact (H (ET L)).
  - exact (H (ER L)).
Qed.
