(* C02_Levels.v — verification levels: the generated tables (Generated.v, from
   verifier/trustpolicy/trustpolicy.go) and GetVerificationLevel.
   Shared by C02 (enforcement maps), C09 (document validation), C01/C12. *)
From NV Require Import Base Regex Generated.
Open Scope string_scope.

Inductive action := Enforce | Log | Skip.

Definition action_eqb (a b : action) : bool :=
  match a, b with Enforce, Enforce | Log, Log | Skip, Skip => true | _, _ => false end.

(* how processSignature reads an action string: it only ever compares with
   "enforce" (isCriticalFailure) and with "skip" (revocation); anything else
   behaves like "log" *)
Definition parse_action (s : string) : action :=
  if String.eqb s "enforce" then Enforce else if String.eqb s "skip" then Skip else Log.

(* for _, l := range VerificationLevels { if l.Name == name { baseLevel = l } }  — no break: last match *)
Fixpoint find_level (name : string) (ls : list (string * list (string * string)))
  : option (list (string * string)) :=
  match ls with
  | [] => None
  | (n, e) :: ls' =>
      match find_level name ls' with
      | Some e' => Some e'
      | None => if String.eqb n name then Some e else None
      end
  end.

Inductive level_error :=
| ErrEmptyLevel | ErrUnknownLevel | ErrSkipCustom
| ErrUnknownType | ErrUnknownAction | ErrIntegrityOverride | ErrSkipNotRevocation.

(* one override entry applied to the custom map *)
Definition apply_override (enf : amap) (kv : string * string) : level_error + amap :=
  let '(k, v) := kv in
  if negb (mem_str k gen_validation_types) then inl ErrUnknownType
  else if negb (mem_str v gen_validation_actions) then inl ErrUnknownAction
  else if String.eqb k "integrity" then inl ErrIntegrityOverride
  else if negb (String.eqb k "revocation") && String.eqb v "skip" then inl ErrSkipNotRevocation
  else inr (set_key k v enf).

Fixpoint apply_overrides (enf : amap) (ov : amap) : level_error + amap :=
  match ov with
  | [] => inr enf
  | kv :: ov' =>
      match apply_override enf kv with
      | inl e => inl e
      | inr enf' => apply_overrides enf' ov'
      end
  end.

(* GetVerificationLevel: (name, enforcement) or an error. The override is a Go
   map: the harness prints it as a list with unique keys; the iteration order
   of the Go map only influences which error is reported first. *)
Definition get_level (name : string) (ov : amap) : level_error + (string * amap) :=
  if String.eqb name "" then inl ErrEmptyLevel else
  match find_level name gen_levels with
  | None => inl ErrUnknownLevel
  | Some base =>
      match ov with
      | [] => inr (name, base)
      | _ =>
          if String.eqb name "skip" then inl ErrSkipCustom
          else match apply_overrides base ov with
               | inl e => inl e
               | inr enf => inr ("custom", enf)
               end
      end
  end.

(* the action processSignature sees for a validation type: map with default "" *)
Definition enf_action (enf : amap) (t : string) : action := parse_action (lookup_default t enf).

(* typed view of an enforcement map, in the order processSignature uses it *)
Record level := mk_level { l_auth : action; l_ts : action; l_exp : action; l_rev : action }.

Definition level_of (enf : amap) : level :=
  mk_level (enf_action enf "authenticity") (enf_action enf "authenticTimestamp")
           (enf_action enf "expiry") (enf_action enf "revocation").

Definition level_eqb (a b : level) : bool :=
  action_eqb (l_auth a) (l_auth b) && action_eqb (l_ts a) (l_ts b)
  && action_eqb (l_exp a) (l_exp b) && action_eqb (l_rev a) (l_rev b).

(* ---- the whole (finite) configuration space the property quantifies over ---- *)
Definition base_names : list string := ["strict"; "permissive"; "audit"].

Definition opt_overrides (t : string) (acts : list string) : list amap :=
  [] :: map (fun a => [(t, a)]) acts.

Definition all_legal_overrides : list amap :=
  flat_map (fun a => flat_map (fun b => flat_map (fun c => map (fun d => (a ++ b ++ c ++ d)%list)
    (opt_overrides "revocation" ["enforce"; "log"; "skip"]))
    (opt_overrides "expiry" ["enforce"; "log"]))
    (opt_overrides "authenticTimestamp" ["enforce"; "log"]))
    (opt_overrides "authenticity" ["enforce"; "log"]).

Definition reachable_levels : list level :=
  flat_map (fun n => flat_map (fun ov =>
     match get_level n ov with inr (_, enf) => [level_of enf] | inl _ => [] end) all_legal_overrides) base_names.

Definition all_24 : list level :=
  flat_map (fun a => flat_map (fun b => flat_map (fun c => map (fun d => mk_level a b c d)
    [Enforce; Log; Skip]) [Enforce; Log]) [Enforce; Log]) [Enforce; Log].

(* pointwise order enforce <= log <= skip *)
Definition action_le (a b : action) : bool :=
  match a, b with
  | Enforce, _ => true
  | Log, Enforce => false
  | Log, _ => true
  | Skip, Skip => true
  | Skip, _ => false
  end.

Definition level_le (a b : level) : bool :=
  action_le (l_auth a) (l_auth b) && action_le (l_ts a) (l_ts b)
  && action_le (l_exp a) (l_exp b) && action_le (l_rev a) (l_rev b).
