(* C04_Proofs.v — lemmas and proofs about C04_DN / C04_Model. No axioms. *)
From NV Require Import Base Generated C04_DN C04_Model C04_RoundTrip.
From Coq Require Import Permutation.
Open Scope string_scope.
Open Scope list_scope.

(* ====================================================================== *)
(* 1. association lists                                                    *)
(* ====================================================================== *)

Lemma lookup_In : forall k v (m : amap), lookup k m = Some v -> In (k, v) m.
Proof.
  intros k v m. induction m as [|[k' v'] m IH]; cbn; [discriminate|].
  destruct (String.eqb k k') eqn:E.
  - intros H. inversion H. apply String.eqb_eq in E. subst. now left.
  - intros H. right. auto.
Qed.

Lemma existsb_key_false : forall k (m : amap),
  existsb (fun kv => String.eqb k (fst kv)) m = false -> lookup k m = None.
Proof.
  intros k m. induction m as [|[k' v'] m IH]; cbn; [reflexivity|].
  destruct (String.eqb k k'); cbn; [discriminate|auto].
Qed.

Lemma lookup_None_notin : forall k (m : amap), lookup k m = None -> forall v, ~ In (k, v) m.
Proof.
  intros k m. induction m as [|[k' v'] m IH]; cbn; [tauto|].
  destruct (String.eqb k k') eqn:E; [discriminate|].
  intros H v [H1|H1].
  - inversion H1. subst. rewrite String.eqb_refl in E. discriminate.
  - eapply IH; eauto.
Qed.

Lemma nodup_lookup : forall (m : amap) k v,
  nodup_keys m = true -> In (k, v) m -> lookup k m = Some v.
Proof.
  induction m as [|[k' v'] m IH]; cbn; [tauto|].
  intros k v H [H1|H1].
  - inversion H1. subst. now rewrite String.eqb_refl.
  - apply andb_true_iff in H. destruct H as [Hn Hd].
    destruct (String.eqb k k') eqn:E.
    + apply String.eqb_eq in E. subst. apply negb_true_iff in Hn.
      apply existsb_key_false in Hn. exfalso. eapply lookup_None_notin; eauto.
    + auto.
Qed.

Lemma nodup_keys_NoDup : forall (m : amap), nodup_keys m = true <-> NoDup (map fst m).
Proof.
  induction m as [|[k v] m IH]; cbn.
  - split; [constructor|reflexivity].
  - rewrite andb_true_iff, IH, negb_true_iff. split.
    + intros [H1 H2]. constructor; [|assumption].
      intros Hin. apply in_map_iff in Hin. destruct Hin as [[k' v'] [E Hin]]. cbn in E. subst.
      apply existsb_key_false in H1. eapply lookup_None_notin; eauto.
    + intros H. inversion H as [|? ? Hn Hd]. subst. split; [|assumption].
      destruct (existsb (fun kv => String.eqb k (fst kv)) m) eqn:E; [|reflexivity].
      apply existsb_exists in E. destruct E as [[k' v'] [Hin E]]. cbn in E.
      apply String.eqb_eq in E. subst. exfalso. apply Hn. apply in_map_iff. now exists (k', v').
Qed.

Lemma nodup_keys_perm : forall (a b : amap),
  Permutation a b -> nodup_keys a = true -> nodup_keys b = true.
Proof.
  intros a b P H. apply nodup_keys_NoDup. apply nodup_keys_NoDup in H.
  eapply Permutation_NoDup; [|exact H]. now apply Permutation_map.
Qed.

Lemma lookup_perm : forall (a b : amap),
  Permutation a b -> nodup_keys a = true -> forall k, lookup k a = lookup k b.
Proof.
  intros a b P H k. pose proof (nodup_keys_perm _ _ P H) as Hb.
  destruct (lookup k a) eqn:Ea.
  - symmetry. apply nodup_lookup; [assumption|]. eapply Permutation_in; [exact P|]. now apply lookup_In.
  - destruct (lookup k b) eqn:Eb; [|reflexivity].
    apply lookup_In in Eb. apply Permutation_sym in P. eapply Permutation_in in Eb; [|exact P].
    exfalso. eapply lookup_None_notin; eauto.
Qed.

Lemma in_lookup_some : forall (m : amap) k v, In (k, v) m -> exists v', lookup k m = Some v'.
Proof.
  induction m as [|[k' v'] m IH]; cbn; [tauto|].
  intros k v [H|H].
  - inversion H. subst. rewrite String.eqb_refl. eauto.
  - destruct (String.eqb k k'); eauto.
Qed.

(* IsSubsetDN: every attribute of a is present in b with an equal value *)
Lemma is_subset_dn_spec : forall a b, is_subset_dn a b = true <-> within a b.
Proof.
  intros a b. unfold is_subset_dn, within. rewrite forallb_forall. split.
  - intros H k v Hl. specialize (H (k, v) (lookup_In _ _ _ Hl)). cbn in H. rewrite Hl in H.
    destruct (lookup k b); [|discriminate]. apply String.eqb_eq in H. now subst.
  - intros H [k v] Hin. cbn. destruct (in_lookup_some _ _ _ Hin) as [v' Hl].
    rewrite Hl, (H _ _ Hl). apply String.eqb_refl.
Qed.

Lemma pair_existsb_In : forall k v (b : amap),
  existsb (fun kv' => String.eqb k (fst kv') && String.eqb v (snd kv')) b = true <-> In (k, v) b.
Proof.
  intros k v b. rewrite existsb_exists. split.
  - intros [[k' v'] [Hin E]]. cbn in E. apply andb_true_iff in E. destruct E as [E1 E2].
    apply String.eqb_eq in E1, E2. now subst.
  - intros Hin. exists (k, v). cbn. now rewrite !String.eqb_refl.
Qed.

Lemma subset_decl_In : forall a b, subset_decl a b = true <-> (forall k v, In (k, v) a -> In (k, v) b).
Proof.
  intros a b. unfold subset_decl. rewrite forallb_forall. split.
  - intros H k v Hin. specialize (H (k, v) Hin). cbn in H. now apply pair_existsb_In.
  - intros H [k v] Hin. cbn. apply pair_existsb_In. auto.
Qed.

Lemma bool_eq_iff : forall x y : bool, (x = true <-> y = true) -> x = y.
Proof. intros [] [] [H1 H2]; auto; try (symmetry; auto); discriminate (H1 eq_refl) || idtac. Qed.

(* on maps (unique keys) the declarative subset and IsSubsetDN coincide *)
Lemma subset_decl_is_subset : forall a b,
  keys_unique a = true -> keys_unique b = true -> subset_decl a b = is_subset_dn a b.
Proof.
  intros a b Ha Hb. apply bool_eq_iff. rewrite subset_decl_In, is_subset_dn_spec. unfold within. split.
  - intros H k v Hl. apply nodup_lookup; [assumption|]. apply H. now apply lookup_In.
  - intros H k v Hin. apply lookup_In. apply H. now apply nodup_lookup.
Qed.

(* ====================================================================== *)
(* 2. what an accepted name looks like (invariants of ParseDistinguishedName) *)
(* ====================================================================== *)

Lemma remove_key_no_key : forall k (m : amap),
  existsb (fun kv => String.eqb k (fst kv)) (remove_key k m) = false.
Proof.
  intros k m. induction m as [|[k' v'] m IH]; cbn; [reflexivity|].
  destruct (String.eqb k k') eqn:E; cbn; [assumption|]. now rewrite E.
Qed.

Lemma remove_key_other : forall k k' (m : amap),
  existsb (fun kv => String.eqb k' (fst kv)) m = false ->
  existsb (fun kv => String.eqb k' (fst kv)) (remove_key k m) = false.
Proof.
  intros k k' m. induction m as [|[k2 v2] m IH]; cbn; [reflexivity|].
  intros H. apply orb_false_iff in H. destruct H as [H1 H2].
  destruct (String.eqb k k2); cbn; [auto|]. rewrite H1. cbn. auto.
Qed.

Lemma remove_key_nodup : forall k (m : amap), nodup_keys m = true -> nodup_keys (remove_key k m) = true.
Proof.
  intros k m. induction m as [|[k' v'] m IH]; cbn; [reflexivity|].
  intros H. apply andb_true_iff in H. destruct H as [H1 H2].
  destruct (String.eqb k k'); cbn; [auto|].
  apply negb_true_iff in H1. rewrite (remove_key_other _ _ _ H1). cbn. auto.
Qed.

Lemma set_key_nodup : forall k v m, nodup_keys m = true -> nodup_keys (set_key k v m) = true.
Proof.
  intros k v m H. unfold set_key. cbn. rewrite remove_key_no_key. cbn. now apply remove_key_nodup.
Qed.

Definition no_S (m : amap) : bool := negb (existsb (fun kv => String.eqb (fst kv) "S") m).

Lemma remove_key_no_S : forall k m, no_S m = true -> no_S (remove_key k m) = true.
Proof.
  unfold no_S. intros k m. induction m as [|[k' v'] m IH]; cbn; [reflexivity|].
  rewrite !negb_true_iff. intros H. apply orb_false_iff in H. destruct H as [H1 H2].
  destruct (String.eqb k k'); cbn.
  - apply negb_true_iff. apply IH. now apply negb_true_iff.
  - rewrite H1. cbn. apply negb_true_iff. apply IH. now apply negb_true_iff.
Qed.

Lemma canon_type_not_S : forall t, String.eqb (canon_type t) "S" = false.
Proof.
  intros t. unfold canon_type. destruct (String.eqb t "S") eqn:E; [reflexivity|assumption].
Qed.

Lemma add_attrs_inv : forall atts m m',
  nodup_keys m = true -> no_S m = true -> add_attrs atts m = DOk m' ->
  nodup_keys m' = true /\ no_S m' = true.
Proof.
  induction atts as [|[t v] atts IH]; cbn; intros m m' H1 H2 H.
  - inversion H. subst. auto.
  - destruct (String.eqb (lookup_default (canon_type t) m) ""); [|discriminate].
    eapply IH; [| |exact H].
    + now apply set_key_nodup.
    + unfold set_key, no_S. cbn. rewrite canon_type_not_S. cbn. now apply remove_key_no_S.
Qed.

Lemma add_rdns_inv : forall rdns m m',
  nodup_keys m = true -> no_S m = true -> add_rdns rdns m = DOk m' ->
  nodup_keys m' = true /\ no_S m' = true.
Proof.
  induction rdns as [|rdn rdns IH]; intros m m' H1 H2 H; cbn [add_rdns] in H.
  - inversion H. subst. auto.
  - destruct (1 <? List.length rdn)%nat; [discriminate|].
    destruct (add_attrs rdn m) as [m1|e] eqn:E; [|discriminate].
    destruct (add_attrs_inv _ _ _ H1 H2 E). eapply IH; eauto.
Qed.

Lemma lookup_default_nonempty : forall f m,
  String.eqb (lookup_default f m) "" = false -> nonempty_at f m = true.
Proof.
  intros f m. unfold lookup_default, nonempty_at. destruct (lookup f m); cbn.
  - intros ->. reflexivity.
  - discriminate.
Qed.

(* an accepted name: unique attribute types, the alias S resolved, C/ST/O
   present and non-empty, no "=#" *)
Lemma parse_accepts : forall s m, parse_distinguished_name s = DOk m ->
  keys_unique m = true /\ no_S m = true /\ forallb (fun f => nonempty_at f m) mandatory = true
  /\ has_eqhash (list_ascii_of_string s) = false.
Proof.
  intros s m. unfold parse_distinguished_name.
  destruct (has_eqhash (list_ascii_of_string s)); [discriminate|].
  destruct (parse_dn s) as [rdns| |]; try discriminate.
  destruct (add_rdns rdns []) as [m1|e] eqn:E; [|discriminate].
  destruct (add_rdns_inv rdns [] m1 eq_refl eq_refl E) as [H1 H2].
  destruct (find _ mandatory) eqn:F; [discriminate|].
  intros H. inversion H. subst. repeat split; auto.
  apply forallb_forall. intros f Hin. apply lookup_default_nonempty.
  pose proof (find_none _ _ F f Hin) as Hf. cbn in Hf. exact Hf.
Qed.

Lemma parse_ok_model : forall s, parse_ok s (parse_distinguished_name s) = true.
Proof.
  intros s. unfold parse_ok. destruct (parse_distinguished_name s) as [m|e] eqn:E; [|reflexivity].
  destruct (parse_accepts _ _ E) as (H1 & H2 & H3 & H4).
  unfold no_S in H2. rewrite H1, H2, H3, H4. reflexivity.
Qed.

(* the mandatory attributes of an accepted name *)
Lemma parse_mandatory : forall s m, parse_distinguished_name s = DOk m ->
  forall f, In f mandatory -> exists v, lookup f m = Some v /\ v <> "".
Proof.
  intros s m H f Hin. destruct (parse_accepts _ _ H) as (_ & _ & H3 & _).
  rewrite forallb_forall in H3. specialize (H3 f Hin). unfold nonempty_at in H3.
  destruct (lookup f m) as [v|]; [|discriminate]. exists v. split; [reflexivity|].
  intros ->. discriminate.
Qed.

(* ====================================================================== *)
(* 3. verifyX509TrustedIdentities                                          *)
(* ====================================================================== *)

Lemma collect_inr : forall ids maps, collect_ids ids = inr maps ->
  forallb identity_ok ids = true /\ maps = x509_maps ids.
Proof.
  induction ids as [|id ids IH]; intros maps H.
  - inversion H. auto.
  - cbn [collect_ids] in H. cbn [forallb]. unfold x509_maps. cbn [flat_map]. fold (x509_maps ids).
    unfold identity_ok at 1. unfold x509_value at 1.
    destruct (cut_byte colon id) as [[p v]|]; [|discriminate].
    destruct (String.eqb p x509_subject).
    + destruct (String.eqb v ""); [discriminate|].
      destruct (parse_distinguished_name v) as [m|e]; [|discriminate].
      destruct (collect_ids ids) as [e|l]; [discriminate|].
      inversion H. subst. destruct (IH l eq_refl) as [H1 H2]. rewrite H1, <- H2. auto.
    + destruct (IH _ H) as [H1 H2]. rewrite H1, <- H2. auto.
Qed.

Lemma collect_inl : forall ids e, collect_ids ids = inl e ->
  forallb identity_ok ids = false /\ is_pass e = false.
Proof.
  induction ids as [|id ids IH]; intros e H; [discriminate|].
  cbn [collect_ids] in H. cbn [forallb]. unfold identity_ok at 1.
  destruct (cut_byte colon id) as [[p v]|].
  2:{ inversion H. auto. }
  destruct (String.eqb p x509_subject).
  - destruct (String.eqb v ""). { inversion H. auto. }
    destruct (parse_distinguished_name v) as [m|e']. 2:{ inversion H. auto. }
    destruct (collect_ids ids) as [e'|l]; [|discriminate]. inversion H. subst.
    destruct (IH e eq_refl) as (H1 & H2). rewrite H1. auto.
  - destruct (IH e H) as (H1 & H2). rewrite H1. auto.
Qed.

Lemma x509_maps_unique : forall ids i, In i (x509_maps ids) -> keys_unique i = true.
Proof.
  intros ids i Hin. unfold x509_maps in Hin. apply in_flat_map in Hin. destruct Hin as [id [_ Hin]].
  destruct (x509_value id) as [v|]; [|destruct Hin].
  destruct (parse_distinguished_name v) as [m|e] eqn:E; [|destruct Hin].
  destruct Hin as [<-|[]]. now destruct (parse_accepts _ _ E).
Qed.

Lemma existsb_flat_map : forall {A B} (f : B -> bool) (g : A -> list B) l,
  existsb f (flat_map g l) = existsb (fun a => existsb f (g a)) l.
Proof.
  intros A B f g l. induction l as [|a l IH]; cbn; [reflexivity|]. now rewrite existsb_app, IH.
Qed.

Lemma some_identity_within_maps : forall ids m,
  some_identity_within ids m = existsb (fun i => subset_decl i m) (x509_maps ids).
Proof.
  intros ids m. unfold some_identity_within, x509_maps. rewrite existsb_flat_map.
  apply existsb_ext_in || idtac.
  induction ids as [|id ids IH]; cbn; [reflexivity|]. rewrite IH. f_equal.
  destruct (x509_value id) as [v|]; [|reflexivity].
  destruct (parse_distinguished_name v); cbn; [now rewrite orb_false_r|reflexivity].
Qed.

Lemma existsb_ext_in' : forall {A} (f g : A -> bool) l,
  (forall x, In x l -> f x = g x) -> existsb f l = existsb g l.
Proof.
  intros A f g l. induction l as [|a l IH]; cbn; intros H; [reflexivity|].
  rewrite (H a (or_introl eq_refl)), IH; auto.
Qed.

(* the verdict, as a boolean, without wildcard *)
Lemma verify_pass_bool : forall ids leaf rest, mem_str wildcard ids = false ->
  is_pass (verify_identities ids (leaf :: rest)) = expected_pass ids (leaf :: rest).
Proof.
  intros ids leaf rest Hw. unfold verify_identities, expected_pass. rewrite Hw.
  destruct (collect_ids ids) as [e|maps] eqn:C.
  - destruct (collect_inl _ _ C) as (H1 & H2). rewrite H1, H2.
    destruct (parse_distinguished_name leaf); reflexivity.
  - destruct (collect_inr _ _ C) as (H1 & H2). rewrite H1.
    destruct (parse_distinguished_name leaf) as [m|e] eqn:L.
    + cbn [andb]. rewrite some_identity_within_maps. rewrite <- H2.
      assert (Hm : keys_unique m = true) by now destruct (parse_accepts _ _ L).
      assert (Hx : existsb (fun i => is_subset_dn i m) maps = existsb (fun i => subset_decl i m) maps).
      { apply existsb_ext_in'. intros i Hin. symmetry. apply subset_decl_is_subset; [|assumption].
        subst maps. eapply x509_maps_unique; eauto. }
      destruct maps as [|i0 maps']; [reflexivity|]. rewrite Hx.
      destruct (existsb (fun i => subset_decl i m) (i0 :: maps')); reflexivity.
    + destruct maps; reflexivity.
Qed.

(* the Prop-level reading of identity_ok *)
Definition interpretable (id : string) : Prop :=
  exists p v, cut_byte colon id = Some (p, v) /\
              (p = x509_subject -> v <> "" /\ exists i, parse_distinguished_name v = DOk i).

Lemma identity_ok_spec : forall id, identity_ok id = true <-> interpretable id.
Proof.
  intros id. unfold identity_ok, interpretable. destruct (cut_byte colon id) as [[p v]|].
  - destruct (String.eqb p x509_subject) eqn:E.
    + apply String.eqb_eq in E. rewrite andb_true_iff, negb_true_iff. split.
      * intros [H1 H2]. exists p, v. split; [reflexivity|]. intros _. split.
        -- intros ->. discriminate.
        -- destruct (parse_distinguished_name v) as [i|]; [eauto|discriminate].
      * intros (p' & v' & H & H'). inversion H. subst p' v'. destruct (H' E) as [H1 [i H2]]. split.
        -- now apply String.eqb_neq.
        -- now rewrite H2.
    + split; [|reflexivity]. intros _. exists p, v. split; [reflexivity|].
      intros ->. rewrite String.eqb_refl in E. discriminate.
  - split; [discriminate|]. intros (p & v & H & _). discriminate.
Qed.

Lemma in_x509_maps : forall ids i, In i (x509_maps ids) <->
  exists id v, In id ids /\ x509_value id = Some v /\ parse_distinguished_name v = DOk i.
Proof.
  intros ids i. unfold x509_maps. rewrite in_flat_map. split.
  - intros [id [Hin H]]. destruct (x509_value id) as [v|] eqn:X; [|destruct H].
    destruct (parse_distinguished_name v) as [m|] eqn:P; [|destruct H].
    destruct H as [<-|[]]. eauto.
  - intros (id & v & Hin & X & P). exists id. split; [assumption|]. rewrite X, P. now left.
Qed.

(* C04_match *)
Theorem match_iff : forall ids leaf rest, mem_str wildcard ids = false ->
  (verify_identities ids (leaf :: rest) = VPass <->
   exists m, parse_distinguished_name leaf = DOk m /\
             (forall id, In id ids -> interpretable id) /\
             exists id v i, In id ids /\ x509_value id = Some v /\
                            parse_distinguished_name v = DOk i /\ within i m).
Proof.
  intros ids leaf rest Hw.
  assert (E : verify_identities ids (leaf :: rest) = VPass <-> expected_pass ids (leaf :: rest) = true).
  { rewrite <- (verify_pass_bool _ _ _ Hw). destruct (verify_identities ids (leaf :: rest)); cbn; split; congruence. }
  rewrite E. unfold expected_pass. destruct (parse_distinguished_name leaf) as [m|e] eqn:L.
  - rewrite andb_true_iff, forallb_forall, some_identity_within_maps, existsb_exists. split.
    + intros [H1 [i [Hin Hs]]]. exists m. split; [reflexivity|]. split.
      * intros id Hid. apply identity_ok_spec. auto.
      * apply in_x509_maps in Hin as Hin'. destruct Hin' as (id & v & Hid & X & P).
        exists id, v, i. repeat split; try assumption.
        apply is_subset_dn_spec. rewrite <- subset_decl_is_subset; [assumption| |].
        -- eapply x509_maps_unique; eauto.
        -- now destruct (parse_accepts _ _ L).
    + intros (m' & Hm & H1 & id & v & i & Hid & X & P & Hs). inversion Hm. subst m'. split.
      * intros id' Hid'. apply identity_ok_spec. auto.
      * exists i. split; [apply in_x509_maps; eauto|].
        rewrite subset_decl_is_subset; [now apply is_subset_dn_spec| |].
        -- now destruct (parse_accepts _ _ P).
        -- now destruct (parse_accepts _ _ L).
  - split; [discriminate|]. intros (m & Hm & _). discriminate.
Qed.

(* C04_leaf_only *)
Theorem leaf_only : forall ids leaf rest1 rest2,
  verify_identities ids (leaf :: rest1) = verify_identities ids (leaf :: rest2).
Proof. reflexivity. Qed.

Theorem leaf_only_model : forall late log ids leaf rest1 rest2,
  model (IVerify late log ids (leaf :: rest1)) = model (IVerify late log ids (leaf :: rest2)).
Proof. reflexivity. Qed.

(* C04_wildcard *)
Theorem wildcard_accepts : forall ids chain, mem_str wildcard ids = true -> verify_identities ids chain = VPass.
Proof. intros ids chain H. unfold verify_identities. now rewrite H. Qed.

Theorem lone_wildcard_model : forall late log chain,
  model (IVerify late log [wildcard] chain) = OVerify VPass false.
Proof. intros [] [] chain; reflexivity. Qed.

(* C04_fail_closed *)
Theorem fail_closed_leaf : forall ids leaf rest e, mem_str wildcard ids = false ->
  parse_distinguished_name leaf = DErr e -> is_pass (verify_identities ids (leaf :: rest)) = false.
Proof.
  intros ids leaf rest e Hw L. rewrite verify_pass_bool by assumption. unfold expected_pass. now rewrite L.
Qed.

Theorem fail_closed_identity : forall ids id chain, mem_str wildcard ids = false ->
  In id ids -> identity_ok id = false -> is_pass (verify_identities ids chain) = false.
Proof.
  intros ids id chain Hw Hin Hid. unfold verify_identities. rewrite Hw.
  destruct (collect_ids ids) as [e|maps] eqn:C.
  - now destruct (collect_inl _ _ C) as (_ & H).
  - destruct (collect_inr _ _ C) as (H & _). rewrite forallb_forall in H. rewrite (H id Hin) in Hid. discriminate.
Qed.

Lemma x509_maps_none : forall ids, (forall id, In id ids -> x509_value id = None) -> x509_maps ids = [].
Proof.
  induction ids as [|id ids IH]; intros H; [reflexivity|]. unfold x509_maps in *. cbn.
  rewrite (H id (or_introl eq_refl)). cbn. apply IH. intros id' Hin. apply H. now right.
Qed.

Theorem fail_closed_no_x509 : forall ids chain, mem_str wildcard ids = false ->
  (forall id, In id ids -> x509_value id = None) -> is_pass (verify_identities ids chain) = false.
Proof.
  intros ids chain Hw Hn. unfold verify_identities. rewrite Hw.
  destruct (collect_ids ids) as [e|maps] eqn:C.
  - now destruct (collect_inl _ _ C) as (_ & H).
  - destruct (collect_inr _ _ C) as (_ & H). rewrite (x509_maps_none _ Hn) in H. subst. reflexivity.
Qed.

(* ====================================================================== *)
(* 4. order, alias, spacing: the verdict in terms of abstract DNs          *)
(* ====================================================================== *)

Lemma styled_wf_parts : forall d, styled_wf d = true ->
  dn_wf (map snd d) = true /\ forallb style_wf d = true /\ nodup_keys (map snd d) = true /\ d <> [].
Proof.
  intros d H. unfold styled_wf in H. apply andb_true_iff in H. destruct H as [H1 H2].
  repeat split; try assumption.
  - unfold dn_wf in H1. apply andb_true_iff in H1. destruct H1 as [H1 _].
    apply andb_true_iff in H1. now destruct H1.
  - intros ->. discriminate H1.
Qed.

(* C04_order_alias_space, part 1: every rendering is read back *)
Theorem roundtrip : forall d, styled_wf d = true ->
  exists m, parse_distinguished_name (render d) = DOk m /\ same_attrs m (map snd d).
Proof.
  intros d H. destruct (styled_wf_parts d H) as (H1 & H2 & H3 & _).
  exists (rev (map snd d)). split; [now apply parse_render|].
  intros k. symmetry. apply lookup_perm; [apply Permutation_rev|assumption].
Qed.

Lemma render_nonempty : forall d, d <> [] -> String.eqb (render d) "" = false.
Proof.
  intros d H. unfold render. pose proof (eq_in_render d H) as Hin.
  destruct (render_bytes d); [destruct Hin|reflexivity].
Qed.

Lemma id_of_facts : forall d,
  String.eqb wildcard (id_of d) = false /\ cut_byte colon (id_of d) = Some (x509_subject, render d).
Proof. intros d. split; reflexivity. Qed.

Lemma collect_id_of : forall ds, Forall (fun d => styled_wf d = true) ds ->
  collect_ids (map id_of ds) = inr (map (fun d => rev (map snd d)) ds).
Proof.
  induction ds as [|d ds IH]; intros H; [reflexivity|]. inversion H as [|? ? Hd Hds]. subst.
  destruct (styled_wf_parts d Hd) as (H1 & H2 & _ & H4).
  cbn [map collect_ids]. destruct (id_of_facts d) as [_ ->]. rewrite String.eqb_refl.
  rewrite render_nonempty, parse_render, IH by assumption. reflexivity.
Qed.

Lemma mem_wildcard_id_of : forall ds, mem_str wildcard (map id_of ds) = false.
Proof. induction ds as [|d ds IH]; [reflexivity|]. cbn [map mem_str existsb]. fold (mem_str wildcard (map id_of ds)). now rewrite IH. Qed.

Lemma existsb_map : forall {A B} (f : B -> bool) (g : A -> B) l, existsb f (map g l) = existsb (fun a => f (g a)) l.
Proof. intros A B f g l. induction l as [|a l IH]; cbn; [reflexivity|]. now rewrite IH. Qed.

Lemma subset_decl_rev : forall a b, subset_decl (rev a) (rev b) = subset_decl a b.
Proof.
  intros a b. apply bool_eq_iff. rewrite !subset_decl_In. split; intros H k v Hin.
  - apply in_rev. apply H. now apply in_rev in Hin.
  - apply in_rev in Hin. apply in_rev. rewrite rev_involutive. now apply H.
Qed.

Lemma nodup_keys_rev1 : forall (m : amap), nodup_keys m = true -> nodup_keys (rev m) = true.
Proof. intros m H. eapply nodup_keys_perm; [apply Permutation_rev|assumption]. Qed.

(* the verdict on rendered identities and a rendered leaf subject, whatever the styles *)
Theorem abstract_verdict : forall ds l rest,
  Forall (fun d => styled_wf d = true) ds -> styled_wf l = true ->
  verify_identities (map id_of ds) (render l :: rest) =
  match ds with
  | [] => VNoX509
  | _ :: _ => if existsb (fun d => subset_decl (map snd d) (map snd l)) ds then VPass else VNoMatch
  end.
Proof.
  intros ds l rest Hds Hl. unfold verify_identities.
  rewrite mem_wildcard_id_of, collect_id_of by assumption.
  destruct (styled_wf_parts l Hl) as (L1 & L2 & L3 & _).
  destruct ds as [|d0 ds']; [reflexivity|].
  set (ds := d0 :: ds') in *. change (map (fun d => rev (map snd d)) ds) with (map (fun d => rev (map snd d)) (d0 :: ds')).
  cbn [map]. change (rev (map snd d0) :: map (fun d => rev (map snd d)) ds') with (map (fun d => rev (map snd d)) ds).
  rewrite parse_render by assumption. rewrite existsb_map.
  assert (E : existsb (fun d => is_subset_dn (rev (map snd d)) (rev (map snd l))) ds
              = existsb (fun d => subset_decl (map snd d) (map snd l)) ds).
  { apply existsb_ext_in'. intros d Hin. rewrite Forall_forall in Hds.
    destruct (styled_wf_parts d (Hds d Hin)) as (_ & _ & D3 & _).
    rewrite <- subset_decl_is_subset by (apply nodup_keys_rev1; assumption). apply subset_decl_rev. }
  exact (f_equal (fun b : bool => if b then VPass else VNoMatch) E).
Qed.

Lemma subset_decl_perm : forall a a' b b', Permutation a a' -> Permutation b b' ->
  subset_decl a b = subset_decl a' b'.
Proof.
  intros a a' b b' Pa Pb. apply bool_eq_iff. rewrite !subset_decl_In. split; intros H k v Hin.
  - eapply Permutation_in; [exact Pb|]. apply H. eapply Permutation_in; [apply Permutation_sym; exact Pa|assumption].
  - eapply Permutation_in; [apply Permutation_sym; exact Pb|]. apply H. eapply Permutation_in; [exact Pa|assumption].
Qed.

Definition same_dn (a b : list (astyle * attr)) : Prop := Permutation (map snd a) (map snd b).

(* C04_order_alias_space, part 2: the verdict does not depend on attribute
   order, spacing, separators, escaping or the S/ST alias, neither in the
   identities nor in the leaf subject *)
Theorem verdict_invariant : forall ds1 ds2 l1 l2 rest1 rest2,
  Forall (fun d => styled_wf d = true) ds1 -> Forall (fun d => styled_wf d = true) ds2 ->
  styled_wf l1 = true -> styled_wf l2 = true ->
  Forall2 same_dn ds1 ds2 -> same_dn l1 l2 ->
  verify_identities (map id_of ds1) (render l1 :: rest1) = verify_identities (map id_of ds2) (render l2 :: rest2).
Proof.
  intros ds1 ds2 l1 l2 rest1 rest2 H1 H2 L1 L2 F P.
  rewrite !abstract_verdict by assumption.
  assert (E : existsb (fun d => subset_decl (map snd d) (map snd l1)) ds1
              = existsb (fun d => subset_decl (map snd d) (map snd l2)) ds2).
  { clear H1 H2. induction F as [|d1 d2 ds1 ds2 Hd F IH]; [reflexivity|]. cbn [existsb].
    rewrite IH. f_equal. now apply subset_decl_perm. }
  destruct F; [reflexivity|]. now rewrite E.
Qed.

(* ====================================================================== *)
(* 5. the model meets the oracle                                           *)
(* ====================================================================== *)

Lemma amap_sub_In : forall a b, nodup_keys b = true -> (forall kv, In kv a -> In kv b) -> amap_sub a b = true.
Proof.
  intros a b Hb H. unfold amap_sub. apply forallb_forall. intros [k v] Hin. cbn.
  rewrite (nodup_lookup b k v Hb (H _ Hin)). apply String.eqb_refl.
Qed.

Lemma amap_eqb_rev : forall m, nodup_keys m = true -> amap_eqb (rev m) m = true.
Proof.
  intros m H. unfold amap_eqb. rewrite rev_length, Nat.eqb_refl. cbn [andb].
  rewrite !amap_sub_In; auto.
  - now apply nodup_keys_rev1.
  - intros kv Hin. now apply in_rev in Hin.
  - intros kv Hin. now apply in_rev.
Qed.

Lemma verify_obs_ok : forall late log ids chain, negb (is_nil chain) = true ->
  spec_ok (IVerify late log ids chain) (verify_obs log ids chain) = true.
Proof.
  intros late log ids chain Hc. unfold verify_obs. cbn [spec_ok]. rewrite Bool.eqb_reflx, andb_true_r.
  unfold verify_ok. destruct (list_eqb String.eqb ids [wildcard]) eqn:E.
  - apply list_eqb_spec in E; [|apply String.eqb_eq]. subst. reflexivity.
  - destruct (mem_str wildcard ids) eqn:W; [reflexivity|].
    destruct chain as [|leaf rest]; [discriminate|].
    rewrite verify_pass_bool by assumption. apply Bool.eqb_reflx.
Qed.

Theorem model_spec_ok : forall i, wf i = true -> spec_ok i (model i) = true.
Proof.
  intros [s|a b|d s|late log ids chain|ti rev pok log ids chain|log ids chain] Hwf; cbn [model].
  - cbn [spec_ok]. apply parse_ok_model.
  - cbn [spec_ok wf] in *. apply andb_true_iff in Hwf. destruct Hwf as [Ha Hb].
    rewrite subset_decl_is_subset by assumption. apply Bool.eqb_reflx.
  - cbn [spec_ok]. rewrite parse_ok_model. cbn [andb]. unfold render_pre.
    destruct (dn_wf (map snd d)) eqn:D; [|reflexivity].
    destruct (forallb style_wf d) eqn:S; [|reflexivity].
    destruct (String.eqb (render d) s) eqn:R; [|reflexivity]. cbn [andb].
    apply String.eqb_eq in R. subst s. rewrite parse_render by assumption.
    apply amap_eqb_rev. unfold dn_wf in D. apply andb_true_iff in D. destruct D as [D _].
    apply andb_true_iff in D. now destruct D.
  - cbn [wf] in Hwf. destruct late.
    + now apply verify_obs_ok.
    + destruct (validate_ids ids) eqn:V; try reflexivity. now apply verify_obs_ok.
  - cbn [wf] in Hwf. apply andb_true_iff in Hwf. destruct Hwf as [Hc _].
    destruct (validate_ids ids) eqn:V; try reflexivity. destruct ti.
    + cbn [spec_ok]. destruct pok, log; reflexivity.
    + pose proof (verify_obs_ok false log ids chain Hc) as H. unfold verify_obs in *. cbn [spec_ok] in *. exact H.
  - destruct (validate_ids ids) eqn:V; try reflexivity. destruct log; [|reflexivity].
    cbn [spec_ok]. destruct (is_pass (verify_identities ids chain)) eqn:P; [reflexivity|].
    rewrite P. reflexivity.
Qed.

(* C04_plugin_guard: the native check is performed iff the plugin does not
   advertise the trusted-identity capability *)
Theorem plugin_guard_native : forall rev pok log ids chain,
  model (IPlugin false rev pok log ids chain) = model (IVerify false log ids chain).
Proof. reflexivity. Qed.

Theorem plugin_guard_owned : forall rev pok log ids chain, validate_ids ids = WOk ->
  model (IPlugin true rev pok log ids chain) =
  OVerify (if pok then VPass else VPluginFail) (negb log && negb pok).
Proof. intros rev pok log ids chain H. cbn [model]. rewrite H. destruct pok; reflexivity. Qed.

(* strict level: the signature is rejected exactly when the identity check fails *)
Theorem strict_rejects : forall ids chain v rej,
  model (IVerify true false ids chain) = OVerify v rej -> rej = negb (is_pass v).
Proof. intros ids chain v rej H. cbn in H. unfold verify_obs in H. inversion H. reflexivity. Qed.

(* the two constants of the model are those of /repo (internal/trustpolicy), as
   translated into Generated.v on every run *)
Lemma constants_generated : wildcard = gen_wildcard /\ x509_subject = gen_x509_subject.
Proof. split; reflexivity. Qed.
