(* C18_Audit.v — proofs added by the theorem audit (docs/audit/C18.md):
   1. the converses of envelope_sound / raw_sound with the conditions spelled out
      (not through the boolean [accepts]);
   2. the accepted payload read on the TREE itself (last member wins), annotations
      literally present;
   3. commands that answer (nil, nil): [model_n];
   4. the oracle in explicit form. *)
From NV Require Import Base C18_Json C18_Model C18_Proofs.

Local Arguments mem_str : simpl never.
Local Arguments known_names : simpl never.

(* ================= 1. converses ================= *)

Theorem envelope_complete i f j d :
  i_meta i = MCaps false true ->
  i_ge i = GEAns f ->
  ge_type f = i_mt i -> i_mt_ok i = true -> ge_parse f = true -> ge_verify f = true ->
  ge_ctype f = payload_type ->
  ge_payload f = Some j -> dec_payload j = Some d ->
  d_mt d = i_dmt i -> d_dg d = i_ddg i -> d_sz d = i_dsz i ->
  (forall k v, In (k, v) (i_dann i) -> lookup k (d_ann d) = Some v) ->
  (forall ms, j = JObj ms -> forall k v, In (k, v) ms ->
      k = "targetArtifact" /\
      forall dms, v = JObj dms -> forall k' v', In (k', v') dms -> In k' known_names) ->
  (i_blob i = true -> exists ks k, i_dk i = DKAns (i_keyid i) ks /\ decode_keyspec ks = Some k) ->
  o_res (model i) = RSig true None.
Proof.
  intros M E Ht Hok Hp Hv Hc Hpl Hd Hmt Hdg Hsz Hann Hclean Hdk.
  assert (accepts i = true) as A.
  { unfold accepts. rewrite M. apply andb_true_iff. split.
    - unfold env_accept. rewrite E, Ht, Hok, Hp, Hv, Hc, Hpl, Hd, String.eqb_refl. cbn.
      rewrite ?String.eqb_refl. cbn.
      unfold content_equal. rewrite Hmt, Hdg, Hsz, !String.eqb_refl, Z.eqb_refl. cbn.
      assert (ann_subset (i_dann i) (d_ann d) = true) as -> by (apply ann_subset_spec; exact Hann).
      cbn. apply tree_clean_spec. exact Hclean.
    - destruct (i_blob i); [|reflexivity].
      destruct (Hdk eq_refl) as [ks [k [Ek Dk]]].
      unfold dk_accept. rewrite Ek, String.eqb_refl, Dk.
      destruct (decode_alg ks k Dk) as [_ [_ [a [_ [_ Ha]]]]]. rewrite Ha. reflexivity. }
  destruct (model_result i) as [H1 _]. specialize (H1 A). rewrite M in H1. exact H1.
Qed.

Theorem raw_complete i env ks k a f :
  i_meta i = MCaps true env ->
  i_dk i = DKAns (i_keyid i) ks -> decode_keyspec ks = Some k -> alg_of_keyspec k = Some a ->
  i_mt_ok i = true ->
  i_gs i = GSAns f -> gs_keyid f = i_keyid i -> gs_chain_parse f = true ->
  gs_sig_empty f = false -> gs_chain_len f <> 0%N -> gs_chain_valid f = true ->
  gs_leaf_alg f = Some a -> gs_sig_ok f = true ->
  o_res (model i) = RSig false (Some (mk_ret true payload_type (i_dmt i) (i_ddg i) (i_dsz i) (i_dann i) true true (Some a))).
Proof.
  intros M Ek Dk Ha Hok Eg Hkid Hcp Hse Hlen Hcv Hla Hso.
  assert (dk_accept i = Some a) as DA.
  { unfold dk_accept. rewrite Ek, String.eqb_refl, Dk. exact Ha. }
  assert (accepts i = true) as A.
  { unfold accepts. rewrite M, DA. unfold raw_accept. rewrite Hok, Eg, Hkid, String.eqb_refl, Hcp, Hse, Hcv, Hla, Hso.
    apply N.eqb_neq in Hlen. rewrite Hlen. cbn. rewrite (proj2 (alg_eqb_eq a a) eq_refl). reflexivity. }
  destruct (model_result i) as [H1 _]. specialize (H1 A). rewrite M in H1.
  destruct H1 as [a' [DA' R]]. assert (a' = a) by congruence. subst a'. exact R.
Qed.

(* no signing capability, or a failing get-plugin-metadata: always an error *)
Theorem no_capability_error i :
  i_meta i = MErr \/ i_meta i = MCaps false false -> exists e, o_res (model i) = RErr e.
Proof.
  intros H. apply error_otherwise. unfold accepts. destruct H as [-> | ->]; reflexivity.
Qed.

(* ================= 2. the accepted payload, read on the tree ================= *)

(* all members of all objects that stand under a member of the payload object, in
   document order (on a clean tree: the members of every "targetArtifact" object) *)
Definition ta_members (j : json) : list (string * json) :=
  match j with
  | JObj ms => flat_map (fun kv => match snd kv with JObj dms => dms | _ => [] end) ms
  | _ => []
  end.

Definition is_null (v : json) : bool := match v with JNull => true | _ => false end.

(* the value of the LAST member named k whose value is not null *)
Fixpoint last_set (k : string) (dms : list (string * json)) : option json :=
  match dms with
  | [] => None
  | (k', v) :: r =>
      match last_set k r with
      | Some x => Some x
      | None => if String.eqb k k' && negb (is_null v) then Some v else None
      end
  end.

Lemma dec_dmembers_app a : forall d b,
  dec_dmembers d (a ++ b) = match dec_dmembers d a with Some d1 => dec_dmembers d1 b | None => None end.
Proof.
  induction a as [|kv a IH]; cbn; intros d b; [reflexivity|].
  destruct (dec_dmember d kv) as [d1|]; [apply IH|reflexivity].
Qed.

Lemma is_ta_exact : is_ta ta_name = true.
Proof. vm_compute. reflexivity. Qed.

(* on a clean payload object the struct decoding is the decoding of the concatenated
   descriptor members *)
Lemma dec_pmembers_flat ms : forall d d',
  tree_clean (JObj ms) = true ->
  dec_pmembers d ms = Some d' -> dec_dmembers d (ta_members (JObj ms)) = Some d'.
Proof.
  induction ms as [|[k v] ms IH]; cbn; intros d d' C H; [exact H|].
  apply andb_true_iff in C. destruct C as [Ckv C].
  apply andb_true_iff in Ckv. destruct Ckv as [Ek _]. apply String.eqb_eq in Ek. subst k.
  rewrite is_ta_exact in H.
  destruct (dec_desc d v) as [d1|] eqn:D; [|discriminate].
  rewrite dec_dmembers_app.
  destruct v; cbn in D; try discriminate.
  - inversion D; subst d1. cbn. apply IH; assumption.
  - rewrite D. apply IH; assumption.
Qed.

Lemma clean_members_known j : tree_clean j = true -> forall k v, In (k, v) (ta_members j) -> In k known_names.
Proof.
  intros C k v Hin. apply tree_clean_spec in C. destruct j; cbn in Hin; try contradiction.
  apply in_flat_map in Hin. destruct Hin as [[k0 v0] [Hin0 Hin]]. cbn in Hin.
  destruct (C ms eq_refl k0 v0 Hin0) as [_ Hk]. destruct v0; try contradiction.
  eapply Hk; [reflexivity|exact Hin].
Qed.

Local Arguments dec_dmember : simpl never.

Definition reads (o : option json) (cur : json -> Prop) (dflt : Prop) : Prop :=
  match o with Some v => cur v | None => dflt end.

(* one descriptor member: what it does to the three compared fields *)
Lemma dec_dmember_step d d1 k0 v0 :
  In k0 known_names -> dec_dmember d (k0, v0) = Some d1 ->
  (if String.eqb "mediaType" k0 && negb (is_null v0) then v0 = JStr (d_mt d1) else d_mt d1 = d_mt d) /\
  (if String.eqb "digest" k0 && negb (is_null v0) then v0 = JStr (d_dg d1) else d_dg d1 = d_dg d) /\
  (if String.eqb "size" k0 && negb (is_null v0) then v0 = JInt (d_sz d1) else d_sz d1 = d_sz d).
Proof.
  intros Hk D. destruct (find_dfield_known k0 Hk) as [f0 [F0 N0]].
  unfold dec_dmember in D. rewrite F0 in D.
  destruct f0; cbn in N0; subst k0; cbn [String.eqb Ascii.eqb Bool.eqb andb];
    destruct v0; cbn in D |- *;
    repeat match type of D with
           | context [if ?x then _ else _] => destruct x; try discriminate
           | context [match ?x with Some _ => _ | None => _ end] => destruct x; try discriminate
           end;
    try discriminate; inversion D; subst; cbn; repeat split; reflexivity.
Qed.

Lemma dec_dmembers_last dms : forall d d',
  (forall k v, In (k, v) dms -> In k known_names) ->
  dec_dmembers d dms = Some d' ->
  reads (last_set "mediaType" dms) (fun v => v = JStr (d_mt d')) (d_mt d' = d_mt d) /\
  reads (last_set "digest" dms) (fun v => v = JStr (d_dg d')) (d_dg d' = d_dg d) /\
  reads (last_set "size" dms) (fun v => v = JInt (d_sz d')) (d_sz d' = d_sz d).
Proof.
  induction dms as [|[k0 v0] dms IH]; intros d d' Hall H.
  - cbn in *. inversion H; subst. repeat split.
  - cbn [dec_dmembers] in H. destruct (dec_dmember d (k0, v0)) as [d1|] eqn:D; [|discriminate].
    destruct (IH d1 d' (fun k v Hin => Hall k v (or_intror Hin)) H) as [I1 [I2 I3]].
    destruct (dec_dmember_step d d1 k0 v0 (Hall k0 v0 (or_introl eq_refl)) D) as [S1 [S2 S3]].
    cbn [last_set]. unfold reads in *.
    repeat split.
    + destruct (last_set "mediaType" dms); [exact I1|].
      destruct (String.eqb "mediaType" k0 && negb (is_null v0)); [rewrite I1; exact S1|congruence].
    + destruct (last_set "digest" dms); [exact I2|].
      destruct (String.eqb "digest" k0 && negb (is_null v0)); [rewrite I2; exact S2|congruence].
    + destruct (last_set "size" dms); [exact I3|].
      destruct (String.eqb "size" k0 && negb (is_null v0)); [rewrite I3; exact S3|congruence].
Qed.

(* a decoded annotation comes from an "annotations" object of the tree *)
Lemma dec_ann_members_in ams : forall cur a k v,
  dec_ann_members cur ams = Some a -> lookup k a = Some v ->
  lookup k cur = Some v \/ In (k, JStr v) ams \/ (In (k, JNull) ams /\ v = "").
Proof.
  induction ams as [|[k0 v0] ams IH]; cbn; intros cur a k v H L.
  - inversion H; subst. left. exact L.
  - destruct v0; try discriminate.
    + destruct (IH _ _ _ _ H L) as [Hc|[Hi|[Hi E]]]; [|right; left; right; exact Hi|right; right; split; [right; exact Hi|exact E]].
      cbn in Hc. destruct (String.eqb k k0) eqn:Ek; [|left; exact Hc].
      apply String.eqb_eq in Ek. subst k0. inversion Hc; subst. right. right. split; [left; reflexivity|reflexivity].
    + destruct (IH _ _ _ _ H L) as [Hc|[Hi|[Hi E]]]; [|right; left; right; exact Hi|right; right; split; [right; exact Hi|exact E]].
      cbn in Hc. destruct (String.eqb k k0) eqn:Ek; [|left; exact Hc].
      apply String.eqb_eq in Ek. subst k0. inversion Hc; subst. right. left. left. reflexivity.
Qed.

Definition ann_in (dms : list (string * json)) (k v : string) : Prop :=
  exists ams, In ("annotations", JObj ams) dms /\ (In (k, JStr v) ams \/ (In (k, JNull) ams /\ v = "")).

Lemma dec_dmember_ann d d1 k0 v0 k v :
  In k0 known_names -> dec_dmember d (k0, v0) = Some d1 -> lookup k (d_ann d1) = Some v ->
  lookup k (d_ann d) = Some v \/
  (k0 = "annotations" /\ exists ams, v0 = JObj ams /\ (In (k, JStr v) ams \/ (In (k, JNull) ams /\ v = ""))).
Proof.
  intros Hk D L. destruct (find_dfield_known k0 Hk) as [f0 [F0 N0]].
  unfold dec_dmember in D. rewrite F0 in D.
  destruct f0; cbn in N0; subst k0;
    try (repeat match type of D with
                | context [if ?x then _ else _] => destruct x; try discriminate
                | context [match ?x with Some _ => _ | None => _ end] => destruct x; try discriminate
                end; inversion D; subst; left; exact L).
  (* annotations *)
  destruct (dec_ann (d_ann d) v0) as [a|] eqn:A; [|discriminate].
  inversion D; subst d1. cbn in L.
  destruct v0; cbn in A; try discriminate.
  - inversion A; subst. cbn in L. discriminate.
  - destruct (dec_ann_members_in _ _ _ _ _ A L) as [Hc|Hi]; [left; exact Hc|].
    right. split; [reflexivity|]. exists ms. split; [reflexivity|exact Hi].
Qed.

Lemma dec_dmembers_ann dms : forall d d' k v,
  (forall k v, In (k, v) dms -> In k known_names) ->
  dec_dmembers d dms = Some d' -> lookup k (d_ann d') = Some v ->
  lookup k (d_ann d) = Some v \/ ann_in dms k v.
Proof.
  induction dms as [|[k0 v0] dms IH]; intros d d' k v Hall H L.
  - cbn in H. inversion H; subst. left. exact L.
  - cbn [dec_dmembers] in H. destruct (dec_dmember d (k0, v0)) as [d1|] eqn:D; [|discriminate].
    destruct (IH d1 d' k v (fun k v Hin => Hall k v (or_intror Hin)) H L) as [L1|[ams [Hin Hv]]].
    + destruct (dec_dmember_ann d d1 k0 v0 k v (Hall k0 v0 (or_introl eq_refl)) D L1) as [L0|[E0 [ams [E1 Hv]]]].
      * left. exact L0.
      * subst k0 v0. right. exists ams. split; [left; reflexivity|exact Hv].
    + right. exists ams. split; [right; exact Hin|exact Hv].
Qed.

(* the decoded descriptor of a clean payload, read on the tree *)
Theorem tree_reading j d :
  tree_clean j = true -> dec_payload j = Some d ->
  reads (last_set "mediaType" (ta_members j)) (fun v => v = JStr (d_mt d)) (d_mt d = "") /\
  reads (last_set "digest" (ta_members j)) (fun v => v = JStr (d_dg d)) (d_dg d = "") /\
  reads (last_set "size" (ta_members j)) (fun v => v = JInt (d_sz d)) (d_sz d = 0%Z) /\
  (forall k v, lookup k (d_ann d) = Some v -> ann_in (ta_members j) k v).
Proof.
  intros C D.
  assert (dec_dmembers dsc0 (ta_members j) = Some d) as DD.
  { destruct j; cbn in D; try discriminate.
    - inversion D; subst. reflexivity.
    - apply dec_pmembers_flat; assumption. }
  pose proof (clean_members_known j C) as K.
  destruct (dec_dmembers_last _ _ _ K DD) as [R1 [R2 R3]].
  repeat split; try assumption.
  intros k v L. destruct (dec_dmembers_ann _ _ _ k v K DD L) as [L0|A]; [cbn in L0; discriminate|exact A].
Qed.

(* C18_envelope on the tree *)
Theorem envelope_tree i env same rf :
  i_meta i = MCaps false env ->
  o_res (model i) = RSig same rf ->
  exists f j,
    i_ge i = GEAns f /\ ge_payload f = Some j /\
    reads (last_set "mediaType" (ta_members j)) (fun v => v = JStr (i_dmt i)) (i_dmt i = "") /\
    reads (last_set "digest" (ta_members j)) (fun v => v = JStr (i_ddg i)) (i_ddg i = "") /\
    reads (last_set "size" (ta_members j)) (fun v => v = JInt (i_dsz i)) (i_dsz i = 0%Z) /\
    (forall k v, In (k, v) (i_dann i) ->
       exists ams, In ("annotations", JObj ams) (ta_members j) /\
                   (In (k, JStr v) ams \/ (In (k, JNull) ams /\ v = ""))) /\
    (forall k v, In (k, v) (ta_members j) -> In k known_names).
Proof.
  intros M H.
  destruct (envelope_sound i env same rf M H) as [_ [_ [_ [f [j [d [E [_ [_ [_ [_ [_ [P [D [Hmt [Hdg [Hsz [Hann [Hc _]]]]]]]]]]]]]]]]]]].
  apply tree_clean_spec in Hc.
  destruct (tree_reading j d Hc D) as [R1 [R2 [R3 R4]]].
  exists f, j. rewrite <- Hmt, <- Hdg, <- Hsz.
  repeat split; try assumption.
  - intros k v Hin. apply R4. apply Hann. exact Hin.
  - apply clean_members_known. exact Hc.
Qed.

(* ================= 3. commands answering (nil, nil) ================= *)

Lemma model_n_no_nils i : model_n no_nils i = model i.
Proof.
  unfold model_n, model, get_keyspec_n, gen_signature_n, gen_envelope_n, no_nils. cbn.
  destruct (i_meta i) as [|raw env]; [reflexivity|].
  destruct (i_blob i), raw, env; destruct (get_keyspec i); reflexivity.
Qed.

Lemma gen_signature_n_res n i k :
  (n_gs n = false /\ gen_signature_n n i k = gen_signature i k) \/
  (n_gs n = true /\ exists e, fst (gen_signature_n n i k) = RErr e).
Proof.
  unfold gen_signature_n. destruct (n_gs n); [right; split; [reflexivity|]|left; auto].
  destruct (i_mt_ok i); cbn; [|eauto].
  destruct (encode_keyspec k), (hash_of_keyspec k), (alg_of_keyspec k); cbn; eauto.
Qed.

(* with nil answers the signer does what it does without them, or returns an error *)
Theorem nil_lift n i :
  (nil_used n i = false /\ model_n n i = model i) \/ (exists e, o_res (model_n n i) = RErr e).
Proof.
  unfold model_n, model, nil_used, get_keyspec_n, gen_envelope_n.
  destruct (n_meta n); [right; cbn; eauto|]. cbn [orb].
  destruct (i_meta i) as [|raw env]; [left; split; reflexivity|].
  destruct (i_blob i); cbn [andb].
  - destruct (n_dk n); [right; cbn; eauto|].
    destruct (get_keyspec i) as [e|k]; [right; cbn; eauto|].
    destruct raw.
    + destruct (gen_signature_n_res n i k) as [[Hg E]|[Hg [e E]]].
      * left. rewrite Hg, E. split; reflexivity.
      * right. destruct (gen_signature_n n i k) as [r q]. cbn in *. eauto.
    + destruct env; [|right; cbn; eauto].
      destruct (n_ge n); [right; cbn; eauto|]. left. split; reflexivity.
  - destruct raw.
    + destruct (n_dk n); [right; cbn; eauto|].
      destruct (get_keyspec i) as [e|k]; [right; cbn; eauto|].
      destruct (gen_signature_n_res n i k) as [[Hg E]|[Hg [e E]]].
      * left. rewrite Hg, E. split; reflexivity.
      * right. destruct (gen_signature_n n i k) as [r q]. cbn in *. eauto.
    + destruct env; [|right; cbn; eauto].
      destruct (n_ge n); [right; cbn; eauto|]. left. split; reflexivity.
Qed.

(* a signature never rests on a nil answer *)
Theorem nil_sig n i same rf :
  o_res (model_n n i) = RSig same rf ->
  nil_used n i = false /\ model_n n i = model i.
Proof.
  intros H. destruct (nil_lift n i) as [L|[e E]]; [exact L|congruence].
Qed.

(* C18_total over nil answers too *)
Theorem total_n n i :
  o_res (model_n n i) <> RPanic /\
  ((exists same rf, o_res (model_n n i) = RSig same rf) \/ (exists e, o_res (model_n n i) = RErr e)).
Proof.
  destruct (nil_lift n i) as [[_ E]|[e E]].
  - rewrite E. apply total_both.
  - rewrite E. split; [discriminate|eauto].
Qed.

(* a nil answer of a command the signer calls is an error, whatever the other answers *)
Theorem nil_meta_error n i : n_meta n = true -> model_n n i = mk_obs (RErr ENilMeta) None 0.
Proof. intros H. unfold model_n. rewrite H. reflexivity. Qed.

Theorem nil_dk_error n i raw env :
  n_meta n = false -> i_meta i = MCaps raw env -> n_dk n = true ->
  i_blob i = true \/ raw = true -> model_n n i = mk_obs (RErr ENilDK) None 0.
Proof.
  intros Hm M Hd H. unfold model_n, get_keyspec_n. rewrite Hm, M, Hd.
  destruct (i_blob i); [reflexivity|]. destruct H as [H| ->]; [discriminate|reflexivity].
Qed.

Theorem nil_ge_error n i :
  n_meta n = false -> i_meta i = MCaps false true -> n_ge n = true ->
  (i_blob i = true -> n_dk n = false /\ exists k, get_keyspec i = inr k) ->
  o_res (model_n n i) = RErr ENilGE.
Proof.
  intros Hm M Hg H. unfold model_n, get_keyspec_n, gen_envelope_n. rewrite Hm, M, Hg.
  destruct (i_blob i); [|reflexivity].
  destruct (H eq_refl) as [-> [k ->]]. reflexivity.
Qed.

Theorem nil_gs_error n i env k :
  n_meta n = false -> i_meta i = MCaps true env -> n_dk n = false -> get_keyspec i = inr k ->
  n_gs n = true -> i_mt_ok i = true ->
  o_res (model_n n i) = RErr ENilGS /\ o_gs_req (model_n n i) <> None.
Proof.
  intros Hm M Hd G Hg Hok. unfold model_n, get_keyspec_n, gen_signature_n. rewrite Hm, M, Hd, G, Hg, Hok.
  destruct (get_keyspec_inr i k G) as [ks [_ D]].
  destruct (decode_alg ks k D) as [ksn [hn [a [E1 [E2 E3]]]]]. rewrite E1, E2, E3. cbn.
  destruct (i_blob i); cbn; split; try reflexivity; discriminate.
Qed.

Theorem nil_signature : forall n i same rf,
  o_res (model_n n i) = RSig same rf ->
  o_res (model i) = RSig same rf /\ model_n n i = model i /\
  n_meta n = false /\
  (forall env, i_meta i = MCaps true env -> n_dk n = false /\ n_gs n = false) /\
  (forall env, i_meta i = MCaps false env -> n_ge n = false /\ (i_blob i = true -> n_dk n = false)).
Proof.
  intros n i same rf H. destruct (nil_sig n i same rf H) as [U E].
  split; [rewrite <- E; exact H|]. split; [exact E|].
  unfold nil_used in U. apply orb_false_iff in U. destruct U as [Um U]. split; [exact Um|].
  split; intros env M; rewrite M in U; apply orb_false_iff in U; destruct U as [U1 U2]; split; try assumption.
  intros B. rewrite B in U2. exact U2.
Qed.

Theorem nil_answer_error : forall n i,
  (n_meta n = true -> model_n n i = mk_obs (RErr ENilMeta) None 0) /\
  (forall raw env, n_meta n = false -> i_meta i = MCaps raw env -> n_dk n = true ->
     i_blob i = true \/ raw = true -> model_n n i = mk_obs (RErr ENilDK) None 0) /\
  (forall env k, n_meta n = false -> i_meta i = MCaps true env -> n_dk n = false -> get_keyspec i = inr k ->
     n_gs n = true -> i_mt_ok i = true -> o_res (model_n n i) = RErr ENilGS /\ o_gs_req (model_n n i) <> None) /\
  (n_meta n = false -> i_meta i = MCaps false true -> n_ge n = true ->
     (i_blob i = true -> n_dk n = false /\ exists k, get_keyspec i = inr k) -> o_res (model_n n i) = RErr ENilGE).
Proof.
  intros n i. split; [apply nil_meta_error|]. split; [intros; eapply nil_dk_error; eassumption|].
  split; [intros; eapply nil_gs_error; eassumption|]. apply nil_ge_error.
Qed.

(* before fix 0b937c8: each of the four commands, when the signer called it, panicked it *)
Definition nil_witness (blob raw : bool) : input :=
  mk_input blob "application/jose+json" true "key1" "m" "sha256:aa" 5 [("k", "v")]
           (MCaps raw (negb raw)) (DKAns "key1" "EC-256") GSErr GEErr.

Theorem nil_answer_v0_refuted :
  (forall blob raw, o_res (model_n_v0 (mk_nils true false false false) (nil_witness blob raw)) = RPanic) /\
  (forall blob, o_res (model_n_v0 (mk_nils false true false false) (nil_witness blob true)) = RPanic) /\
  (forall blob, o_res (model_n_v0 (mk_nils false false true false) (nil_witness blob true)) = RPanic) /\
  (forall blob, o_res (model_n_v0 (mk_nils false false false true) (nil_witness blob false)) = RPanic) /\
  (forall i, model_n_v0 no_nils i = model i).
Proof.
  split; [intros [|] [|]; vm_compute; reflexivity|].
  split; [intros [|]; vm_compute; reflexivity|].
  split; [intros [|]; vm_compute; reflexivity|].
  split; [intros [|]; vm_compute; reflexivity|].
  intros i. unfold model_n_v0, model, get_keyspec_v0, gen_signature_v0, no_nils. cbn.
  destruct (i_meta i) as [|raw env]; [reflexivity|].
  destruct (i_blob i), raw, env; destruct (get_keyspec i); reflexivity.
Qed.

(* the oracle with nil answers *)
Theorem model_n_spec_ok n i : wf i = true -> spec_ok_n n i (model_n n i) = true.
Proof.
  intros W. unfold spec_ok_n.
  destruct (nil_lift n i) as [[U E]|[e E]].
  - rewrite U, E, (model_spec_ok i W). destruct (o_res (model i)); reflexivity.
  - unfold spec_ok. rewrite E. reflexivity.
Qed.

Theorem spec_n_sig_accepts n i same rf o1 o2 :
  spec_ok_n n i (mk_obs (RSig same rf) o1 o2) = true -> accepts i = true /\ nil_used n i = false.
Proof.
  unfold spec_ok_n. intros H. apply andb_true_iff in H. destruct H as [H U].
  split; [exact (spec_sig_accepts i same rf o1 o2 H)|]. cbn in U. apply negb_true_iff in U. exact U.
Qed.

(* ================= 4. the oracle, explicitly ================= *)
Theorem spec_sig_explicit i same rf o1 o2 :
  spec_ok i (mk_obs (RSig same rf) o1 o2) = true ->
  (exists env a r,
      i_meta i = MCaps true env /\ dk_accept i = Some a /\ same = false /\ rf = Some r /\
      r_verifies r = true /\ r_ctype r = payload_type /\
      r_mt r = i_dmt i /\ r_dg r = i_ddg i /\ r_sz r = i_dsz i /\
      (forall k v, In (k, v) (i_dann i) -> lookup k (r_ann r) = Some v) /\
      r_clean r = true /\ r_chain_is_plugins r = true /\ r_alg r = Some a)
  \/ (i_meta i = MCaps false true /\ same = true /\ env_accept i = true).
Proof.
  unfold spec_ok, sig_justified. cbn.
  destruct (i_meta i) as [|raw env]; [discriminate|].
  destruct raw.
  - destruct (dk_accept i) as [a|]; [|discriminate]. destruct rf as [r|]; [|discriminate].
    intros H. left. exists env, a, r.
    apply andb_true_iff in H. destruct H as [H R]. apply andb_true_iff in H. destruct H as [Hs _].
    apply negb_true_iff in Hs. unfold ret_ok in R.
    repeat (apply andb_true_iff in R; destruct R as [R ?]).
    repeat match goal with H : String.eqb _ _ = true |- _ => apply String.eqb_eq in H end.
    repeat match goal with H : opt_eqb alg_eqb _ _ = true |- _ => apply opt_alg_eqb_eq in H end.
    match goal with H : Z.eqb _ _ = true |- _ => apply Z.eqb_eq in H end.
    match goal with H : ann_subset _ _ = true |- _ => pose proof (proj1 (ann_subset_spec _ _) H) end.
    repeat (split; [solve [reflexivity | assumption | congruence]|]). assumption.
  - destruct env; [|discriminate]. intros H. right.
    apply andb_true_iff in H. destruct H as [H _]. apply andb_true_iff in H. destruct H as [Hs He].
    destruct same; [|discriminate]. repeat split. exact He.
Qed.
