(* C10_GenProofs.v — the proofs behind props/C10_Generated.v: the GoLite translation of
   notation.Verify (theories/C10_Gen.v, regenerated from /repo on every run) equals the
   hand-written model (C10_Model.v) for ALL listings, pagings and limits.

   Structure:
     1. abstraction [abs]: from the oracles' answers (what the repository resolves, lists
        and lets fetch; what the verifier answers) to the model's [input]; [kind] classifies one
        listed signature descriptor as the model's [sigk];
     2. concretisation [conc]: from the model's observation (classes, positions in the
        listing) back to the Go values (descriptor, outcome pointers, error values);
     3. a reference semantics of the callback / of ListSignatures ([ref_page], [ref_pages]),
        proved to simulate [page_loop] / [pages_loop] under a relation between the captured
        variables and the model's [st];
     4. the generated functions are shown equal to the reference ones.              *)
From Coq Require Import List Bool String Ascii NArith ZArith Lia.
From NV Require Import Base GoLib C10_Model C10_Proofs C10_Audit C10_Gen.
Import ListNotations.
Local Open Scope string_scope.
Local Open Scope list_scope.

Lemma if_same {A} (b : bool) (x : A) : (if b then x else x) = x.
Proof. destruct b; reflexivity. Qed.

Section Ref.
Variable Cert : Type.
Notation Outcome := (notation_go_VerificationOutcome Cert).
Notation VOpts := notation_go_VerifierVerifyOptions.
Notation Desc := v1_Descriptor.

Variable fetch : Desc -> list Z * Desc * option err.
Variable vverify : Desc -> list Z -> VOpts -> ptr Outcome * option err.
Variables (ad : Desc) (o0 : VOpts) (max : Z).

(* the error values of notation.go *)
Variables (e_fetch e_exceeded e_done e_vf : err).
Variable fail_fmt : string.

Definition smt := set_VerifierVerifyOptions_SignatureMediaType.

Lemma smt_smt v w o : smt v (smt w o) = smt v o.
Proof. destruct o; reflexivity. Qed.

(* the call of verifier.Verify made for the listed descriptor d *)
Definition vcall (d : Desc) : ptr Outcome * option err :=
  vverify ad (fst (fst (fetch d))) (smt (Descriptor_MediaType (snd (fst (fetch d)))) o0).

Definition kind (d : Desc) : sigk :=
  match snd (fetch d) with
  | Some _ => U
  | None => match snd (vcall d) with
            | None => G
            | Some _ => match ptr_val (fst (vcall d)) with None => NO | Some _ => Bd end
            end
  end.

(* outcome.Error after line 566 *)
Definition fail_err (d : Desc) : option err :=
  match ptr_val (fst (vcall d)) with
  | Some ov => Some (Err "fmt" fail_fmt (olist (VerificationOutcome_Error _ ov)))
  | None => None
  end.

(* ---------- reference semantics of the callback ---------- *)
Definition cvars : Type := (Z * VOpts * list (option err) * bool * list (ptr Outcome))%type.

Definition ref_after (g : cvars) : cvars * option err :=
  let '(n, opts, failed, succ, outs) := g in
  if (max <=? n)%Z then (g, Some e_exceeded) else (g, None).

Fixpoint ref_page (page : list Desc) (g : cvars) : cvars * option err :=
  match page with
  | [] => ref_after g
  | d :: rest =>
      let '(n, opts, failed, succ, outs) := g in
      if (max <=? n)%Z then ref_after g
      else
        let n1 := (n + 1)%Z in
        let '(blob, sd, fe) := fetch d in
        match fe with
        | Some _ => ((n1, opts, failed, succ, outs), Some e_fetch)
        | None =>
            let opts1 := smt (Descriptor_MediaType sd) opts in
            let '(oc, ve) := vverify ad blob opts1 in
            match ve with
            | Some e =>
                match ptr_val oc with
                | None => ((n1, opts1, failed, succ, outs), Some e)
                | Some ov =>
                    ref_page rest (n1, opts1,
                                   failed ++ [Some (Err "fmt" fail_fmt (olist (VerificationOutcome_Error _ ov)))],
                                   succ, outs)
                end
            | None => ((n1, opts1, failed, true, [oc]), Some e_done)
            end
        end
  end.

(* Repository.ListSignatures: the callback on consecutive pages until it returns an error *)
Fixpoint ref_pages (pages : list (list Desc)) (lerr : option err) (g : cvars) : cvars * option err :=
  match pages with
  | [] => (g, lerr)
  | p :: ps =>
      match ref_page p g with
      | (g', None) => ref_pages ps lerr g'
      | r => r
      end
  end.

(* ---------- the simulation ---------- *)
Variable L : list Desc.                   (* the whole listing *)
Variable d0 : Desc.
Definition dk (k : nat) : Desc := nth k L d0.

Definition Rel (g : cvars) (s : st) : Prop :=
  let '(n, opts, failed, succ, outs) := g in
  n = Z.of_nat (s_n s) /\
  (forall v, smt v opts = smt v o0) /\
  failed = Some e_vf :: map (fun k => fail_err (dk k)) (s_failed s) /\
  match s_ok s with
  | None => succ = false /\ outs = []
  | Some k => succ = true /\ outs = [fst (vcall (dk k))]
  end.

Definition conc_cb (c : cb) : option err :=
  match c with
  | Cont => None
  | Stop EDone => Some e_done
  | Stop (EFetchE _) => Some e_fetch
  | Stop (ENilOut k) => snd (vcall (dk k))
  | Stop EExceeded => Some e_exceeded
  end.

Lemma ref_after_sim g s :
  Rel g s -> Rel (fst (ref_after g)) s /\ snd (ref_after g) = conc_cb (after_loop max s) /\
  (snd (ref_after g) = None -> after_loop max s = Cont).
Proof.
  destruct g as [[[[n opts] failed] succ] outs]. intros H. pose proof H as (Hn & _).
  subst n. unfold ref_after, after_loop.
  destruct (max <=? Z.of_nat (s_n s))%Z; cbn; (split; [exact H|split; [reflexivity|congruence]]).
Qed.

Lemma dk_middle pre x post : L = pre ++ x :: post -> dk (List.length pre) = x.
Proof. intros H. unfold dk. rewrite H. apply nth_middle. Qed.

Lemma Rel_intro n opts failed succ outs s :
  n = Z.of_nat (s_n s) -> (forall v, smt v opts = smt v o0) ->
  failed = Some e_vf :: map (fun k => fail_err (dk k)) (s_failed s) ->
  match s_ok s with
  | None => succ = false /\ outs = []
  | Some k => succ = true /\ outs = [fst (vcall (dk k))]
  end -> Rel (n, opts, failed, succ, outs) s.
Proof. unfold Rel. auto. Qed.

Lemma ref_page_sim : forall page pre post g s,
  L = pre ++ page ++ post -> Rel g s ->
  let r := ref_page page g in
  let m := page_loop max (List.length pre) s (map kind page) in
  Rel (fst r) (fst m) /\ snd r = conc_cb (snd m) /\ (snd r = None -> snd m = Cont).
Proof.
  induction page as [|d rest IH]; intros pre post g s HL HR.
  - cbn [map ref_page page_loop fst snd]. apply ref_after_sim. exact HR.
  - destruct g as [[[[n opts] failed] succ] outs]. pose proof HR as (Hn & Ho & Hf & Hk).
    cbn [map ref_page page_loop].
    subst n. destruct (max <=? Z.of_nat (s_n s))%Z eqn:Emax.
    + cbn [fst snd]. apply (ref_after_sim _ s HR).
    + assert (Hd : dk (List.length pre) = d) by (apply (dk_middle pre d (rest ++ post)); exact HL).
      unfold kind. unfold vcall.
      destruct (fetch d) as [[blob sd] fe] eqn:Ef. cbn [fst snd].
      assert (Hn1 : (Z.of_nat (s_n s) + 1)%Z = Z.of_nat (S (s_n s))) by lia.
      destruct fe as [e|].
      * cbn [fst snd conc_cb]. split; [|split; [reflexivity|discriminate]].
        apply Rel_intro; cbn [s_n s_failed s_ok]; auto.
      * rewrite Ho.
        destruct (vverify ad blob (smt (Descriptor_MediaType sd) o0)) as [oc ve] eqn:Ev.
        cbn [fst snd].
        assert (Hvc : vcall d = (oc, ve)) by (unfold vcall; rewrite Ef; cbn [fst snd]; exact Ev).
        destruct ve as [e|].
        -- destruct (ptr_val oc) as [ov|] eqn:Eoc.
           ++ (* Bd: continue *)
              specialize (IH (pre ++ [d]) post
                (Z.of_nat (s_n s) + 1, smt (Descriptor_MediaType sd) o0,
                 failed ++ [Some (Err "fmt" fail_fmt (olist (VerificationOutcome_Error _ ov)))], succ, outs)%Z
                (mk_st (S (s_n s)) (s_failed s ++ [List.length pre]) (s_ok s)
                       ((s_log s ++ [EF (List.length pre)]) ++ [EV (List.length pre)]))).
              rewrite app_length in IH. cbn [List.length] in IH. rewrite Nat.add_1_r in IH.
              apply IH.
              ** rewrite <- app_assoc. exact HL.
              ** apply Rel_intro; cbn [s_n s_failed s_ok]; auto.
                 rewrite Hf, map_app. cbn [map]. unfold fail_err. rewrite Hd, Hvc. cbn [fst].
                 rewrite Eoc. reflexivity.
           ++ (* NO *)
              cbn [fst snd conc_cb]. rewrite Hd, Hvc. cbn [snd]. split; [|split; [reflexivity|discriminate]].
              apply Rel_intro; cbn [s_n s_failed s_ok]; auto.
        -- (* G *)
           cbn [fst snd conc_cb]. split; [|split; [reflexivity|discriminate]].
           apply Rel_intro; cbn [s_n s_failed s_ok]; auto.
           rewrite Hd, Hvc. auto.
Qed.

Lemma ref_pages_sim lerr : forall pages pre post g s,
  L = pre ++ List.concat pages ++ post -> Rel g s ->
  let r := ref_pages pages lerr g in
  let m := pages_loop max (List.length pre) s (map (map kind) pages) in
  Rel (fst r) (fst m) /\
  snd r = match snd m with Cont => lerr | c => conc_cb c end /\
  (snd m <> Cont -> snd r <> None).
Proof.
  induction pages as [|p ps IH]; intros pre post g s HL HR.
  - cbn. split; [exact HR|split; [reflexivity|congruence]].
  - cbn [map ref_pages pages_loop]. cbn [List.concat] in HL. rewrite <- app_assoc in HL.
    pose proof (ref_page_sim p pre (List.concat ps ++ post) g s HL HR) as (H1 & H2 & H3).
    destruct (ref_page p g) as [g' e] eqn:Eg.
    destruct (page_loop max (List.length pre) s (map kind p)) as [s' c] eqn:Es.
    cbn [fst snd] in H1, H2, H3. rewrite map_length.
    destruct c as [|ce].
    + cbn in H2. subst e.
      specialize (IH (pre ++ p) post g' s').
      rewrite app_length in IH. apply IH; [|exact H1]. rewrite <- app_assoc. exact HL.
    + destruct e as [x|]; [|specialize (H3 eq_refl); discriminate].
      cbn [fst snd]. split; [exact H1|]. rewrite H2. split; [reflexivity|]. intros _. rewrite <- H2. discriminate.
Qed.

(* ---------- what the model's loop leaves in [s_ok] / [s_n] ---------- *)
Lemma page_loop_ok_n : forall page pos s,
  let m := page_loop max pos s page in
  match snd m with
  | Stop EDone => (exists k, s_ok (fst m) = Some k) /\ (0 < s_n (fst m))%nat
  | _ => s_ok (fst m) = s_ok s
  end /\ (s_n s <= s_n (fst m))%nat.
Proof.
  induction page as [|x rest IH]; intros pos s; cbn [page_loop].
  - unfold after_loop. destruct (max <=? Z.of_nat (s_n s))%Z; cbn; auto.
  - unfold after_loop. destruct (max <=? Z.of_nat (s_n s))%Z; [cbn; auto|].
    destruct x; cbn [fst snd s_ok s_n].
    + split; [split; [eexists; reflexivity|lia]|lia].
    + match goal with |- context [page_loop max ?p ?t rest] => specialize (IH p t) end.
      cbn zeta in IH. destruct IH as (IH1 & IH2). cbn [s_ok s_n] in IH1, IH2.
      split; [exact IH1|lia].
    + split; [reflexivity|lia].
    + split; [reflexivity|lia].
Qed.

Lemma pages_loop_ok_n : forall pages pos s,
  let m := pages_loop max pos s pages in
  match snd m with
  | Stop EDone => (exists k, s_ok (fst m) = Some k) /\ (0 < s_n (fst m))%nat
  | _ => s_ok (fst m) = s_ok s
  end /\ (s_n s <= s_n (fst m))%nat.
Proof.
  induction pages as [|p ps IH]; intros pos s; cbn [pages_loop].
  - cbn. auto.
  - pose proof (page_loop_ok_n p pos s) as H. cbn zeta in H.
    destruct (page_loop max pos s p) as [s' c]. cbn [fst snd] in H.
    destruct c as [|ce].
    + specialize (IH (pos + List.length p)%nat s'). cbn zeta in IH.
      destruct H as (H1 & H2). destruct IH as (I1 & I2). rewrite <- H1. split; [exact I1|lia].
    + cbn [fst snd]. exact H.
Qed.

(* ---------- after ListSignatures: notation.go:586-605 ---------- *)
Variables (zd : Desc) (e_nosig : err) (lerr : option err).
(* errors.Is(err, errExceededMaxVerificationLimit) (notation.go:587): whatever it answers, the
   outcomes returned next to an error are nil *)
Variable is_exc : option err -> bool.

Definition ref_tail (r : cvars * option err) : Desc * list (ptr Outcome) * option err :=
  let '(n, opts, failed, succ, outs, e) := r in
  if is_some e && negb (err_is e (Some e_done)) then
    if is_exc e then (zd, outs, e) else (zd, [], e)
  else if (n =? 0)%Z then (zd, [], Some e_nosig)
  else if negb succ then (zd, outs, err_join failed)
  else (ad, outs, None).

Definition conc_res_listing (r : res) : option err :=
  match r with
  | RFetch _ => Some e_fetch
  | RNilOutcome k => snd (vcall (dk k))
  | RListErr => lerr
  | RExceeded => Some e_exceeded
  | RAllFailed ks => err_join (Some e_vf :: map (fun k => fail_err (dk k)) ks)
  | RNoSignature => Some e_nosig
  | _ => None
  end.

Definition conc_outs_listing (o : outs) : list (ptr Outcome) :=
  match o with OSig k => [fst (vcall (dk k))] | _ => [] end.

Definition conc_listing (o : obs) : Desc * list (ptr Outcome) * option err :=
  (match o_desc o with DResolved => ad | _ => zd end, conc_outs_listing (o_outs o), conc_res_listing (o_res o)).

(* the errors of notation.go are distinguishable; those of the verifier and of the
   repository are not the (unexported) sentinel errDoneVerification *)
Hypothesis done_done : err_is (Some e_done) (Some e_done) = true.
Hypothesis fetch_not_done : err_is (Some e_fetch) (Some e_done) = false.
Hypothesis exceeded_not_done : err_is (Some e_exceeded) (Some e_done) = false.
Hypothesis lerr_not_done : err_is lerr (Some e_done) = false.
Hypothesis verifier_not_done : forall a b c, err_is (snd (vverify a b c)) (Some e_done) = false.

Lemma ref_listing_model (pages : list (list Desc)) (i : input) (log : list ev) :
  L = List.concat pages ->
  i_pages i = map (map kind) pages -> i_max i = max -> i_lerr i = is_some lerr ->
  ref_tail (ref_pages pages lerr (0%Z, o0, [Some e_vf], false, [])) = conc_listing (after_listing i log).
Proof.
  intros HL Hp Hm Hl. unfold after_listing. rewrite Hp, Hm.
  set (s0 := mk_st 0 [] None (log ++ [EL])).
  assert (HR : Rel (0%Z, o0, [Some e_vf], false, []) s0) by (apply Rel_intro; cbn; auto).
  pose proof (ref_pages_sim lerr pages [] [] (0%Z, o0, [Some e_vf], false, []) s0) as Hsim. cbn [List.length app] in Hsim.
  rewrite app_nil_r in Hsim. specialize (Hsim HL HR). cbn zeta in Hsim.
  pose proof (pages_loop_ok_n (map (map kind) pages) 0 s0) as Hok. cbn zeta in Hok.
  destruct (pages_loop max 0 s0 (map (map kind) pages)) as [s c].
  destruct (ref_pages pages lerr (0%Z, o0, [Some e_vf], false, [])) as [[[[[n opts] failed] succ] outs] e].
  cbn [fst snd] in Hsim, Hok. destruct Hsim as ((Hn & _ & Hf & Hk) & He & Hsome). destruct Hok as (Hok & _).
  unfold ref_tail, conc_listing.
  destruct c as [|ce].
  - (* the callback never stopped *)
    cbn [s0 s_ok] in Hok. rewrite Hok in Hk. destruct Hk as (-> & ->). subst e.
    rewrite Hl. destruct lerr as [x|] eqn:El.
    + rewrite lerr_not_done. cbn [is_some andb negb err_obs o_desc o_outs o_res conc_outs_listing conc_res_listing].
      rewrite El. apply if_same.
    + cbn [is_some andb]. subst n.
      destruct (s_n s) as [|m] eqn:En; cbn [Nat.eqb].
      * cbn. reflexivity.
      * replace (Z.of_nat (S m) =? 0)%Z with false by (symmetry; apply Z.eqb_neq; lia).
        rewrite Hok. cbn. rewrite Hf. reflexivity.
  - destruct ce as [|k|k|].
    + (* done *)
      destruct Hok as ((k & Hk') & Hpos). rewrite Hk' in Hk. destruct Hk as (-> & ->). subst e. cbn [conc_cb].
      rewrite done_done. cbn [is_some andb negb]. subst n.
      destruct (s_n s) as [|m] eqn:En; [lia|].
      replace (Z.of_nat (S m) =? 0)%Z with false by (symmetry; apply Z.eqb_neq; lia).
      cbn [Nat.eqb]. rewrite Hk'. cbn. reflexivity.
    + (* unfetchable *)
      cbn [s0 s_ok] in Hok. rewrite Hok in Hk. destruct Hk as (-> & ->). subst e. cbn [conc_cb].
      rewrite fetch_not_done. cbn [is_some andb negb]. cbn [err_obs o_desc o_outs o_res conc_outs_listing conc_res_listing outs_of].
      apply if_same.
    + (* the verifier failed without an outcome *)
      cbn [s0 s_ok] in Hok. rewrite Hok in Hk. destruct Hk as (-> & ->). subst e. cbn [conc_cb].
      assert (Hs : is_some (snd (vcall (dk k))) = true).
      { cbn [conc_cb] in Hsome. destruct (snd (vcall (dk k))); [reflexivity|]. exfalso. apply Hsome; [discriminate|reflexivity]. }
      rewrite Hs. unfold vcall at 1. rewrite verifier_not_done. cbn [andb negb]. cbn [err_obs o_desc o_outs o_res conc_outs_listing conc_res_listing outs_of].
      apply if_same.
    + (* limit *)
      cbn [s0 s_ok] in Hok. rewrite Hok in Hk. destruct Hk as (-> & ->). subst e. cbn [conc_cb].
      rewrite exceeded_not_done. cbn [is_some andb negb]. rewrite Hok. cbn [err_obs o_desc o_outs o_res conc_outs_listing conc_res_listing outs_of].
      apply if_same.
Qed.

End Ref.

(* ---------- the whole of notation.Verify ---------- *)
Definition listing_res (r : res) : bool :=
  match r with
  | ROk | RFetch _ | RNilOutcome _ | RListErr | RExceeded | RAllFailed _ | RNoSignature => true
  | _ => false
  end.

Lemma after_listing_shape i log :
  listing_res (o_res (after_listing i log)) = true /\
  exists ok, o_outs (after_listing i log) = outs_of ok.
Proof.
  unfold after_listing.
  destruct (pages_loop (i_max i) 0 _ (i_pages i)) as [s c].
  destruct c as [|[|k|k|]]; [destruct (i_lerr i)| | | |];
    cbn [err_obs o_res o_outs listing_res];
    try (split; [reflexivity|exists None; reflexivity]);
    try (split; [reflexivity|eexists; reflexivity]);
    destruct (Nat.eqb (s_n s) 0); cbn [err_obs o_res o_outs listing_res];
    try (split; [reflexivity|exists None; reflexivity]);
    destruct (s_ok s); cbn [o_res o_outs listing_res]; split; try reflexivity; eexists; reflexivity.
Qed.

Section Head.
Variable Cert : Type.
Notation Outcome := (notation_go_VerificationOutcome Cert).
Notation VOpts := notation_go_VerifierVerifyOptions.
Notation Desc := v1_Descriptor.
Notation Level := trustpolicy_VerificationLevel.

Variable resolve : string -> Desc * option err.
Variable fetch : Desc -> list Z * Desc * option err.
Variable parse_ref : string -> registry_Reference * option err.
Variable as_digest : registry_Reference -> option err.
Variable vverify : Desc -> list Z -> VOpts -> ptr Outcome * option err.
Variable skipv : VOpts -> bool * ptr Level * option err.

Variables (e_nilv e_nilr e_badmax e_noref e_mismatch e_nosig e_fetch e_exceeded e_done e_vf : err).
Variable e_retrieval : err -> err.
Variable fail_fmt : string.
Variable zd : Desc.
Variable skip_outcome : ptr Level -> ptr Outcome.
Variable is_exc : option err -> bool.

(* the arguments of Verify and what ListSignatures does *)
Variables (nilv nilr has_skipper : bool) (vo : notation_go_VerifyOptions).
Variables (pages : list (list Desc)) (lerr : option err).

Definition aref : string := VerifyOptions_ArtifactReference vo.
Definition o0 : VOpts :=
  mk_VerifierVerifyOptions aref "" (VerifyOptions_PluginConfig vo) (VerifyOptions_UserMetadata vo).
Definition maxv : Z := VerifyOptions_MaxSignatureAttempts vo.
Definition rf : registry_Reference := fst (parse_ref aref).
Definition rr : string := Reference_Reference rf.
Definition ad : Desc := fst (resolve rr).
Definition L : list Desc := List.concat pages.

Definition g0 : cvars Cert := (0%Z, o0, [Some e_vf], false, []).

Definition ref_listing : Desc * list (ptr Outcome) * option err :=
  ref_tail Cert ad e_done zd e_nosig is_exc
    (ref_pages Cert fetch vverify ad maxv e_fetch e_exceeded e_done fail_fmt pages lerr g0).

Definition ref_rest : Desc * list (ptr Outcome) * option err :=
  match snd (parse_ref aref) with
  | Some e => (zd, [], Some (e_retrieval e))
  | None =>
      if String.eqb rr "" then (zd, [], Some e_noref)
      else match snd (resolve rr) with
           | Some e => (zd, [], Some (e_retrieval e))
           | None =>
               if is_some (as_digest rf) then ref_listing
               else if negb (String.eqb rr (Descriptor_Digest ad)) then (zd, [], Some e_mismatch)
               else ref_listing
           end
  end.

Definition ref_Verify : Desc * list (ptr Outcome) * option err :=
  if nilv then (zd, [], Some e_nilv)
  else if nilr then (zd, [], Some e_nilr)
  else if (maxv <=? 0)%Z then (zd, [], Some e_badmax)
  else if has_skipper then
    match snd (skipv o0) with
    | Some e => (zd, [], Some e)
    | None => if fst (fst (skipv o0)) then (zd, [skip_outcome (snd (fst (skipv o0)))], None) else ref_rest
    end
  else ref_rest.

(* ---- abstraction: the model's input ---- *)
Definition kind_of : Desc -> sigk := kind Cert fetch vverify ad o0.

Definition abs_pref : pref :=
  match snd (parse_ref aref) with
  | Some _ => PInvalid
  | None => if String.eqb rr "" then PNone
            else if is_some (as_digest rf) then PTag else PDigest rr
  end.

Definition abs_skip : skipper :=
  if has_skipper then
    match snd (skipv o0) with
    | Some _ => SkipErr
    | None => if fst (fst (skipv o0)) then SkipYes else SkipNo
    end
  else NoSkipper.

Definition abs : input :=
  mk_input nilv nilr maxv abs_skip (classify abs_pref (Descriptor_Digest ad))
           (is_some (snd (resolve rr))) (map (map kind_of) pages) (is_some lerr).

(* ---- concretisation: the Go values an observation of the model stands for ---- *)
Definition dkk (k : nat) : Desc := dk L zd k.
Definition vc (d : Desc) := vcall Cert fetch vverify ad o0 d.

Definition conc_res (r : res) : option err :=
  match r with
  | ROk | ROther => None
  | RNilVerifier => Some e_nilv
  | RNilRepo => Some e_nilr
  | RBadMax => Some e_badmax
  | RSkipErr => snd (skipv o0)
  | RBadRef => option_map e_retrieval (snd (parse_ref aref))
  | RNoRef => Some e_noref
  | RResolveErr => option_map e_retrieval (snd (resolve rr))
  | RDigestMismatch => Some e_mismatch
  | RFetch _ => Some e_fetch
  | RNilOutcome k => snd (vc (dkk k))
  | RListErr => lerr
  | RExceeded => Some e_exceeded
  | RAllFailed ks => err_join (Some e_vf :: map (fun k => fail_err Cert fetch vverify ad o0 fail_fmt (dkk k)) ks)
  | RNoSignature => Some e_nosig
  end.

Definition conc_outs (o : outs) : list (ptr Outcome) :=
  match o with
  | ONone | OOther => []
  | OSkip => [skip_outcome (snd (fst (skipv o0)))]
  | OSig k => [fst (vc (dkk k))]
  end.

Definition conc (o : obs) : Desc * list (ptr Outcome) * option err :=
  (match o_desc o with DResolved => ad | _ => zd end, conc_outs (o_outs o), conc_res (o_res o)).

Hypothesis done_done : err_is (Some e_done) (Some e_done) = true.
Hypothesis fetch_not_done : err_is (Some e_fetch) (Some e_done) = false.
Hypothesis exceeded_not_done : err_is (Some e_exceeded) (Some e_done) = false.
Hypothesis lerr_not_done : err_is lerr (Some e_done) = false.
Hypothesis verifier_not_done : forall a b c, err_is (snd (vverify a b c)) (Some e_done) = false.

Lemma ref_listing_conc log : ref_listing = conc (after_listing abs log).
Proof.
  unfold ref_listing, g0.
  rewrite (ref_listing_model Cert fetch vverify ad o0 maxv e_fetch e_exceeded e_done e_vf fail_fmt L zd zd e_nosig lerr is_exc
             done_done fetch_not_done exceeded_not_done lerr_not_done verifier_not_done pages abs log);
    try reflexivity.
  destruct (after_listing_shape abs log) as (Hr & ok & Ho).
  unfold conc, conc_listing. rewrite Ho.
  destruct (o_res (after_listing abs log)); try discriminate; destruct ok; reflexivity.
Qed.

Theorem ref_Verify_model : ref_Verify = conc (model abs).
Proof.
  unfold ref_Verify, model. cbn [abs i_nilv i_nilr i_max i_skip].
  destruct nilv; [reflexivity|]. destruct nilr; [reflexivity|].
  destruct (maxv <=? 0)%Z; [reflexivity|].
  assert (Hrest : forall log, ref_rest = conc (after_skip abs log)).
  { intros log. unfold ref_rest, after_skip. cbn [abs i_ref i_rerr]. unfold abs_pref.
    destruct (snd (parse_ref aref)) as [e|] eqn:Ep; cbn [classify].
    { unfold conc, err_obs; cbn [o_desc o_outs o_res conc_outs conc_res]; rewrite ?Ep; reflexivity. }
    destruct (String.eqb rr ""); cbn [classify]; [reflexivity|].
    destruct (snd (resolve rr)) as [e|] eqn:Er; cbn [is_some].
    - destruct (is_some (as_digest rf)); cbn [classify].
      { unfold conc, err_obs; cbn [o_desc o_outs o_res conc_outs conc_res]; rewrite ?Er; reflexivity. }
      destruct (String.eqb rr (Descriptor_Digest ad)); unfold conc, err_obs; cbn [o_desc o_outs o_res conc_outs conc_res]; rewrite ?Er; reflexivity.
    - destruct (is_some (as_digest rf)); cbn [classify].
      + apply ref_listing_conc.
      + destruct (String.eqb rr (Descriptor_Digest ad)); cbn [negb]; [apply ref_listing_conc|reflexivity]. }
  unfold abs_skip. destruct has_skipper; [|apply Hrest].
  destruct (snd (skipv o0)) as [e|] eqn:Es; [unfold conc, err_obs; cbn [o_desc o_outs o_res conc_outs conc_res]; rewrite ?Es; reflexivity|].
  destruct (fst (fst (skipv o0))); [reflexivity|apply Hrest].
Qed.

(* ---------- transport: what a nil error of the concrete result means ---------- *)
Lemma listing_abs : listing abs = map kind_of L.
Proof. unfold listing, L. cbn [abs i_pages]. symmetry. apply concat_map. Qed.

Lemma kind_NO d : kind_of d = NO -> snd (vc d) <> None.
Proof.
  unfold kind_of, kind, vc. destruct (snd (fetch d)); [discriminate|].
  destruct (snd (vcall Cert fetch vverify ad o0 d)); [intros _; discriminate|discriminate].
Qed.

Lemma nth_kind k x : nth_error (map kind_of L) k = Some x -> kind_of (dkk k) = x.
Proof.
  intros H. rewrite nth_error_map in H. destruct (nth_error L k) as [d|] eqn:E; [|discriminate].
  cbn in H. inversion H. unfold dkk, dk. rewrite (nth_error_nth L k zd E). reflexivity.
Qed.

Lemma err_join_cons_some x l : err_join (Some x :: l) <> None.
Proof. unfold err_join. cbn. discriminate. Qed.

Lemma listing_res_none log :
  (0 < maxv)%Z ->
  conc_res (o_res (after_listing abs log)) = None -> o_res (after_listing abs log) = ROk.
Proof.
  intros Hmax. rewrite (after_listing_closed abs log Hmax). unfold listing_obs.
  fold (listing abs). rewrite listing_abs. cbn [abs i_max i_lerr].
  destruct (find_stop (map kind_of L) 0) as [[k x]|] eqn:Ef.
  - apply find_stop0_some in Ef. destruct Ef as (Hn & Hx & _).
    destruct (Z.of_nat k <? maxv)%Z; [|cbn; discriminate].
    destruct x; cbn [err_obs o_res conc_res]; try discriminate; try reflexivity; try congruence.
    intros H. exfalso. apply (kind_NO (dkk k)); [apply nth_kind; exact Hn|exact H].
  - destruct (maxv <=? _)%Z; [cbn; discriminate|].
    destruct lerr as [e|] eqn:El; cbn [is_some err_obs o_res conc_res].
    + rewrite El. discriminate.
    + destruct (Nat.eqb _ 0); cbn [err_obs o_res conc_res]; [discriminate|].
      intros H. exfalso. exact (err_join_cons_some _ _ H).
Qed.

Lemma conc_res_none_iff : conc_res (o_res (model abs)) = None <-> o_res (model abs) = ROk.
Proof.
  split; [|intros ->; reflexivity].
  unfold model. cbn [abs i_nilv i_nilr i_max i_skip].
  destruct nilv; [cbn; discriminate|]. destruct nilr; [cbn; discriminate|].
  destruct (maxv <=? 0)%Z eqn:Em; [cbn; discriminate|]. apply Z.leb_gt in Em.
  assert (Hrest : forall log, conc_res (o_res (after_skip abs log)) = None -> o_res (after_skip abs log) = ROk).
  { intros log. unfold after_skip. cbn [abs i_ref i_rerr]. unfold abs_pref.
    destruct (snd (parse_ref aref)) as [e|] eqn:Ep; cbn [classify].
    { cbn [err_obs o_res conc_res]. rewrite Ep. discriminate. }
    destruct (String.eqb rr ""); cbn [classify]; [cbn; discriminate|].
    destruct (snd (resolve rr)) as [e|] eqn:Er; cbn [is_some].
    - destruct (is_some (as_digest rf)); cbn [classify].
      { cbn [err_obs o_res conc_res]. rewrite Er. discriminate. }
      destruct (String.eqb rr (Descriptor_Digest ad)); cbn [err_obs o_res conc_res]; rewrite Er; discriminate.
    - destruct (is_some (as_digest rf)); cbn [classify].
      + apply listing_res_none. exact Em.
      + destruct (String.eqb rr (Descriptor_Digest ad)); [apply listing_res_none; exact Em|cbn; discriminate]. }
  unfold abs_skip. destruct has_skipper; [|apply Hrest].
  destruct (snd (skipv o0)) as [e|] eqn:Es; [cbn [err_obs o_res conc_res]; rewrite Es; discriminate|].
  destruct (fst (fst (skipv o0))); [reflexivity|apply Hrest].
Qed.

(* notation.Verify returns a nil error iff the verifier said skip, or the listing is reached and
   one of the first N listed signatures verifies with all the ones before it fetched and failing *)
Theorem ref_Verify_ok_iff :
  snd ref_Verify = None <->
  nilv = false /\ nilr = false /\ (0 < maxv)%Z /\
  (abs_skip = SkipYes \/ (reaches_listing abs /\ exists k, first_good (map kind_of L) maxv k)).
Proof.
  rewrite ref_Verify_model. unfold conc. cbn [snd]. rewrite conc_res_none_iff, ok_iff.
  rewrite listing_abs. reflexivity.
Qed.

(* ... and then it returns the resolved descriptor and exactly the outcome of that signature *)
Theorem ref_Verify_first_good k :
  reaches_listing abs -> first_good (map kind_of L) maxv k ->
  ref_Verify = (ad, [fst (vc (dkk k))], None).
Proof.
  intros Hr Hg. rewrite ref_Verify_model. rewrite <- listing_abs in Hg.
  rewrite (model_head abs Hr), (listing_obs_good abs _ k Hg). reflexivity.
Qed.

(* a digest reference that differs from the resolved digest never succeeds (except by skip) *)
Theorem ref_Verify_pin dg :
  abs_pref = PDigest dg -> dg <> Descriptor_Digest ad ->
  snd ref_Verify = None -> abs_skip = SkipYes.
Proof.
  intros Hp Hne Hok. rewrite ref_Verify_model in Hok. unfold conc in Hok. cbn [snd] in Hok.
  apply conc_res_none_iff in Hok.
  destruct (pin_mismatch_all abs dg (Descriptor_Digest ad)) as (H & _); [cbn [abs i_ref]; rewrite Hp; reflexivity|exact Hne|].
  exact (H Hok).
Qed.

End Head.
