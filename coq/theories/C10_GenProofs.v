(* C10_GenProofs.v — the proofs behind props/C10_Generated.v: the GoLite translation of
   notation.Verify (theories/C10_Gen.v, regenerated from /repo on every run) equals the
   hand-written model (C10_Model.v) for ALL listings, pagings and limits.

   Structure:
     1. abstraction [abs]: from the oracles' answers (what the repository resolves, lists
        and lets fetch; what the verifier answers) to the model's [input]; [kind] classifies one
        listed signature descriptor as the model's [sigk];
     2. concretisation [conc]: from the model's observation (classes, positions in the
        listing) back to the Go values (descriptor, outcome pointers, error values);
     3. a reference semantics of the callback / of ListSignatures ([ref_page], [ref_pages]),
        proved to simulate [page_loop] / [pages_loop] under a relation between the captured
        variables and the model's [st];
     4. the generated functions are shown equal to the reference ones.              *)
From Coq Require Import List Bool String Ascii NArith ZArith Lia.
From NV Require Import Base GoLib C10_Model C10_Proofs C10_Audit C10_Gen.
Import ListNotations.
Local Open Scope string_scope.
Local Open Scope list_scope.

Lemma if_same {A} (b : bool) (x : A) : (if b then x else x) = x.
Proof. destruct b; reflexivity. Qed.

Section Ref.
Variable Cert : Type.
Notation Outcome := (notation_go_VerificationOutcome Cert).
Notation VOpts := notation_go_VerifierVerifyOptions.
Notation Desc := v1_Descriptor.

Variable fetch : Desc -> list Z * Desc * option err.
Variable vverify : Desc -> list Z -> VOpts -> ptr Outcome * option err.
Variables (ad : Desc) (o0 : VOpts) (max : Z).

(* the error values of notation.go *)
Variables (e_fetch e_exceeded e_done e_vf : err).
Variable fail_fmt : string.

Definition smt := set_VerifierVerifyOptions_SignatureMediaType.

Lemma smt_smt v w o : smt v (smt w o) = smt v o.
Proof. destruct o; reflexivity. Qed.

(* the call of verifier.Verify made for the listed descriptor d *)
Definition vcall (d : Desc) : ptr Outcome * option err :=
  vverify ad (fst (fst (fetch d))) (smt (Descriptor_MediaType (snd (fst (fetch d)))) o0).

Definition kind (d : Desc) : sigk :=
  match snd (fetch d) with
  | Some _ => U
  | None => match snd (vcall d) with
            | None => G
            | Some _ => match ptr_val (fst (vcall d)) with None => NO | Some _ => Bd end
            end
  end.

(* outcome.Error after line 566 *)
Definition fail_err (d : Desc) : option err :=
  match ptr_val (fst (vcall d)) with
  | Some ov => Some (Err "fmt" fail_fmt (olist (VerificationOutcome_Error _ ov)))
  | None => None
  end.

(* ---------- reference semantics of the callback ---------- *)
Definition cvars : Type := (Z * VOpts * list (option err) * bool * list (ptr Outcome))%type.

Definition ref_after (g : cvars) : cvars * option err :=
  let '(n, opts, failed, succ, outs) := g in
  if (max <=? n)%Z then (g, Some e_exceeded) else (g, None).

Fixpoint ref_page (page : list Desc) (g : cvars) : cvars * option err :=
  match page with
  | [] => ref_after g
  | d :: rest =>
      let '(n, opts, failed, succ, outs) := g in
      if (max <=? n)%Z then ref_after g
      else
        let n1 := (n + 1)%Z in
        let '(blob, sd, fe) := fetch d in
        match fe with
        | Some _ => ((n1, opts, failed, succ, outs), Some e_fetch)
        | None =>
            let opts1 := smt (Descriptor_MediaType sd) opts in
            let '(oc, ve) := vverify ad blob opts1 in
            match ve with
            | Some e =>
                match ptr_val oc with
                | None => ((n1, opts1, failed, succ, outs), Some e)
                | Some ov =>
                    ref_page rest (n1, opts1,
                                   failed ++ [Some (Err "fmt" fail_fmt (olist (VerificationOutcome_Error _ ov)))],
                                   succ, outs)
                end
            | None => ((n1, opts1, failed, true, [oc]), Some e_done)
            end
        end
  end.

(* Repository.ListSignatures: the callback on consecutive pages until it returns an error *)
Fixpoint ref_pages (pages : list (list Desc)) (lerr : option err) (g : cvars) : cvars * option err :=
  match pages with
  | [] => (g, lerr)
  | p :: ps =>
      match ref_page p g with
      | (g', None) => ref_pages ps lerr g'
      | r => r
      end
  end.

(* ---------- the simulation ---------- *)
Variable L : list Desc.                   (* the whole listing *)
Variable d0 : Desc.
Definition dk (k : nat) : Desc := nth k L d0.

Definition Rel (g : cvars) (s : st) : Prop :=
  let '(n, opts, failed, succ, outs) := g in
  n = Z.of_nat (s_n s) /\
  (forall v, smt v opts = smt v o0) /\
  failed = Some e_vf :: map (fun k => fail_err (dk k)) (s_failed s) /\
  match s_ok s with
  | None => succ = false /\ outs = []
  | Some k => succ = true /\ outs = [fst (vcall (dk k))]
  end.

Definition conc_cb (c : cb) : option err :=
  match c with
  | Cont => None
  | Stop EDone => Some e_done
  | Stop (EFetchE _) => Some e_fetch
  | Stop (ENilOut k) => snd (vcall (dk k))
  | Stop EExceeded => Some e_exceeded
  end.

Lemma ref_after_sim g s :
  Rel g s -> Rel (fst (ref_after g)) s /\ snd (ref_after g) = conc_cb (after_loop max s) /\
  (snd (ref_after g) = None -> after_loop max s = Cont).
Proof.
  destruct g as [[[[n opts] failed] succ] outs]. intros H. pose proof H as (Hn & _).
  subst n. unfold ref_after, after_loop.
  destruct (max <=? Z.of_nat (s_n s))%Z; cbn; (split; [exact H|split; [reflexivity|congruence]]).
Qed.

Lemma dk_middle pre x post : L = pre ++ x :: post -> dk (List.length pre) = x.
Proof. intros H. unfold dk. rewrite H. apply nth_middle. Qed.

Lemma Rel_intro n opts failed succ outs s :
  n = Z.of_nat (s_n s) -> (forall v, smt v opts = smt v o0) ->
  failed = Some e_vf :: map (fun k => fail_err (dk k)) (s_failed s) ->
  match s_ok s with
  | None => succ = false /\ outs = []
  | Some k => succ = true /\ outs = [fst (vcall (dk k))]
  end -> Rel (n, opts, failed, succ, outs) s.
Proof. unfold Rel. auto. Qed.

Lemma ref_page_sim : forall page pre post g s,
  L = pre ++ page ++ post -> Rel g s ->
  let r := ref_page page g in
  let m := page_loop max (List.length pre) s (map kind page) in
  Rel (fst r) (fst m) /\ snd r = conc_cb (snd m) /\ (snd r = None -> snd m = Cont).
Proof.
  induction page as [|d rest IH]; intros pre post g s HL HR.
  - cbn [map ref_page page_loop fst snd]. apply ref_after_sim. exact HR.
  - destruct g as [[[[n opts] failed] succ] outs]. pose proof HR as (Hn & Ho & Hf & Hk).
    cbn [map ref_page page_loop].
    subst n. destruct (max <=? Z.of_nat (s_n s))%Z eqn:Emax.
    + cbn [fst snd]. apply (ref_after_sim _ s HR).
    + assert (Hd : dk (List.length pre) = d) by (apply (dk_middle pre d (rest ++ post)); exact HL).
      unfold kind. unfold vcall.
      destruct (fetch d) as [[blob sd] fe] eqn:Ef. cbn [fst snd].
      assert (Hn1 : (Z.of_nat (s_n s) + 1)%Z = Z.of_nat (S (s_n s))) by lia.
      destruct fe as [e|].
      * cbn [fst snd conc_cb]. split; [|split; [reflexivity|discriminate]].
        apply Rel_intro; cbn [s_n s_failed s_ok]; auto.
      * rewrite Ho.
        destruct (vverify ad blob (smt (Descriptor_MediaType sd) o0)) as [oc ve] eqn:Ev.
        cbn [fst snd].
        assert (Hvc : vcall d = (oc, ve)) by (unfold vcall; rewrite Ef; cbn [fst snd]; exact Ev).
        destruct ve as [e|].
        -- destruct (ptr_val oc) as [ov|] eqn:Eoc.
           ++ (* Bd: continue *)
              specialize (IH (pre ++ [d]) post
                (Z.of_nat (s_n s) + 1, smt (Descriptor_MediaType sd) o0,
                 failed ++ [Some (Err "fmt" fail_fmt (olist (VerificationOutcome_Error _ ov)))], succ, outs)%Z
                (mk_st (S (s_n s)) (s_failed s ++ [List.length pre]) (s_ok s)
                       ((s_log s ++ [EF (List.length pre)]) ++ [EV (List.length pre)]))).
              rewrite app_length in IH. cbn [List.length] in IH. rewrite Nat.add_1_r in IH.
              apply IH.
              ** rewrite <- app_assoc. exact HL.
              ** apply Rel_intro; cbn [s_n s_failed s_ok]; auto.
                 rewrite Hf, map_app. cbn [map]. unfold fail_err. rewrite Hd, Hvc. cbn [fst].
                 rewrite Eoc. reflexivity.
           ++ (* NO *)
              cbn [fst snd conc_cb]. rewrite Hd, Hvc. cbn [snd]. split; [|split; [reflexivity|discriminate]].
              apply Rel_intro; cbn [s_n s_failed s_ok]; auto.
        -- (* G *)
           cbn [fst snd conc_cb]. split; [|split; [reflexivity|discriminate]].
           apply Rel_intro; cbn [s_n s_failed s_ok]; auto.
           rewrite Hd, Hvc. auto.
Qed.

Lemma ref_pages_sim lerr : forall pages pre post g s,
  L = pre ++ List.concat pages ++ post -> Rel g s ->
  let r := ref_pages pages lerr g in
  let m := pages_loop max (List.length pre) s (map (map kind) pages) in
  Rel (fst r) (fst m) /\
  snd r = match snd m with Cont => lerr | c => conc_cb c end /\
  (snd m <> Cont -> snd r <> None).
Proof.
  induction pages as [|p ps IH]; intros pre post g s HL HR.
  - cbn. split; [exact HR|split; [reflexivity|congruence]].
  - cbn [map ref_pages pages_loop]. cbn [List.concat] in HL. rewrite <- app_assoc in HL.
    pose proof (ref_page_sim p pre (List.concat ps ++ post) g s HL HR) as (H1 & H2 & H3).
    destruct (ref_page p g) as [g' e] eqn:Eg.
    destruct (page_loop max (List.length pre) s (map kind p)) as [s' c] eqn:Es.
    cbn [fst snd] in H1, H2, H3. rewrite map_length.
    destruct c as [|ce].
    + cbn in H2. subst e.
      specialize (IH (pre ++ p) post g' s').
      rewrite app_length in IH. apply IH; [|exact H1]. rewrite <- app_assoc. exact HL.
    + destruct e as [x|]; [|specialize (H3 eq_refl); discriminate].
      cbn [fst snd]. split; [exact H1|]. rewrite H2. split; [reflexivity|]. intros _. rewrite <- H2. discriminate.
Qed.

(* ---------- what the model's loop leaves in [s_ok] / [s_n] ---------- *)
Lemma page_loop_ok_n : forall page pos s,
  let m := page_loop max pos s page in
  match snd m with
  | Stop EDone => (exists k, s_ok (fst m) = Some k) /\ (0 < s_n (fst m))%nat
  | _ => s_ok (fst m) = s_ok s
  end /\ (s_n s <= s_n (fst m))%nat.
Proof.
  induction page as [|x rest IH]; intros pos s; cbn [page_loop].
  - unfold after_loop. destruct (max <=? Z.of_nat (s_n s))%Z; cbn; auto.
  - unfold after_loop. destruct (max <=? Z.of_nat (s_n s))%Z; [cbn; auto|].
    destruct x; cbn [fst snd s_ok s_n].
    + split; [split; [eexists; reflexivity|lia]|lia].
    + match goal with |- context [page_loop max ?p ?t rest] => specialize (IH p t) end.
      cbn zeta in IH. destruct IH as (IH1 & IH2). cbn [s_ok s_n] in IH1, IH2.
      split; [exact IH1|lia].
    + split; [reflexivity|lia].
    + split; [reflexivity|lia].
Qed.

Lemma pages_loop_ok_n : forall pages pos s,
  let m := pages_loop max pos s pages in
  match snd m with
  | Stop EDone => (exists k, s_ok (fst m) = Some k) /\ (0 < s_n (fst m))%nat
  | _ => s_ok (fst m) = s_ok s
  end /\ (s_n s <= s_n (fst m))%nat.
Proof.
  induction pages as [|p ps IH]; intros pos s; cbn [pages_loop].
  - cbn. auto.
  - pose proof (page_loop_ok_n p pos s) as H. cbn zeta in H.
    destruct (page_loop max pos s p) as [s' c]. cbn [fst snd] in H.
    destruct c as [|ce].
    + specialize (IH (pos + List.length p)%nat s'). cbn zeta in IH.
      destruct H as (H1 & H2). destruct IH as (I1 & I2). rewrite <- H1. split; [exact I1|lia].
    + cbn [fst snd]. exact H.
Qed.

(* ---------- after ListSignatures: notation.go:586-605 ---------- *)
Variables (zd : Desc) (e_nosig : err) (lerr : option err).
(* errors.Is(err, errExceededMaxVerificationLimit) (notation.go:587): whatever it answers, the
   outcomes returned next to an error are nil *)
Variable is_exc : option err -> bool.

Definition ref_tail (r : cvars * option err) : Desc * list (ptr Outcome) * option err :=
  let '(n, opts, failed, succ, outs, e) := r in
  if is_some e && negb (err_is e (Some e_done)) then
    if is_exc e then (zd, outs, e) else (zd, [], e)
  else if (n =? 0)%Z then (zd, [], Some e_nosig)
  else if negb succ then (zd, outs, err_join failed)
  else (ad, outs, None).

Definition conc_res_listing (r : res) : option err :=
  match r with
  | RFetch _ => Some e_fetch
  | RNilOutcome k => snd (vcall (dk k))
  | RListErr => lerr
  | RExceeded => Some e_exceeded
  | RAllFailed ks => err_join (Some e_vf :: map (fun k => fail_err (dk k)) ks)
  | RNoSignature => Some e_nosig
  | _ => None
  end.

Definition conc_outs_listing (o : outs) : list (ptr Outcome) :=
  match o with OSig k => [fst (vcall (dk k))] | _ => [] end.

Definition conc_listing (o : obs) : Desc * list (ptr Outcome) * option err :=
  (match o_desc o with DResolved => ad | _ => zd end, conc_outs_listing (o_outs o), conc_res_listing (o_res o)).

(* the errors of notation.go are distinguishable; those of the verifier and of the
   repository are not the (unexported) sentinel errDoneVerification *)
Hypothesis done_done : err_is (Some e_done) (Some e_done) = true.
Hypothesis fetch_not_done : err_is (Some e_fetch) (Some e_done) = false.
Hypothesis exceeded_not_done : err_is (Some e_exceeded) (Some e_done) = false.
Hypothesis lerr_not_done : err_is lerr (Some e_done) = false.
Hypothesis verifier_not_done : forall a b c, err_is (snd (vverify a b c)) (Some e_done) = false.

Lemma ref_listing_model (pages : list (list Desc)) (i : input) (log : list ev) :
  L = List.concat pages ->
  i_pages i = map (map kind) pages -> i_max i = max -> i_lerr i = is_some lerr ->
  ref_tail (ref_pages pages lerr (0%Z, o0, [Some e_vf], false, [])) = conc_listing (after_listing i log).
Proof.
  intros HL Hp Hm Hl. unfold after_listing. rewrite Hp, Hm.
  set (s0 := mk_st 0 [] None (log ++ [EL])).
  assert (HR : Rel (0%Z, o0, [Some e_vf], false, []) s0) by (apply Rel_intro; cbn; auto).
  pose proof (ref_pages_sim lerr pages [] [] (0%Z, o0, [Some e_vf], false, []) s0) as Hsim. cbn [List.length app] in Hsim.
  rewrite app_nil_r in Hsim. specialize (Hsim HL HR). cbn zeta in Hsim.
  pose proof (pages_loop_ok_n (map (map kind) pages) 0 s0) as Hok. cbn zeta in Hok.
  destruct (pages_loop max 0 s0 (map (map kind) pages)) as [s c].
  destruct (ref_pages pages lerr (0%Z, o0, [Some e_vf], false, [])) as [[[[[n opts] failed] succ] outs] e].
  cbn [fst snd] in Hsim, Hok. destruct Hsim as ((Hn & _ & Hf & Hk) & He & Hsome). destruct Hok as (Hok & _).
  unfold ref_tail, conc_listing.
  destruct c as [|ce].
  - (* the callback never stopped *)
    cbn [s0 s_ok] in Hok. rewrite Hok in Hk. destruct Hk as (-> & ->). subst e.
    rewrite Hl. destruct lerr as [x|] eqn:El.
    + rewrite lerr_not_done. cbn [is_some andb negb err_obs o_desc o_outs o_res conc_outs_listing conc_res_listing].
      rewrite El. apply if_same.
    + cbn [is_some andb]. subst n.
      destruct (s_n s) as [|m] eqn:En; cbn [Nat.eqb].
      * cbn. reflexivity.
      * replace (Z.of_nat (S m) =? 0)%Z with false by (symmetry; apply Z.eqb_neq; lia).
        rewrite Hok. cbn. rewrite Hf. reflexivity.
  - destruct ce as [|k|k|].
    + (* done *)
      destruct Hok as ((k & Hk') & Hpos). rewrite Hk' in Hk. destruct Hk as (-> & ->). subst e. cbn [conc_cb].
      rewrite done_done. cbn [is_some andb negb]. subst n.
      destruct (s_n s) as [|m] eqn:En; [lia|].
      replace (Z.of_nat (S m) =? 0)%Z with false by (symmetry; apply Z.eqb_neq; lia).
      cbn [Nat.eqb]. rewrite Hk'. cbn. reflexivity.
    + (* unfetchable *)
      cbn [s0 s_ok] in Hok. rewrite Hok in Hk. destruct Hk as (-> & ->). subst e. cbn [conc_cb].
      rewrite fetch_not_done. cbn [is_some andb negb]. cbn [err_obs o_desc o_outs o_res conc_outs_listing conc_res_listing outs_of].
      apply if_same.
    + (* the verifier failed without an outcome *)
      cbn [s0 s_ok] in Hok. rewrite Hok in Hk. destruct Hk as (-> & ->). subst e. cbn [conc_cb].
      assert (Hs : is_some (snd (vcall (dk k))) = true).
      { cbn [conc_cb] in Hsome. destruct (snd (vcall (dk k))); [reflexivity|]. exfalso. apply Hsome; [discriminate|reflexivity]. }
      rewrite Hs. unfold vcall at 1. rewrite verifier_not_done. cbn [andb negb]. cbn [err_obs o_desc o_outs o_res conc_outs_listing conc_res_listing outs_of].
      apply if_same.
    + (* limit *)
      cbn [s0 s_ok] in Hok. rewrite Hok in Hk. destruct Hk as (-> & ->). subst e. cbn [conc_cb].
      rewrite exceeded_not_done. cbn [is_some andb negb]. rewrite Hok. cbn [err_obs o_desc o_outs o_res conc_outs_listing conc_res_listing outs_of].
      apply if_same.
Qed.

End Ref.

(* ---------- the whole of notation.Verify ---------- *)
Definition listing_res (r : res) : bool :=
  match r with
  | ROk | RFetch _ | RNilOutcome _ | RListErr | RExceeded | RAllFailed _ | RNoSignature => true
  | _ => false
  end.

Lemma after_listing_shape i log :
  listing_res (o_res (after_listing i log)) = true /\
  exists ok, o_outs (after_listing i log) = outs_of ok.
Proof.
  unfold after_listing.
  destruct (pages_loop (i_max i) 0 _ (i_pages i)) as [s c].
  destruct c as [|[|k|k|]]; [destruct (i_lerr i)| | | |];
    cbn [err_obs o_res o_outs listing_res];
    try (split; [reflexivity|exists None; reflexivity]);
    try (split; [reflexivity|eexists; reflexivity]);
    destruct (Nat.eqb (s_n s) 0); cbn [err_obs o_res o_outs listing_res];
    try (split; [reflexivity|exists None; reflexivity]);
    destruct (s_ok s); cbn [o_res o_outs listing_res]; split; try reflexivity; eexists; reflexivity.
Qed.

Section Head.
Variable Cert : Type.
Notation Outcome := (notation_go_VerificationOutcome Cert).
Notation VOpts := notation_go_VerifierVerifyOptions.
Notation Desc := v1_Descriptor.
Notation Level := trustpolicy_VerificationLevel.

Variable resolve : string -> Desc * option err.
Variable fetch : Desc -> list Z * Desc * option err.
Variable parse_ref : string -> registry_Reference * option err.
Variable as_digest : registry_Reference -> option err.
Variable vverify : Desc -> list Z -> VOpts -> ptr Outcome * option err.
Variable skipv : VOpts -> bool * ptr Level * option err.

Variables (e_nilv e_nilr e_badmax e_noref e_mismatch e_nosig e_fetch e_exceeded e_done e_vf : err).
Variable e_retrieval : err -> err.
Variable fail_fmt : string.
Variable zd : Desc.
Variable skip_outcome : ptr Level -> ptr Outcome.
Variable is_exc : option err -> bool.

(* the arguments of Verify and what ListSignatures does *)
Variables (nilv nilr has_skipper : bool) (vo : notation_go_VerifyOptions).
Variables (pages : list (list Desc)) (lerr : option err).

Definition aref : string := VerifyOptions_ArtifactReference vo.
Definition o0 : VOpts :=
  mk_VerifierVerifyOptions aref "" (VerifyOptions_PluginConfig vo) (VerifyOptions_UserMetadata vo).
Definition maxv : Z := VerifyOptions_MaxSignatureAttempts vo.
Definition rf : registry_Reference := fst (parse_ref aref).
Definition rr : string := Reference_Reference rf.
Definition ad : Desc := fst (resolve rr).
Definition L : list Desc := List.concat pages.

Definition g0 : cvars Cert := (0%Z, o0, [Some e_vf], false, []).

Definition ref_listing : Desc * list (ptr Outcome) * option err :=
  ref_tail Cert ad e_done zd e_nosig is_exc
    (ref_pages Cert fetch vverify ad maxv e_fetch e_exceeded e_done fail_fmt pages lerr g0).

Definition ref_rest : Desc * list (ptr Outcome) * option err :=
  match snd (parse_ref aref) with
  | Some e => (zd, [], Some (e_retrieval e))
  | None =>
      if String.eqb rr "" then (zd, [], Some e_noref)
      else match snd (resolve rr) with
           | Some e => (zd, [], Some (e_retrieval e))
           | None =>
               if is_some (as_digest rf) then ref_listing
               else if negb (String.eqb rr (Descriptor_Digest ad)) then (zd, [], Some e_mismatch)
               else ref_listing
           end
  end.

Definition ref_Verify : Desc * list (ptr Outcome) * option err :=
  if nilv then (zd, [], Some e_nilv)
  else if nilr then (zd, [], Some e_nilr)
  else if (maxv <=? 0)%Z then (zd, [], Some e_badmax)
  else if has_skipper then
    match snd (skipv o0) with
    | Some e => (zd, [], Some e)
    | None => if fst (fst (skipv o0)) then (zd, [skip_outcome (snd (fst (skipv o0)))], None) else ref_rest
    end
  else ref_rest.

(* ---- abstraction: the model's input ---- *)
Definition kind_of : Desc -> sigk := kind Cert fetch vverify ad o0.

Definition abs_pref : pref :=
  match snd (parse_ref aref) with
  | Some _ => PInvalid
  | None => if String.eqb rr "" then PNone
            else if is_some (as_digest rf) then PTag else PDigest rr
  end.

Definition abs_skip : skipper :=
  if has_skipper then
    match snd (skipv o0) with
    | Some _ => SkipErr
    | None => if fst (fst (skipv o0)) then SkipYes else SkipNo
    end
  else NoSkipper.

Definition abs : input :=
  mk_input nilv nilr maxv abs_skip (classify abs_pref (Descriptor_Digest ad))
           (is_some (snd (resolve rr))) (map (map kind_of) pages) (is_some lerr).

(* ---- concretisation: the Go values an observation of the model stands for ---- *)
Definition dkk (k : nat) : Desc := dk L zd k.
Definition vc (d : Desc) := vcall Cert fetch vverify ad o0 d.

Definition conc_res (r : res) : option err :=
  match r with
  | ROk | ROther => None
  | RNilVerifier => Some e_nilv
  | RNilRepo => Some e_nilr
  | RBadMax => Some e_badmax
  | RSkipErr => snd (skipv o0)
  | RBadRef => option_map e_retrieval (snd (parse_ref aref))
  | RNoRef => Some e_noref
  | RResolveErr => option_map e_retrieval (snd (resolve rr))
  | RDigestMismatch => Some e_mismatch
  | RFetch _ => Some e_fetch
  | RNilOutcome k => snd (vc (dkk k))
  | RListErr => lerr
  | RExceeded => Some e_exceeded
  | RAllFailed ks => err_join (Some e_vf :: map (fun k => fail_err Cert fetch vverify ad o0 fail_fmt (dkk k)) ks)
  | RNoSignature => Some e_nosig
  end.

Definition conc_outs (o : outs) : list (ptr Outcome) :=
  match o with
  | ONone | OOther => []
  | OSkip => [skip_outcome (snd (fst (skipv o0)))]
  | OSig k => [fst (vc (dkk k))]
  end.

Definition conc (o : obs) : Desc * list (ptr Outcome) * option err :=
  (match o_desc o with DResolved => ad | _ => zd end, conc_outs (o_outs o), conc_res (o_res o)).

Hypothesis done_done : err_is (Some e_done) (Some e_done) = true.
Hypothesis fetch_not_done : err_is (Some e_fetch) (Some e_done) = false.
Hypothesis exceeded_not_done : err_is (Some e_exceeded) (Some e_done) = false.
Hypothesis lerr_not_done : err_is lerr (Some e_done) = false.
Hypothesis verifier_not_done : forall a b c, err_is (snd (vverify a b c)) (Some e_done) = false.

Lemma ref_listing_conc log : ref_listing = conc (after_listing abs log).
Proof.
  unfold ref_listing, g0.
  rewrite (ref_listing_model Cert fetch vverify ad o0 maxv e_fetch e_exceeded e_done e_vf fail_fmt L zd zd e_nosig lerr is_exc
             done_done fetch_not_done exceeded_not_done lerr_not_done verifier_not_done pages abs log);
    try reflexivity.
  destruct (after_listing_shape abs log) as (Hr & ok & Ho).
  unfold conc, conc_listing. rewrite Ho.
  destruct (o_res (after_listing abs log)); try discriminate; destruct ok; reflexivity.
Qed.

Theorem ref_Verify_model : ref_Verify = conc (model abs).
Proof.
  unfold ref_Verify, model. cbn [abs i_nilv i_nilr i_max i_skip].
  destruct nilv; [reflexivity|]. destruct nilr; [reflexivity|].
  destruct (maxv <=? 0)%Z; [reflexivity|].
  assert (Hrest : forall log, ref_rest = conc (after_skip abs log)).
  { intros log. unfold ref_rest, after_skip. cbn [abs i_ref i_rerr]. unfold abs_pref.
    destruct (snd (parse_ref aref)) as [e|] eqn:Ep; cbn [classify].
    { unfold conc, err_obs; cbn [o_desc o_outs o_res conc_outs conc_res]; rewrite ?Ep; reflexivity. }
    destruct (String.eqb rr ""); cbn [classify]; [reflexivity|].
    destruct (snd (resolve rr)) as [e|] eqn:Er; cbn [is_some].
    - destruct (is_some (as_digest rf)); cbn [classify].
      { unfold conc, err_obs; cbn [o_desc o_outs o_res conc_outs conc_res]; rewrite ?Er; reflexivity. }
      destruct (String.eqb rr (Descriptor_Digest ad)); unfold conc, err_obs; cbn [o_desc o_outs o_res conc_outs conc_res]; rewrite ?Er; reflexivity.
    - destruct (is_some (as_digest rf)); cbn [classify].
      + apply ref_listing_conc.
      + destruct (String.eqb rr (Descriptor_Digest ad)); cbn [negb]; [apply ref_listing_conc|reflexivity]. }
  unfold abs_skip. destruct has_skipper; [|apply Hrest].
  destruct (snd (skipv o0)) as [e|] eqn:Es; [unfold conc, err_obs; cbn [o_desc o_outs o_res conc_outs conc_res]; rewrite ?Es; reflexivity|].
  destruct (fst (fst (skipv o0))); [reflexivity|apply Hrest].
Qed.

(* ---------- transport: what a nil error of the concrete result means ---------- *)
Lemma listing_abs : listing abs = map kind_of L.
Proof. unfold listing, L. cbn [abs i_pages]. symmetry. apply concat_map. Qed.

Lemma kind_NO d : kind_of d = NO -> snd (vc d) <> None.
Proof.
  unfold kind_of, kind, vc. destruct (snd (fetch d)); [discriminate|].
  destruct (snd (vcall Cert fetch vverify ad o0 d)); [intros _; discriminate|discriminate].
Qed.

Lemma nth_kind k x : nth_error (map kind_of L) k = Some x -> kind_of (dkk k) = x.
Proof.
  intros H. rewrite nth_error_map in H. destruct (nth_error L k) as [d|] eqn:E; [|discriminate].
  cbn in H. inversion H. unfold dkk, dk. rewrite (nth_error_nth L k zd E). reflexivity.
Qed.

Lemma err_join_cons_some x l : err_join (Some x :: l) <> None.
Proof. unfold err_join. cbn. discriminate. Qed.

Lemma listing_res_none log :
  (0 < maxv)%Z ->
  conc_res (o_res (after_listing abs log)) = None -> o_res (after_listing abs log) = ROk.
Proof.
  intros Hmax. rewrite (after_listing_closed abs log Hmax). unfold listing_obs.
  fold (listing abs). rewrite listing_abs. cbn [abs i_max i_lerr].
  destruct (find_stop (map kind_of L) 0) as [[k x]|] eqn:Ef.
  - apply find_stop0_some in Ef. destruct Ef as (Hn & Hx & _).
    destruct (Z.of_nat k <? maxv)%Z; [|cbn; discriminate].
    destruct x; cbn [err_obs o_res conc_res]; try discriminate; try reflexivity; try congruence.
    intros H. exfalso. apply (kind_NO (dkk k)); [apply nth_kind; exact Hn|exact H].
  - destruct (maxv <=? _)%Z; [cbn; discriminate|].
    destruct lerr as [e|] eqn:El; cbn [is_some err_obs o_res conc_res].
    + rewrite El. discriminate.
    + destruct (Nat.eqb _ 0); cbn [err_obs o_res conc_res]; [discriminate|].
      intros H. exfalso. exact (err_join_cons_some _ _ H).
Qed.

Lemma conc_res_none_iff : conc_res (o_res (model abs)) = None <-> o_res (model abs) = ROk.
Proof.
  split; [|intros ->; reflexivity].
  unfold model. cbn [abs i_nilv i_nilr i_max i_skip].
  destruct nilv; [cbn; discriminate|]. destruct nilr; [cbn; discriminate|].
  destruct (maxv <=? 0)%Z eqn:Em; [cbn; discriminate|]. apply Z.leb_gt in Em.
  assert (Hrest : forall log, conc_res (o_res (after_skip abs log)) = None -> o_res (after_skip abs log) = ROk).
  { intros log. unfold after_skip. cbn [abs i_ref i_rerr]. unfold abs_pref.
    destruct (snd (parse_ref aref)) as [e|] eqn:Ep; cbn [classify].
    { cbn [err_obs o_res conc_res]. rewrite Ep. discriminate. }
    destruct (String.eqb rr ""); cbn [classify]; [cbn; discriminate|].
    destruct (snd (resolve rr)) as [e|] eqn:Er; cbn [is_some].
    - destruct (is_some (as_digest rf)); cbn [classify].
      { cbn [err_obs o_res conc_res]. rewrite Er. discriminate. }
      destruct (String.eqb rr (Descriptor_Digest ad)); cbn [err_obs o_res conc_res]; rewrite Er; discriminate.
    - destruct (is_some (as_digest rf)); cbn [classify].
      + apply listing_res_none. exact Em.
      + destruct (String.eqb rr (Descriptor_Digest ad)); [apply listing_res_none; exact Em|cbn; discriminate]. }
  unfold abs_skip. destruct has_skipper; [|apply Hrest].
  destruct (snd (skipv o0)) as [e|] eqn:Es; [cbn [err_obs o_res conc_res]; rewrite Es; discriminate|].
  destruct (fst (fst (skipv o0))); [reflexivity|apply Hrest].
Qed.

(* notation.Verify returns a nil error iff the verifier said skip, or the listing is reached and
   one of the first N listed signatures verifies with all the ones before it fetched and failing *)
Theorem ref_Verify_ok_iff :
  snd ref_Verify = None <->
  nilv = false /\ nilr = false /\ (0 < maxv)%Z /\
  (abs_skip = SkipYes \/ (reaches_listing abs /\ exists k, first_good (map kind_of L) maxv k)).
Proof.
  rewrite ref_Verify_model. unfold conc. cbn [snd]. rewrite conc_res_none_iff, ok_iff.
  rewrite listing_abs. reflexivity.
Qed.

(* ... and then it returns the resolved descriptor and exactly the outcome of that signature *)
Theorem ref_Verify_first_good k :
  reaches_listing abs -> first_good (map kind_of L) maxv k ->
  ref_Verify = (ad, [fst (vc (dkk k))], None).
Proof.
  intros Hr Hg. rewrite ref_Verify_model. rewrite <- listing_abs in Hg.
  rewrite (model_head abs Hr), (listing_obs_good abs _ k Hg). reflexivity.
Qed.

(* a digest reference that differs from the resolved digest never succeeds (except by skip) *)
Theorem ref_Verify_pin dg :
  abs_pref = PDigest dg -> dg <> Descriptor_Digest ad ->
  snd ref_Verify = None -> abs_skip = SkipYes.
Proof.
  intros Hp Hne Hok. rewrite ref_Verify_model in Hok. unfold conc in Hok. cbn [snd] in Hok.
  apply conc_res_none_iff in Hok.
  destruct (pin_mismatch_all abs dg (Descriptor_Digest ad)) as (H & _); [cbn [abs i_ref]; rewrite Hp; reflexivity|exact Hne|].
  exact (H Hok).
Qed.

End Head.

(* ---------- the generated functions equal the reference semantics ---------- *)
Section Gen.
Variables (RT VT Cert ST : Type).     (* registry.Repository, notation.Verifier, x509.Certificate, verifySkipper *)
Notation Outcome := (notation_go_VerificationOutcome Cert).
Notation VOpts := notation_go_VerifierVerifyOptions.
Notation Desc := v1_Descriptor.
Notation Level := trustpolicy_VerificationLevel.
Notation Res := (Desc * list (ptr Outcome) * option err)%type.

(* the oracles, as the generated file declares them: methods take their (non-nil) receiver *)
Variable resolve : RT -> string -> Desc * option err.
Variable listsigs : RT -> Desc -> list (list Desc) * option err.
Variable fetch : RT -> Desc -> list Z * Desc * option err.
Variable vverify : VT -> Desc -> list Z -> VOpts -> ptr Outcome * option err.
Variable skipv : ST -> VOpts -> bool * ptr Level * option err.
Variable parse_ref : string -> registry_Reference * option err.
Variable as_digest : registry_Reference -> option err.
Variable as_skipper : VT -> option ST.

(* the error values of notation.go (type, format string, wrapped errors) *)
Definition E_retr (f : string) : err := Err "notation.SignatureRetrievalFailedError" f [].
Definition E_nilv := Err "errors" "verifier cannot be nil" [].
Definition E_nilr := Err "errors" "repo cannot be nil" [].
Definition E_badmax := E_retr "verifyOptions.MaxSignatureAttempts expects a positive number, got %d".
Definition E_noref := E_retr "reference is missing digest or tag".
Definition E_mismatch := E_retr "user input digest %s does not match the resolved digest %s".
Definition E_nosig := E_retr "no signature is associated with %q, make sure the artifact was signed successfully".
Definition E_fetch := E_retr "unable to retrieve digital signature with digest %q associated with %q from the Repository, error : %v".
Definition E_wrap (_ : err) : err := E_retr "%v".
Definition E_done := Err "notation.errDoneVerification" "done verification" [].
Definition E_vf := Err "notation.VerificationFailedError" "" [].
Definition EXC_MSG := "signature evaluation stopped. The configured limit of %d signatures to verify per artifact exceeded".
Definition E_exc := Err "notation.VerificationFailedError#errExceededMaxVerificationLimit" EXC_MSG [].
Definition FAILFMT := "failed to verify signature with digest %v, %w".
Definition ZD : Desc := mk_Descriptor "" "" 0 [] [] [] PNil "".
Definition skip_out (lvl : ptr Level) : ptr Outcome := PNew (mk_VerificationOutcome Cert [] PNil lvl [] None).
Definition is_exc_of (e : option err) : bool := err_is e (Some E_exc).

Lemma gen_loop2_ref vo ad r v
      (KR : VOpts -> bool -> list (ptr Outcome) -> list (option err) -> Z -> option err -> option Res)
      (K : VOpts -> bool -> list (ptr Outcome) -> list (option err) -> Z -> option Res) :
  (forall opts succ outs failed n,
     K opts succ outs failed n =
     if (n >=? VerifyOptions_MaxSignatureAttempts vo)%Z then KR opts succ outs failed n (Some E_exc)
     else KR opts succ outs failed n None) ->
  forall page opts succ outs failed n,
  gen_notation_go_Verify_loop2 RT fetch VT Cert vverify K vo r KR v ad page opts succ outs failed n
  = let '(n', opts', failed', succ', outs', e) :=
        ref_page Cert (fetch r) (vverify v) ad (VerifyOptions_MaxSignatureAttempts vo) E_fetch E_exc E_done FAILFMT
                 page (n, opts, failed, succ, outs) in
    KR opts' succ' outs' failed' n' e.
Proof.
  intros HK.
  induction page as [|d rest IH]; intros opts succ outs failed n;
    cbn [gen_notation_go_Verify_loop2 ref_page ref_after]; rewrite ?HK, Z.geb_leb.
  - destruct (_ <=? n)%Z; reflexivity.
  - destruct (_ <=? n)%Z; [reflexivity|].
    destruct (fetch r d) as [[blob sd] fe]. destruct fe as [e|]; cbn [is_none negb]; [reflexivity|].
    fold smt.
    destruct (vverify v ad blob (smt (Descriptor_MediaType sd) opts)) as [oc ve].
    destruct ve as [e|]; cbn [is_none negb]; [|reflexivity].
    destruct (ptr_val oc) as [ov|]; [|reflexivity].
    cbn [set_VerificationOutcome_Error VerificationOutcome_Error]. apply IH.
Qed.

Lemma gen_loop1_ref vo ad r v ferr
      (K : VOpts -> bool -> list (ptr Outcome) -> list (option err) -> Z -> option err -> option Res) :
  forall pages opts succ outs failed n,
  gen_notation_go_Verify_loop1 RT fetch VT Cert vverify K ferr vo (mk_VerificationFailedError EXC_MSG) r v ad
    pages opts succ outs failed n
  = let '(n', opts', failed', succ', outs', e) :=
        ref_pages Cert (fetch r) (vverify v) ad (VerifyOptions_MaxSignatureAttempts vo) E_fetch E_exc E_done FAILFMT
                  pages ferr (n, opts, failed, succ, outs) in
    K opts' succ' outs' failed' n' e.
Proof.
  induction pages as [|p ps IH]; intros opts succ outs failed n;
    cbn [gen_notation_go_Verify_loop1 ref_pages]; [reflexivity|].
  match goal with
  | |- gen_notation_go_Verify_loop2 _ _ _ _ _ ?K2 _ _ ?KR _ _ _ _ _ _ _ _ = _ =>
      rewrite (gen_loop2_ref vo ad r v KR K2) by (intros; reflexivity)
  end.
  destruct (ref_page _ _ _ _ _ _ _ _ _ _ _) as [[[[[n' opts'] failed'] succ'] outs'] e].
  destruct e as [x|]; [reflexivity|]. apply IH.
Qed.

(* the arguments of the reference semantics, read off the arguments of the generated function *)
Definition has_skipper_of (v : VT) : bool := is_some (as_skipper v).
Definition skipv_of (v : VT) : VOpts -> bool * ptr Level * option err :=
  match as_skipper v with Some sk => skipv sk | None => fun _ => (false, PNil, None) end.
Definition ad_of (r : RT) (vo : notation_go_VerifyOptions) : Desc := ad (resolve r) parse_ref vo.

(* non-nil verifier v and repository r *)
Definition ref_of (v : VT) (r : RT) (vo : notation_go_VerifyOptions) : Res :=
  ref_Verify Cert (resolve r) (fetch r) parse_ref as_digest (vverify v) (skipv_of v)
    E_nilv E_nilr E_badmax E_noref E_mismatch E_nosig E_fetch E_exc E_done E_vf E_wrap FAILFMT ZD skip_out is_exc_of
    false false (has_skipper_of v) vo
    (fst (listsigs r (ad_of r vo))) (snd (listsigs r (ad_of r vo))).

Ltac listing_tac :=
  match goal with |- context [listsigs ?r ?d] => destruct (listsigs r d) as [? ?] end;
  rewrite gen_loop1_ref; cbn [fst snd];
  unfold ref_tail, g0, o0, aref, maxv, E_vf, is_exc_of, E_exc, EXC_MSG, E_done, notation_go_errDoneVerification;
  cbn [VerificationFailedError_Msg];
  match goal with |- context [ref_pages ?a ?b ?c ?d ?e ?f ?g ?h ?i ?j ?k ?l] =>
    let e0 := fresh "e0" in let sb := fresh "sb" in
    destruct (ref_pages a b c d e f g h i j k l) as [[[[[? ?] ?] sb] ?] e0]; destruct e0, sb; cbn [is_some is_none negb andb];
    repeat match goal with |- context [if ?c then _ else _] => destruct c end; reflexivity end.

Ltac rest_tac r vo :=
  unfold ref_rest, ref_listing, ad_of, ad, rr, rf, aref;
  let ref := fresh "ref" in let pe := fresh "pe" in let adesc := fresh "adesc" in let re := fresh "re" in
  destruct (parse_ref (VerifyOptions_ArtifactReference vo)) as [ref pe]; cbn [fst snd];
  destruct pe; cbn [is_none negb]; [reflexivity|];
  destruct (String.eqb (Reference_Reference ref) ""); [reflexivity|];
  destruct (resolve r (Reference_Reference ref)) as [adesc re]; cbn [fst snd];
  destruct re; cbn [is_none negb]; [reflexivity|];
  unfold gen_go_digest_Digest_String;
  destruct (as_digest ref); cbn [is_none is_some negb];
  [listing_tac|];
  destruct (String.eqb (Reference_Reference ref) (Descriptor_Digest adesc)); cbn [negb];
  [listing_tac|reflexivity].

Notation GEN := (gen_notation_go_Verify RT resolve listsigs fetch VT Cert vverify ST skipv parse_ref as_digest as_skipper).

Theorem gen_Verify_nil_verifier verifier repo vo :
  ptr_val verifier = None -> GEN verifier repo vo = Some (ZD, [], Some E_nilv).
Proof. intros H. unfold gen_notation_go_Verify. rewrite H. reflexivity. Qed.

Theorem gen_Verify_nil_repo verifier repo vo v :
  ptr_val verifier = Some v -> ptr_val repo = None -> GEN verifier repo vo = Some (ZD, [], Some E_nilr).
Proof. intros H1 H2. unfold gen_notation_go_Verify. rewrite H1, H2. reflexivity. Qed.

Theorem gen_Verify_ref verifier repo vo v r :
  ptr_val verifier = Some v -> ptr_val repo = Some r ->
  GEN verifier repo vo = Some (ref_of v r vo).
Proof.
  intros Hv Hr.
  unfold gen_notation_go_Verify, ref_of, ref_Verify, has_skipper_of, skipv_of, iface_assert.
  rewrite Hv, Hr.
  fold (maxv vo). destruct (maxv vo <=? 0)%Z; [reflexivity|].
  destruct (as_skipper v) as [sk|]; cbn [is_some ptr_val].
  - unfold o0, aref. destruct (skipv sk _) as [[skip lvl] se]. cbn [fst snd].
    destruct se; cbn [is_none negb]; [reflexivity|]. destruct skip; [reflexivity|].
    rest_tac r vo.
  - rest_tac r vo.
Qed.

(* ---------- the generated notation.Verify and the C10 model ---------- *)
Definition pages_of (r : RT) (vo : notation_go_VerifyOptions) : list (list Desc) := fst (listsigs r (ad_of r vo)).
Definition lerr_of (r : RT) (vo : notation_go_VerifyOptions) : option err := snd (listsigs r (ad_of r vo)).

(* the model's input: limit, SkipVerify's answer, reference class (oras + the digest pin against what
   Resolve answers), the listing as paged by ListSignatures with every listed descriptor classified
   by what FetchSignatureBlob and Verifier.Verify answer for it, ListSignatures' own error *)
Definition abs_of (v : VT) (r : RT) (vo : notation_go_VerifyOptions) : input :=
  abs Cert (resolve r) (fetch r) parse_ref as_digest (vverify v) (skipv_of v) false false (has_skipper_of v) vo
      (pages_of r vo) (lerr_of r vo).

(* the Go values an observation of the model stands for (the call log is not represented) *)
Definition conc_of (v : VT) (r : RT) (vo : notation_go_VerifyOptions) (o : obs) : Res :=
  conc Cert (resolve r) (fetch r) parse_ref (vverify v) (skipv_of v)
       E_nilv E_nilr E_badmax E_noref E_mismatch E_nosig E_fetch E_exc E_vf E_wrap FAILFMT ZD skip_out vo
       (pages_of r vo) (lerr_of r vo) o.

(* what a listed descriptor is for the loop, and the listing *)
Definition kind_gen (v : VT) (r : RT) (vo : notation_go_VerifyOptions) : Desc -> sigk :=
  kind_of Cert (resolve r) (fetch r) parse_ref (vverify v) vo.
Definition listing_gen (r : RT) (vo : notation_go_VerifyOptions) : list Desc := List.concat (pages_of r vo).
(* the outcome Verifier.Verify returns for the k-th listed descriptor *)
Definition outcome_gen (v : VT) (r : RT) (vo : notation_go_VerifyOptions) (k : nat) : ptr Outcome :=
  fst (vc Cert (resolve r) (fetch r) parse_ref (vverify v) vo (dkk ZD (pages_of r vo) k)).

(* the errors of the repository and of the verifier are not the unexported sentinel
   errDoneVerification (errors.Is(err, errDoneVerification), notation.go:586) *)
Definition oracles_not_done (v : VT) (r : RT) (vo : notation_go_VerifyOptions) : Prop :=
  err_is (lerr_of r vo) (Some E_done) = false /\
  forall a b c, err_is (snd (vverify v a b c)) (Some E_done) = false.

Theorem gen_Verify_model verifier repo vo v r :
  ptr_val verifier = Some v -> ptr_val repo = Some r -> oracles_not_done v r vo ->
  GEN verifier repo vo = Some (conc_of v r vo (model (abs_of v r vo))).
Proof.
  intros Hv Hr (Hl & Hvv). rewrite (gen_Verify_ref verifier repo vo v r Hv Hr). f_equal.
  unfold ref_of, conc_of, abs_of, pages_of, lerr_of.
  apply ref_Verify_model; try reflexivity; assumption.
Qed.

(* nil arguments: the model's observation for ANY input with that flag *)
Lemma conc_nil_verifier v r vo i : i_nilv i = true -> conc_of v r vo (model i) = (ZD, [], Some E_nilv).
Proof. intros H. unfold model. rewrite H. reflexivity. Qed.

Lemma conc_nil_repo v r vo i : i_nilv i = false -> i_nilr i = true -> conc_of v r vo (model i) = (ZD, [], Some E_nilr).
Proof. intros H1 H2. unfold model. rewrite H1, H2. reflexivity. Qed.

(* ---- the property, on the generated function ---- *)

(* nil error <-> the verifier said skip, or the listing is reached and one of the first N listed
   signatures verifies, every one before it fetched and failing with an outcome *)
Theorem gen_Verify_ok_iff verifier repo vo v r :
  ptr_val verifier = Some v -> ptr_val repo = Some r -> oracles_not_done v r vo ->
  (exists d outs, GEN verifier repo vo = Some (d, outs, None)) <->
  (0 < VerifyOptions_MaxSignatureAttempts vo)%Z /\
  (abs_skip (skipv_of v) (has_skipper_of v) vo = SkipYes \/
   (reaches_listing (abs_of v r vo) /\
    exists k, first_good (map (kind_gen v r vo) (listing_gen r vo)) (VerifyOptions_MaxSignatureAttempts vo) k)).
Proof.
  intros Hv Hr (Hl & Hvv). rewrite (gen_Verify_ref verifier repo vo v r Hv Hr).
  pose proof (ref_Verify_ok_iff Cert (resolve r) (fetch r) parse_ref as_digest (vverify v) (skipv_of v)
                E_nilv E_nilr E_badmax E_noref E_mismatch E_nosig E_fetch E_exc E_done E_vf E_wrap FAILFMT ZD skip_out
                is_exc_of false false (has_skipper_of v) vo (pages_of r vo) (lerr_of r vo)
                eq_refl eq_refl eq_refl Hl Hvv) as H.
  unfold kind_gen, listing_gen, abs_of. fold (L (pages_of r vo)).
  unfold maxv in H. unfold ref_of. unfold pages_of, lerr_of in *.
  match type of H with snd ?R = None <-> _ => set (RR := R) in * end.
  split.
  - intros (d & outs & E). inversion E as [E']. apply proj1 in H. rewrite E' in H.
    destruct (H eq_refl) as (_ & _ & Hm & Hc). split; [exact Hm|exact Hc].
  - intros (Hm & Hc). destruct RR as [[d outs] e] eqn:E. cbn [snd] in H.
    exists d, outs. f_equal. f_equal. apply H. repeat split; auto.
Qed.

(* ... and then it returns the resolved descriptor and exactly the outcome of that signature *)
Theorem gen_Verify_first_good verifier repo vo v r k :
  ptr_val verifier = Some v -> ptr_val repo = Some r -> oracles_not_done v r vo ->
  reaches_listing (abs_of v r vo) ->
  first_good (map (kind_gen v r vo) (listing_gen r vo)) (VerifyOptions_MaxSignatureAttempts vo) k ->
  GEN verifier repo vo = Some (ad_of r vo, [outcome_gen v r vo k], None).
Proof.
  intros Hv Hr (Hl & Hvv) Hreach Hg. rewrite (gen_Verify_ref verifier repo vo v r Hv Hr). f_equal.
  unfold ref_of.
  apply (ref_Verify_first_good Cert (resolve r) (fetch r) parse_ref as_digest (vverify v) (skipv_of v)
           E_nilv E_nilr E_badmax E_noref E_mismatch E_nosig E_fetch E_exc E_done E_vf E_wrap FAILFMT ZD skip_out
           is_exc_of false false (has_skipper_of v) vo (pages_of r vo) (lerr_of r vo)
           eq_refl eq_refl eq_refl Hl Hvv k Hreach Hg).
Qed.

(* a digest reference whose digest differs from the one the repository resolves never verifies *)
Theorem gen_Verify_pin verifier repo vo v r dg d outs :
  ptr_val verifier = Some v -> ptr_val repo = Some r -> oracles_not_done v r vo ->
  abs_pref parse_ref as_digest vo = PDigest dg -> dg <> Descriptor_Digest (ad_of r vo) ->
  GEN verifier repo vo = Some (d, outs, None) ->
  abs_skip (skipv_of v) (has_skipper_of v) vo = SkipYes.
Proof.
  intros Hv Hr (Hl & Hvv) Hp Hne E. rewrite (gen_Verify_ref verifier repo vo v r Hv Hr) in E.
  inversion E as [E'].
  apply (ref_Verify_pin Cert (resolve r) (fetch r) parse_ref as_digest (vverify v) (skipv_of v)
           E_nilv E_nilr E_badmax E_noref E_mismatch E_nosig E_fetch E_exc E_done E_vf E_wrap FAILFMT ZD skip_out
           is_exc_of false false (has_skipper_of v) vo (pages_of r vo) (lerr_of r vo)
           eq_refl eq_refl eq_refl Hl Hvv dg Hp Hne).
  unfold ref_of, pages_of, lerr_of in E'. unfold pages_of, lerr_of. rewrite E'. reflexivity.
Qed.

(* the generated function never panics (its option is always Some) *)
Theorem gen_Verify_total verifier repo vo : GEN verifier repo vo <> None.
Proof.
  destruct (ptr_val verifier) as [v|] eqn:Hv; [|rewrite gen_Verify_nil_verifier by exact Hv; discriminate].
  destruct (ptr_val repo) as [r|] eqn:Hr; [|rewrite (gen_Verify_nil_repo verifier repo vo v Hv Hr); discriminate].
  rewrite (gen_Verify_ref verifier repo vo v r Hv Hr). discriminate.
Qed.

(* a non-positive limit: the error, whatever the verifier and the repository would answer *)
Theorem gen_Verify_bad_limit verifier repo vo v r :
  ptr_val verifier = Some v -> ptr_val repo = Some r ->
  (VerifyOptions_MaxSignatureAttempts vo <= 0)%Z ->
  GEN verifier repo vo = Some (ZD, [], Some E_badmax).
Proof.
  intros Hv Hr Hm. rewrite (gen_Verify_ref verifier repo vo v r Hv Hr). unfold ref_of, ref_Verify, maxv.
  apply Z.leb_le in Hm. rewrite Hm. reflexivity.
Qed.

(* the verifier says skip: one outcome carrying the level it returned, zero descriptor, and the
   result does not depend on the repository at all (neither Resolve nor ListSignatures nor
   FetchSignatureBlob occurs in it) *)
Theorem gen_Verify_skip verifier repo vo v r :
  ptr_val verifier = Some v -> ptr_val repo = Some r ->
  (0 < VerifyOptions_MaxSignatureAttempts vo)%Z ->
  abs_skip (skipv_of v) (has_skipper_of v) vo = SkipYes ->
  GEN verifier repo vo = Some (ZD, [skip_out (snd (fst (skipv_of v (o0 vo))))], None).
Proof.
  intros Hv Hr Hm Hs. rewrite (gen_Verify_ref verifier repo vo v r Hv Hr). unfold ref_of, ref_Verify, maxv.
  apply Z.leb_gt in Hm. rewrite Hm. unfold abs_skip in Hs.
  destruct (has_skipper_of v); [|discriminate].
  destruct (snd (skipv_of v (o0 vo))); [discriminate|].
  destruct (fst (fst (skipv_of v (o0 vo)))); [reflexivity|discriminate].
Qed.

End Gen.
