(* C01_Model.v — model of the integrity and payload-binding part of signature
   verification. Definitions only. Mirrors, statement by statement,

     verifier/verifier.go    verifier.Verify, verifier.VerifyBlob,
                             the integrity block of processSignature,
                             verifyIntegrity, verifyUserMetadata, the table
                             [algorithms]
     verifier/trustpolicy    GetVerificationLevel (levels from Generated.v)
     internal/envelope       ValidatePayloadContentType
     notation.go             VerifyBlob, getDescriptorFunc,
                             addUserMetadataToDescriptor (reserved prefixes
                             from Generated.v), validateSigMediaType,
                             Verify (the loop over the listed signatures)

   What notation-core-go, encoding/json, go-digest and mime answer about the
   concrete bytes are inputs of the model (record [envfacts], [blobin]); so is
   the value returned by the part of processSignature that follows the
   integrity block ([i_rest]: trust store, identities, expiry, timestamp,
   revocation, plugins — the models of C02..C06). Every theorem quantifies
   over these inputs. *)
From NV Require Import Base Regex Generated.
Open Scope string_scope.
Open Scope list_scope.

(* ---------- constants of the Go sources ---------- *)
(* internal/envelope.MediaTypePayloadV1 *)
Definition media_type_payload_v1 : string := "application/vnd.cncf.notary.payload.v1+json".
(* jws.MediaTypeEnvelope, cose.MediaTypeEnvelope (notation-core-go) *)
Definition media_type_jws : string := "application/jose+json".
Definition media_type_cose : string := "application/cose".

(* ---------- verification levels: trustpolicy.GetVerificationLevel ---------- *)

(* for _, l := range VerificationLevels { if l.Name == name { baseLevel = l } } — no break: last match *)
Fixpoint find_level (name : string) (ls : list (string * list (string * string)))
  : option (list (string * string)) :=
  match ls with
  | [] => None
  | (n, e) :: ls' =>
      match find_level name ls' with
      | Some e' => Some e'
      | None => if String.eqb n name then Some e else None
      end
  end.

(* one override entry; None = GetVerificationLevel returns an error *)
Definition apply_override (enf : amap) (kv : string * string) : option amap :=
  let '(k, v) := kv in
  if negb (mem_str k gen_validation_types) then None
  else if negb (mem_str v gen_validation_actions) then None
  else if String.eqb k "integrity" then None
  else if negb (String.eqb k "revocation") && String.eqb v "skip" then None
  else Some (set_key k v enf).

Fixpoint apply_overrides (enf : amap) (ov : amap) : option amap :=
  match ov with
  | [] => Some enf
  | kv :: ov' =>
      match apply_override enf kv with
      | None => None
      | Some enf' => apply_overrides enf' ov'
      end
  end.

(* (Name, Enforcement) of the level of a policy statement; None = the statement
   is invalid (the verifier cannot be constructed: Validate calls this) *)
Definition get_level (name : string) (ov : amap) : option (string * amap) :=
  if String.eqb name "" then None else
  match find_level name gen_levels with
  | None => None
  | Some base =>
      match ov with
      | [] => Some (name, base)
      | _ =>
          if String.eqb name "skip" then None
          else match apply_overrides base ov with
               | None => None
               | Some enf => Some ("custom", enf)
               end
      end
  end.

(* map equality as reflect.DeepEqual sees it (same keys, same values) *)
Definition amap_sub (a b : amap) : bool :=
  forallb (fun kv => opt_eqb String.eqb (lookup (fst kv) b) (lookup (fst kv) a)) a.
Definition amap_eqb (a b : amap) : bool := amap_sub a b && amap_sub b a.

(* reflect.DeepEqual(verificationLevel, trustpolicy.LevelSkip) *)
Definition is_skip (l : string * amap) : bool :=
  match find_level "skip" gen_levels with
  | Some sk => String.eqb (fst l) "skip" && amap_eqb (snd l) sk
  | None => false
  end.

(* ---------- data ---------- *)

(* an ocispec.Descriptor restricted to the fields the code reads *)
Record target := mk_t { t_mt : string; t_dg : string; t_sz : Z; t_ann : amap }.

Definition zero_target : target := mk_t "" "" 0 [].

(* result of signature.Envelope.Verify() *)
Inductive verr :=
| VOk
| VSig      (* SignatureEnvelopeNotFoundError, InvalidSignatureError, SignatureIntegrityError *)
| VOther.   (* any other error *)

(* SignerInfo.SignatureAlgorithm.Hash() *)
Inductive halg := H256 | H384 | H512 | HNone.
(* digest.Algorithm *)
Inductive dalg := D256 | D384 | D512.

(* var algorithms = map[crypto.Hash]digest.Algorithm{...} *)
Definition alg_of (h : halg) : option dalg :=
  match h with H256 => Some D256 | H384 => Some D384 | H512 => Some D512 | HNone => None end.

(* what notation-core-go and encoding/json say about the envelope bytes *)
Record envfacts := mk_e {
  e_parse : bool;               (* signature.ParseEnvelope(mediaType, bytes) succeeds *)
  e_verify : verr;              (* Verify(): signature over payload + signed attributes under the leaf key *)
  e_ctype : string;             (* Payload.ContentType *)
  e_decode : option target;     (* json.Unmarshal(Payload.Content, &envelope.Payload{}): its TargetArtifact *)
  e_hash : halg }.

(* a notation.BlobDescriptorGenerator, tabulated *)
Record gen := mk_g { g256 : option target; g384 : option target; g512 : option target }.
Definition run_gen (g : gen) (a : dalg) : option target :=
  match a with D256 => g256 g | D384 => g384 g | D512 => g512 g end.

(* the arguments of notation.VerifyBlob that concern the blob *)
Record blobin := mk_b {
  b_sig_empty : bool;           (* len(signature) == 0 *)
  b_mt : string;                (* ContentMediaType *)
  b_mt_valid : bool;            (* mime.ParseMediaType(b_mt) succeeds *)
  b_sigmt : string;             (* SignatureMediaType *)
  b_read_ok : bool;             (* reading the blob succeeds *)
  b_size : Z;                   (* bytes read *)
  b_d256 : string; b_d384 : string; b_d512 : string }.   (* digest of the blob under each algorithm *)

Definition digest_of (b : blobin) (a : dalg) : string :=
  match a with D256 => b_d256 b | D384 => b_d384 b | D512 => b_d512 b end.

Inductive call :=
| COCI (d : target)      (* verifier.Verify(desc) *)
| CBlob (g : gen)        (* verifier.VerifyBlob(descGenFunc) *)
| CTop (b : blobin).     (* notation.VerifyBlob(reader, ...) on the same verifier *)

Record input := mk_in {
  i_level : string;             (* signatureVerification.level of the applicable statement *)
  i_override : amap;            (* signatureVerification.override *)
  i_env : envfacts;
  i_rest : bool;                (* the part of processSignature after the integrity block returns nil *)
  i_rest_touch : bool;          (* ... and consults the trust store, a revocation validator or the plugin manager *)
  i_md : amap;                  (* UserMetadata required by the caller *)
  i_call : call }.

Inductive ierr := IParse | ISig | IInconclusive | ICType.

Inductive err :=
| ENone
| EPolicy                (* the verifier cannot be constructed *)
| EArg                   (* argument validation of notation.VerifyBlob *)
| EIntegrity (k : ierr)  (* the Error of the integrity result *)
| ERest                  (* an error of the rest of processSignature *)
| EJson                  (* payload does not unmarshal *)
| EHash                  (* unsupported hashing algorithm *)
| EDescGen               (* descriptor generator failed *)
| EMismatch              (* descriptor / blob mismatch *)
| EMetadata.             (* ErrorUserMetadataVerificationFailed *)

Record obs := mk_o {
  o_err : err;                  (* class of the returned error *)
  o_out : option (err * N);     (* returned outcome: class of its Error; EnvelopeContent 0 = nil,
                                   1 = present and its Payload is the envelope's signed payload, 2 = other *)
  o_iact : string;              (* Action of the integrity result of the outcome ("" if there is none) *)
  o_desc : option target;       (* descriptor returned by notation.VerifyBlob with a nil error *)
  o_touched : bool }.           (* trust store, revocation validator or plugin manager were consulted *)

(* ---------- verifyIntegrity ---------- *)
Definition verify_integrity (e : envfacts) : option ierr :=
  if negb (e_parse e) then Some IParse else
  match e_verify e with
  | VSig => Some ISig
  | VOther => Some IInconclusive
  | VOk =>
      (* envelope.ValidatePayloadContentType *)
      if String.eqb (e_ctype e) media_type_payload_v1 then None else Some ICType
  end.

(* ---------- verifyUserMetadata ---------- *)
Definition md_pair_ok (ann : amap) (kv : string * string) : bool :=
  match lookup (fst kv) ann with
  | Some got => String.eqb got (snd kv)
  | None => false
  end.
Definition md_ok (t : target) (md : amap) : bool := forallb (md_pair_ok (t_ann t)) md.

(* if len(opts.UserMetadata) > 0 { if err := verifyUserMetadata(..); err != nil { outcome.Error = err } } *)
Definition check_md (t : target) (md : amap) (e : err) : err :=
  match md with
  | [] => e
  | _ => if md_ok t md then e else EMetadata
  end.

(* content.Equal *)
Definition desc_equal (a b : target) : bool :=
  (t_sz a =? t_sz b)%Z && String.eqb (t_dg a) (t_dg b) && String.eqb (t_mt a) (t_mt b).

(* desc.Digest != p.Digest || desc.Size != p.Size || (desc.MediaType != "" && desc.MediaType != p.MediaType) *)
Definition blob_mismatch (d p : target) : bool :=
  negb (String.eqb (t_dg d) (t_dg p)) || negb (t_sz d =? t_sz p)%Z
  || (negb (String.eqb (t_mt d) "") && negb (String.eqb (t_mt d) (t_mt p))).

(* ---------- common prefix of Verify and VerifyBlob ----------
   skip test, processSignature (integrity block + abstracted rest), json.Unmarshal.
   inl = the function returns here; inr = (integrity action, decoded target). *)
Definition prefix (l : string * amap) (i : input) : obs + (string * target) :=
  if is_skip l then inl (mk_o ENone (Some (ENone, 0%N)) "" None false) else
  let iact := lookup_default "integrity" (snd l) in
  match verify_integrity (i_env i) with
  | Some k =>
      (* if integrityResult.Error != nil { return integrityResult.Error } — whatever the action *)
      inl (mk_o (EIntegrity k) (Some (EIntegrity k, 0%N)) iact None false)
  | None =>
      if negb (i_rest i) then inl (mk_o ERest (Some (ERest, 1%N)) iact None (i_rest_touch i)) else
      match e_decode (i_env i) with
      | None => inl (mk_o EJson (Some (EJson, 1%N)) iact None (i_rest_touch i))
      | Some t => inr (iact, t)
      end
  end.

Definition finish (i : input) (iact : string) (e : err) : obs :=
  mk_o e (Some (e, 1%N)) iact None (i_rest_touch i).

(* verifier.Verify *)
Definition verify_oci (l : string * amap) (i : input) (d : target) : obs :=
  match prefix l i with
  | inl o => o
  | inr (iact, t) =>
      let e1 := if desc_equal t d then ENone else EMismatch in
      finish i iact (check_md t (i_md i) e1)
  end.

(* verifier.VerifyBlob *)
Definition verify_blob (l : string * amap) (i : input) (g : dalg -> option target) : obs :=
  match prefix l i with
  | inl o => o
  | inr (iact, t) =>
      match alg_of (e_hash (i_env i)) with
      | None => finish i iact EHash
      | Some a =>
          match g a with
          | None => finish i iact EDescGen
          | Some d =>
              let e1 := if blob_mismatch d t then EMismatch else ENone in
              finish i iact (check_md t (i_md i) e1)
          end
      end
  end.

(* ---------- notation.VerifyBlob ---------- *)
Definition has_reserved_prefix (k : string) : bool :=
  existsb (fun p => has_prefix p k) gen_reserved_annotation_prefixes.

(* addUserMetadataToDescriptor on a descriptor without annotations: the loop
   fails on a key with a reserved prefix (keys of a Go map are distinct, so
   "already present" cannot happen) *)
Fixpoint add_user_metadata (ann : amap) (md : amap) : option amap :=
  match md with
  | [] => Some ann
  | (k, v) :: md' =>
      if has_reserved_prefix k then None
      else match lookup k ann with
           | Some _ => None
           | None => add_user_metadata (set_key k v ann) md'
           end
  end.

(* getDescriptorFunc *)
Definition top_gen (b : blobin) (md : amap) (a : dalg) : option target :=
  if negb (b_read_ok b) then None else
  match add_user_metadata [] md with
  | None => None
  | Some ann => Some (mk_t (b_mt b) (digest_of b a) (b_size b) ann)
  end.

Definition notation_verify_blob (l : string * amap) (i : input) (b : blobin) : obs :=
  let argerr := mk_o EArg None "" None false in
  if b_sig_empty b then argerr
  else if negb (String.eqb (b_mt b) "") && negb (b_mt_valid b) then argerr
  else if negb (String.eqb (b_sigmt b) media_type_jws || String.eqb (b_sigmt b) media_type_cose) then argerr
  else
    let vo := verify_blob l i (top_gen b (i_md i)) in
    match o_err vo with
    | ENone =>
        match o_out vo with
        | Some (_, 0%N) => mk_o ENone (o_out vo) (o_iact vo) (Some zero_target) (o_touched vo)
        | _ =>
            (* the payload is unmarshalled a second time; same bytes, same result *)
            match e_decode (i_env i) with
            | None => mk_o EJson None "" None (o_touched vo)
            | Some t => mk_o ENone (o_out vo) (o_iact vo) (Some t) (o_touched vo)
            end
        end
    | e => mk_o e None "" None (o_touched vo)
    end.

Definition model (i : input) : obs :=
  match get_level (i_level i) (i_override i) with
  | None => mk_o EPolicy None "" None false
  | Some l =>
      match i_call i with
      | COCI d => verify_oci l i d
      | CBlob g => verify_blob l i (run_gen g)
      | CTop b => notation_verify_blob l i b
      end
  end.

(* ---------- boolean equalities ---------- *)
Definition ierr_eqb (a b : ierr) : bool :=
  match a, b with
  | IParse, IParse | ISig, ISig | IInconclusive, IInconclusive | ICType, ICType => true
  | _, _ => false
  end.

Definition err_eqb (a b : err) : bool :=
  match a, b with
  | ENone, ENone | EPolicy, EPolicy | EArg, EArg | ERest, ERest | EJson, EJson
  | EHash, EHash | EDescGen, EDescGen | EMismatch, EMismatch | EMetadata, EMetadata => true
  | EIntegrity x, EIntegrity y => ierr_eqb x y
  | _, _ => false
  end.

Definition pair_eqb (a b : string * string) : bool :=
  String.eqb (fst a) (fst b) && String.eqb (snd a) (snd b).

Definition target_eqb (a b : target) : bool :=
  String.eqb (t_mt a) (t_mt b) && String.eqb (t_dg a) (t_dg b) && (t_sz a =? t_sz b)%Z
  && list_eqb pair_eqb (t_ann a) (t_ann b).

Definition out_eqb (a b : err * N) : bool := err_eqb (fst a) (fst b) && (snd a =? snd b)%N.

Definition obs_eqb (a b : obs) : bool :=
  err_eqb (o_err a) (o_err b) && opt_eqb out_eqb (o_out a) (o_out b)
  && String.eqb (o_iact a) (o_iact b) && opt_eqb target_eqb (o_desc a) (o_desc b)
  && Bool.eqb (o_touched a) (o_touched b).

(* ---------- the property oracle, on what the implementation did ----------
   Stated on the inputs and the observation only; it does not call [model]. *)
Definition is_success (o : obs) : bool := err_eqb (o_err o) ENone.

(* the envelope is intact and carries a Notary payload *)
Definition intact (e : envfacts) : bool :=
  e_parse e && match e_verify e with VOk => true | _ => false end
  && String.eqb (e_ctype e) media_type_payload_v1.

(* the signed target [t] is the artifact presented in call [c] *)
Definition bound (c : call) (e : envfacts) (t : target) : bool :=
  match c with
  | COCI d =>
      String.eqb (t_dg t) (t_dg d) && (t_sz t =? t_sz d)%Z && String.eqb (t_mt t) (t_mt d)
  | CBlob g =>
      match alg_of (e_hash e) with
      | None => false
      | Some a =>
          match run_gen g a with
          | None => false
          | Some d => String.eqb (t_dg t) (t_dg d) && (t_sz t =? t_sz d)%Z
                      && (String.eqb (t_mt d) "" || String.eqb (t_mt t) (t_mt d))
          end
      end
  | CTop b =>
      match alg_of (e_hash e) with
      | None => false
      | Some a => b_read_ok b && String.eqb (t_dg t) (digest_of b a) && (t_sz t =? b_size b)%Z
                  && (String.eqb (b_mt b) "" || String.eqb (t_mt t) (b_mt b))
      end
  end.

(* every required pair is in the signed annotations *)
Definition md_present (md : amap) (t : target) : bool :=
  forallb (fun kv => opt_eqb String.eqb (lookup (fst kv) (t_ann t)) (Some (snd kv))) md.

Definition is_top (c : call) : bool := match c with CTop _ => true | _ => false end.

Definition spec_ok (i : input) (o : obs) : bool :=
  match get_level (i_level i) (i_override i) with
  | None => negb (is_success o)            (* an invalid statement verifies nothing *)
  | Some l =>
      if is_skip l then true else
      (* success => intact, bound, metadata present, verified payload exposed *)
      (if is_success o then
         intact (i_env i)
         && match e_decode (i_env i) with
            | None => false
            | Some t =>
                bound (i_call i) (i_env i) t && md_present (i_md i) t
                && (if is_top (i_call i) then opt_eqb target_eqb (o_desc o) (Some t) else true)
            end
         && opt_eqb out_eqb (o_out o) (Some (ENone, 1%N))
       else true)
      (* integrity comes first: nothing is consulted for an envelope that is not intact *)
      && (if intact (i_env i) then true else negb (is_success o) && negb (o_touched o))
      (* the integrity result is always enforced *)
      && match o_out o with
         | Some _ => String.eqb (o_iact o) "enforce"
         | None => true
         end
  end.

(* the input contract: none *)
Definition wf (i : input) : bool := true.

(* ---------- notation.Verify: the signatures a repository lists for an artifact ----------
   notation.go Verify: argument check, SkipVerify, resolution of the reference,
   the bounded, ordered, early-exit loop inside the paging callback of
   repo.ListSignatures — every fetched signature is handed to verifier.Verify
   (above) together with the RESOLVED descriptor and the caller's metadata —
   and the assembly of the result. Inputs of the model: what the repository
   resolves, lists (page by page) and fetches; per listed envelope the same
   facts as above. (Reference syntax, the digest pin and the error of
   ListSignatures itself are the subject of C10: here they are the one input
   [r_resolved].) *)

(* one listed signature *)
Record sigin := mk_s {
  s_fetch : bool;               (* repo.FetchSignatureBlob succeeds *)
  s_env : envfacts;             (* facts of the fetched envelope, under the media type of its blob descriptor *)
  s_rest : bool;                (* as i_rest, for this envelope *)
  s_touch : bool }.             (* as i_rest_touch *)

Record rinput := mk_ri {
  r_level : string;
  r_override : amap;
  r_md : amap;                  (* VerifyOptions.UserMetadata *)
  r_max : Z;                    (* VerifyOptions.MaxSignatureAttempts *)
  r_resolved : option target;   (* the reference parses, names a tag or digest, repo.Resolve succeeds and (digest
                                   reference) returns that digest: the descriptor it returns; None otherwise *)
  r_pages : list (list sigin) }. (* the listing, as paged by repo.ListSignatures *)

Inductive rerr :=
| RNone
| RPolicy                (* the verifier cannot be constructed *)
| RArg                   (* MaxSignatureAttempts <= 0 *)
| RRetrieval             (* ErrorSignatureRetrievalFailed: reference / resolve / fetch / no signature listed *)
| RLimit                 (* ErrorVerificationFailed: the limit of signatures was exceeded *)
| RFailed.               (* errors.Join(ErrorVerificationFailed{}, ...): every processed signature failed *)

Inductive routs :=
| RONil                  (* no outcome *)
| ROSkip                 (* one outcome that carries a level only (no envelope content, no results) *)
| ROSig (k : N)          (* exactly one outcome: the very outcome verifier.Verify returned for its k-th call (0-based) *)
| ROOther.

Record robs := mk_ro {
  ro_err : rerr;
  ro_desc : option target;      (* descriptor returned with a nil error *)
  ro_verdicts : list err;       (* class of the error of every verifier.Verify call made, in call order *)
  ro_outs : routs }.

(* the verifier.Verify call made for listed signature s: resolved descriptor, caller's metadata *)
Definition sig_input (ri : rinput) (d : target) (s : sigin) : input :=
  mk_in (r_level ri) (r_override ri) (s_env s) (s_rest s) (s_touch s) (r_md ri) (COCI d).

(* what the callback returns *)
Inductive cb :=
| CCont                  (* nil *)
| CDone                  (* errDoneVerification *)
| CFetch                 (* ErrorSignatureRetrievalFailed of FetchSignatureBlob *)
| CLimit.                (* errExceededMaxVerificationLimit *)

(* numOfSignatureProcessed = number of verdicts so far (a fetch failure ends the loop) *)
Definition limit_reached (max : Z) (vs : list err) : bool := (max <=? Z.of_nat (List.length vs))%Z.

(* one call of the callback on one page *)
Fixpoint page_loop (ver : sigin -> err) (max : Z) (vs : list err) (page : list sigin) : list err * cb :=
  match page with
  | [] => (vs, if limit_reached max vs then CLimit else CCont)
  | s :: rest =>
      if limit_reached max vs then (vs, CLimit)           (* break, then the test after the loop *)
      else if negb (s_fetch s) then (vs, CFetch)
      else match ver s with
           | ENone => (vs ++ [ENone], CDone)              (* verificationSucceeded; outcomes = [outcome] *)
           | e => page_loop ver max (vs ++ [e]) rest      (* continue *)
           end
  end.

(* repo.ListSignatures: consecutive pages until the callback returns an error *)
Fixpoint pages_loop (ver : sigin -> err) (max : Z) (vs : list err) (pages : list (list sigin)) : list err * cb :=
  match pages with
  | [] => (vs, CCont)
  | p :: ps =>
      match page_loop ver max vs p with
      | (vs', CCont) => pages_loop ver max vs' ps
      | r => r
      end
  end.

Definition notation_verify (ri : rinput) : robs :=
  match get_level (r_level ri) (r_override ri) with
  | None => mk_ro RPolicy None [] RONil
  | Some l =>
      if (r_max ri <=? 0)%Z then mk_ro RArg None [] RONil
      else if is_skip l then mk_ro RNone (Some zero_target) [] ROSkip         (* SkipVerify *)
      else
        match r_resolved ri with
        | None => mk_ro RRetrieval None [] RONil
        | Some d =>
            match pages_loop (fun s => o_err (verify_oci l (sig_input ri d s) d)) (r_max ri) [] (r_pages ri) with
            | (vs, CDone) => mk_ro RNone (Some d) vs (ROSig (N.of_nat (List.length vs) - 1))
            | (vs, CFetch) => mk_ro RRetrieval None vs RONil
            | (vs, CLimit) => mk_ro RLimit None vs RONil
            | (vs, CCont) =>
                match vs with
                | [] => mk_ro RRetrieval None vs RONil          (* no signature is associated *)
                | _ => mk_ro RFailed None vs RONil
                end
            end
        end
  end.

Definition rerr_eqb (a b : rerr) : bool :=
  match a, b with
  | RNone, RNone | RPolicy, RPolicy | RArg, RArg | RRetrieval, RRetrieval | RLimit, RLimit | RFailed, RFailed => true
  | _, _ => false
  end.

Definition routs_eqb (a b : routs) : bool :=
  match a, b with
  | RONil, RONil | ROSkip, ROSkip | ROOther, ROOther => true
  | ROSig x, ROSig y => (x =? y)%N
  | _, _ => false
  end.

Definition robs_eqb (a b : robs) : bool :=
  rerr_eqb (ro_err a) (ro_err b) && opt_eqb target_eqb (ro_desc a) (ro_desc b)
  && list_eqb err_eqb (ro_verdicts a) (ro_verdicts b) && routs_eqb (ro_outs a) (ro_outs b).

(* the listing, flattened *)
Definition all_sigs (ri : rinput) : list sigin := List.concat (r_pages ri).

(* listed signature s is intact and bound to d, with the required metadata *)
Definition sig_facts_ok (md : amap) (d : target) (s : sigin) : bool :=
  s_fetch s && intact (s_env s)
  && match e_decode (s_env s) with
     | None => false
     | Some t => bound (COCI d) (s_env s) t && md_present md t
     end.

(* the property oracle for notation.Verify, on the observation only: a success
   returns the resolved descriptor and exactly the outcome of ONE listed
   signature, inside the limit, that is intact, bound to the resolved
   descriptor and carries the required metadata; nothing is verified after it *)
Definition rspec_ok (ri : rinput) (o : robs) : bool :=
  match get_level (r_level ri) (r_override ri) with
  | None => negb (rerr_eqb (ro_err o) RNone)
  | Some l =>
      if is_skip l then true else
      match ro_err o with
      | RNone =>
          match r_resolved ri, ro_outs o with
          | Some d, ROSig k =>
              opt_eqb target_eqb (ro_desc o) (Some d)
              && (Z.of_N k <? r_max ri)%Z
              && match nth_error (all_sigs ri) (N.to_nat k) with
                 | Some s => sig_facts_ok (r_md ri) d s
                 | None => false
                 end
              && (N.of_nat (List.length (ro_verdicts o)) =? k + 1)%N
          | _, _ => false
          end
      | _ => true
      end
  end.

(* ---------- cases ---------- *)
Inductive case :=
| mk_case (id : N) (i : input) (o : obs)           (* one call of verifier.Verify / VerifyBlob / notation.VerifyBlob *)
| mk_rcase (id : N) (ri : rinput) (o : robs).      (* one call of notation.Verify *)

Definition c_id (c : case) : N := match c with mk_case id _ _ => id | mk_rcase id _ _ => id end.

Definition run (cs : list case) : list (N * N * N) :=
  run_cases c_id
    (fun c => match c with
              | mk_case _ i o => obs_eqb (model i) o
              | mk_rcase _ ri o => robs_eqb (notation_verify ri) o
              end)
    (fun c => match c with
              | mk_case _ i o => negb (wf i) || spec_ok i o
              | mk_rcase _ ri o => rspec_ok ri o
              end)
    (fun _ => 0%N) cs.

(* ---------- propositions used in the statements of the theorems ---------- *)

(* the envelope parses, its signature is valid over payload and signed
   attributes under its leaf key (notation-core-go), and the payload is
   declared a Notary payload *)
Definition Intact (e : envfacts) : Prop :=
  e_parse e = true /\ e_verify e = VOk /\ e_ctype e = media_type_payload_v1.

(* every required pair is an annotation of the signed target *)
Definition MdPresent (md : amap) (t : target) : Prop :=
  forall k v, In (k, v) md -> lookup k (t_ann t) = Some v.

(* the signed target is the artifact presented in the call *)
Definition Bound (c : call) (e : envfacts) (t : target) : Prop :=
  match c with
  | COCI d => t_dg t = t_dg d /\ t_sz t = t_sz d /\ t_mt t = t_mt d
  | CBlob g =>
      exists a d, alg_of (e_hash e) = Some a /\ run_gen g a = Some d /\
                  t_dg t = t_dg d /\ t_sz t = t_sz d /\ (t_mt d <> "" -> t_mt t = t_mt d)
  | CTop b =>
      exists a, alg_of (e_hash e) = Some a /\ b_read_ok b = true /\
                t_dg t = digest_of b a /\ t_sz t = b_size b /\ (b_mt b <> "" -> t_mt t = b_mt b)
  end.

(* a legal statement whose level is not skip *)
Definition NonSkip (lvl : string) (ov : amap) : Prop :=
  exists l, get_level lvl ov = Some l /\ is_skip l = false.

(* the argument checks of notation.VerifyBlob and of its descriptor generator
   (no reserved key among the required metadata) *)
Definition args_ok (c : call) (md : amap) : bool :=
  match c with
  | CTop b =>
      negb (b_sig_empty b)
      && (String.eqb (b_mt b) "" || b_mt_valid b)
      && (String.eqb (b_sigmt b) media_type_jws || String.eqb (b_sigmt b) media_type_cose)
      && match add_user_metadata [] md with Some _ => true | None => false end
  | _ => true
  end.

(* same envelope, artifact and required metadata under another configuration:
   level, override, and whatever trust store, identities, revocation and
   plugins make of the rest of processSignature *)
Definition reconfig (i : input) (lvl : string) (ov : amap) (rest touch : bool) : input :=
  mk_in lvl ov (i_env i) rest touch (i_md i) (i_call i).

(* ---------- notation.Verify ---------- *)

(* listed signature s is intact and signs the descriptor d with the required metadata *)
Definition SigFacts (md : amap) (d : target) (s : sigin) : Prop :=
  Intact (s_env s) /\
  exists t, e_decode (s_env s) = Some t /\
            t_dg t = t_dg d /\ t_sz t = t_sz d /\ t_mt t = t_mt d /\ MdPresent md t.

(* ... and the rest of processSignature passes for it: verifier.Verify accepts it *)
Definition Verifies (md : amap) (d : target) (s : sigin) : Prop :=
  s_rest s = true /\ SigFacts md d s.
