(* C12_GenProofs.v — the GoLite translations of the functions of /repo that C12 depends on
   (theories/C12_Gen.v, regenerated from the Go sources by `vh-gen` on every run,
   docs/GOLITE.md) against the C12 model (C12_Model.v).

   C12 is crash-freedom. A target the translator emits as a pure Gallina function has no
   construct that can panic; a target emitted in the option monad has one ([None] = the
   run-time panic of the Go code), and this file says, for ALL inputs and all answers of
   the oracles, exactly when [None] is reached:

   Part A  media type guards of notation.VerifyBlob / Sign*            (b_stype_bad, b_ctype_bad)
   Part B  isCriticalFailure = the model's [crit]
   Part C  verifyUserMetadata: total, nil iff every required pair is present   (s_meta_ok)
   Part D  checkRevocationResults / revocationFinalResult: behind the shape test of fix d78db00 the
           call is total (since fix a146158 also with nil server results)  (rev_failed)
   Part E  verifyX509TrustedIdentities: certs[0]
   Part F  verifyExpiry: the dereferences of outcome.EnvelopeContent / .VerificationLevel
   Part G  policy selection: artifactReference[:i] never panics; a nil document does (skip_verify_v0)
   Part H  GetVerificationLevel: total, and the level is nil exactly when it fails (SelBadLevel)
   Part I  config.validateKeys: total on a non-nil file, accepts iff names non-empty, distinct,
           default (when set) non-empty and among them
   Part J  crl.checkExpiry
   Part K  getVerificationPlugin: name non-blank iff no error                  (s_pattr)

   props/C12_Generated.v states the theorems and closes each with [exact]. *)
From Coq Require Import List Bool String Ascii NArith ZArith Lia.
From NV Require Import Base C12_Model GoLib C12_Gen.
Import ListNotations.
Local Open Scope string_scope.
Local Open Scope list_scope.

(* ---------- small tools (as in props/C09_Generated.v) ---------- *)
Ltac case_const c x :=
  let E := fresh "E" in
  destruct (String.eqb c x) eqn:E; [apply String.eqb_eq in E; subst x|].

Ltac ground_eqb :=
  repeat match goal with
  | |- context [String.eqb ?a ?b] =>
      let v := eval vm_compute in (String.eqb a b) in
      match v with
      | true => change (String.eqb a b) with true
      | false => change (String.eqb a b) with false
      end
  end; cbn [negb orb andb].

Lemma str_len_zero s : (str_len s =? 0)%Z = String.eqb s "".
Proof. destruct s; reflexivity. Qed.

(* ================================================================== *)
(* Part A — the media type guards                                      *)

(* validateSigMediaType returns nil exactly for the two envelope media types *)
Definition sig_media_ok (s : string) : bool :=
  String.eqb s "application/jose+json" || String.eqb s "application/cose".

Theorem gen_validateSigMediaType_spec s :
  gen_notation_go_validateSigMediaType s = None <-> sig_media_ok s = true.
Proof.
  unfold gen_notation_go_validateSigMediaType, sig_media_ok.
  destruct (String.eqb s "application/jose+json" || String.eqb s "application/cose"); cbn [negb];
    split; intros H; try reflexivity; discriminate.
Qed.

(* the model's input bit b_stype_bad is the negation of that *)
Theorem gen_validateSigMediaType_error s :
  GoLib.is_some (gen_notation_go_validateSigMediaType s) = negb (sig_media_ok s).
Proof.
  unfold gen_notation_go_validateSigMediaType, sig_media_ok.
  destruct (String.eqb s "application/jose+json" || String.eqb s "application/cose"); reflexivity.
Qed.

(* validateContentMediaType: the empty media type is accepted without asking mime.ParseMediaType;
   otherwise the answer is ParseMediaType's (an oracle: any function) *)
Theorem gen_validateContentMediaType_spec parse s :
  gen_notation_go_validateContentMediaType parse s = None
  <-> s = "" \/ snd (parse s) = None.
Proof.
  unfold gen_notation_go_validateContentMediaType. cbv zeta.
  destruct (String.eqb s "") eqn:E; cbn [negb].
  - apply String.eqb_eq in E. split; [intros _; left; exact E|reflexivity].
  - apply String.eqb_neq in E. destruct (parse s) as [[a b] e]. cbn [snd].
    destruct e; cbn [GoLib.is_none negb]; split.
    + discriminate.
    + intros [H|H]; [contradiction|discriminate].
    + intros _. right. reflexivity.
    + reflexivity.
Qed.

(* ================================================================== *)
(* Part B — isCriticalFailure                                          *)

Definition action_of (s : string) : action :=
  if String.eqb s "enforce" then Enforce else if String.eqb s "log" then Log else Skip.

Theorem gen_isCriticalFailure_equiv p :
  gen_verifier_isCriticalFailure p
  = match ptr_val p with
    | Some r => Some (crit (action_of (ValidationResult_Action r)) (GoLib.is_some (ValidationResult_Error r)))
    | None => None
    end.
Proof.
  unfold gen_verifier_isCriticalFailure. destruct (ptr_val p) as [r|]; [|reflexivity].
  f_equal. unfold action_of, crit.
  destruct (String.eqb (ValidationResult_Action r) "enforce") eqn:E.
  - destruct (ValidationResult_Error r); reflexivity.
  - cbn [andb]. destruct (String.eqb (ValidationResult_Action r) "log"); reflexivity.
Qed.

(* ================================================================== *)
(* Part C — verifyUserMetadata                                         *)

Lemma map_get_in {V} k (v : V) m : map_get String.eqb k m = Some v -> In (k, v) m.
Proof.
  induction m as [|[k' v'] m IH]; cbn; [discriminate|].
  destruct (String.eqb k k') eqn:E.
  - apply String.eqb_eq in E. subst. intros H. inversion H. left. reflexivity.
  - intros H. right. apply IH. exact H.
Qed.

Lemma um_loop payload l :
  gen_verifier_verifyUserMetadata_loop1 payload l
  = Some (if forallb (fun kv => match map_get String.eqb (fst kv) (Descriptor_Annotations (Payload_TargetArtifact payload)) with
                                | Some g => String.eqb g (snd kv)
                                | None => false
                                end) l
          then None else Some (Err "notation.UserMetadataVerificationFailedError" "" [])).
Proof.
  induction l as [|[k v] l IH]; [reflexivity|].
  cbn [gen_verifier_verifyUserMetadata_loop1 forallb fst snd]. unfold map_get_ok.
  destruct (map_get String.eqb k (Descriptor_Annotations (Payload_TargetArtifact payload))) as [g|];
    cbn [negb orb andb]; [|reflexivity].
  destruct (String.eqb g v); cbn [negb andb]; [exact IH|reflexivity].
Qed.

(* never a panic on a non-nil payload; nil iff every pair the caller requires is an annotation of the
   signed descriptor (a Go map is an arbitrary association list: its first binding of a key counts) *)
Theorem gen_verifyUserMetadata_spec payload um :
  exists r, gen_verifier_verifyUserMetadata (PNew payload) um = Some r /\
    (r = None <-> forall k v, map_get String.eqb k um = Some v ->
                    map_get String.eqb k (Descriptor_Annotations (Payload_TargetArtifact payload)) = Some v).
Proof.
  unfold gen_verifier_verifyUserMetadata. cbn [ptr_val]. rewrite um_loop.
  eexists. split; [reflexivity|].
  match goal with |- context [forallb ?f ?l] => destruct (forallb f l) eqn:F end.
  - split; [intros _|reflexivity]. intros k v H.
    rewrite forallb_forall in F.
    assert (I : In (k, v) (map_entries String.eqb um)).
    { apply map_get_in. rewrite (map_get_entries String.eqb string_eqb_spec'). exact H. }
    specialize (F _ I). cbn [fst snd] in F.
    destruct (map_get String.eqb k (Descriptor_Annotations (Payload_TargetArtifact payload))) as [g|]; [|discriminate].
    apply String.eqb_eq in F. subst. reflexivity.
  - split; [discriminate|]. intros H. exfalso.
    assert (T : forallb (fun kv => match map_get String.eqb (fst kv) (Descriptor_Annotations (Payload_TargetArtifact payload)) with
                                   | Some g => String.eqb g (snd kv)
                                   | None => false
                                   end) (map_entries String.eqb um) = true).
    { apply forallb_forall. intros [k v] I. cbn [fst snd].
      apply (map_entries_in String.eqb string_eqb_spec') in I. rewrite (H k v I). apply String.eqb_refl. }
    rewrite T in F. discriminate.
Qed.

Theorem gen_verifyUserMetadata_panics_iff p um :
  gen_verifier_verifyUserMetadata p um = None <-> ptr_val p = None.
Proof.
  unfold gen_verifier_verifyUserMetadata. destruct (ptr_val p) as [x|].
  - rewrite um_loop. split; discriminate.
  - split; reflexivity.
Qed.

(* ================================================================== *)
(* Part D — the revocation results: the shape test makes the call total *)

Section Cert.
Variable C : Type.
Variable subj : C -> string.

Notation gen_check := (gen_verifier_checkRevocationResults C).
Notation gen_final := (gen_verifier_revocationFinalResult C subj).
Notation loop1 := (gen_verifier_revocationFinalResult_loop1 C subj).

Definition nonnil_result (p : ptr result_CertRevocationResult) : bool := GoLib.is_some (ptr_val p).

Lemma check_loop l : forall i,
  gen_verifier_checkRevocationResults_loop1 l i = None <-> forallb nonnil_result l = true.
Proof.
  induction l as [|p l IH]; intros i; [split; reflexivity|].
  cbn [gen_verifier_checkRevocationResults_loop1 forallb]. unfold nonnil_result at 1.
  destruct (ptr_val p); cbn [GoLib.is_some andb]; [apply IH|]. split; discriminate.
Qed.

(* checkRevocationResults (fix d78db00) returns nil iff there is exactly one non-nil result per
   certificate of the chain *)
Theorem gen_checkRevocationResults_spec results (chain : list C) :
  gen_check results chain = None
  <-> List.length results = List.length chain /\ forallb nonnil_result results = true.
Proof.
  unfold gen_verifier_checkRevocationResults, list_len.
  destruct (Z.of_nat (List.length results) =? Z.of_nat (List.length chain))%Z eqn:E; cbn [negb].
  - apply Z.eqb_eq in E. rewrite check_loop. split; [intros H; split; [lia|exact H]|intros [_ H]; exact H].
  - apply Z.eqb_neq in E. split; [discriminate|]. intros [H _]. lia.
Qed.

(* the inner loop over the server results only logs, and since fix a146158 it skips a nil entry:
   it never panics and changes nothing *)
Lemma servers_loop K r l :
  gen_verifier_revocationFinalResult_loop2 K r l = K tt.
Proof.
  induction l as [|p l IH]; [reflexivity|].
  cbn [gen_verifier_revocationFinalResult_loop2]. cbv zeta.
  destruct (ptr_val p) as [sv|]; [|exact IH].
  cbn [obind].
  repeat match goal with |- context [if ?b then _ else _] => destruct b end; exact IH.
Qed.

(* index i can be processed: both slices have it and the result is non-nil *)
Definition ok_at (results : list (ptr result_CertRevocationResult)) (chain : list C) (i : Z) : bool :=
  match list_get chain i, list_get results i with
  | Some _, Some p => GoLib.is_some (ptr_val p)
  | _, _ => false
  end.

Lemma final_loop results chain : forall idxs fin nok prob rf rs,
  loop1 results chain idxs fin nok prob rf rs <> None <-> forallb (ok_at results chain) idxs = true.
Proof.
  induction idxs as [|i rest IH]; intros fin nok prob rf rs.
  - cbn [gen_verifier_revocationFinalResult_loop1 forallb].
    split; [reflexivity|intros _].
    repeat match goal with |- context [if ?b then _ else _] => destruct b end; discriminate.
  - cbn [gen_verifier_revocationFinalResult_loop1 forallb]. unfold ok_at at 1.
    destruct (list_get chain i) as [c|]; [|split; [intros H; contradiction H; reflexivity|discriminate]].
    destruct (list_get results i) as [p|]; [|split; [intros H; contradiction H; reflexivity|discriminate]].
    destruct (ptr_val p) as [r|]; cbn [GoLib.is_some andb];
      [|split; [intros H; contradiction H; reflexivity|discriminate]].
    rewrite servers_loop.
    repeat match goal with |- context [if ?b then _ else _] => destruct b end; apply IH.
Qed.

(* revocationFinalResult on ALL inputs: it returns iff every index of certResults can be processed *)
Theorem gen_revocationFinalResult_returns_iff results chain :
  gen_final results chain <> None
  <-> forall k, (k < List.length results)%nat -> ok_at results chain (Z.of_nat k) = true.
Proof.
  unfold gen_verifier_revocationFinalResult. cbv zeta. rewrite final_loop.
  unfold list_len. rewrite zrange_down_zero, forallb_forall. split.
  - intros H k Hk. apply H. rewrite <- in_rev. apply in_map. apply in_seq. lia.
  - intros H z Hz. rewrite <- in_rev in Hz. apply in_map_iff in Hz. destruct Hz as [k [E Hk]].
    subst z. apply H. apply in_seq in Hk. lia.
Qed.

(* Behind the shape test the call never panics, whatever the validator answered (since fix a146158 also
   with nil entries among the server results of a result): no contract on the validator is left. *)
Theorem gen_revocation_total results chain :
  gen_check results chain = None -> gen_final results chain <> None.
Proof.
  intros G. apply gen_checkRevocationResults_spec in G. destruct G as [L N].
  rewrite gen_revocationFinalResult_returns_iff. rewrite forallb_forall in N.
  intros k Hk. unfold ok_at. rewrite !list_get_nth.
  destruct (nth_error chain k) eqn:Ec; [|apply nth_error_None in Ec; lia].
  destruct (nth_error results k) as [p|] eqn:Er; [|apply nth_error_None in Er; lia].
  apply nth_error_In in Er. exact (N p Er).
Qed.

(* without the shape test (before fix d78db00) fewer results than certificates is fine, more results or a
   nil result panic *)
Theorem gen_revocation_unguarded_panics results chain :
  (List.length chain < List.length results)%nat \/ forallb nonnil_result results = false ->
  gen_final results chain = None.
Proof.
  intros H. destruct (gen_final results chain) eqn:E; [|reflexivity]. exfalso.
  assert (R : gen_final results chain <> None) by (rewrite E; discriminate).
  rewrite gen_revocationFinalResult_returns_iff in R. destruct H as [H|H].
  - specialize (R (List.length chain) H). unfold ok_at in R. rewrite list_get_nth in R.
    destruct (nth_error chain (List.length chain)) eqn:X; [|discriminate].
    assert (Y : nth_error chain (List.length chain) <> None) by (rewrite X; discriminate).
    apply nth_error_Some in Y. lia.
  - assert (X : exists q, In q results /\ nonnil_result q = false).
    { clear -H. induction results as [|q l IH]; [discriminate|]. cbn [forallb] in H.
      destruct (nonnil_result q) eqn:N.
      - destruct (IH H) as [q' [I Q]]. exists q'. split; [right; exact I|exact Q].
      - exists q. split; [left; reflexivity|exact N]. }
    destruct X as [q [I N]]. destruct (In_nth_error _ _ I) as [k Hk].
    assert (Hl : (k < List.length results)%nat) by (apply nth_error_Some; rewrite Hk; discriminate).
    specialize (R k Hl). unfold ok_at in R. rewrite !list_get_nth, Hk in R. unfold nonnil_result in N.
    destruct (nth_error chain k); [|discriminate]. rewrite R in N. discriminate.
Qed.
End Cert.

(* the input on which the code panicked before fix a146158 (found because the translation of the loop was
   None there): one certificate, one result that is fine, with a nil entry among its server results *)
Definition nil_server_results : list (ptr result_CertRevocationResult) :=
  [PNew (mk_CertRevocationResult 1 [PNil] 0)].

Theorem gen_revocation_nil_server_ok (C : Type) (subj : C -> string) (c : C) :
  gen_verifier_checkRevocationResults C nil_server_results [c] = None
  /\ gen_verifier_revocationFinalResult C subj nil_server_results [c] = Some (1%Z, "").
Proof. split; reflexivity. Qed.

(* ================================================================== *)
(* Part E — verifyX509TrustedIdentities: certs[0]                       *)

Section Ident.
Variable C : Type.
Variable subj : C -> string.
Variable parse : string -> list (string * string) * option err.

Notation gen_ident := (gen_verifier_verifyX509TrustedIdentities C subj parse).

Lemma ident_loop2 K dn l :
  K tt <> None -> gen_verifier_verifyX509TrustedIdentities_loop2 K dn l <> None.
Proof.
  intros HK. induction l as [|x l IH]; [exact HK|].
  cbn [gen_verifier_verifyX509TrustedIdentities_loop2].
  destruct (gen_pkix_IsSubsetDN x dn); [discriminate|exact IH].
Qed.

Lemma ident_loop1 (certs : list C) : certs <> [] -> forall ids acc,
  gen_verifier_verifyX509TrustedIdentities_loop1 C subj parse certs ids acc <> None.
Proof.
  intros NE. induction ids as [|id ids IH]; intros acc.
  - cbn [gen_verifier_verifyX509TrustedIdentities_loop1].
    destruct (list_len acc =? 0)%Z; [discriminate|].
    destruct certs as [|c certs]; [contradiction NE; reflexivity|].
    change (list_get (c :: certs) 0) with (Some c). cbv iota beta.
    destruct (parse (subj c)) as [dn e].
    destruct (negb (GoLib.is_none e)); [discriminate|].
    apply ident_loop2. discriminate.
  - cbn [gen_verifier_verifyX509TrustedIdentities_loop1].
    destruct (str_cut ":" id) as [[pre val] found].
    destruct (negb found); [discriminate|]. cbv zeta beta.
    destruct (String.eqb pre "x509.subject"); [|apply IH].
    destruct (String.eqb val ""); [discriminate|].
    destruct (parse val) as [dn e].
    destruct (negb (GoLib.is_none e)); [discriminate|apply IH].
Qed.

(* with at least one certificate in the chain (what notation-core-go hands over for a verified
   envelope) the function returns for every policy, every identity list, every answer of the DN parser *)
Theorem gen_verifyX509TrustedIdentities_total pol ids (certs : list C) :
  certs <> [] -> gen_ident pol ids certs <> None.
Proof.
  intros NE. unfold gen_verifier_verifyX509TrustedIdentities.
  destruct (gen_slices_Contains_string ids "*"); [discriminate|]. apply ident_loop1. exact NE.
Qed.

(* and the index is not guarded by the function itself: on an empty chain one well-formed
   x509.subject identity reaches certs[0] *)
Theorem gen_verifyX509TrustedIdentities_empty_chain_panics pol v dn :
  v <> "" -> str_cut ":" (String.append "x509.subject:" v) = ("x509.subject", v, true) -> parse v = (dn, None) ->
  gen_ident pol [String.append "x509.subject:" v] [] = None.
Proof.
  intros NV CUT P. unfold gen_verifier_verifyX509TrustedIdentities.
  assert (W : gen_slices_Contains_string [String.append "x509.subject:" v] "*" = false).
  { unfold gen_slices_Contains_string. cbn [gen_slices_Contains_string_loop1].
    destruct (String.eqb "*" (String.append "x509.subject:" v)) eqn:E; [|reflexivity].
    apply String.eqb_eq in E. discriminate E. }
  rewrite W. cbn [gen_verifier_verifyX509TrustedIdentities_loop1]. rewrite CUT. cbn [negb].
  cbv zeta beta. rewrite String.eqb_refl.
  destruct (String.eqb v "") eqn:E; [apply String.eqb_eq in E; contradiction|].
  rewrite P. cbn [GoLib.is_none negb]. reflexivity.
Qed.
End Ident.

(* ================================================================== *)
(* Part F — verifyExpiry: the unguarded dereferences of the outcome       *)

Theorem gen_verifyExpiry_panics_iff (C : Type) (now : Z) (outcome : ptr (notation_go_VerificationOutcome C)) :
  gen_verifier_verifyExpiry C now outcome = None
  <-> match ptr_val outcome with
      | None => True
      | Some o => ptr_val (VerificationOutcome_EnvelopeContent C o) = None
                  \/ ptr_val (VerificationOutcome_VerificationLevel C o) = None
      end.
Proof.
  unfold gen_verifier_verifyExpiry. destruct (ptr_val outcome) as [o|]; [|split; [intros _; exact I|reflexivity]].
  destruct (ptr_val (VerificationOutcome_EnvelopeContent C o)) as [env|].
  - cbv zeta.
    destruct (ptr_val (VerificationOutcome_VerificationLevel C o)) as [l|].
    + split; [|intros [H|H]; discriminate].
      repeat match goal with |- context [if ?b then _ else _] => destruct b end; discriminate.
    + split; [intros _; right; reflexivity|intros _].
      repeat match goal with |- context [if ?b then _ else _] => destruct b end; reflexivity.
  - split; [intros _; left; reflexivity|reflexivity].
Qed.

(* ================================================================== *)
(* Part G — policy selection                                            *)

(* strings.LastIndex answers -1 or an index within the string: artifactReference[:i] is in range *)
Lemma last_index_from_bounds sub s : forall i acc,
  let r := str_last_index_from sub s i acc in
  r = acc \/ (i <= r <= i + str_len s)%Z.
Proof.
  induction s as [|a s IH]; intros i acc; cbn [str_last_index_from]; cbv zeta.
  - destruct (has_prefix sub ""); [right|left; reflexivity]. unfold str_len. cbn. lia.
  - specialize (IH (i + 1)%Z (if has_prefix sub (String a s) then i else acc)). cbv zeta in IH.
    unfold str_len in *. cbn [String.length].
    destruct IH as [IH|IH].
    + rewrite IH. destruct (has_prefix sub (String a s)); [right; lia|left; reflexivity].
    + right. lia.
Qed.

Lemma slice_prefix_some s i : (0 <= i <= str_len s)%Z -> str_slice s 0 i <> None.
Proof.
  intros H. unfold str_slice.
  replace ((0 <=? 0)%Z && (0 <=? i)%Z && (i <=? str_len s)%Z) with true; [discriminate|].
  symmetry. rewrite !andb_true_iff. repeat split; apply Z.leb_le; lia.
Qed.

(* getArtifactPathFromReference never panics *)
Theorem gen_getArtifactPathFromReference_total ref :
  gen_trustpolicy_getArtifactPathFromReference ref <> None.
Proof.
  unfold gen_trustpolicy_getArtifactPathFromReference. cbv zeta.
  destruct (str_last_index "@" ref <? 0)%Z eqn:E; [discriminate|].
  apply Z.ltb_ge in E.
  pose proof (last_index_from_bounds "@" ref 0 (-1)) as B. cbv zeta in B.
  fold (str_last_index "@" ref) in B.
  destruct (str_slice ref 0 (str_last_index "@" ref)) eqn:S.
  - destruct (negb (GoLib.is_none (gen_trustpolicy_validateRegistryScopeFormat s))); discriminate.
  - exfalso. apply (slice_prefix_some ref (str_last_index "@" ref)); [lia|exact S].
Qed.

Lemma oci_loop1 path l : forall w a,
  gen_trustpolicy_OCIDocument_GetApplicableTrustPolicy_loop1 path l w a <> None.
Proof.
  induction l as [|st l IH]; intros w a.
  - cbn [gen_trustpolicy_OCIDocument_GetApplicableTrustPolicy_loop1].
    destruct (ptr_val a); [discriminate|]. destruct (ptr_val w); discriminate.
  - cbn [gen_trustpolicy_OCIDocument_GetApplicableTrustPolicy_loop1]. cbv zeta beta.
    repeat match goal with |- context [if ?b then _ else _] => destruct b end; apply IH.
Qed.

(* OCIDocument.GetApplicableTrustPolicy: never a panic on a non-nil document, whatever it contains
   (also one that was never validated) and whatever the reference; on a nil document it panics exactly
   when the reference is well-formed, which is what the guard `v.ociTrustPolicyDoc == nil` of
   SkipVerify / Verify keeps away *)
Theorem gen_OCI_GetApplicableTrustPolicy_panics_iff doc ref :
  gen_trustpolicy_OCIDocument_GetApplicableTrustPolicy doc ref = None
  <-> ptr_val doc = None /\ exists path, gen_trustpolicy_getArtifactPathFromReference ref = Some (path, None).
Proof.
  unfold gen_trustpolicy_OCIDocument_GetApplicableTrustPolicy.
  pose proof (gen_getArtifactPathFromReference_total ref) as T.
  destruct (gen_trustpolicy_getArtifactPathFromReference ref) as [[path e]|]; [|contradiction T; reflexivity].
  destruct e as [e|]; cbn [GoLib.is_none negb].
  - split; [discriminate|]. intros [_ [p H]]. discriminate H.
  - cbv zeta. destruct (ptr_val doc) as [d|].
    + split; [intros H; exfalso; exact (oci_loop1 _ _ _ _ H)|intros [H _]; discriminate H].
    + split; [intros _; split; [reflexivity|exists path; reflexivity]|reflexivity].
Qed.

Lemma blob_loop1 name l :
  gen_trustpolicy_BlobDocument_GetApplicableTrustPolicy_loop1 name l <> None.
Proof.
  induction l as [|st l IH]; cbn [gen_trustpolicy_BlobDocument_GetApplicableTrustPolicy_loop1]; [discriminate|].
  cbv zeta. match goal with |- context [if ?b then _ else _] => destruct b end; [discriminate|exact IH].
Qed.

Lemma blob_global_loop1 l :
  gen_trustpolicy_BlobDocument_GetGlobalTrustPolicy_loop1 l <> None.
Proof.
  induction l as [|st l IH]; cbn [gen_trustpolicy_BlobDocument_GetGlobalTrustPolicy_loop1]; [discriminate|].
  cbv zeta. match goal with |- context [if ?b then _ else _] => destruct b end; [discriminate|exact IH].
Qed.

Theorem gen_Blob_GetApplicableTrustPolicy_panics_iff doc name :
  gen_trustpolicy_BlobDocument_GetApplicableTrustPolicy doc name = None
  <-> ptr_val doc = None /\ String.eqb (str_trim_space name) "" = false.
Proof.
  unfold gen_trustpolicy_BlobDocument_GetApplicableTrustPolicy.
  destruct (String.eqb (str_trim_space name) ""); [split; [discriminate|intros [_ H]; discriminate H]|].
  destruct (ptr_val doc).
  - split; [intros H; exfalso; exact (blob_loop1 _ _ H)|intros [H _]; discriminate H].
  - split; [intros _; split; reflexivity|reflexivity].
Qed.

Theorem gen_Blob_GetGlobalTrustPolicy_panics_iff doc :
  gen_trustpolicy_BlobDocument_GetGlobalTrustPolicy doc = None <-> ptr_val doc = None.
Proof.
  unfold gen_trustpolicy_BlobDocument_GetGlobalTrustPolicy.
  destruct (ptr_val doc).
  - split; [intros H; exfalso; exact (blob_global_loop1 _ H)|discriminate].
  - split; reflexivity.
Qed.

(* the place in the model where the same decision is made: a nil OCI document panicked SkipVerify
   before fix 87f7f59 ([skip_verify_v0]) and is an ordinary "is nil" error now *)
Theorem gen_nil_document_guard ref path v :
  gen_trustpolicy_getArtifactPathFromReference ref = Some (path, None) -> v_oci v = None ->
  gen_trustpolicy_OCIDocument_GetApplicableTrustPolicy PNil ref = None
  /\ skip_verify_v0 v = OPanic
  /\ skip_verify v = ORet false None [] (Some XNil).
Proof.
  intros R V. split; [|split].
  - apply gen_OCI_GetApplicableTrustPolicy_panics_iff. split; [reflexivity|exists path; exact R].
  - unfold skip_verify_v0. rewrite V. reflexivity.
  - unfold skip_verify. rewrite V. reflexivity.
Qed.

(* ================================================================== *)
(* Part H — GetVerificationLevel                                        *)

(* a result of GetVerificationLevel is well-shaped: it is not a panic, and the level pointer is nil
   exactly when the error is set *)
Definition level_result_ok (r : option (ptr trustpolicy_VerificationLevel * option err)) : Prop :=
  match r with
  | Some (p, e) => ptr_val p = None <-> e <> None
  | None => False
  end.

Lemma lro_error e : level_result_ok (Some (PNil, Some e)).
Proof. cbn. split; [discriminate|reflexivity]. Qed.

Lemma lvl_loop3 K value l : (forall a, level_result_ok (K a)) -> forall d,
  level_result_ok (gen_trustpolicy_SignatureVerification_GetVerificationLevel_loop3 K value l d).
Proof.
  intros HK. induction l as [|x l IH]; intros d; cbn [gen_trustpolicy_SignatureVerification_GetVerificationLevel_loop3];
    [apply HK|]. cbv zeta. destruct (String.eqb x value); [apply HK|apply IH].
Qed.

Lemma lvl_loop4 K key l : (forall a, level_result_ok (K a)) -> forall d,
  level_result_ok (gen_trustpolicy_SignatureVerification_GetVerificationLevel_loop4 K key l d).
Proof.
  intros HK. induction l as [|x l IH]; intros d; cbn [gen_trustpolicy_SignatureVerification_GetVerificationLevel_loop4];
    [apply HK|]. cbv zeta. destruct (String.eqb x key); [apply HK|apply IH].
Qed.

Lemma lvl_loop5 K l : (forall c, level_result_ok (K c)) -> forall c,
  level_result_ok (gen_trustpolicy_SignatureVerification_GetVerificationLevel_loop5 K l c).
Proof.
  intros HK. induction l as [|x l IH]; intros c; cbn [gen_trustpolicy_SignatureVerification_GetVerificationLevel_loop5];
    [apply HK|]. cbv zeta. apply IH.
Qed.

Lemma lvl_loop2 K l : (forall c, level_result_ok (K c)) -> forall c,
  level_result_ok (gen_trustpolicy_SignatureVerification_GetVerificationLevel_loop2 K l c).
Proof.
  intros HK. induction l as [|x l IH]; intros c; cbn [gen_trustpolicy_SignatureVerification_GetVerificationLevel_loop2];
    [apply HK|]. cbv zeta.
  apply lvl_loop4. intros vt. cbv beta.
  destruct (String.eqb vt ""); [apply lro_error|].
  apply lvl_loop3. intros va. cbv beta.
  repeat match goal with |- context [if ?b then _ else _] => destruct b end; try apply lro_error.
  apply IH.
Qed.

Lemma lvl_loop1 sv l : Forall (fun p => ptr_val p <> None) l -> forall base,
  level_result_ok (gen_trustpolicy_SignatureVerification_GetVerificationLevel_loop1 sv l base).
Proof.
  induction 1 as [|p l Hp Hl IH]; intros base.
  - cbn [gen_trustpolicy_SignatureVerification_GetVerificationLevel_loop1].
    destruct (ptr_val base) as [b|] eqn:B; [|apply lro_error].
    match goal with |- context [if ?b then _ else _] => destruct b end.
    { cbn. rewrite B. split; [discriminate|intros H; contradiction H; reflexivity]. }
    match goal with |- context [if ?b then _ else _] => destruct b end; [apply lro_error|].
    cbv zeta. apply lvl_loop5. intros c. cbv beta. apply lvl_loop2. intros c'.
    cbn. split; [discriminate|intros H; contradiction H; reflexivity].
  - cbn [gen_trustpolicy_SignatureVerification_GetVerificationLevel_loop1]. cbv zeta.
    destruct (ptr_val p); [|contradiction Hp; reflexivity].
    match goal with |- context [if ?b then _ else _] => destruct b end; apply IH.
Qed.

(* GetVerificationLevel never panics, for any statement (valid or not), and it hands out a nil level
   exactly when it reports an error. The verifier ignores that error ("we already validated the policy
   document"): for a statement that fails here the outcome's level is the nil pointer. *)
Theorem gen_GetVerificationLevel_result_ok sv :
  level_result_ok (gen_trustpolicy_SignatureVerification_GetVerificationLevel sv).
Proof.
  unfold gen_trustpolicy_SignatureVerification_GetVerificationLevel.
  match goal with |- context [if ?b then _ else _] => destruct b end; [apply lro_error|].
  cbv zeta. apply lvl_loop1.
  unfold trustpolicy_VerificationLevels. repeat constructor; discriminate.
Qed.

Corollary gen_GetVerificationLevel_total sv :
  gen_trustpolicy_SignatureVerification_GetVerificationLevel sv <> None.
Proof.
  pose proof (gen_GetVerificationLevel_result_ok sv) as H.
  destruct (gen_trustpolicy_SignatureVerification_GetVerificationLevel sv); [discriminate|contradiction H].
Qed.

(* the model's SelBadLevel: the statement applies, GetVerificationLevel fails on it, the error is
   dropped; the outcome built from the level then panics every step that reads
   outcome.VerificationLevel.Enforcement — the model's [verify_oci] / [verify_blob] say OPanic *)
Theorem gen_bad_level_panics (C : Type) sv p e now raw env results oerr v sc :
  gen_trustpolicy_SignatureVerification_GetVerificationLevel sv = Some (p, Some e) ->
  gen_verifier_verifyExpiry C now (PNew (mk_VerificationOutcome C raw env p results oerr)) = None
  /\ (v_oci v = Some SelBadLevel -> verify_oci v sc = OPanic)
  /\ (v_blob v = Some SelBadLevel -> verify_blob v sc = OPanic).
Proof.
  intros G. pose proof (gen_GetVerificationLevel_result_ok sv) as H. rewrite G in H. cbn in H.
  assert (N : ptr_val p = None) by (apply H; discriminate).
  split; [|split].
  - apply gen_verifyExpiry_panics_iff. cbn [ptr_val]. right. exact N.
  - intros V. unfold verify_oci. rewrite V. reflexivity.
  - intros V. unfold verify_blob. rewrite V. reflexivity.
Qed.

(* and a level that was handed out without error makes verifyExpiry total on a parsed envelope *)
Theorem gen_good_level_total (C : Type) sv p now raw env results oerr :
  gen_trustpolicy_SignatureVerification_GetVerificationLevel sv = Some (p, None) ->
  gen_verifier_verifyExpiry C now (PNew (mk_VerificationOutcome C raw (PNew env) p results oerr)) <> None.
Proof.
  intros G. pose proof (gen_GetVerificationLevel_result_ok sv) as H. rewrite G in H. cbn in H.
  intros X. apply gen_verifyExpiry_panics_iff in X. cbn [ptr_val] in X.
  destruct X as [X|X]; [discriminate X|]. cbn in X. apply H in X. contradiction X. reflexivity.
Qed.

(* ================================================================== *)
(* Part I — config.validateKeys                                         *)

(* the names seen so far, as the set the Go code keeps *)
Definition set_of (seen : list string) (s : list (string * unit)) : Prop :=
  forall x, gen_container_Set_Contains_string s x = mem_str x seen.

Lemma set_contains s x :
  gen_container_Set_Contains_string s x = GoLib.is_some (map_get String.eqb x s).
Proof. unfold gen_container_Set_Contains_string, map_get_ok. destruct (map_get String.eqb x s) as [[]|]; reflexivity. Qed.

Lemma set_of_add seen s n : set_of seen s -> set_of (n :: seen) (gen_container_Set_Add_string s n).
Proof.
  intros H x. unfold gen_container_Set_Add_string. cbv zeta.
  rewrite set_contains, (map_get_set String.eqb string_eqb_spec'). cbn [mem_str existsb].
  destruct (String.eqb x n); [reflexivity|]. rewrite <- set_contains. apply H.
Qed.

(* what the loop decides: 1 = an empty name, 2 = a name used twice, else the names seen *)
Fixpoint names_scan (names seen : list string) : nat + list string :=
  match names with
  | [] => inr seen
  | n :: rest => if String.eqb n "" then inl 1%nat
                 else if mem_str n seen then inl 2%nat
                 else names_scan rest (n :: seen)
  end.

Definition default_ok (d : ptr string) (seen : list string) : Prop :=
  match ptr_val d with
  | None => True
  | Some k => k <> "" /\ mem_str k seen = true
  end.

Lemma keys_loop cfg l : forall seen s, set_of seen s ->
  exists r, gen_config_validateKeys_loop1 cfg l s = Some r /\
    (r = None <-> exists seen', names_scan (map KeySuite_Name l) seen = inr seen'
                                /\ default_ok (SigningKeys_Default cfg) seen').
Proof.
  induction l as [|k l IH]; intros seen s S.
  - cbn [gen_config_validateKeys_loop1 map names_scan]. cbv zeta. unfold default_ok.
    rewrite ptr_is_nil_val.
    destruct (ptr_val (SigningKeys_Default cfg)) as [d|]; cbn [GoLib.is_none negb].
    + rewrite str_len_zero. destruct (String.eqb d "") eqn:E.
      * apply String.eqb_eq in E. eexists; split; [reflexivity|]. split; [discriminate|].
        intros [seen' [X [Y _]]]. contradiction.
      * apply String.eqb_neq in E. rewrite S.
        destruct (mem_str d seen) eqn:M; cbn [negb].
        -- eexists; split; [reflexivity|]. split; [intros _|reflexivity].
           exists seen. split; [reflexivity|split; [exact E|exact M]].
        -- eexists; split; [reflexivity|]. split; [discriminate|].
           intros [seen' [X [_ Y]]]. inversion X; subst. rewrite M in Y. discriminate.
    + eexists; split; [reflexivity|]. split; [intros _|reflexivity]. exists seen. split; [reflexivity|exact I].
  - cbn [gen_config_validateKeys_loop1 map names_scan]. cbv zeta. rewrite str_len_zero.
    destruct (String.eqb (KeySuite_Name k) "").
    + eexists; split; [reflexivity|]. split; [discriminate|]. intros [seen' [X _]]. discriminate X.
    + rewrite S. destruct (mem_str (KeySuite_Name k) seen).
      * eexists; split; [reflexivity|]. split; [discriminate|]. intros [seen' [X _]]. discriminate X.
      * apply IH. apply set_of_add. exact S.
Qed.

(* validateKeys on the decoded signingkeys.json: never a panic on a non-nil value (the pointer default,
   the embedded key pointers of a key suite are never dereferenced without a test), and nil iff no name
   is empty, no name occurs twice and the default key, when set, is non-empty and one of the names *)
Theorem gen_validateKeys_spec cfg :
  exists r, gen_config_validateKeys (PNew cfg) = Some r /\
    (r = None <-> exists seen, names_scan (map KeySuite_Name (SigningKeys_Keys cfg)) [] = inr seen
                               /\ default_ok (SigningKeys_Default cfg) seen).
Proof.
  unfold gen_config_validateKeys. cbn [ptr_val]. cbv zeta.
  apply keys_loop. intros x. reflexivity.
Qed.

Theorem gen_validateKeys_panics_iff p :
  gen_config_validateKeys p = None <-> ptr_val p = None.
Proof.
  unfold gen_config_validateKeys. destruct (ptr_val p) as [cfg|]; [|split; reflexivity].
  cbv zeta. destruct (keys_loop cfg (SigningKeys_Keys cfg) [] (gen_container_NewWithSize_string (list_len (SigningKeys_Keys cfg))))
    as [r [H _]]; [intros x; reflexivity|].
  rewrite H. split; discriminate.
Qed.

(* the scan in declarative terms *)
Lemma names_scan_spec names : forall seen seen',
  names_scan names seen = inr seen' ->
  seen' = rev names ++ seen /\ Forall (fun n => n <> "") names /\ NoDup names
  /\ (forall n, In n names -> ~ In n seen).
Proof.
  induction names as [|n names IH]; intros seen seen' H; cbn [names_scan] in H.
  - inversion H; subst. repeat split; [constructor|constructor|intros n []].
  - destruct (String.eqb n "") eqn:E; [discriminate|]. apply String.eqb_neq in E.
    destruct (mem_str n seen) eqn:M; [discriminate|].
    destruct (IH _ _ H) as [A [B [D F]]]. subst seen'.
    assert (NI : ~ In n seen).
    { intros X. unfold mem_str in M. assert (T : existsb (String.eqb n) seen = true).
      { apply existsb_exists. exists n. split; [exact X|apply String.eqb_refl]. }
      rewrite T in M. discriminate. }
    repeat split.
    + cbn [rev]. rewrite <- app_assoc. reflexivity.
    + constructor; assumption.
    + constructor; [|exact D]. intros X. apply (F n X). left. reflexivity.
    + intros m [X|X] Y; [subst; contradiction|]. apply (F m X). right. exact Y.
Qed.

Corollary gen_validateKeys_accepts cfg :
  gen_config_validateKeys (PNew cfg) = Some None ->
  let names := map KeySuite_Name (SigningKeys_Keys cfg) in
  Forall (fun n => n <> "") names /\ NoDup names
  /\ match ptr_val (SigningKeys_Default cfg) with
     | None => True
     | Some k => k <> "" /\ In k names
     end.
Proof.
  intros H. cbv zeta. destruct (gen_validateKeys_spec cfg) as [r [E R]]. rewrite H in E. inversion E; subst r.
  destruct (proj1 R eq_refl) as [seen [S D]].
  destruct (names_scan_spec _ _ _ S) as [A [B [N _]]]. split; [exact B|split; [exact N|]].
  unfold default_ok in D. destruct (ptr_val (SigningKeys_Default cfg)) as [k|]; [|exact I].
  destruct D as [D1 D2]. split; [exact D1|]. subst seen. rewrite app_nil_r in D2.
  unfold mem_str in D2. apply existsb_exists in D2. destruct D2 as [x [X1 X2]].
  apply String.eqb_eq in X2. subst x. apply in_rev. exact X1.
Qed.

(* ================================================================== *)
(* Part J — crl.checkExpiry (the decision of FileCache.Get after decoding) *)

Theorem gen_checkExpiry_spec now next :
  gen_crl_checkExpiry now next
  = if time_is_zero next then Some (Err "errors" "crl bundle retrieved from file cache does not contain valid NextUpdate" [])
    else if (now >? next)%Z then crl_ErrCacheMiss   (* the sentinel of notation-core-go: a cache miss *)
    else None.
Proof. reflexivity. Qed.

(* ================================================================== *)
(* Part K — getVerificationPlugin (the model's s_pattr: PAbsent / PInvalid / PName) *)

(* a pure function: whatever the attribute look-up (an oracle: notation-core-go and a type assertion)
   answers, the name handed on is non-blank exactly when no error is returned, and empty otherwise *)
Theorem gen_getVerificationPlugin_spec (C : Type) extract si :
  let r := gen_verifier_getVerificationPlugin C extract si in
  match snd r with
  | None => String.eqb (str_trim_space (fst r)) "" = false
            /\ extract si "io.cncf.notary.verificationPlugin" = (fst r, None)
  | Some _ => fst r = ""
  end.
Proof.
  cbv zeta. unfold gen_verifier_getVerificationPlugin.
  destruct (extract si "io.cncf.notary.verificationPlugin") as [name e].
  destruct e as [e|]; cbn [GoLib.is_none negb snd fst]; [reflexivity|].
  destruct (String.eqb (str_trim_space name) "") eqn:E; cbn [snd fst]; [reflexivity|].
  split; [exact E|reflexivity].
Qed.
