(* C07_Model.v — model of the sign -> verify pipeline of notation-go:
     notation.SignOCI / notation.SignBlob            (notation.go)
     signer.GenericSigner.Sign / SignBlob, getDescriptor (signer/signer.go)
     signer.PluginSigner.Sign / SignBlob, generateSignature,
       generateSignatureEnvelope, pluginPrimitiveSigner.Sign (signer/plugin.go)
     envelope.SanitizeTargetArtifact                 (internal/envelope/envelope.go)
     proto.{Encode,Decode}KeySpec, HashAlgorithmFromKeySpec (plugin/proto/algorithm.go)
     both `algorithms` tables (signer/plugin.go, verifier/verifier.go)
     addUserMetadataToDescriptor, getDescriptorFunc, validateSignArguments,
     notation.Verify / notation.VerifyBlob result assembly,
     VerificationOutcome.UserMetadata                (notation.go)
     verifier.Verify / verifier.VerifyBlob after processSignature (verifier/verifier.go)
     core's KeySpec.SignatureAlgorithm, Algorithm.Hash, Truncate(time.Second)
       of signing time and expiry, expiry-after-signing-time check.
   Not modelled (inputs / assumptions): the cryptography (an envelope produced
   by core verifies iff the signing key has the key spec the signer claims),
   trust decision (input [i_trusted]), the clock ([i_now]), the digests of a
   blob (oracle facts asked from go-digest), mime.ParseMediaType (oracle bit).
   encoding/json is modelled by its effect on the payload struct: [coerce] on
   strings (invalid UTF-8 -> U+FFFD), omitempty key set, maps keyed by the
   coerced key with the greatest original key winning.
   Definitions only. *)
From NV Require Import Base Generated.
Open Scope string_scope.

(* ===================== 1. key specs and algorithm tables ===================== *)

Inductive ktype := KRSA | KEC | K0.           (* K0: zero value / unknown type *)
Record keyspec := mk_ks { ks_type : ktype; ks_size : N }.
Inductive alg := A0 | PS256 | PS384 | PS512 | ES256 | ES384 | ES512.   (* A0: Algorithm(0) *)
Inductive chash := H0 | H256 | H384 | H512.   (* crypto.Hash; H0 = 0 *)

(* core internal/algorithm: KeySpec.SignatureAlgorithm *)
Definition sig_alg (k : keyspec) : alg :=
  match ks_type k with
  | KEC => if (ks_size k =? 256)%N then ES256 else if (ks_size k =? 384)%N then ES384
           else if (ks_size k =? 521)%N then ES512 else A0
  | KRSA => if (ks_size k =? 2048)%N then PS256 else if (ks_size k =? 3072)%N then PS384
            else if (ks_size k =? 4096)%N then PS512 else A0
  | K0 => A0
  end.

(* core internal/algorithm: Algorithm.Hash *)
Definition alg_hash (a : alg) : chash :=
  match a with
  | PS256 | ES256 => H256
  | PS384 | ES384 => H384
  | PS512 | ES512 => H512
  | A0 => H0
  end.

(* signer/plugin.go: var algorithms (crypto.Hash -> digest.Algorithm) *)
Definition signer_algorithms (h : chash) : option string :=
  match h with H256 => Some "sha256" | H384 => Some "sha384" | H512 => Some "sha512" | H0 => None end.

(* verifier/verifier.go: var algorithms *)
Definition verifier_algorithms (h : chash) : option string :=
  match h with H256 => Some "sha256" | H384 => Some "sha384" | H512 => Some "sha512" | H0 => None end.

(* plugin/proto: EncodeKeySpec *)
Definition encode_keyspec (k : keyspec) : option string :=
  match ks_type k with
  | KEC => if (ks_size k =? 256)%N then Some "EC-256" else if (ks_size k =? 384)%N then Some "EC-384"
           else if (ks_size k =? 521)%N then Some "EC-521" else None
  | KRSA => if (ks_size k =? 2048)%N then Some "RSA-2048" else if (ks_size k =? 3072)%N then Some "RSA-3072"
            else if (ks_size k =? 4096)%N then Some "RSA-4096" else None
  | K0 => None
  end.

(* plugin/proto: DecodeKeySpec *)
Definition decode_keyspec (s : string) : option keyspec :=
  if s =? "RSA-2048" then Some (mk_ks KRSA 2048)
  else if s =? "RSA-3072" then Some (mk_ks KRSA 3072)
  else if s =? "RSA-4096" then Some (mk_ks KRSA 4096)
  else if s =? "EC-256" then Some (mk_ks KEC 256)
  else if s =? "EC-384" then Some (mk_ks KEC 384)
  else if s =? "EC-521" then Some (mk_ks KEC 521)
  else None.

(* plugin/proto: HashAlgorithmFromKeySpec *)
Definition hash_from_keyspec (k : keyspec) : option string :=
  match ks_type k with
  | KEC => if (ks_size k =? 256)%N then Some "SHA-256" else if (ks_size k =? 384)%N then Some "SHA-384"
           else if (ks_size k =? 521)%N then Some "SHA-512" else None
  | KRSA => if (ks_size k =? 2048)%N then Some "SHA-256" else if (ks_size k =? 3072)%N then Some "SHA-384"
            else if (ks_size k =? 4096)%N then Some "SHA-512" else None
  | K0 => None
  end.

Definition ktype_eqb (a b : ktype) : bool :=
  match a, b with KRSA, KRSA | KEC, KEC | K0, K0 => true | _, _ => false end.
Definition keyspec_eqb (a b : keyspec) : bool :=
  ktype_eqb (ks_type a) (ks_type b) && (ks_size a =? ks_size b)%N.
Definition alg_eqb (a b : alg) : bool :=
  match a, b with
  | A0, A0 | PS256, PS256 | PS384, PS384 | PS512, PS512 | ES256, ES256 | ES384, ES384 | ES512, ES512 => true
  | _, _ => false
  end.

(* ===================== 2. strings through encoding/json ===================== *)

(* What a Go string becomes when it is written by json.Marshal and read back:
   every byte that does not start a well-formed UTF-8 sequence
   (utf8.DecodeRuneInString returns RuneError, 1) is replaced by U+FFFD
   (EF BF BD); everything else (escapes included) is restored exactly. *)
Definition inr (a : ascii) (lo hi : N) : bool :=
  let n := N_of_ascii a in ((lo <=? n) && (n <=? hi))%N.

Definition fffd (r : string) : string :=
  String (ascii_of_N 239) (String (ascii_of_N 191) (String (ascii_of_N 189) r)).

Fixpoint coerce (s : string) : string :=
  match s with
  | EmptyString => EmptyString
  | String a r =>
      let n := N_of_ascii a in
      if (n <? 128)%N then String a (coerce r)
      else if inr a 194 223 then
        match r with
        | String b r1 => if inr b 128 191 then String a (String b (coerce r1)) else fffd (coerce r)
        | _ => fffd (coerce r)
        end
      else if inr a 224 239 then
        let lo := if (n =? 224)%N then 160%N else 128%N in
        let hi := if (n =? 237)%N then 159%N else 191%N in
        match r with
        | String b (String c r2) =>
            if inr b lo hi && inr c 128 191 then String a (String b (String c (coerce r2)))
            else fffd (coerce r)
        | _ => fffd (coerce r)
        end
      else if inr a 240 244 then
        let lo := if (n =? 240)%N then 144%N else 128%N in
        let hi := if (n =? 244)%N then 143%N else 191%N in
        match r with
        | String b (String c (String d r3)) =>
            if inr b lo hi && inr c 128 191 && inr d 128 191
            then String a (String b (String c (String d (coerce r3))))
            else fffd (coerce r)
        | _ => fffd (coerce r)
        end
      else fffd (coerce r)
  end.

(* a string JSON carries unchanged (= valid UTF-8) *)
Definition json_safe (s : string) : bool := String.eqb (coerce s) s.

(* A JSON integer through float64 and back, as the JWS envelope of
   notation-core-go does to every number of the payload (it decodes the payload
   into jwt.MapClaims = map[string]interface{} and encodes that map):
   [f64_round] is round-to-nearest-even to a 53-bit significand; the encoder
   then prints the shortest decimal that still parses to the same float64. *)
Definition f64_round (z : Z) : Z :=
  if (z <? 2 ^ 53)%Z then z
  else
    let e := (Z.log2 z - 52)%Z in
    let q := Z.shiftr z e in
    let r := (z - Z.shiftl q e)%Z in
    let half := Z.shiftl 1 (e - 1) in
    let q' := if (r >? half)%Z || ((r =? half)%Z && Z.odd q) then (q + 1)%Z else q in
    Z.shiftl q' e.

Definition pow10s : list Z :=
  [1000000000000000000; 100000000000000000; 10000000000000000; 1000000000000000; 100000000000000;
   10000000000000; 1000000000000; 100000000000; 10000000000; 1000000000; 100000000; 10000000;
   1000000; 100000; 10000; 1000; 100; 10; 1]%Z.

Definition shortest_dec (f : Z) : Z :=
  match find (fun p => (f64_round (((f + p / 2) / p) * p) =? f)%Z) pow10s with
  | Some p => (((f + p / 2) / p) * p)%Z
  | None => f
  end.

Definition jws_number (z : Z) : Z :=
  if (z <? 0)%Z then (- shortest_dec (f64_round (- z)))%Z else shortest_dec (f64_round z).

Definition max_int64 : Z := 9223372036854775807.

(* ===================== 3. descriptors and the payload ===================== *)

(* ocispec.Descriptor. [d_platform] is "" for a nil platform, a token otherwise;
   [d_data] the embedded bytes; a nil map/slice and an empty one are both []. *)
Record descr := mk_descr {
  d_mt : string; d_digest : string; d_size : Z;
  d_urls : list string; d_anns : amap; d_data : string; d_platform : string; d_atype : string }.

Definition zero_descr : descr := mk_descr "" "" 0 [] [] "" "" "".

(* internal/envelope: SanitizeTargetArtifact *)
Definition sanitize (d : descr) : descr :=
  mk_descr (d_mt d) (d_digest d) (d_size d) [] (d_anns d) "" "" "".

(* keys json.Marshal emits for a descriptor (omitempty on all but the first three), sorted *)
Definition present_keys (d : descr) : list string :=
  (match d_anns d with [] => [] | _ => ["annotations"] end) ++
  (if d_atype d =? "" then [] else ["artifactType"]) ++
  (if d_data d =? "" then [] else ["data"]) ++
  ["digest"; "mediaType"] ++
  (if d_platform d =? "" then [] else ["platform"]) ++
  ["size"] ++
  (match d_urls d with [] => [] | _ => ["urls"] end).

(* a map[string]string through Marshal (keys sorted by the original key, each
   written coerced) and Unmarshal (later entries overwrite earlier ones): of the
   entries whose coerced keys collide, the one with the greatest original key survives *)
Definition rt_map (m : amap) : amap :=
  map (fun e => (coerce (fst e), coerce (snd e)))
      (filter (fun e => negb (existsb (fun e' => String.eqb (coerce (fst e')) (coerce (fst e))
                                               && String.ltb (fst e) (fst e')) m)) m).

(* the struct obtained by json.Unmarshal(json.Marshal(d)) *)
Definition json_rt (d : descr) : descr :=
  mk_descr (coerce (d_mt d)) (coerce (d_digest d)) (d_size d) (map coerce (d_urls d))
           (rt_map (d_anns d)) (d_data d) (d_platform d) (coerce (d_atype d)).

(* oras content.Equal *)
Definition content_equal (a b : descr) : bool :=
  (d_size a =? d_size b)%Z && String.eqb (d_digest a) (d_digest b) && String.eqb (d_mt a) (d_mt b).

Definition has_key (k : string) (m : amap) : bool :=
  match lookup k m with Some _ => true | None => false end.

(* every (k,v) of [a] is in [b] — verifyUserMetadata, isDescriptorSubset *)
Definition submap (a b : amap) : bool :=
  forallb (fun e => match lookup (fst e) b with Some v => String.eqb v (snd e) | None => false end) a.

(* notation.go: addUserMetadataToDescriptor. None = error. The Go loop ranges
   over a map (unique keys, any order): it fails iff some key has a reserved
   prefix or is already an annotation of the descriptor. *)
Definition reserved (k : string) : bool :=
  existsb (fun p => has_prefix p k) gen_reserved_annotation_prefixes.

Definition add_meta (d : descr) (meta : amap) : option descr :=
  if existsb (fun e => reserved (fst e) || has_key (fst e) (d_anns d)) meta then None
  else Some (mk_descr (d_mt d) (d_digest d) (d_size d) (d_urls d) (d_anns d ++ meta)%list
                      (d_data d) (d_platform d) (d_atype d)).

(* ===================== 4. inputs ===================== *)

(* a blob as the descriptor generators see it: its size and its digest under
   each algorithm (facts computed by go-digest over the complete content in the
   harness, whatever the shape of the io.Reader: short reads, data delivered
   together with io.EOF, (0, nil) reads) *)
Record blob := mk_blob { b_size : Z; b_d256 : string; b_d384 : string; b_d512 : string;
                         b_readerr : bool }.   (* the io.Reader fails with a non-EOF error before the end *)

Definition blob_digest (b : blob) (algname : string) : string :=
  if algname =? "sha256" then b_d256 b else if algname =? "sha384" then b_d384 b
  else if algname =? "sha512" then b_d512 b else "".

Inductive target :=
| TOCI (d : descr)                            (* the descriptor Repository.Resolve returns *)
| TBlob (b : blob) (mt : string) (mt_ok : bool).  (* blob, content media type, mime.ParseMediaType accepts it *)

Inductive signer :=
| Local                                        (* signer.NewGenericSigner *)
| Plug (capsig capenv : bool) (describe : string). (* PluginSigner: capabilities, DescribeKey answer *)

(* constants of the environment *)
Record consts := mk_consts {
  c_agent0 : string;     (* signer.signingAgent *)
  c_pname : string; c_pver : string;   (* plugin metadata name / version *)
  c_penv_agent : string }.             (* agent an envelope-generating plugin writes *)

Record input := mk_input {
  i_target : target;
  i_signer : signer;
  i_ks : keyspec;          (* key spec of the signing key (core ExtractKeySpec of the leaf) *)
  i_format : string;       (* SignatureMediaType *)
  i_meta : amap;           (* UserMetadata at signing *)
  i_dur : Z;               (* ExpiryDuration, ns *)
  i_agent : string;        (* SignerSignOptions.SigningAgent *)
  i_now : Z;               (* clock read by the signer, ns since the epoch *)
  i_consts : consts;
  i_trusted : bool;        (* the policy trusts the signing certificate *)
  i_vtarget : target;      (* what is presented at verification *)
  i_vmeta : amap }.        (* UserMetadata required at verification *)

Definition mt_jws := "application/jose+json".
Definition mt_cose := "application/cose".
Definition mt_payload := "application/vnd.cncf.notary.payload.v1+json".
Definition second : Z := 1000000000.

(* ===================== 5. the pipeline, generic in the JSON codec ===================== *)

(* what is read from a signature envelope (core's EnvelopeContent) *)
Record sobs := mk_sobs {
  s_alg : alg; s_ctype : string;
  s_top : list string;            (* keys of the payload document, sorted *)
  s_tgt : list string;            (* keys of its targetArtifact object, sorted *)
  s_payload : option descr;       (* payload decoded into envelope.Payload *)
  s_time : Z; s_expiry : option Z;   (* seconds since the epoch *)
  s_agent : string }.

Record obs := mk_obs {
  o_sign : N;                     (* 0 ok; 1 argument validation; 2 user metadata rejected; 3 signer error *)
  o_shash : option string;        (* digest algorithm the signer asked the blob descriptor generator for *)
  o_plugsig : option (string * string);  (* keySpec, hashAlgorithm of the generate-signature request *)
  o_plugenv : option Z;           (* expiryDurationInSeconds of the generate-envelope request *)
  o_env : option sobs;
  o_verify : N;                   (* 0 ok; 1 not trusted; 2 descriptor mismatch; 3 user metadata mismatch;
                                     4 argument; 5 descriptor generation failed; 9 other; 7 not attempted *)
  o_vhash : option string;        (* digest algorithm the verifier asked the generator for *)
  o_ret : option descr;           (* descriptor returned by notation.Verify / VerifyBlob *)
  o_meta : option amap }.         (* outcome.UserMetadata() *)

Section Pipeline.
  Variable bytes : Type.
  Variable enc : descr -> bytes.            (* json.Marshal(envelope.Payload{TargetArtifact: d}) *)
  Variable dec : bytes -> option descr.     (* json.Unmarshal into envelope.Payload *)
  Variable top_keys : bytes -> list string. (* keys of the document *)
  Variable tgt_keys : bytes -> list string. (* keys of its targetArtifact object *)
  Variable recode : bytes -> bytes.         (* the document decoded into a generic JSON value and encoded
                                               again (what core's JWS envelope signs) *)
  Variable ret_payload : bool.              (* true: notation.VerifyBlob as it is now (a20d301);
                                               false: before, it returned the zero descriptor *)

  Record envelope := mk_env {
    e_format : string; e_alg : alg; e_ctype : string; e_payload : bytes;
    e_time : Z; e_expiry : option Z; e_agent : string }.

  (* core base.Envelope.Sign: truncation to seconds, algorithm from the key
     spec, expiry must be after the signing time; the JWS envelope signs the
     re-encoded payload, the COSE envelope the bytes it is given *)
  Definition core_sign (fmt : string) (a : alg) (payload : bytes) (now : Z) (expiry : option Z)
             (agent : string) : option envelope :=
    let ts := (now / second)%Z in
    let ex := option_map (fun e => (e / second)%Z) expiry in
    if match ex with Some e => (e <=? ts)%Z | None => false end then None
    else match a with
         | A0 => None
         | _ => Some (mk_env fmt a mt_payload (if fmt =? mt_jws then recode payload else payload) ts ex agent)
         end.

  (* signer.GenericSigner.Sign. [key_ok]: the raw signature verifies, i.e. the
     key spec announced by the primitive signer is the one of its key. *)
  Definition generic_sign (ks : keyspec) (key_ok : bool) (desc : descr) (fmt : string) (dur now : Z)
             (agent agent0 : string) : option envelope :=
    let payload := enc (sanitize desc) in
    let agent_id := if agent =? "" then agent0 else agent in
    let expiry := if (dur =? 0)%Z then None else Some (now + dur)%Z in
    match core_sign fmt (sig_alg ks) payload now expiry agent_id with
    | None => None
    | Some e =>
        if key_ok then                                  (* sigEnv.Verify() *)
          if e_ctype e =? mt_payload then Some e else None   (* ValidatePayloadContentType *)
        else None
    end.

  (* signer/plugin.go: areUnknownAttributesAdded (every member of the document
     and of its targetArtifact object is inspected, duplicates included; the
     documents here come from the encoder and have no duplicated member) *)
  Definition unknown_attrs (b : bytes) : list string :=
    filter (fun k => negb (mem_str k ["mediaType"; "digest"; "size"; "urls"; "annotations"; "data"; "platform"; "artifactType"])) (tgt_keys b)
    ++ filter (fun k => negb (k =? "targetArtifact")) (top_keys b).

  (* PluginSigner.generateSignatureEnvelope with a faithful envelope plugin: it
     signs the payload bytes it is given, with its key, its clock, and an expiry
     of [secs] seconds *)
  Definition plugin_envelope (key : keyspec) (desc : descr) (fmt : string) (dur now : Z) (penv_agent : string)
    : Z * option envelope :=
    let payload := enc (sanitize desc) in
    let secs := Z.quot dur second in
    (secs,
     match core_sign fmt (sig_alg key) payload now
                     (if (secs =? 0)%Z then None else Some (now + secs * second)%Z) penv_agent with
     | None => None
     | Some e =>
         if e_ctype e =? mt_payload then
           match dec (e_payload e) with
           | None => None
           | Some signed =>
               (* isPayloadDescriptorValid, areUnknownAttributesAdded *)
               if content_equal desc signed && submap (d_anns desc) (d_anns signed)
                  && match unknown_attrs (e_payload e) with [] => true | _ => false end
               then Some e else None
           end
         else None
     end).

  Record sres := mk_sres {
    r_err : N; r_shash : option string; r_plugsig : option (string * string);
    r_plugenv : option Z; r_env : option envelope }.

  Definition sfail (c : N) (h : option string) : sres := mk_sres c h None None None.

  (* PluginSigner.generateSignature: a GenericSigner over pluginPrimitiveSigner *)
  Definition plugin_generate (i : input) (ks : keyspec) (desc : descr) (h : option string) : sres :=
    let c := i_consts i in
    let agent := c_agent0 c ++ " " ++ c_pname c ++ "/" ++ c_pver c in
    let payload := enc (sanitize desc) in
    let expiry := if (i_dur i =? 0)%Z then None else Some (i_now i + i_dur i)%Z in
    (* the plugin is called iff core gets as far as signing *)
    match core_sign (i_format i) (sig_alg ks) payload (i_now i) expiry agent with
    | None => sfail 3 h
    | Some _ =>
        match encode_keyspec ks, hash_from_keyspec ks with
        | Some kn, Some hn =>
            match generic_sign ks (keyspec_eqb ks (i_ks i)) desc (i_format i) (i_dur i) (i_now i) agent (c_agent0 c) with
            | Some e => mk_sres 0 h (Some (kn, hn)) None (Some e)
            | None => mk_sres 3 h (Some (kn, hn)) None None
            end
        | _, _ => sfail 3 h
        end
    end.

  (* notation.go: validateSignArguments (signer non-nil) *)
  Definition validate_sign_args (fmt : string) (dur : Z) : bool :=
    negb (dur <? 0)%Z && (Z.rem dur second =? 0)%Z && negb (fmt =? "")
    && ((fmt =? mt_jws) || (fmt =? mt_cose)).

  (* Signer.Sign(ctx, desc, opts) for the three kinds of signer *)
  Definition signer_sign (i : input) (desc : descr) : sres :=
    match i_signer i with
    | Local =>
        match generic_sign (i_ks i) true desc (i_format i) (i_dur i) (i_now i) (i_agent i) (c_agent0 (i_consts i)) with
        | Some e => mk_sres 0 None None None (Some e)
        | None => sfail 3 None
        end
    | Plug capsig capenv describe =>
        if capsig then
          match decode_keyspec describe with            (* getKeySpec *)
          | None => sfail 3 None
          | Some ks => plugin_generate i ks desc None
          end
        else if capenv then
          let '(secs, r) := plugin_envelope (i_ks i) desc (i_format i) (i_dur i) (i_now i) (c_penv_agent (i_consts i)) in
          match r with
          | Some e => mk_sres 0 None None (Some secs) (Some e)
          | None => mk_sres 3 None None (Some secs) None
          end
        else sfail 3 None
    end.

  (* notation.go: getDescriptorFunc *)
  Definition blob_descriptor (b : blob) (mt : string) (meta : amap) (algname : string) : option descr :=
    add_meta (mk_descr mt (blob_digest b algname) (b_size b) [] [] "" "" "") meta.

  (* BlobSigner.SignBlob(ctx, genDesc, opts) *)
  Definition signer_sign_blob (i : input) (b : blob) (mt : string) : sres :=
    match i_signer i with
    | Local =>
        match signer_algorithms (alg_hash (sig_alg (i_ks i))) with     (* getDescriptor *)
        | None => sfail 3 None
        | Some an =>
            if b_readerr b then sfail 3 (Some an) else      (* io.Copy error inside the generator *)
            match blob_descriptor b mt (i_meta i) an with
            | None => sfail 2 (Some an)
            | Some desc =>
                match generic_sign (i_ks i) true desc (i_format i) (i_dur i) (i_now i) (i_agent i) (c_agent0 (i_consts i)) with
                | Some e => mk_sres 0 (Some an) None None (Some e)
                | None => sfail 3 (Some an)
                end
            end
        end
    | Plug capsig capenv describe =>
        match decode_keyspec describe with              (* getKeySpec, always *)
        | None => sfail 3 None
        | Some ks =>
            match signer_algorithms (alg_hash (sig_alg ks)) with
            | None => sfail 3 None
            | Some an =>
                if b_readerr b then sfail 3 (Some an) else
                match blob_descriptor b mt (i_meta i) an with
                | None => sfail 2 (Some an)
                | Some desc =>
                    if capsig then plugin_generate i ks desc (Some an)
                    else if capenv then
                      let '(secs, r) := plugin_envelope (i_ks i) desc (i_format i) (i_dur i) (i_now i) (c_penv_agent (i_consts i)) in
                      match r with
                      | Some e => mk_sres 0 (Some an) None (Some secs) (Some e)
                      | None => mk_sres 3 (Some an) None (Some secs) None
                      end
                    else sfail 3 (Some an)
                end
            end
        end
    end.

  (* notation.SignOCI / notation.SignBlob *)
  Definition sign (i : input) : sres :=
    if negb (validate_sign_args (i_format i) (i_dur i)) then sfail 1 None
    else match i_target i with
         | TOCI d =>
             match add_meta d (i_meta i) with
             | None => sfail 2 None
             | Some desc => signer_sign i desc
             end
         | TBlob b mt mt_ok =>
             if (mt =? "") || negb mt_ok then sfail 1 None
             else signer_sign_blob i b mt
         end.

  Record vres := mk_vres { v_code : N; v_hash : option string; v_ret : option descr; v_meta : option amap }.
  Definition vfail (c : N) (h : option string) : vres := mk_vres c h None None.

  (* the two checks after processSignature, shared by Verify and VerifyBlob:
     a metadata mismatch overwrites a descriptor mismatch *)
  Definition final_code (mismatch : bool) (vmeta : amap) (p : descr) : N :=
    let e := if mismatch then 2%N else 0%N in
    match vmeta with
    | [] => e
    | _ => if submap vmeta (d_anns p) then e else 3%N
    end.

  (* VerificationOutcome.UserMetadata *)
  Definition user_metadata (e : envelope) : option amap :=
    match dec (e_payload e) with Some p => Some (d_anns p) | None => None end.

  (* notation.Verify over a repository holding this one signature, verifier.Verify *)
  Definition verify_oci (i : input) (e : envelope) (vd : descr) : vres :=
    if negb (i_trusted i) then vfail 1 None
    else match dec (e_payload e) with
         | None => vfail 9 None
         | Some p =>
             match final_code (negb (content_equal p vd)) (i_vmeta i) p with
             | 0%N => mk_vres 0 None (Some vd) (user_metadata e)
             | c => vfail c None
             end
         end.

  (* notation.VerifyBlob, verifier.VerifyBlob *)
  Definition verify_blob (i : input) (e : envelope) (b : blob) (mt : string) (mt_ok : bool) : vres :=
    if negb (mt =? "") && negb mt_ok then vfail 4 None          (* validateContentMediaType *)
    else if negb ((e_format e =? mt_jws) || (e_format e =? mt_cose)) then vfail 4 None
    else if negb (i_trusted i) then vfail 1 None
    else match dec (e_payload e) with
         | None => vfail 9 None
         | Some p =>
             match verifier_algorithms (alg_hash (e_alg e)) with
             | None => vfail 9 None
             | Some an =>
                 if b_readerr b then vfail 5 (Some an) else
                 match blob_descriptor b mt (i_vmeta i) an with
                 | None => vfail 5 (Some an)
                 | Some desc =>
                     let mismatch :=
                       negb (String.eqb (d_digest desc) (d_digest p)) || negb (d_size desc =? d_size p)%Z
                       || (negb (d_mt desc =? "") && negb (String.eqb (d_mt desc) (d_mt p))) in
                     match final_code mismatch (i_vmeta i) p with
                     | 0%N =>
                         (* notation.VerifyBlob decodes the verified payload again *)
                         match dec (e_payload e) with
                         | None => vfail 9 (Some an)
                         | Some p' => mk_vres 0 (Some an) (Some (if ret_payload then p' else zero_descr)) (user_metadata e)
                         end
                     | c => vfail c (Some an)
                     end
                 end
             end
         end.

  Definition verify (i : input) (e : envelope) : vres :=
    match i_vtarget i with
    | TOCI vd => verify_oci i e vd
    | TBlob b mt mt_ok => verify_blob i e b mt mt_ok
    end.

  Definition view (e : envelope) : sobs :=
    mk_sobs (e_alg e) (e_ctype e) (top_keys (e_payload e)) (tgt_keys (e_payload e)) (dec (e_payload e))
            (e_time e) (e_expiry e) (e_agent e).

  Definition pipeline (i : input) : obs :=
    let s := sign i in
    match r_env s with
    | None => mk_obs (r_err s) (r_shash s) (r_plugsig s) (r_plugenv s) None 7 None None None
    | Some e =>
        let v := verify i e in
        mk_obs (r_err s) (r_shash s) (r_plugsig s) (r_plugenv s) (Some (view e))
               (v_code v) (v_hash v) (v_ret v) (v_meta v)
    end.
End Pipeline.

(* the concrete codec: the "bytes" of a payload are the struct that was
   marshalled; decoding applies the JSON round trip *)
Definition set_size (d : descr) (z : Z) : descr :=
  mk_descr (d_mt d) (d_digest d) z (d_urls d) (d_anns d) (d_data d) (d_platform d) (d_atype d).

(* json.Unmarshal into the int64 field fails outside its range *)
Definition dec_descr (d : descr) : option descr :=
  if (d_size d >? max_int64)%Z || (d_size d <? - max_int64 - 1)%Z then None else Some (json_rt d).

Definition model_with (ret_payload : bool) : input -> obs :=
  pipeline descr (fun d => d) dec_descr (fun _ => ["targetArtifact"]) present_keys
           (fun d => set_size d (jws_number (d_size d))) ret_payload.

Definition model : input -> obs := model_with true.
(* notation.VerifyBlob before a20d301 *)
Definition model_old : input -> obs := model_with false.

(* ===================== 6. equalities ===================== *)

Definition amap_eqb (a b : amap) : bool :=
  Nat.eqb (List.length a) (List.length b) && submap a b.

Definition descr_eqb (a b : descr) : bool :=
  String.eqb (d_mt a) (d_mt b) && String.eqb (d_digest a) (d_digest b) && (d_size a =? d_size b)%Z
  && list_eqb String.eqb (d_urls a) (d_urls b) && amap_eqb (d_anns a) (d_anns b)
  && String.eqb (d_data a) (d_data b) && String.eqb (d_platform a) (d_platform b)
  && String.eqb (d_atype a) (d_atype b).

Definition pair_eqb (a b : string * string) : bool :=
  String.eqb (fst a) (fst b) && String.eqb (snd a) (snd b).

Definition sobs_eqb (a b : sobs) : bool :=
  alg_eqb (s_alg a) (s_alg b) && String.eqb (s_ctype a) (s_ctype b)
  && list_eqb String.eqb (s_top a) (s_top b) && list_eqb String.eqb (s_tgt a) (s_tgt b)
  && opt_eqb descr_eqb (s_payload a) (s_payload b)
  && (s_time a =? s_time b)%Z && opt_eqb Z.eqb (s_expiry a) (s_expiry b)
  && String.eqb (s_agent a) (s_agent b).

Definition obs_eqb (a b : obs) : bool :=
  (o_sign a =? o_sign b)%N && opt_eqb String.eqb (o_shash a) (o_shash b)
  && opt_eqb pair_eqb (o_plugsig a) (o_plugsig b) && opt_eqb Z.eqb (o_plugenv a) (o_plugenv b)
  && opt_eqb sobs_eqb (o_env a) (o_env b)
  && (o_verify a =? o_verify b)%N && opt_eqb String.eqb (o_vhash a) (o_vhash b)
  && opt_eqb descr_eqb (o_ret a) (o_ret b) && opt_eqb amap_eqb (o_meta a) (o_meta b).

(* ===================== 7. the property oracle (on observations only) ===================== *)

(* the notation specification's algorithm selection table, written independently
   of the tables above: key spec -> (plugin key spec name, signature algorithm,
   plugin hash name, digest algorithm) *)
Definition spec_table : list (keyspec * (string * alg * string * string)) :=
  [ (mk_ks KRSA 2048, ("RSA-2048", PS256, "SHA-256", "sha256"));
    (mk_ks KRSA 3072, ("RSA-3072", PS384, "SHA-384", "sha384"));
    (mk_ks KRSA 4096, ("RSA-4096", PS512, "SHA-512", "sha512"));
    (mk_ks KEC 256, ("EC-256", ES256, "SHA-256", "sha256"));
    (mk_ks KEC 384, ("EC-384", ES384, "SHA-384", "sha384"));
    (mk_ks KEC 521, ("EC-521", ES512, "SHA-512", "sha512")) ].

Fixpoint spec_row (k : keyspec) (t : list (keyspec * (string * alg * string * string)))
  : option (string * alg * string * string) :=
  match t with
  | [] => None
  | (k', r) :: t' => if keyspec_eqb k k' then Some r else spec_row k t'
  end.

Fixpoint nodup_keys (m : amap) : bool :=
  match m with
  | [] => true
  | (k, _) :: m' => negb (has_key k m') && nodup_keys m'
  end.

Definition safe_map (m : amap) : bool :=
  forallb (fun e => json_safe (fst e) && json_safe (snd e)) m.

Definition is_blob (t : target) : bool := match t with TBlob _ _ _ => true | _ => false end.

(* annotations already on the thing signed *)
Definition target_anns (t : target) : amap :=
  match t with TOCI d => d_anns d | TBlob _ _ _ => [] end.

(* "legal" inputs of the property: arguments the API documents as valid, user
   metadata that may be added, text that JSON can carry, a supported key, a
   plugin that describes its key truthfully and can sign *)
Definition legal (i : input) : bool :=
  (0 <=? i_now i)%Z && (0 <=? i_dur i)%Z && (Z.rem (i_dur i) second =? 0)%Z
  && ((i_format i =? mt_jws) || (i_format i =? mt_cose))
  && match spec_row (i_ks i) spec_table with
     | None => false
     | Some (kn, _, _, _) =>
         match i_signer i with
         | Local => true
         | Plug capsig capenv describe => (capsig || capenv) && (describe =? kn)
         end
     end
  && nodup_keys (target_anns (i_target i) ++ i_meta i)%list
  && nodup_keys (i_vmeta i)
  && nodup_keys (target_anns (i_vtarget i))
  && Bool.eqb (is_blob (i_target i)) (is_blob (i_vtarget i))
  && safe_map (target_anns (i_target i) ++ i_meta i)%list
  && forallb (fun e => negb (has_prefix "io.cncf.notary" (fst e))) (i_meta i)
  && match i_target i with
     | TOCI d => json_safe (d_mt d) && json_safe (d_digest d)
     | TBlob b mt mt_ok => negb (b_readerr b) && negb (mt =? "") && mt_ok && json_safe mt
                           && json_safe (b_d256 b) && json_safe (b_d384 b) && json_safe (b_d512 b)
     end.

Definition size_of (t : target) : Z :=
  match t with TOCI d => d_size d | TBlob b _ _ => b_size b end.

(* the input contract of the theorems: legal, the size is an int64 (it is one in
   Go), and — because of the KNOWN finding, footprint 1 — with the JWS envelope
   the size survives float64 *)
Definition wf (i : input) : bool :=
  legal i
  && (- max_int64 - 1 <=? size_of (i_target i))%Z && (size_of (i_target i) <=? max_int64)%Z
  && ((i_format i =? mt_cose) || (jws_number (size_of (i_target i)) =? size_of (i_target i))%Z).

(* the descriptor that must have been signed: media type, digest, size,
   annotations + user metadata, nothing else *)
Definition expected_signed (i : input) (an : string) : descr :=
  match i_target i with
  | TOCI d => mk_descr (d_mt d) (d_digest d) (d_size d) [] (d_anns d ++ i_meta i)%list "" "" ""
  | TBlob b mt _ => mk_descr mt (blob_digest b an) (b_size b) [] (i_meta i) "" "" ""
  end.

Definition expected_keys (i : input) : list string :=
  (match (target_anns (i_target i) ++ i_meta i)%list with [] => [] | _ => ["annotations"] end)
  ++ ["digest"; "mediaType"; "size"].

(* the verification request is one the property promises success for *)
Definition positive (i : input) (signed : descr) (an : string) : bool :=
  i_trusted i && submap (i_vmeta i) (d_anns signed)
  && match i_target i, i_vtarget i with
     | TOCI _, TOCI vd => content_equal signed vd
     | TBlob _ _ _, TBlob vb vmt vmt_ok =>
         negb (b_readerr vb)
         && String.eqb (blob_digest vb an) (d_digest signed) && (b_size vb =? d_size signed)%Z
         && ((vmt =? "") || (String.eqb vmt (d_mt signed) && vmt_ok))
     | _, _ => false
     end.

Definition spec_ok (i : input) (o : obs) : bool :=
  if negb (legal i) then true
  else match spec_row (i_ks i) spec_table with
  | None => true
  | Some (kn, a, hn, an) =>
    let signed := expected_signed i an in
    let secs := (i_dur i / second)%Z in
    (o_sign o =? 0)%N
    && opt_eqb String.eqb (o_shash o) (if is_blob (i_target i) then Some an else None)
    && match i_signer i with
       | Plug true _ _ => opt_eqb pair_eqb (o_plugsig o) (Some (kn, hn))
       | Plug false _ _ => opt_eqb Z.eqb (o_plugenv o) (Some secs)
       | Local => true
       end
    && match o_env o with
       | None => false
       | Some s =>
           alg_eqb (s_alg s) a && (s_ctype s =? mt_payload)
           && list_eqb String.eqb (s_top s) ["targetArtifact"]
           && list_eqb String.eqb (s_tgt s) (expected_keys i)
           && opt_eqb descr_eqb (s_payload s) (Some signed)
           && opt_eqb Z.eqb (s_expiry s) (if (secs =? 0)%Z then None else Some (s_time s + secs)%Z)
       end
    && (if positive i signed an then
          (o_verify o =? 0)%N
          && opt_eqb descr_eqb (o_ret o)
               (Some (match i_vtarget i with TOCI vd => vd | _ => signed end))
          && opt_eqb amap_eqb (o_meta o) (Some (d_anns signed))
          && opt_eqb String.eqb (o_vhash o) (if is_blob (i_target i) then Some an else None)
        else
          negb (o_verify o =? 0)%N
          && match o_ret o with None => true | Some _ => false end
          && match o_meta o with None => true | Some _ => false end)
  end.

(* ===================== 8. cases ===================== *)

Record case := mk_case { c_id : N; c_in : input; c_obs : obs }.

(* footprint 1: the KNOWN JWS number defect — an OCI descriptor whose size does
   not survive float64, signed into a JWS envelope, and the implementation did
   exactly what the faithful model of that defect predicts. Anything else
   (another input class, or a deviation from the model on such an input) has
   footprint 0 and is reported. *)
Definition fp (c : case) : N :=
  match i_target (c_in c) with
  | TOCI d =>
      if (i_format (c_in c) =? mt_jws) && negb (jws_number (d_size d) =? d_size d)%Z
         && obs_eqb (model (c_in c)) (c_obs c)
      then 1%N else 0%N
  | _ => 0%N
  end.

Definition run : list case -> list (N * N * N) :=
  run_cases c_id (fun c => obs_eqb (model (c_in c)) (c_obs c)) (fun c => spec_ok (c_in c) (c_obs c)) fp.
