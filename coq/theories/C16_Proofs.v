(* C16_Proofs.v — proofs about C16_Model: a plugin name never reaches outside
   <plugin root>/<name>. No axioms. *)
From NV Require Import Base C16_Path C16_Model.
Open Scope string_scope.

(* ------------------------------------------------------------------ *)
(* 1. names                                                            *)

Lemma valid_name_spec n :
  valid_name n = true <->
  single_component n /\ contains_byte bslash n = false /\ contains_byte nul n = false.
Proof.
  unfold valid_name, single_component.
  rewrite negb_true_iff, !orb_false_iff, <- !String.eqb_neq. tauto.
Qed.

Lemma valid_name_plain n : valid_name n = true -> plainb n = true.
Proof. intros H. apply plainb_spec. apply valid_name_spec in H. tauto. Qed.

Lemma valid_name_single n : valid_name n = true -> single_component n.
Proof. intros H. apply valid_name_spec in H. tauto. Qed.

Lemma valid_name_safe n : valid_name n = true -> safe_name n = true.
Proof.
  intros H. unfold safe_name, single_componentb. rewrite (valid_name_plain _ H).
  apply valid_name_spec in H as (_ & _ & ->). reflexivity.
Qed.

Lemma valid_name_nonempty n : valid_name n = true -> n <> "".
Proof. intros H. apply valid_name_single in H. unfold single_component in H. tauto. Qed.

(* what the validation refuses beyond "single component": NUL and backslash *)
Lemma validation_residue n :
  single_component n -> valid_name n = false ->
  contains_byte bslash n = true \/ contains_byte nul n = true.
Proof.
  intros S V.
  destruct (contains_byte bslash n) eqn:E1; [now left|].
  destruct (contains_byte nul n) eqn:E2; [now right|].
  exfalso. assert (valid_name n = true) by (apply valid_name_spec; tauto). congruence.
Qed.

(* ------------------------------------------------------------------ *)
(* 2. the two paths built from a valid name                            *)

Lemma bin_prefix_plain : plainb bin_prefix = true.
Proof. reflexivity. Qed.

Lemma bin_name_plain n : plainb n = true -> plainb (bin_name n) = true.
Proof.
  intros H. unfold bin_name. apply plainb_prefixed; [exact bin_prefix_plain|].
  now apply plainb_no_slash.
Qed.

Lemma child_path_not_root d n : n <> "" -> child_path d n <> "/".
Proof.
  intros N. unfold child_path. destruct (String.eqb d "/").
  - cbn. intros E. inversion E. congruence.
  - destruct d as [|c d]; cbn.
    + intros E. inversion E. congruence.
    + intros E. inversion E as [[E1 E2]]. destruct d; cbn in E2; discriminate.
Qed.

Lemma allowed_not_root root n : n <> "" -> allowed root n <> "/".
Proof. apply child_path_not_root. Qed.

(* SysPath(name) *)
Lemma dir_path root n :
  is_abs root = true -> valid_name n = true -> pjoin [root; n] = allowed root n.
Proof. intros A V. apply pjoin_single; [exact A | now apply valid_name_plain]. Qed.

(* SysPath(path.Join(name, binName(name))) *)
Lemma bin_path root n :
  is_abs root = true -> valid_name n = true ->
  pjoin [root; pjoin [n; bin_name n]] = child_path (allowed root n) (bin_name n).
Proof.
  intros A V. pose proof (valid_name_plain _ V) as P.
  pose proof (bin_name_plain _ P) as PB.
  rewrite (pjoin_rel2 _ _ P PB).
  change (n ++ "/" ++ bin_name n) with (join_slash [n; bin_name n]).
  rewrite pjoin_root_plain; [|exact A|discriminate|repeat constructor; assumption].
  change [n; bin_name n] with ([n] ++ [bin_name n])%list. rewrite app_assoc.
  assert (F : Forall (fun c => plainb c = true) (rev (root_stack root))).
  { apply Forall_rev, root_stack_plain. }
  rewrite render_snoc by (apply Forall_app; split; [exact F | now constructor]).
  rewrite render_snoc by exact F.
  unfold allowed. rewrite (clean_abs _ A). reflexivity.
Qed.

Lemma within_allowed_bin root n :
  valid_name n = true ->
  withinb (allowed root n) (child_path (allowed root n) (bin_name n)) = true.
Proof. intros V. apply withinb_child, allowed_not_root, valid_name_nonempty, V. Qed.

(* ------------------------------------------------------------------ *)
(* 3. file-system frame lemmas                                         *)

Lemma lookup_remove_all a q w :
  fs_lookup q (fs_remove_all a w) = if withinb a q then None else fs_lookup q w.
Proof.
  unfold fs_remove_all. induction w as [|[p n] w IH]; cbn.
  - now destruct (withinb a q).
  - destruct (withinb a p) eqn:Wp; cbn.
    + rewrite IH. destruct (String.eqb q p) eqn:E; [|reflexivity].
      apply String.eqb_eq in E. subst. now rewrite Wp.
    + destruct (String.eqb q p) eqn:E.
      * apply String.eqb_eq in E. subst. now rewrite Wp.
      * exact IH.
Qed.

Lemma lookup_filter_ne p q w :
  q <> p -> fs_lookup q (filter (fun e => negb (String.eqb (fst e) p)) w) = fs_lookup q w.
Proof.
  intros N. induction w as [|[r n] w IH]; cbn; [reflexivity|].
  destruct (String.eqb r p) eqn:E; cbn.
  - apply String.eqb_eq in E. subst. rewrite IH.
    destruct (String.eqb q p) eqn:E2; [apply String.eqb_eq in E2; congruence | reflexivity].
  - now rewrite IH.
Qed.

Lemma lookup_set p n q w :
  fs_lookup q (fs_set p n w) = if String.eqb q p then Some n else fs_lookup q w.
Proof.
  unfold fs_set. cbn. destruct (String.eqb q p) eqn:E; [reflexivity|].
  apply lookup_filter_ne. now apply String.eqb_neq.
Qed.

Lemma mkdirs_frame ps : forall w b w',
  mkdirs w ps = (b, w') ->
  forall q, fs_lookup q w' = fs_lookup q w
            \/ (fs_lookup q w = None /\ fs_lookup q w' = Some NDir /\ In q ps).
Proof.
  induction ps as [|p r IH]; intros w b w' H q; cbn in H.
  - inversion H. now left.
  - destruct (fs_lookup p w) as [[|x m]|] eqn:L.
    + destruct (IH _ _ _ H q) as [E | (E1 & E2 & E3)]; [now left | right; cbn; tauto].
    + inversion H. now left.
    + destruct (IH _ _ _ H q) as [E | (E1 & E2 & E3)].
      * cbn in E. destruct (String.eqb q p) eqn:Q.
        -- apply String.eqb_eq in Q. subst q. right. cbn. tauto.
        -- now left.
      * cbn in E1. destruct (String.eqb q p) eqn:Q; [discriminate|].
        right. cbn. tauto.
Qed.

Lemma in_lookup_some p n w : In (p, n) w -> fs_lookup p w <> None.
Proof.
  induction w as [|[q m] w IH]; cbn; [tauto|].
  intros [E | H].
  - inversion E. subst. now rewrite string_eqb_refl.
  - destruct (String.eqb p q); [discriminate | now apply IH].
Qed.

(* ------------------------------------------------------------------ *)
(* 4. steps: effects inside, file system framed                        *)

Definition log_inside (a src : option string) (l : list eff) : Prop :=
  Forall (fun e => insideb a src (eff_path e) = true) l.

(* outside [a] and [src] the file system is unchanged, except that missing
   ancestor directories of [a] may have been created *)
Definition frame (a src : option string) (w w' : fs) : Prop :=
  forall q,
    fs_lookup q w' = fs_lookup q w
    \/ insideb a src q = true
    \/ (exists a0, a = Some a0 /\ fs_lookup q w = None /\ fs_lookup q w' = Some NDir
                   /\ In q (prefixes a0)).

Definition ok_step (a src : option string) (w w' : fs) (l : list eff) : Prop :=
  log_inside a src l /\ frame a src w w' /\ (existsb mutating l = false -> w' = w).

Lemma frame_refl a src w : frame a src w w.
Proof. intros q. now left. Qed.

Lemma frame_trans a src w1 w2 w3 :
  frame a src w1 w2 -> frame a src w2 w3 -> frame a src w1 w3.
Proof.
  intros F1 F2 q. destruct (F2 q) as [E2 | [I2 | (a0 & Ea & N2 & D2 & P2)]];
    destruct (F1 q) as [E1 | [I1 | (a1 & Ea1 & N1 & D1 & P1)]]; auto.
  - left. congruence.
  - right. right. exists a1. rewrite E2. auto.
  - right. right. exists a0. rewrite <- E1. auto.
  - congruence.
Qed.

Lemma ok_refl a src w l : log_inside a src l -> ok_step a src w w l.
Proof. intros H. split; [exact H | split; [apply frame_refl | reflexivity]]. Qed.

Lemma ok_nil a src w : ok_step a src w w [].
Proof. apply ok_refl. constructor. Qed.

Lemma ok_app a src w1 w2 w3 l1 l2 :
  ok_step a src w1 w2 l1 -> ok_step a src w2 w3 l2 -> ok_step a src w1 w3 (l1 ++ l2).
Proof.
  intros (L1 & F1 & M1) (L2 & F2 & M2). split; [|split].
  - apply Forall_app. now split.
  - eapply frame_trans; eauto.
  - rewrite existsb_app, orb_false_iff. intros [H1 H2]. rewrite (M2 H2). now apply M1.
Qed.

Lemma ok_cons a src w1 w2 e l :
  insideb a src (eff_path e) = true -> mutating e = false ->
  ok_step a src w1 w2 l -> ok_step a src w1 w2 (e :: l).
Proof.
  intros I M S. change (e :: l) with ([e] ++ l)%list.
  eapply ok_app; [|exact S]. apply ok_refl. now constructor.
Qed.

(* weakening: more is allowed *)
Lemma insideb_weaken_a a src q : insideb None src q = true -> insideb a src q = true.
Proof.
  unfold insideb. cbn. intros ->. apply orb_true_r.
Qed.

Lemma ok_weaken a src w w' l : ok_step None src w w' l -> ok_step a src w w' l.
Proof.
  intros (L & F & M). split; [|split; [|exact M]].
  - eapply Forall_impl; [|exact L]. intros e. apply insideb_weaken_a.
  - intros q. destruct (F q) as [E | [I | (a0 & Ea & _)]]; [now left | | discriminate].
    right. left. now apply insideb_weaken_a.
Qed.

Lemma inside_a a src q : withinb a q = true -> insideb (Some a) src q = true.
Proof. unfold insideb. now intros ->. Qed.

Lemma inside_src a s q : withinb s q = true -> insideb a (Some s) q = true.
Proof. unfold insideb. intros ->. apply orb_true_r. Qed.

(* ------------------------------------------------------------------ *)
(* 5. Get, GetMetadata, Uninstall, the verifier's lookup               *)

Lemma get_invalid w root n : valid_name n = false -> get w root n = (EInvalid, None, []).
Proof. intros V. unfold get. now rewrite V. Qed.

Lemma get_valid w root n :
  is_abs root = true -> valid_name n = true ->
  let b := child_path (allowed root n) (bin_name n) in
  get w root n = (ENone, Some b, [EStat b])
  \/ exists e, e <> EInvalid /\ e <> ENone /\ e <> EEmpty /\ get w root n = (e, None, [EStat b]).
Proof.
  intros A V b. unfold get. rewrite V. cbn [negb]. rewrite (bin_path _ _ A V). fold b.
  destruct (stat w b) as [| |[|x m]].
  - right. exists ENotExist. repeat split; discriminate.
  - right. exists EOther. repeat split; discriminate.
  - right. exists EOther. repeat split; discriminate.
  - now left.
Qed.

Lemma get_meta_invalid w root n :
  valid_name n = false -> get_meta w root n = mk_out EInvalid MNone w [] [].
Proof. intros V. unfold get_meta. now rewrite (get_invalid _ _ _ V). Qed.

Lemma get_meta_valid w root n :
  is_abs root = true -> valid_name n = true ->
  let b := child_path (allowed root n) (bin_name n) in
  let r := get_meta w root n in
  r_fs r = w /\ r_err r <> EInvalid /\ r_err r <> EEmpty
  /\ (r_log r = [EStat b] \/ exists ran, r_log r = [EStat b; EExec b ran]).
Proof.
  intros A V b r. unfold r, get_meta.
  destruct (get_valid w root n A V) as [-> | (e & N1 & N2 & N3 & ->)]; fold b.
  - destruct (run_meta w b n) as [m ran]. cbn. repeat split; try discriminate.
    right. now exists ran.
  - destruct e; cbn; try congruence; repeat split; auto.
Qed.

Lemma uninstall_invalid w root n :
  valid_name n = false -> uninstall w root n = (EInvalid, w, []).
Proof. intros V. unfold uninstall. now rewrite V. Qed.

Lemma uninstall_valid w root n :
  is_abs root = true -> valid_name n = true ->
  let a := allowed root n in
  uninstall w root n = (ENone, fs_remove_all a w, [EStat a; ERemoveAll a])
  \/ exists e, e <> EInvalid /\ e <> ENone /\ e <> EEmpty /\ uninstall w root n = (e, w, [EStat a]).
Proof.
  intros A V a. unfold uninstall. rewrite V. cbn [negb]. rewrite (dir_path _ _ A V). fold a.
  destruct (stat w a) as [| |nd].
  - right. exists ENotExist. repeat split; discriminate.
  - right. exists EOther. repeat split; discriminate.
  - now left.
Qed.

Lemma frame_remove_all a src w : frame (Some a) src w (fs_remove_all a w).
Proof.
  intros q. rewrite lookup_remove_all. destruct (withinb a q) eqn:W.
  - right. left. now apply inside_a.
  - now left.
Qed.

Lemma uninstall_ok_step w root n src :
  is_abs root = true -> valid_name n = true ->
  let '(e, w', l) := uninstall w root n in
  ok_step (Some (allowed root n)) src w w' l /\ e <> EInvalid /\ e <> EEmpty.
Proof.
  intros A V. set (a := allowed root n).
  assert (Ia : insideb (Some a) src a = true) by (apply inside_a, withinb_refl).
  destruct (uninstall_valid w root n A V) as [-> | (e & N1 & N2 & N3 & ->)]; fold a.
  - split; [|split; discriminate]. split; [|split].
    + repeat constructor; exact Ia.
    + apply frame_remove_all.
    + cbn. discriminate.
  - split; [|now split]. apply ok_refl. repeat constructor. exact Ia.
Qed.

Lemma get_ok_step w root n src :
  is_abs root = true -> valid_name n = true ->
  let '(e, p, l) := get w root n in
  ok_step (Some (allowed root n)) src w w l /\ e <> EInvalid /\ e <> EEmpty
  /\ (forall q, p = Some q -> q = child_path (allowed root n) (bin_name n))
  /\ (e = ENone -> p <> None).
Proof.
  intros A V. set (b := child_path (allowed root n) (bin_name n)).
  assert (Ib : insideb (Some (allowed root n)) src b = true)
    by (apply inside_a, within_allowed_bin, V).
  destruct (get_valid w root n A V) as [-> | (e & N1 & N2 & N3 & ->)]; fold b.
  - split; [apply ok_refl; repeat constructor; exact Ib|].
    repeat split; try discriminate. intros q E. now inversion E.
  - split; [apply ok_refl; repeat constructor; exact Ib|].
    repeat split; auto; try discriminate.
Qed.

(* the three operations that take a caller-supplied name *)
Definition name_op (i : input) (name : string) : Prop :=
  i_op i = OGet name \/ i_op i = OUninstall name \/ i_op i = OVerify name.

Lemma verify_lookup_blank w root n :
  all_space n = true -> verify_lookup w root n = mk_out EEmpty MNone w [] [].
Proof. intros H. unfold verify_lookup, verify_calls. now rewrite H. Qed.

Lemma verify_lookup_nonblank w root n :
  all_space n = false ->
  verify_lookup w root n =
  let r := get_meta w root n in mk_out (r_err r) MNone (r_fs r) (r_log r) [].
Proof. intros H. unfold verify_lookup, verify_calls. now rewrite H. Qed.

(* the full fragment: nothing happens, or it is the lookup of the attribute's value *)
Lemma verify_x_str w root s : verify_x w root (VStr s) false true = verify_lookup w root s.
Proof.
  unfold verify_x, verify_plan, verify_lookup, verify_calls. now destruct (all_space s).
Qed.

Lemma verify_x_reduces w root a mb pm :
  (verify_x w root a mb pm = mk_out (fst (verify_plan a mb pm)) MNone w [] []
   /\ snd (verify_plan a mb pm) = []
   /\ (fst (verify_plan a mb pm) = ENone <-> a = VAbsent))
  \/ (exists s, a = VStr s /\ mb = false /\ pm = true /\ all_space s = false
                /\ snd (verify_plan a mb pm) = [CGet s]
                /\ verify_x w root a mb pm = verify_lookup w root s).
Proof.
  destruct a as [|s| |s].
  - left. cbn. repeat split; auto.
  - left. cbn. repeat split; auto; discriminate.
  - left. cbn. repeat split; auto; discriminate.
  - destruct (all_space s) eqn:SP.
    + left. unfold verify_x, verify_plan. rewrite SP. cbn. repeat split; auto; discriminate.
    + destruct mb.
      * left. unfold verify_x, verify_plan. rewrite SP. cbn. repeat split; auto; discriminate.
      * destruct pm.
        -- right. exists s. repeat split; auto.
           ++ unfold verify_plan. now rewrite SP.
           ++ apply verify_x_str.
        -- left. unfold verify_x, verify_plan. rewrite SP. cbn. repeat split; auto; discriminate.
Qed.

(* the input with the same world and root and another operation *)
Definition with_op (i : input) (o : op) : input :=
  mk_input (i_world i) (i_extra i) (i_root i) o.

Lemma exec_verify_x_as_verify i s t :
  i_op i = OVerifyX (VStr s) false true t ->
  exec_op i = exec_op (with_op i (OVerify s)).
Proof. intros O. unfold exec_op. rewrite O. cbn. apply verify_x_str. Qed.

(* C16_contained, rejected half *)
Lemma name_op_invalid i name :
  name_op i name -> valid_name name = false ->
  let r := exec_op i in
  (r_err r = EInvalid \/ r_err r = EEmpty) /\ r_log r = [] /\ r_fs r = world i.
Proof.
  intros [H | [H | H]] V; unfold exec_op; rewrite H.
  - rewrite (get_meta_invalid _ _ _ V). cbn. auto.
  - rewrite (uninstall_invalid _ _ _ V). cbn. auto.
  - destruct (all_space name) eqn:S.
    + rewrite (verify_lookup_blank _ _ _ S). cbn. auto.
    + rewrite (verify_lookup_nonblank _ _ _ S), (get_meta_invalid _ _ _ V). cbn. auto.
Qed.

Lemma name_op_step i name :
  is_abs (i_root i) = true -> name_op i name -> valid_name name = true ->
  let r := exec_op i in
  ok_step (Some (allowed (i_root i) name)) None (world i) (r_fs r) (r_log r)
  /\ r_err r <> EInvalid
  /\ (r_err r = EEmpty -> i_op i = OVerify name /\ all_space name = true /\ r_log r = []
                          /\ r_fs r = world i).
Proof.
  intros A H V. set (a := allowed (i_root i) name).
  set (b := child_path a (bin_name name)).
  assert (Ib : insideb (Some a) None b = true) by (apply inside_a, within_allowed_bin, V).
  assert (GM : forall w, let r := get_meta w (i_root i) name in
             ok_step (Some a) None w (r_fs r) (r_log r) /\ r_err r <> EInvalid /\ r_err r <> EEmpty).
  { intros w. destruct (get_meta_valid w (i_root i) name A V) as (F & N1 & N2 & L).
    fold a b in L. cbn. rewrite F. split; [|now split]. apply ok_refl.
    destruct L as [-> | [ran ->]]; repeat constructor; exact Ib. }
  destruct H as [H | [H | H]]; unfold exec_op; rewrite H.
  - destruct (GM (world i)) as (S & N1 & N2). split; [exact S|]. split; [exact N1|].
    intros E. congruence.
  - pose proof (uninstall_ok_step (world i) (i_root i) name None A V) as U.
    destruct (uninstall (world i) (i_root i) name) as [[e w'] l]. cbn.
    destruct U as (S & N1 & N2). split; [exact S|]. split; [exact N1|]. intros E. congruence.
  - destruct (all_space name) eqn:SP.
    + rewrite (verify_lookup_blank _ _ _ SP). cbn. split; [apply ok_nil|].
      split; [discriminate|]. auto.
    + rewrite (verify_lookup_nonblank _ _ _ SP). cbn.
      destruct (GM (world i)) as (S & N1 & N2). split; [exact S|]. split; [exact N1|].
      intros E. congruence.
Qed.

Lemma frame_outside a w w' :
  frame (Some a) None w w' ->
  forall q, withinb a q = false -> ~ In q (prefixes a) -> fs_lookup q w' = fs_lookup q w.
Proof.
  intros F q W NP. destruct (F q) as [E | [I | (a0 & Ea & _ & _ & P)]]; [exact E | |].
  - unfold insideb in I. rewrite W in I. discriminate.
  - inversion Ea. subst. contradiction.
Qed.

(* C16_contained, accepted half *)
Lemma name_op_valid i name :
  is_abs (i_root i) = true -> name_op i name -> valid_name name = true ->
  let r := exec_op i in
  let a := allowed (i_root i) name in
  single_component name /\ contains_byte nul name = false
  /\ Forall (fun e => withinb a (eff_path e) = true) (r_log r)
  /\ (forall q, withinb a q = false -> fs_lookup q (r_fs r) = fs_lookup q (world i)).
Proof.
  intros A H V r a. destruct (name_op_step i name A H V) as ((L & F & _) & _).
  fold r a in L, F.
  split; [now apply valid_name_single|]. split; [apply valid_name_spec in V; tauto|]. split.
  - eapply Forall_impl; [|exact L]. intros e I. unfold insideb in I.
    now rewrite orb_false_r in I.
  - intros q W. destruct (F q) as [E | [I | (a0 & Ea & N & D & P)]]; [exact E | |].
    + unfold insideb in I. rewrite W in I. discriminate.
    + (* no directory is created by these operations *)
      exfalso. destruct H as [H | [H | H]]; unfold r, exec_op in D, N; rewrite H in D.
      * destruct (get_meta_valid (world i) (i_root i) name A V) as (Fs & _). rewrite Fs in D. congruence.
      * destruct (uninstall_valid (world i) (i_root i) name A V) as [U | (e & _ & _ & _ & U)];
          rewrite U in D; cbn in D; [|congruence].
        rewrite lookup_remove_all in D. destruct (withinb (allowed (i_root i) name) q); congruence.
      * destruct (all_space name) eqn:SP.
        -- rewrite (verify_lookup_blank _ _ _ SP) in D. cbn in D. congruence.
        -- rewrite (verify_lookup_nonblank _ _ _ SP) in D. cbn in D.
           destruct (get_meta_valid (world i) (i_root i) name A V) as (Fs & _). rewrite Fs in D. congruence.
Qed.

(* what is executed is exactly <root>/<name>/notation-<name> *)
Ltac in_cases H :=
  cbn in H;
  repeat match type of H with _ \/ _ => destruct H as [H | H] end;
  try contradiction; try discriminate H.

Lemma name_op_exec i name p ran :
  is_abs (i_root i) = true -> name_op i name -> valid_name name = true ->
  In (EExec p ran) (r_log (exec_op i)) ->
  p = child_path (allowed (i_root i) name) (bin_name name).
Proof.
  intros A H V. set (b := child_path (allowed (i_root i) name) (bin_name name)).
  assert (GM : forall w, In (EExec p ran) (r_log (get_meta w (i_root i) name)) -> p = b).
  { intros w. destruct (get_meta_valid w (i_root i) name A V) as (_ & _ & _ & L). fold b in L.
    destruct L as [-> | [r0 ->]]; intros HI; in_cases HI. now inversion HI. }
  destruct H as [H | [H | H]]; unfold exec_op; rewrite H.
  - apply GM.
  - destruct (uninstall_valid (world i) (i_root i) name A V) as [U | (e & _ & _ & _ & U)];
      rewrite U; intros HI; in_cases HI.
  - destruct (all_space name) eqn:SP.
    + rewrite (verify_lookup_blank _ _ _ SP). cbn. tauto.
    + rewrite (verify_lookup_nonblank _ _ _ SP). cbn. apply GM.
Qed.

(* ------------------------------------------------------------------ *)
(* 6. Install                                                          *)

Lemma frame_set a src p n w :
  insideb a src p = true -> frame a src w (fs_set p n w).
Proof.
  intros I q. rewrite lookup_set. destruct (String.eqb q p) eqn:E.
  - apply String.eqb_eq in E. subst. now right; left.
  - now left.
Qed.

Lemma copy_to_dir_step a s w file :
  a <> "/" -> withinb s file = true ->
  let '(o, w', l) := copy_to_dir w file a in ok_step (Some a) (Some s) w w' l.
Proof.
  intros NA WF. unfold copy_to_dir.
  assert (If : insideb (Some a) (Some s) file = true) by now apply inside_src.
  assert (Ia : insideb (Some a) (Some s) a = true) by apply inside_a, withinb_refl.
  destruct (stat w file) as [| |[|x m]];
    try (apply ok_refl; repeat constructor; exact If).
  unfold mkdir_all. destruct (mkdirs w (prefixes a)) as [b w1] eqn:M.
  assert (F1 : frame (Some a) (Some s) w w1).
  { intros q. destruct (mkdirs_frame _ _ _ _ M q) as [E | (E1 & E2 & E3)]; [now left|].
    right. right. exists a. auto. }
  destruct b.
  - set (t := child_path a (base_name file)).
    assert (It : insideb (Some a) (Some s) t = true) by (apply inside_a, withinb_child, NA).
    split; [|split].
    + repeat constructor; assumption.
    + eapply frame_trans; [exact F1 | now apply frame_set].
    + cbn. discriminate.
  - split; [|split].
    + repeat constructor; assumption.
    + exact F1.
    + cbn. discriminate.
Qed.

Lemma copy_files_step a s es : forall w,
  a <> "/" -> s <> "/" ->
  let '(o, w', l) := copy_files w s es a in ok_step (Some a) (Some s) w w' l.
Proof.
  induction es as [|[c [|x m]] r IH]; intros w NA NS; cbn.
  - apply ok_nil.
  - now apply IH.
  - pose proof (copy_to_dir_step a s w (child_path s c) NA (withinb_child s c NS)) as C.
    destruct (copy_to_dir w (child_path s c) a) as [[o1 w1] l1].
    destruct o1; [|exact C].
    pose proof (IH w1 NA NS) as R.
    destruct (copy_files w1 s r a) as [[o2 w2] l2].
    eapply ok_app; eauto.
Qed.

Lemma copy_dir_to_dir_step a s w :
  a <> "/" -> s <> "/" ->
  let '(o, w', l) := copy_dir_to_dir w s a in ok_step (Some a) (Some s) w w' l.
Proof.
  intros NA NS. unfold copy_dir_to_dir.
  pose proof (copy_files_step a s (children w s) w NA NS) as C.
  destruct (copy_files w s (children w s) a) as [[o w1] l].
  assert (Is : insideb (Some a) (Some s) s = true) by apply inside_src, withinb_refl.
  apply ok_cons; [exact Is | reflexivity|]. apply ok_cons; [exact Is | reflexivity|]. exact C.
Qed.

(* --- parsePluginFromDir --- *)
Definition cand_names (es : list (string * node)) : list string :=
  flat_map (fun e => match snd e, parse_plugin_name (fst e) with
                     | NFile _ _, Some n => [n] | _, _ => [] end) es.

Record scan_inv (s : string) (all : list (string * node)) (st : scan) : Prop := {
  si_log : log_inside None (Some s) (sc_log st);
  si_pure : existsb mutating (sc_log st) = false;
  si_files : Forall (fun p => withinb s p = true) (sc_files st);
  si_found : sc_found st = true ->
             withinb s (sc_file st) = true /\ In (sc_name st) (cand_names all);
  si_cand : sc_files st <> [] -> In (sc_cand st) (cand_names all) }.

Lemma fold_scan_none s es : fold_left (scan_step s) es None = None.
Proof. induction es; cbn; auto. Qed.

Lemma scan_fold s all : s <> "/" -> forall es st st',
  incl es all -> scan_inv s all st ->
  fold_left (scan_step s) es (Some st) = Some st' -> scan_inv s all st'.
Proof.
  intros NS. induction es as [|[c n] es IH]; intros st st' I Inv H; cbn in H.
  - inversion H; subst; exact Inv.
  - assert (Ies : incl es all) by (intros x Hx; apply I; now right).
    assert (Ic : In (c, n) all) by (apply I; now left).
    destruct n as [|x m]; [eapply IH; eauto|].
    cbn [snd fst] in H.
    destruct (parse_plugin_name c) as [nm|] eqn:P; [|eapply IH; eauto].
    assert (Inm : In nm (cand_names all)).
    { unfold cand_names. apply in_flat_map. exists (c, NFile x m). split; [exact Ic|].
      cbn. rewrite P. now left. }
    assert (Wp : withinb s (child_path s c) = true) by now apply withinb_child.
    assert (Ip : insideb None (Some s) (child_path s c) = true) by now apply inside_src.
    destruct Inv as [L Pu Fi Fo Ca].
    destruct x; cbn [negb] in H.
    + destruct (sc_found st) eqn:Fd; [now rewrite fold_scan_none in H|].
      eapply IH; [exact Ies | | exact H]. constructor; cbn.
      * apply Forall_app. split; [exact L | repeat constructor; exact Ip].
      * rewrite existsb_app, Pu. reflexivity.
      * apply Forall_app. split; [exact Fi | repeat constructor; exact Wp].
      * auto.
      * auto.
    + eapply IH; [exact Ies | | exact H]. constructor; cbn.
      * apply Forall_app. split; [exact L | repeat constructor; exact Ip].
      * rewrite existsb_app, Pu. reflexivity.
      * apply Forall_app. split; [exact Fi | repeat constructor; exact Wp].
      * exact Fo.
      * auto.
Qed.

Lemma scan0_inv s all : scan_inv s all scan0.
Proof.
  constructor; cbn; try constructor; try discriminate. congruence.
Qed.

Lemma parse_dir_step w s :
  s <> "/" ->
  match parse_dir w s with
  | (None, l) => log_inside None (Some s) l /\ existsb mutating l = false
  | (Some (file, name, w1), l) =>
      ok_step None (Some s) w w1 l /\ withinb s file = true
      /\ In name (cand_names (children w s))
  end.
Proof.
  intros NS. unfold parse_dir.
  assert (Is : insideb None (Some s) s = true) by apply inside_src, withinb_refl.
  destruct (fold_left (scan_step s) (children w s) (Some scan0)) as [st|] eqn:F.
  - pose proof (scan_fold s (children w s) NS _ _ _ (incl_refl _) (scan0_inv _ _) F)
      as [L Pu Fi Fo Ca].
    destruct (sc_found st) eqn:Fd.
    + destruct (Fo eq_refl) as [Wf Inm]. split; [|now split].
      apply ok_refl. constructor; [exact Is | exact L].
    + destruct (sc_files st) as [|cand [|c2 r]] eqn:Fs.
      * split; [constructor; [exact Is | exact L] | cbn; exact Pu].
      * inversion Fi as [|? ? Wc _]; subst.
        assert (Ic : insideb None (Some s) cand = true) by now apply inside_src.
        destruct (fs_lookup cand w) as [[|x m]|].
        -- split.
           ++ constructor; [exact Is|]. apply Forall_app. split; [exact L | repeat constructor; exact Ic].
           ++ cbn. rewrite existsb_app, Pu. reflexivity.
        -- split; [|split; [exact Wc | apply Ca; discriminate]].
           split; [|split].
           ++ constructor; [exact Is|]. apply Forall_app. split; [exact L|].
              repeat constructor; exact Ic.
           ++ now apply frame_set.
           ++ cbn. rewrite existsb_app. cbn. rewrite orb_true_r. discriminate.
        -- split.
           ++ constructor; [exact Is|]. apply Forall_app. split; [exact L | repeat constructor; exact Ic].
           ++ cbn. rewrite existsb_app, Pu. reflexivity.
      * split; [constructor; [exact Is | exact L] | cbn; exact Pu].
  - split; [repeat constructor; exact Is | reflexivity].
Qed.

(* --- the version rules --- *)
Lemma verdict_invalid w root n newv ow :
  valid_name n = false ->
  install_verdict w root n newv ow = (if ow then None else Some EInvalid, []).
Proof.
  intros V. unfold install_verdict. rewrite (get_invalid _ _ _ V). cbn. now destruct ow.
Qed.

Lemma verdict_valid w root n newv ow src :
  is_abs root = true -> valid_name n = true ->
  let '(v, l) := install_verdict w root n newv ow in
  ok_step (Some (allowed root n)) src w w l /\ v <> Some EInvalid /\ v <> Some ENone.
Proof.
  intros A V. unfold install_verdict.
  pose proof (get_ok_step w root n src A V) as G.
  destruct (get w root n) as [[ge gp] glog]. destruct G as (S & N1 & N2 & P & NN).
  assert (Ib : forall q, gp = Some q -> insideb (Some (allowed root n)) src q = true).
  { intros q E. rewrite (P q E). apply inside_a, within_allowed_bin, V. }
  assert (D : forall e, e <> EInvalid -> e <> ENone ->
     let '(v, l) := (if negb (is_not_exist e) && negb ow then (Some e, glog) else (None, glog)) in
     ok_step (Some (allowed root n)) src w w l /\ v <> Some EInvalid /\ v <> Some ENone).
  { intros e H1 H2. destruct (negb (is_not_exist e) && negb ow); (split; [exact S|]);
      split; congruence. }
  destruct ge; try (apply D; congruence); try congruence.
  destruct gp as [p|].
  - destruct (run_meta w p n) as [om oran].
    assert (S2 : ok_step (Some (allowed root n)) src w w (glog ++ [EExec p oran])).
    { eapply ok_app; [exact S|]. apply ok_refl. repeat constructor. now apply Ib. }
    destruct ow; [cbn; split; [exact S2 | split; discriminate]|].
    destruct om as [|oldv|]; try (cbn; split; [exact S2 | split; discriminate]).
    destruct (newv ?= oldv)%N; cbn; (split; [exact S2 | split; discriminate]).
  - exfalso. now apply NN.
Qed.

(* --- clean up and copy --- *)
Lemma finish_invalid w root n file src ff :
  valid_name n = false ->
  install_finish w root n file src ff = mk_out EInvalid MNone w [] [].
Proof. intros V. unfold install_finish. now rewrite (uninstall_invalid _ _ _ V). Qed.

Lemma finish_valid w root n file s ff :
  is_abs root = true -> valid_name n = true -> s <> "/" -> withinb s file = true ->
  let r := install_finish w root n file s ff in
  ok_step (Some (allowed root n)) (Some s) w (r_fs r) (r_log r) /\ r_err r <> EInvalid.
Proof.
  intros A V NS WF. unfold install_finish.
  pose proof (uninstall_ok_step w root n (Some s) A V) as U.
  destruct (uninstall w root n) as [[ue w2] ulog]. destruct U as (S & N1 & N2).
  assert (NA : allowed root n <> "/") by (apply allowed_not_root, valid_name_nonempty, V).
  assert (C : let '(o, w3, clog) :=
                  (if ff then copy_to_dir w2 file (pjoin [root; n])
                   else copy_dir_to_dir w2 s (pjoin [root; n])) in
              ok_step (Some (allowed root n)) (Some s) w2 w3 clog).
  { rewrite (dir_path _ _ A V). destruct ff.
    - now apply copy_to_dir_step.
    - now apply copy_dir_to_dir_step. }
  destruct ue; try (cbn; split; [exact S | congruence]).
  - destruct (if ff then _ else _) as [[o w3] clog]. cbn. split; [eapply ok_app; eauto|].
    destruct o; discriminate.
  - destruct (if ff then _ else _) as [[o w3] clog]. cbn. split; [eapply ok_app; eauto|].
    destruct o; discriminate.
Qed.

(* --- Install from the metadata check on --- *)
Lemma install_core_valid w0 w root n file s ff ow log :
  is_abs root = true -> valid_name n = true -> s <> "/" -> withinb s file = true ->
  ok_step None (Some s) w0 w log ->
  let r := install_core w root n file s ff ow log in
  ok_step (Some (allowed root n)) (Some s) w0 (r_fs r) (r_log r) /\ r_err r <> EInvalid.
Proof.
  intros A V NS WF S0. unfold install_core.
  destruct (run_meta w file n) as [nm ran].
  set (a := allowed root n).
  assert (If : insideb (Some a) (Some s) file = true) by now apply inside_src.
  assert (S1 : ok_step (Some a) (Some s) w0 w (log ++ [EStat file; EExec file ran])).
  { eapply ok_app; [apply ok_weaken; exact S0|]. apply ok_refl. repeat constructor; exact If. }
  destruct nm as [|newv|]; try (cbn; split; [exact S1 | discriminate]).
  pose proof (verdict_valid w root n newv ow (Some s) A V) as VV.
  destruct (install_verdict w root n newv ow) as [v vlog]. destruct VV as (S2 & N1 & N2).
  destruct v as [e|].
  - cbn. split; [eapply ok_app; eauto | congruence].
  - destruct (finish_valid w root n file s ff A V NS WF) as (S3 & N3). cbn.
    split; [|exact N3]. eapply ok_app; [exact S1|]. eapply ok_app; eauto.
Qed.

Lemma install_core_invalid w0 w root n file s ff ow log :
  valid_name n = false -> withinb s file = true ->
  ok_step None (Some s) w0 w log ->
  let r := install_core w root n file s ff ow log in
  ok_step None (Some s) w0 (r_fs r) (r_log r) /\ r_err r <> ENone.
Proof.
  intros V WF S0. unfold install_core.
  destruct (run_meta w file n) as [nm ran].
  assert (If : insideb None (Some s) file = true) by now apply inside_src.
  assert (S1 : ok_step None (Some s) w0 w (log ++ [EStat file; EExec file ran])).
  { eapply ok_app; [exact S0|]. apply ok_refl. repeat constructor; exact If. }
  destruct nm as [|newv|]; try (cbn; split; [exact S1 | discriminate]).
  rewrite (verdict_invalid _ _ _ _ _ V). destruct ow.
  - rewrite (finish_invalid _ _ _ _ _ _ V). cbn. rewrite !app_nil_r.
    split; [exact S1 | discriminate].
  - cbn. rewrite app_nil_r. split; [exact S1 | discriminate].
Qed.

(* C16_install_contained *)
Lemma install_contained w root s ow :
  is_abs root = true -> s <> "/" ->
  let r := install w root s ow in
  (ok_step None (Some s) w (r_fs r) (r_log r) /\ r_err r <> ENone)
  \/ (exists n, In n (candidates w s) /\ valid_name n = true /\ r_err r <> EInvalid
               /\ ok_step (Some (allowed root n)) (Some s) w (r_fs r) (r_log r)).
Proof.
  intros A NS. unfold install.
  assert (Is : insideb None (Some s) s = true) by apply inside_src, withinb_refl.
  destruct (String.eqb s "") eqn:E0.
  { left. cbn. split; [apply ok_nil | discriminate]. }
  assert (St : ok_step None (Some s) w w [EStat s]) by (apply ok_refl; repeat constructor; exact Is).
  assert (CORE : forall w1 n file ff log,
     In n (candidates w s) -> withinb s file = true -> ok_step None (Some s) w w1 log ->
     let r := install_core w1 root n file s ff ow log in
     (ok_step None (Some s) w (r_fs r) (r_log r) /\ r_err r <> ENone)
     \/ (exists n, In n (candidates w s) /\ valid_name n = true /\ r_err r <> EInvalid
                  /\ ok_step (Some (allowed root n)) (Some s) w (r_fs r) (r_log r))).
  { intros w1 n file ff log Ic WF S. destruct (valid_name n) eqn:V.
    - right. exists n. destruct (install_core_valid w w1 root n file s ff ow log A V NS WF S) as (S2 & N).
      auto.
    - left. now apply install_core_invalid. }
  unfold candidates in CORE |- *.
  destruct (stat w s) as [| |[|x m]] eqn:ST.
  - left. cbn. split; [exact St | discriminate].
  - left. cbn. split; [exact St | discriminate].
  - pose proof (parse_dir_step w s NS) as P.
    destruct (parse_dir w s) as [[[[file n] w1]|] l].
    + destruct P as (S & WF & Ic). apply CORE; [exact Ic | exact WF|].
      change (EStat s :: l) with ([EStat s] ++ l)%list. eapply ok_app; eauto.
    + destruct P as (L & Pu). left. cbn. split; [|discriminate].
      apply ok_refl. constructor; [exact Is | exact L].
  - destruct (parse_plugin_name (base_name s)) as [n|] eqn:P.
    + destruct x; cbn [negb].
      * apply CORE; [now left | apply withinb_refl|].
        apply ok_refl. repeat constructor; exact Is.
      * left. cbn. split; [|discriminate]. apply ok_refl. repeat constructor; exact Is.
    + left. cbn. split; [exact St | discriminate].
Qed.

(* ------------------------------------------------------------------ *)
(* 7. from steps to observations                                       *)

Lemma filter_nil_in {A} (f : A -> bool) l : (forall x, In x l -> f x = false) -> filter f l = [].
Proof.
  induction l as [|x l IH]; intros H; cbn; [reflexivity|].
  rewrite (H x (or_introl eq_refl)). apply IH. intros y Hy. apply H. now right.
Qed.

Lemma node_eqb_refl n : node_eqb n n = true.
Proof.
  destruct n as [|x [[s v]|]]; cbn; auto.
  - now rewrite eqb_reflx, string_eqb_refl, N.eqb_refl.
  - now rewrite eqb_reflx.
Qed.

Lemma node_eqb_eq a b : node_eqb a b = true -> a = b.
Proof.
  destruct a as [|x [[s v]|]], b as [|y [[t u]|]]; cbn; try discriminate; auto.
  - rewrite !andb_true_iff. intros (E1 & E2 & E3).
    apply eqb_prop in E1. apply String.eqb_eq in E2. apply N.eqb_eq in E3. now subst.
  - rewrite andb_true_iff. intros (E1 & E2). discriminate.
  - rewrite andb_true_iff. intros (E1 & E2). discriminate.
  - rewrite andb_true_r. intros E1. apply eqb_prop in E1. now subst.
Qed.

Lemma opt_node_eqb_eq o n : opt_eqb node_eqb o (Some n) = true <-> o = Some n.
Proof.
  destruct o as [m|]; cbn; [|split; discriminate]. split.
  - intros H. apply node_eqb_eq in H. now subst.
  - intros H. inversion H. apply node_eqb_refl.
Qed.

Lemma removed_same w : removed w w = [].
Proof.
  unfold removed. rewrite filter_nil_in; [reflexivity|].
  intros [p n] H. cbn. pose proof (in_lookup_some _ _ _ H). now destruct (fs_lookup p w).
Qed.

Lemma written_same w : written w w = [].
Proof. unfold written. apply filter_nil_in. intros x _. apply andb_negb_r. Qed.

Lemma written_remove_all a w : written w (fs_remove_all a w) = [].
Proof.
  unfold written. apply filter_nil_in. intros x _. rewrite lookup_remove_all.
  destruct (withinb a (fst x)); [reflexivity | apply andb_negb_r].
Qed.

Lemma exec_inside a src l :
  log_inside a src l -> forallb (insideb a src) (ran_paths l) = true.
Proof.
  intros L. apply forallb_forall. intros p H. unfold ran_paths in H.
  apply in_flat_map in H as (e & He & Hp).
  unfold log_inside in L. rewrite Forall_forall in L. specialize (L e He).
  destruct e; cbn in Hp; try contradiction. destruct ran; [|contradiction].
  destruct Hp as [<- | []]. exact L.
Qed.

Lemma removed_inside a src w w' :
  frame a src w w' -> forallb (insideb a src) (removed w w') = true.
Proof.
  intros F. apply forallb_forall. intros p H. unfold removed in H.
  apply in_map_iff in H as ([q n] & <- & H). apply filter_In in H as (Hin & Hn). cbn in *.
  pose proof (in_lookup_some _ _ _ Hin) as NN.
  destruct (F q) as [E | [I | (a0 & _ & _ & D & _)]]; [| exact I |].
  - rewrite E in Hn. now destruct (fs_lookup q w).
  - rewrite D in Hn. discriminate.
Qed.

Lemma mem_str_in x l : In x l -> mem_str x l = true.
Proof.
  intros H. unfold mem_str. apply existsb_exists. exists x. split; [exact H | apply string_eqb_refl].
Qed.

Lemma written_inside a src w w' :
  frame a src w w' ->
  forallb (fun e =>
     insideb a src (fst e)
     || match a with
        | Some a0 => is_dir_node (snd e) && is_none (fs_lookup (fst e) w)
                     && mem_str (fst e) (prefixes a0)
        | None => false
        end) (written w w') = true.
Proof.
  intros F. apply forallb_forall. intros [q n] H. unfold written in H.
  apply filter_In in H as (_ & H). cbn [fst snd] in *.
  apply andb_true_iff in H as (H1 & H2). apply opt_node_eqb_eq in H1.
  apply negb_true_iff in H2.
  destruct (F q) as [E | [I | (a0 & Ea & N & D & P)]].
  - rewrite E in H1. apply opt_node_eqb_eq in H1. congruence.
  - now rewrite I.
  - subst a. rewrite H1 in D. inversion D. subst n. rewrite N. cbn.
    rewrite (mem_str_in _ _ P). apply orb_true_r.
Qed.

Lemma contained_model i a src :
  ok_step a src (world i) (r_fs (exec_op i)) (r_log (exec_op i)) ->
  contained i (model i) a src = true.
Proof.
  intros (L & F & _). unfold contained, model. cbn.
  rewrite (exec_inside _ _ _ L). cbn.
  destruct (existsb mutating (r_log (exec_op i))); cbn; [|reflexivity].
  rewrite (removed_inside _ _ _ _ F). cbn. apply (written_inside _ _ _ _ F).
Qed.

(* without a mutating effect the file system is the initial one *)
Lemma exec_op_pure i :
  wf i = true -> existsb mutating (r_log (exec_op i)) = false -> r_fs (exec_op i) = world i.
Proof.
  unfold wf. rewrite andb_true_iff. intros (A & W) Pu.
  destruct (i_op i) as [name|name|name| |a mb pm tr|s ow|ex es|name] eqn:O.
  1-3: assert (NO : name_op i name) by (unfold name_op; rewrite O; auto);
       destruct (valid_name name) eqn:V;
       [ destruct (name_op_step i name A NO V) as ((_ & _ & M) & _); exact (M Pu)
       | destruct (name_op_invalid i name NO V) as (_ & _ & F); exact F ].
  - unfold exec_op. now rewrite O.
  - destruct (verify_x_reduces (world i) (i_root i) a mb pm)
      as [(E & _) | (s & -> & -> & -> & _ & _ & _)].
    + unfold exec_op. now rewrite O, E.
    + rewrite (exec_verify_x_as_verify i s tr O) in *.
      set (i' := with_op i (OVerify s)) in *.
      assert (NO : name_op i' s) by (right; right; reflexivity).
      change (world i) with (world i').
      destruct (valid_name s) eqn:V.
      * destruct (name_op_step i' s A NO V) as ((_ & _ & M) & _). exact (M Pu).
      * destruct (name_op_invalid i' s NO V) as (_ & _ & F). exact F.
  - rewrite !andb_true_iff, negb_true_iff in W. destruct W as ((_ & _) & NS).
    apply String.eqb_neq in NS.
    pose proof (install_contained (world i) (i_root i) s ow A NS) as IC.
    unfold exec_op in *. rewrite O in *. cbn zeta in IC.
    destruct IC as [((_ & _ & M) & _) | (n & _ & _ & _ & (_ & _ & M))]; now apply M.
  - unfold exec_op. now rewrite O.
  - unfold exec_op. now rewrite O.
Qed.

(* the observed difference is always the difference of the two file systems *)
Lemma model_diff_exact i :
  wf i = true ->
  o_removed (model i) = removed (world i) (r_fs (exec_op i))
  /\ o_written (model i) = written (world i) (r_fs (exec_op i)).
Proof.
  intros W. unfold model. cbn.
  destruct (existsb mutating (r_log (exec_op i))) eqn:M; [now split|].
  rewrite (exec_op_pure i W M). now rewrite removed_same, written_same.
Qed.

(* --- the oracle on the three name operations --- *)
Lemma name_ok_rejected i o isv isu name :
  o_err o = EInvalid -> no_effects o = true -> name_ok i o isv isu name = true.
Proof. intros E N. unfold name_ok. now rewrite E. Qed.

Lemma name_ok_blank i o isu name :
  o_err o = EEmpty -> all_space name = true -> no_effects o = true ->
  name_ok i o true isu name = true.
Proof. intros E S N. unfold name_ok. now rewrite E, S, N. Qed.

Lemma name_ok_accepted i o isv isu name :
  o_err o <> EInvalid -> o_err o <> EEmpty -> safe_name name = true ->
  contained i o (Some (allowed (i_root i) name)) None = true ->
  o_written o = [] -> (isu = true -> o_exec o = []) -> (isu = false -> o_removed o = []) ->
  forallb (String.eqb (child_path (allowed (i_root i) name) (bin_name name))) (o_exec o) = true ->
  name_ok i o isv isu name = true.
Proof.
  intros N1 N2 S C Wr X Y Z. unfold name_ok. rewrite S, C, Wr, Z. cbn.
  destruct (o_err o); try congruence; destruct isu;
    try (now rewrite (X eq_refl)); now rewrite (Y eq_refl).
Qed.

Lemma ran_paths_in l p : In p (ran_paths l) -> exists ran, In (EExec p ran) l.
Proof.
  unfold ran_paths. intros H. apply in_flat_map in H as (e & He & Hp).
  destruct e; cbn in Hp; try contradiction. destruct ran; [|contradiction].
  destruct Hp as [<- | []]. now exists true.
Qed.

Lemma model_exec_exact i name :
  is_abs (i_root i) = true -> name_op i name -> valid_name name = true ->
  forallb (String.eqb (child_path (allowed (i_root i) name) (bin_name name))) (o_exec (model i)) = true.
Proof.
  intros A NO V. apply forallb_forall. intros p H. unfold model in H. cbn in H.
  apply ran_paths_in in H as (ran & H). apply String.eqb_eq. symmetry.
  eapply name_op_exec; eauto.
Qed.

Lemma model_no_effects i :
  r_log (exec_op i) = [] -> no_effects (model i) = true.
Proof. intros L. unfold no_effects, model. cbn. now rewrite L. Qed.

Lemma name_ops_meet_oracle i name isv isu :
  is_abs (i_root i) = true ->
  (i_op i = OGet name /\ isv = false /\ isu = false)
  \/ (i_op i = OUninstall name /\ isv = false /\ isu = true)
  \/ (i_op i = OVerify name /\ isv = true /\ isu = false) ->
  name_ok i (model i) isv isu name = true.
Proof.
  intros A H.
  assert (NO : name_op i name) by (unfold name_op; tauto).
  destruct (valid_name name) eqn:V.
  - destruct (name_op_step i name A NO V) as (S & N1 & N2).
    pose proof (contained_model i _ _ S) as C.
    destruct (err_eqb (r_err (exec_op i)) EEmpty) eqn:EE.
    + assert (E : r_err (exec_op i) = EEmpty) by (destruct (r_err (exec_op i)); now try discriminate).
      destruct (N2 E) as (Ov & Sp & Lg & _).
      destruct H as [(O & _) | [(O & _) | (O & -> & ->)]]; try congruence.
      apply name_ok_blank; [exact E | exact Sp | now apply model_no_effects].
    + assert (E : r_err (exec_op i) <> EEmpty) by (intros E; rewrite E in EE; discriminate).
      apply name_ok_accepted; auto; [now apply valid_name_safe | | | | now apply model_exec_exact].
      * (* nothing is written *)
        unfold model. cbn.
        destruct (existsb mutating (r_log (exec_op i))) eqn:M; [|reflexivity].
        destruct H as [(O & _) | [(O & _) | (O & _)]]; unfold exec_op in *; rewrite O in *.
        -- destruct (get_meta_valid (world i) (i_root i) name A V) as (_ & _ & _ & L).
           destruct L as [L | [ran L]]; rewrite L in M; discriminate.
        -- destruct (uninstall_valid (world i) (i_root i) name A V) as [U | (e & _ & _ & _ & U)];
             rewrite U in *; cbn in *; [apply written_remove_all | discriminate].
        -- destruct (all_space name) eqn:SP.
           ++ rewrite (verify_lookup_blank _ _ _ SP) in M. discriminate.
           ++ rewrite (verify_lookup_nonblank _ _ _ SP) in M. cbn in M.
              destruct (get_meta_valid (world i) (i_root i) name A V) as (_ & _ & _ & L).
              destruct L as [L | [ran L]]; rewrite L in M; discriminate.
      * (* Uninstall executes nothing *)
        intros ->. destruct H as [(O & _ & Hu) | [(O & _ & _) | (O & _ & Hu)]]; try discriminate.
        unfold model, exec_op; rewrite O; cbn.
        destruct (uninstall_valid (world i) (i_root i) name A V) as [U | (e & _ & _ & _ & U)];
          rewrite U; reflexivity.
      * (* Get and Verify remove nothing *)
        intros ->. destruct H as [(O & _ & _) | [(O & _ & Hu) | (O & _ & _)]]; try discriminate;
          unfold model, exec_op; rewrite O; cbn.
        -- destruct (get_meta_valid (world i) (i_root i) name A V) as (_ & _ & _ & L).
           destruct L as [L | [ran L]]; rewrite L; reflexivity.
        -- destruct (all_space name) eqn:SP.
           ++ now rewrite (verify_lookup_blank _ _ _ SP).
           ++ rewrite (verify_lookup_nonblank _ _ _ SP). cbn.
              destruct (get_meta_valid (world i) (i_root i) name A V) as (_ & _ & _ & L).
              destruct L as [L | [ran L]]; rewrite L; reflexivity.
  - destruct (name_op_invalid i name NO V) as (E & L & F).
    pose proof (model_no_effects i L) as NE.
    destruct E as [E | E]; [now apply name_ok_rejected|].
    (* EEmpty: only the verifier, on a blank attribute *)
    destruct H as [(O & _) | [(O & _) | (O & -> & ->)]]; unfold exec_op in E; rewrite O in E.
    + rewrite (get_meta_invalid _ _ _ V) in E. discriminate.
    + rewrite (uninstall_invalid _ _ _ V) in E. discriminate.
    + destruct (all_space name) eqn:SP.
      * apply name_ok_blank; auto. unfold model, exec_op. now rewrite O, (verify_lookup_blank _ _ _ SP).
      * rewrite (verify_lookup_nonblank _ _ _ SP), (get_meta_invalid _ _ _ V) in E. discriminate.
Qed.

(* --- a source that offers no acceptable name --- *)
Lemma parse_valid f n : parse_plugin_name f = Some n -> valid_name n = true.
Proof.
  unfold parse_plugin_name. destruct (cut_prefix bin_prefix f) as [m|]; [|discriminate].
  destruct (valid_name m) eqn:V; [|discriminate]. intros E. inversion E. subst. exact V.
Qed.

Lemma cand_names_valid es n : In n (cand_names es) -> valid_name n = true.
Proof.
  unfold cand_names. intros H. apply in_flat_map in H as ([c nd] & _ & H). cbn in H.
  destruct nd as [|x m]; [contradiction|].
  destruct (parse_plugin_name c) as [k|] eqn:P; [|contradiction].
  destruct H as [<- | []]. eapply parse_valid; eauto.
Qed.

Lemma candidates_valid w s n : In n (candidates w s) -> valid_name n = true.
Proof.
  unfold candidates. destruct (stat w s) as [| |[|x m]]; try contradiction.
  - apply cand_names_valid.
  - destruct (parse_plugin_name (base_name s)) as [k|] eqn:P; [|contradiction].
    intros [<- | []]. eapply parse_valid; eauto.
Qed.

Lemma flat_map_nil {A B} (f : A -> list B) l :
  flat_map f l = [] -> forall x, In x l -> f x = [].
Proof.
  induction l as [|a l IH]; cbn; [tauto|]. intros H x [<- | Hx].
  - now apply app_eq_nil in H.
  - apply IH; [now apply app_eq_nil in H | exact Hx].
Qed.

Lemma scan_no_candidate s es : forall st,
  cand_names es = [] -> fold_left (scan_step s) es (Some st) = Some st.
Proof.
  induction es as [|[c nd] es IH]; intros st H; [reflexivity|].
  unfold cand_names in H. cbn [flat_map] in H. apply app_eq_nil in H as (H1 & H2).
  cbn [fold_left scan_step snd fst]. cbn in H1.
  destruct nd as [|x m]; [now apply IH|].
  destruct (parse_plugin_name c); [discriminate | now apply IH].
Qed.

(* Install fails; the source is stat'ed (and read, if a directory); no process
   runs and the file system is the one it started from *)
Lemma install_no_candidate w root s ow :
  candidates w s = [] ->
  let r := install w root s ow in
  r_err r <> ENone /\ r_fs r = w
  /\ Forall (fun e => e = EStat s \/ e = EReadDir s) (r_log r).
Proof.
  unfold install, candidates. intros C.
  assert (F1 : Forall (fun e => e = EStat s \/ e = EReadDir s) [EStat s]) by (constructor; auto).
  assert (F2 : Forall (fun e => e = EStat s \/ e = EReadDir s) [EStat s; EReadDir s])
    by (constructor; auto).
  destruct (String.eqb s ""); [cbn; split; [discriminate | split; [reflexivity | constructor]]|].
  destruct (stat w s) as [| |[|x m]].
  - cbn. split; [discriminate | split; [reflexivity | exact F1]].
  - cbn. split; [discriminate | split; [reflexivity | exact F1]].
  - unfold parse_dir. fold (cand_names (children w s)) in C.
    rewrite (scan_no_candidate s _ scan0 C). cbn.
    split; [discriminate | split; [reflexivity | exact F2]].
  - destruct (parse_plugin_name (base_name s)); [discriminate|].
    cbn. split; [discriminate | split; [reflexivity | exact F1]].
Qed.

Lemma quiet_log s l :
  Forall (fun e => e = EStat s \/ e = EReadDir s) l ->
  ran_paths l = [] /\ existsb mutating l = false.
Proof.
  induction 1 as [|e l [-> | ->] _ [IH1 IH2]]; cbn; auto.
Qed.

Lemma no_candidate_no_effects i s ow :
  i_op i = OInstall s ow -> candidates (world i) s = [] ->
  no_effects (model i) = true /\ o_err (model i) <> ENone.
Proof.
  intros O C. destruct (install_no_candidate (world i) (i_root i) s ow C) as (E & F & L).
  assert (EX : exec_op i = install (world i) (i_root i) s ow) by (unfold exec_op; now rewrite O).
  rewrite <- EX in E, F, L. split; [|exact E].
  destruct (quiet_log _ _ L) as (R & M).
  unfold no_effects, model. cbn. now rewrite R, M.
Qed.

Lemma install_meets_oracle i s ow :
  is_abs (i_root i) = true -> s <> "/" -> i_op i = OInstall s ow ->
  install_ok i (model i) s = true.
Proof.
  intros A NS O.
  pose proof (install_contained (world i) (i_root i) s ow A NS) as IC. cbn zeta in IC.
  assert (EX : exec_op i = install (world i) (i_root i) s ow) by (unfold exec_op; now rewrite O).
  rewrite <- EX in IC.
  assert (SOME : install_ok_some i (model i) s = true).
  { unfold install_ok_some.
    change (o_err (model i)) with (r_err (exec_op i)).
  destruct IC as [(S & N) | (n & Ic & V & N & S)].
  - rewrite (contained_model i _ _ S). destruct (r_err (exec_op i)); auto; congruence.
  - assert (X : existsb (fun n0 => safe_name n0
               && contained i (model i) (Some (allowed (i_root i) n0)) (Some s))
              (candidates (world i) s) = true).
    { apply existsb_exists. exists n. split; [exact Ic|].
      now rewrite (valid_name_safe _ V), (contained_model i _ _ S). }
    rewrite X. destruct (r_err (exec_op i)); auto using orb_true_r; congruence. }
  unfold install_ok. destruct (candidates (world i) s) as [|c0 cs] eqn:CS; [|exact SOME].
  destruct (no_candidate_no_effects i s ow O CS) as (NE & EN). rewrite NE.
  destruct (o_err (model i)); cbn; congruence || reflexivity.
Qed.

Lemma model_spec_ok i : wf i = true -> spec_ok i (model i) = true.
Proof.
  unfold wf. rewrite andb_true_iff. intros (A & W). unfold spec_ok.
  destruct (i_op i) as [name|name|name| |a mb pm tr|s ow|ex es|name] eqn:O.
  - apply name_ops_meet_oracle; auto.
  - apply name_ops_meet_oracle; auto.
  - apply name_ops_meet_oracle; auto 6.
  - unfold model, exec_op. rewrite O. reflexivity.
  - destruct (verify_x_reduces (world i) (i_root i) a mb pm)
      as [(E & SN & EN) | (s & -> & -> & -> & _ & _ & _)].
    + remember (fst (verify_plan a mb pm)) as e eqn:He.
      assert (M : model i = mk_obs e MNone [] [] [] []).
      { unfold model, exec_op. now rewrite O, E. }
      rewrite M.
      destruct a as [|s0| |s0].
      * cbn in He. subst e. reflexivity.
      * cbn in He. subst e. reflexivity.
      * cbn in He. subst e. reflexivity.
      * destruct (mb || negb pm) eqn:Q.
        -- assert (NE : e <> ENone) by (intros F; apply EN in F; discriminate).
           cbn. destruct e; cbn; congruence || reflexivity.
        -- apply orb_false_iff in Q as (-> & Q). apply negb_false_iff in Q. subst pm.
           unfold verify_plan in He, SN. destruct (all_space s0) eqn:SP; cbn in He, SN.
           ++ subst e. unfold name_ok. cbn. now rewrite SP.
           ++ discriminate.
    + cbn.
      assert (M : model i = model (with_op i (OVerify s))).
      { unfold model. rewrite (exec_verify_x_as_verify i s tr O). reflexivity. }
      rewrite M.
      change (name_ok (with_op i (OVerify s)) (model (with_op i (OVerify s))) true false s = true).
      apply name_ops_meet_oracle; [exact A | auto 6].
  - rewrite !andb_true_iff, negb_true_iff in W. destruct W as (_ & NS).
    apply String.eqb_neq in NS. eapply install_meets_oracle; eauto.
  - unfold model, exec_op. rewrite O. cbn. unfold list_plugins.
    destruct ex; cbn; [|reflexivity].
    apply (proj2 (list_eqb_spec String.eqb String.eqb_eq _ _)); reflexivity.
  - unfold model, exec_op. rewrite O. cbn.
    destruct (single_componentb name) eqn:S; [|reflexivity]. rewrite A. cbn.
    apply String.eqb_eq. apply pjoin_single; [exact A | exact S].
Qed.

(* ------------------------------------------------------------------ *)
(* 8. listing, the verifier's use of the name                          *)

Lemma list_exact ex es n :
  In n (list_plugins ex es) <-> ex = true /\ In (n, KDir) es.
Proof.
  unfold list_plugins. destruct ex.
  - rewrite in_map_iff. split.
    + intros ([m k] & <- & H). apply filter_In in H as (H & K). cbn in *.
      destruct k; try discriminate. auto.
    + intros (_ & H). exists (n, KDir). split; [reflexivity|]. apply filter_In. auto.
  - cbn. split; [tauto | intros (E & _); discriminate].
Qed.

Lemma list_missing_root es : list_plugins false es = [].
Proof. reflexivity. Qed.

Lemma verify_calls_spec name :
  (all_space name = true /\ verify_calls name = [])
  \/ (all_space name = false /\ verify_calls name = [CGet name]).
Proof. unfold verify_calls. destruct (all_space name); auto. Qed.

Lemma verify_lookup_is_get w root name :
  all_space name = false ->
  let r := verify_lookup w root name in
  let g := get_meta w root name in
  r_err r = r_err g /\ r_log r = r_log g /\ r_fs r = r_fs g.
Proof. intros S. rewrite (verify_lookup_nonblank _ _ _ S). cbn. auto. Qed.

(* ------------------------------------------------------------------ *)
(* 9. explicit forms used by the property file                         *)

Lemma insideb_src_only s q : insideb None (Some s) q = withinb s q.
Proof. reflexivity. Qed.

Lemma insideb_both a s q :
  insideb (Some a) (Some s) q = true <-> withinb s q = true \/ withinb a q = true.
Proof. unfold insideb. rewrite orb_true_iff. tauto. Qed.

Lemma install_contained_explicit w root src ow :
  is_abs root = true -> src <> "/" ->
  let r := install w root src ow in
  (r_err r <> ENone
   /\ Forall (fun e => withinb src (eff_path e) = true) (r_log r)
   /\ (forall q, withinb src q = true \/ fs_lookup q (r_fs r) = fs_lookup q w))
  \/
  (exists name,
     In name (candidates w src) /\ valid_name name = true /\ r_err r <> EInvalid
     /\ Forall (fun e => withinb src (eff_path e) = true
                         \/ withinb (allowed root name) (eff_path e) = true) (r_log r)
     /\ (forall q, withinb src q = true \/ withinb (allowed root name) q = true
                   \/ fs_lookup q (r_fs r) = fs_lookup q w
                   \/ (fs_lookup q w = None /\ fs_lookup q (r_fs r) = Some NDir
                       /\ In q (prefixes (allowed root name))))).
Proof.
  intros A NS r. destruct (install_contained w root src ow A NS) as [((L & F & _) & N) | (n & Ic & V & N & (L & F & _))];
    fold r in L, F, N.
  - left. split; [exact N|]. split; [exact L|].
    intros q. destruct (F q) as [E | [I | (a0 & Ea & _)]]; [now right | now left | discriminate].
  - right. exists n. repeat (split; [assumption|]). split.
    + eapply Forall_impl; [|exact L]. intros e I. now apply insideb_both.
    + intros q. destruct (F q) as [E | [I | (a0 & Ea & X)]].
      * right; right; now left.
      * apply insideb_both in I. tauto.
      * inversion Ea. subst a0. right; right; right. tauto.
Qed.

Lemma install_invalid_names w root src ow :
  is_abs root = true -> src <> "/" ->
  (forall n, In n (candidates w src) -> valid_name n = false) ->
  let r := install w root src ow in
  r_err r <> ENone
  /\ Forall (fun e => withinb src (eff_path e) = true) (r_log r)
  /\ (forall q, withinb src q = true \/ fs_lookup q (r_fs r) = fs_lookup q w).
Proof.
  intros A NS H r.
  destruct (install_contained_explicit w root src ow A NS) as [X | (n & Ic & V & _)]; [exact X|].
  rewrite (H n Ic) in V. discriminate.
Qed.

(* (the witness that Install ran the source before it examined the derived name
   is about the code before /repo 30cc14e: see install_v0 in C16_Audit.v) *)
