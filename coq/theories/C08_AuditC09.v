(* C08_AuditC09.v — C08 end to end over documents ACCEPTED by the C09 model of
   OCIDocument.Validate / BlobDocument.Validate: no separate "valid_doc" or "scope_ok"
   hypothesis is left; every scope / name a validated document lists selects its statement,
   with the single exception of blob statements whose name is white space only
   (accepted by Validate, refused by GetApplicableTrustPolicy). *)
From NV Require Import Base Regex Generated C09_Model C09_Compose.
From NV Require C08_Model C08_Proofs C08_Audit.
Open Scope string_scope.
Open Scope list_scope.

(* the scope format test of validation and the one applied to the reference are the same *)
Lemma scope_ok_from_c09 sc : scope_ok_b sc = true -> sc <> wildcard -> C08_Model.scope_ok sc = true.
Proof.
  intros H Hne. unfold scope_ok_b in H. apply orb_true_iff in H. destruct H as [H|H].
  - apply String.eqb_eq in H. contradiction.
  - apply andb_true_iff in H. destruct H as [Hstar H]. apply negb_true_iff in Hstar.
    unfold C08_Model.scope_ok. rewrite Hstar, andb_false_r. exact H.
Qed.

Lemma in_to_c08_oci d s : In s (to_c08_oci d) ->
  exists s0, In s0 (d_stmts d) /\ s = to_c08_oci_stmt s0.
Proof. unfold to_c08_oci. intros H. apply in_map_iff in H. destruct H as (s0 & <- & Hin). eauto. Qed.

Lemma listed_scope_ok d s p : validate_oci d = EOk -> In s (to_c08_oci d) ->
  In p (C08_Model.s_scopes s) -> p <> wildcard -> C08_Model.scope_ok p = true.
Proof.
  intros V Hs Hp Hne. destruct (in_to_c08_oci d s Hs) as (s0 & Hin & ->).
  destruct (accepted_oci d V) as [Hok _]. rewrite forallb_forall in Hok.
  pose proof (Hok s0 Hin) as H0. unfold stmt_scopes_ok_b in H0. rewrite !andb_true_iff in H0.
  destruct H0 as [_ Hall]. rewrite forallb_forall in Hall.
  apply scope_ok_from_c09; [apply Hall; exact Hp | exact Hne].
Qed.

Lemma c09_listed_scope_selects d i s p dg :
  validate_oci d = EOk -> C08_Model.i_doc i = to_c08_oci d ->
  In s (to_c08_oci d) -> In p (C08_Model.s_scopes s) -> p <> wildcard ->
  contains_byte "@" dg = false -> C08_Model.i_q1 i = C08_Model.QOci (p ++ "@" ++ dg) ->
  C08_Model.o_r1 (C08_Model.model i) = C08_Model.RSel s.
Proof.
  intros V D Hs Hp Hne Hd Q.
  apply (C08_Audit.m_every_listed_scope_selectable i s p dg).
  - unfold C08_Model.wf. rewrite D. apply c08_valid_from_oci. exact V.
  - rewrite D. exact Hs.
  - exact Hp.
  - exact (listed_scope_ok d s p V Hs Hp Hne).
  - exact Hd.
  - exact Q.
Qed.

(* unlisted registry/repository: the wildcard statement if the document has one, else refused *)
Lemma c09_unlisted_scope d i p dg :
  validate_oci d = EOk -> C08_Model.i_doc i = to_c08_oci d ->
  C08_Model.scope_ok p = true -> contains_byte "@" dg = false ->
  C08_Model.i_q1 i = C08_Model.QOci (p ++ "@" ++ dg) ->
  (forall s, In s (to_c08_oci d) -> ~ In p (C08_Model.s_scopes s)) ->
  (forall w, In w (to_c08_oci d) -> In wildcard (C08_Model.s_scopes w) ->
     C08_Model.o_r1 (C08_Model.model i) = C08_Model.RSel w)
  /\ ((forall s, In s (to_c08_oci d) -> ~ In wildcard (C08_Model.s_scopes s)) ->
      C08_Model.o_r1 (C08_Model.model i) = C08_Model.RErr 3).
Proof.
  intros V D Hs Hd Q Hno.
  assert (W : C08_Model.wf i = true) by (unfold C08_Model.wf; rewrite D; apply c08_valid_from_oci; exact V).
  pose proof (C08_Proofs.m_selects i p dg W Q Hd Hs) as G. cbn zeta in G. rewrite D in G.
  destruct G as [_ G]. destruct (G Hno) as [G1 G2]. split.
  - intros w Hin Hw. destruct (G1 w Hin Hw) as [R _]. exact R.
  - exact G2.
Qed.

Lemma c09_named_selects d i s :
  validate_blob d = EOk -> C08_Model.i_doc i = to_c08_blob d ->
  In s (to_c08_blob d) -> C08_Model.blank (C08_Model.s_name s) = false ->
  C08_Model.i_q1 i = C08_Model.QName (C08_Model.s_name s) ->
  C08_Model.o_r1 (C08_Model.model i) = C08_Model.RSel s.
Proof.
  intros V D Hs B Q. apply C08_Audit.m_blob_every_named_statement_selectable.
  - unfold C08_Model.wf. rewrite D. apply c08_valid_from_blob. exact V.
  - rewrite D. exact Hs.
  - exact B.
  - exact Q.
Qed.

Lemma c09_global_selects d i s :
  validate_blob d = EOk -> C08_Model.i_doc i = to_c08_blob d ->
  In s (to_c08_blob d) -> C08_Model.s_global s = true ->
  C08_Model.i_q1 i = C08_Model.QGlobal ->
  C08_Model.o_r1 (C08_Model.model i) = C08_Model.RSel s.
Proof.
  intros V D Hs G Q.
  assert (W : C08_Model.wf i = true) by (unfold C08_Model.wf; rewrite D; apply c08_valid_from_blob; exact V).
  pose proof (C08_Proofs.m_blob_global i W Q) as H. cbn zeta in H. rewrite D in H.
  destruct H as [H _]. destruct (H s Hs G) as [R _]. exact R.
Qed.

(* the exception: a document that Validate accepts, one of whose statements can never be
   selected by name *)
Definition blank_named : doc :=
  mk_doc "1.0"
    [ mk_stmt " " (mk_sv "strict" [] "") ["ca:k0"] ["*"] [] false;
      mk_stmt "g" (mk_sv "strict" [] "") ["ca:k1"] ["*"] [] true ].

Lemma c09_blank_named_unselectable :
  exists d s, validate_blob d = EOk /\ In s (to_c08_blob d) /\
    forall i, C08_Model.i_doc i = to_c08_blob d ->
              C08_Model.i_q1 i = C08_Model.QName (C08_Model.s_name s) ->
              C08_Model.o_r1 (C08_Model.model i) = C08_Model.RErr 4.
Proof.
  exists blank_named, (to_c08_blob_stmt (mk_stmt " " (mk_sv "strict" [] "") ["ca:k0"] ["*"] [] false)).
  split; [vm_compute; reflexivity|]. split; [left; reflexivity|].
  intros i D Q. pose proof (C08_Proofs.m_blob_blank_or_exact i _ Q) as [H _].
  apply H. vm_compute. reflexivity.
Qed.
