(* C12_Model.v — the nil-ability lattice of notation-go's own structures.
   Definitions only. Mirrors, statement by statement,
     verifier/verifier.go   NewVerifierWithOptions (nil checks), SkipVerify, Verify,
                            VerifyBlob, processSignature, verifyRevocation,
                            processPluginResponse (control flow and every place a
                            pointer / map / interface value is dereferenced)
     notation.go            Verify, VerifyBlob, VerificationOutcome.UserMetadata
   as they are NOW (after the fix commits 00e9a29 and 87f7f59; the behaviour
   before them is kept as the variants [skip_verify_v0] / [nverify_blob_v0]).

   A value that is nil-able in Go is an [option] / a sum with a Nil
   constructor here, and every dereference the Go code performs without a
   guard yields the explicit result [OPanic] when the value is absent.
   Everything a dependency answers (notation-core-go, trust store, revocation
   validator, plugin manager, plugin, registry, custom verifier) is an input
   fact of the model (records [scenario], [verifier], [nreq], [breq]). *)
From NV Require Import Base C12_Registry.
Open Scope string_scope.
Open Scope list_scope.

(* ---------- levels ---------- *)
Inductive action := Enforce | Log | Skip.
Inductive vtype := TInt | TAuth | TTs | TExp | TRev.

(* the level GetVerificationLevel returns for the selected statement: one of
   the four named levels, or a custom level (overrides; integrity is never
   overridable, so it stays enforced) *)
Inductive level :=
| LStrict | LPermissive | LAudit | LSkip
| LCustom (auth ts exp rev : action).

Definition act (l : level) (t : vtype) : action :=
  match l with
  | LStrict => Enforce
  | LPermissive => match t with TInt | TAuth => Enforce | _ => Log end
  | LAudit => match t with TInt => Enforce | _ => Log end
  | LSkip => Skip
  | LCustom a ts e r =>
      match t with TInt => Enforce | TAuth => a | TTs => ts | TExp => e | TRev => r end
  end.

(* reflect.DeepEqual(verificationLevel, trustpolicy.LevelSkip): a custom level
   is named "custom" and never equal to the skip level *)
Definition is_skip (l : level) : bool := match l with LSkip => true | _ => false end.

Inductive lname := NStrict | NPermissive | NAudit | NSkip | NCustom.
Definition name_of (l : level) : lname :=
  match l with
  | LStrict => NStrict | LPermissive => NPermissive | LAudit => NAudit | LSkip => NSkip
  | LCustom _ _ _ _ => NCustom
  end.

(* ---------- the verifier structure ---------- *)
(* what a (non-nil) policy document answers for the request at hand
   (GetApplicableTrustPolicy / GetGlobalTrustPolicy + GetVerificationLevel) *)
Inductive sel :=
| SelNone
| SelBadLevel     (* a statement applies but GetVerificationLevel fails on it (its error is ignored:
                     the level is a nil pointer). Impossible for a document that is still as it was
                     validated by the constructor; reachable when the caller edits the document later *)
| SelLevel (l : level).

Inductive cap := CapTI | CapRev | CapOther.

(* GetMetadata of the installed plugin *)
Inductive meta :=
| MetaErr
| MetaNil                                   (* (nil, nil): breaks the plugin.Plugin contract; since fix 686cc56
                                               an inconclusive verification, before it a nil dereference *)
| Meta (ver_valid : bool) (caps : list cap).

(* verifier.pluginManager *)
Inductive pmgr := PMNil | PMGetErr | PMPlugin (m : meta).

Record verifier := mk_v {
  v_oci : option sel;       (* ociTrustPolicyDoc: None = nil *)
  v_blob : option sel;      (* blobTrustPolicyDoc: None = nil *)
  v_pm : pmgr }.

(* ---------- what the dependencies report for one signature ---------- *)
Inductive sigc := SigEmpty | SigBad | SigOK.   (* len = 0 / integrity fails / integrity holds *)
Inductive pattr := PAbsent | PInvalid | PName. (* io.cncf.notary.verificationPlugin *)
Inductive revr :=
| RevOK | RevFail | RevErr
| RevBadShape       (* not one non-nil result per certificate (nil entry, more or fewer results, (nil, nil)):
                       breaks the Validator contract; since fix d78db00 an ordinary failure *)
| RevNilServer.     (* one OK result per certificate, with a nil entry among the ServerResults of one of them:
                       checkRevocationResults does not look at them; revocationFinalResult dereferenced every
                       entry in its logging loop (serverResult.Error). Since fix a146158 a nil entry is skipped
                       and the verdict is the results' own. Found by the GoLite translation
                       (props/C12_Generated.v) *)
Inductive presp :=
| PRErr
| PRNil                                     (* (nil, nil): breaks the plugin.VerifyPlugin contract; since fix
                                               686cc56 an ordinary plugin error, before it a nil dereference *)
| PResp (all_processed : bool)      (* every CRITICAL extended attribute with a string key other than the two
                                       plugin headers is listed in processedAttributes (non-critical ones need
                                       not be, fix 6f898df; attributes with other key types are never looked up) *)
        (ti rev : option bool).

Record scenario := mk_sc {
  s_sig : sigc;
  s_pattr : pattr;
  s_minver_bad : bool;      (* getVerificationPluginMinVersion fails (other than "absent") *)
  s_minver_high : bool;     (* the demanded minimum version is above the installed plugin's *)
  s_nonstr_crit : bool;     (* a critical extended attribute with a non-string key *)
  s_crit : bool;            (* some critical extended attribute exists *)
  s_auth_fail : bool;       (* trust store load error or chain not trusted *)
  s_ident_fail : bool;      (* native trusted-identity check fails *)
  s_exp_fail : bool;
  s_ts_fail : bool;
  s_rev : revr;
  s_presp : presp;
  s_payload_ok : bool;      (* payload content unmarshals into envelope.Payload *)
  s_annot : bool;           (* its targetArtifact has a non-empty annotation map *)
  s_desc_match : bool;      (* equals the descriptor presented / generated *)
  s_meta_req : bool;        (* len(opts.UserMetadata) > 0 *)
  s_meta_ok : bool;
  s_descgen_err : bool }.   (* descGenFunc returns an error (blob path) *)

(* ---------- observations ---------- *)
Inductive errc :=
| XNil            (* one of the "... is nil" / "... cannot be nil" guards *)
| XNoPolicy       (* notation.ErrorNoApplicableTrustPolicy *)
| XResult (t : vtype)   (* the very Error value of the reported result of type t *)
| XInconclusive   (* notation.ErrorVerificationInconclusive (not a result's error) *)
| XMismatch       (* descriptor mismatch *)
| XMetadata       (* notation.ErrorUserMetadataVerificationFailed *)
| XRetrieval      (* notation.ErrorSignatureRetrievalFailed *)
| XFailed         (* notation.ErrorVerificationFailed *)
| XOther.

Inductive umres := UMPanic | UMErr | UMOk (nonempty : bool).

Record outc := mk_outc {
  oc_err : option errc;             (* class of outcome.Error *)
  oc_same : bool;                   (* outcome.Error is the error value returned next to it (nil = nil) *)
  oc_content : bool;                (* outcome.EnvelopeContent != nil *)
  oc_level : option lname;          (* outcome.VerificationLevel *)
  oc_results : list (vtype * bool); (* VerificationResults: type, Error != nil *)
  oc_um : umres }.                  (* what outcome.UserMetadata() does *)

Inductive obs :=
| OPanic
| OConstruct                        (* the constructor refused: no verifier exists *)
| ORet (flag : bool)                (* SkipVerify: skip; notation.*: descriptor returned is non-zero *)
       (lvl : option lname)         (* SkipVerify: the level returned *)
       (outs : list (option outc))  (* outcomes returned (None = a nil outcome pointer) *)
       (err : option errc).

(* ---------- processSignature ---------- *)
Definition cap_eqb (a b : cap) : bool :=
  match a, b with CapTI, CapTI | CapRev, CapRev | CapOther, CapOther => true | _, _ => false end.
Definition has_cap (c : cap) (l : list cap) : bool := existsb (cap_eqb c) l.
Definition action_eqb (a b : action) : bool :=
  match a, b with Enforce, Enforce | Log, Log | Skip, Skip => true | _, _ => false end.
Definition vtype_eqb (a b : vtype) : bool :=
  match a, b with
  | TInt, TInt | TAuth, TAuth | TTs, TTs | TExp, TExp | TRev, TRev => true
  | _, _ => false
  end.

(* isCriticalFailure *)
Definition crit (a : action) (failed : bool) : bool :=
  match a with Enforce => failed | _ => false end.

(* for _, capability := range metadata.Capabilities { if revocation || trusted identity {append} } *)
Definition vcaps (caps : list cap) : list cap :=
  filter (fun c => match c with CapOther => false | _ => true end) caps.

Inductive disc := DPanic | DErr (e : errc) | DNone | DPlugin (caps : list cap).

(* [fixed] = with the nil tests of fix 686cc56 *)
Definition meta_nil_res (fixed : bool) : disc :=
  if fixed then DErr XInconclusive      (* "returned an empty get-plugin-metadata response" *)
  else DPanic.                          (* metadata.Version on a nil GetMetadataResponse pointer *)

Definition discover_gen (fixed : bool) (pm : pmgr) (sc : scenario) : disc :=
  match s_pattr sc with
  | PInvalid => DErr XOther                         (* getVerificationPlugin: err other than not-exist *)
  | pa =>
      if s_nonstr_crit sc then DErr XInconclusive else
      match pa with
      | PName =>
          if s_minver_bad sc then DErr XInconclusive else
          match pm with
          | PMNil => DErr XInconclusive             (* guard: v.pluginManager == nil *)
          | PMGetErr => DErr XInconclusive
          | PMPlugin MetaErr => DErr XOther
          | PMPlugin MetaNil => meta_nil_res fixed
          | PMPlugin (Meta vv caps) =>
              if negb vv then DErr XInconclusive
              else if s_minver_high sc then DErr XInconclusive
              else match vcaps caps with
                   | [] => DErr XInconclusive
                   | vc => DPlugin vc
                   end
          end
      | _ => DNone
      end
  end.

Definition discover := discover_gen true.

Inductive nat_res := NPanic | NStop (e : errc) (rs : list (vtype * bool)) | NGo (rs : list (vtype * bool)).

(* verifyRevocation: does the revocation validation fail? None = the code panics.
   [fixed] = with checkRevocationResults (fix d78db00): an answer that is not one non-nil result
   per certificate is an ordinary failure ("unable to check revocation status"); before the fix
   revocationFinalResult dereferenced a nil entry / indexed certChain out of range.
   [fixed_srv] = with the nil test on a server result (fix a146158) *)
Definition rev_failed_gen (fixed fixed_srv : bool) (r : revr) : option bool :=
  match r with
  | RevOK => Some false
  | RevBadShape => if fixed then Some true else None
  | RevNilServer => if fixed_srv then Some false else None
  | _ => Some true
  end.
Definition rev_failed (fixed : bool) : revr -> option bool := rev_failed_gen fixed true.

(* authenticity .. revocation; [caps] = verification capabilities of the plugin *)
Definition native_gen2 (fixed fixed_srv : bool) (l : level) (sc : scenario) (caps : list cap) : nat_res :=
  let rI := (TInt, false) in
  let f0 := s_auth_fail sc in
  if crit (act l TAuth) f0 then NStop (XResult TAuth) [rI; (TAuth, f0)] else
  let native_ti := negb (has_cap CapTI caps) in
  let f1 := if native_ti then f0 || s_ident_fail sc else f0 in
  let rs1 := [rI; (TAuth, f1)] in
  if native_ti && crit (act l TAuth) f1 then NStop (XResult TAuth) rs1 else
  let rs2 := rs1 ++ [(TExp, s_exp_fail sc)] in
  if crit (act l TExp) (s_exp_fail sc) then NStop (XResult TExp) rs2 else
  let rs3 := rs2 ++ [(TTs, s_ts_fail sc)] in
  if crit (act l TTs) (s_ts_fail sc) then NStop (XResult TTs) rs3 else
  if negb (action_eqb (act l TRev) Skip) && negb (has_cap CapRev caps) then
    match rev_failed_gen fixed fixed_srv (s_rev sc) with
    | None => NPanic
    | Some f =>
        let rs4 := rs3 ++ [(TRev, f)] in
        if crit (act l TRev) f then NStop (XResult TRev) rs4 else NGo rs4
    end
  else NGo rs3.

Definition native_gen (fixed : bool) := native_gen2 fixed true.
Definition native := native_gen true.
(* before fix d78db00 *)
Definition native_v0 := native_gen false.
(* before fix a146158 *)
Definition native_v1 := native_gen2 true false.

Fixpoint set_auth_failed (rs : list (vtype * bool)) : list (vtype * bool) :=
  match rs with
  | [] => []
  | (t, f) :: rs' => if vtype_eqb t TAuth then (TAuth, true) :: rs' else (t, f) :: set_auth_failed rs'
  end.

(* processPluginResponse: for _, capability := range capabilitiesToVerify *)
Fixpoint process_caps (l : level) (ti rev : option bool) (caps : list cap) (rs : list (vtype * bool))
  : option errc * list (vtype * bool) :=
  match caps with
  | [] => (None, rs)
  | CapTI :: caps' =>
      match ti with
      | None => (Some XInconclusive, rs)
      | Some true => process_caps l ti rev caps' rs
      | Some false =>
          let rs' := set_auth_failed rs in
          if crit (act l TAuth) true then (Some (XResult TAuth), rs')
          else process_caps l ti rev caps' rs'
      end
  | CapRev :: caps' =>
      match rev with
      | None => (Some XInconclusive, rs)
      | Some ok =>
          let rs' := rs ++ [(TRev, negb ok)] in
          if crit (act l TRev) (negb ok) then (Some (XResult TRev), rs')
          else process_caps l ti rev caps' rs'
      end
  | CapOther :: caps' => process_caps l ti rev caps' rs
  end.

Definition caps_to_verify (l : level) (caps : list cap) : list cap :=
  filter (fun c => negb (action_eqb (act l TRev) Skip && cap_eqb c CapRev)) caps.

Inductive psres :=
| PSPanic
| PSRet (e : option errc) (content : bool) (rs : list (vtype * bool)).

(* executePlugin answered (nil, nil) *)
Definition presp_nil_res (fixed : bool) (rs : list (vtype * bool)) : psres :=
  if fixed then PSRet (Some XOther) true rs   (* "returned an empty verify-signature response" *)
  else PSPanic.                               (* response.ProcessedAttributes / .VerificationResults on nil *)

Definition process_signature_gen (fixed : bool) (l : level) (pm : pmgr) (sc : scenario) : psres :=
  match s_sig sc with
  | SigOK =>
      match discover_gen fixed pm sc with
      | DPanic => PSPanic
      | DErr e => PSRet (Some e) true [(TInt, false)]
      | d =>
          let caps := match d with DPlugin c => c | _ => [] end in
          let plugin := match d with DPlugin _ => true | _ => false end in
          match native l sc caps with
          | NPanic => PSPanic
          | NStop e rs => PSRet (Some e) true rs
          | NGo rs =>
              match caps_to_verify l caps with
              | (_ :: _) as tv =>
                  match s_presp sc with
                  | PRErr => PSRet (Some XOther) true rs
                  | PRNil => presp_nil_res fixed rs
                  | PResp allp ti rev =>
                      if negb allp then PSRet (Some XOther) true rs
                      else let '(e, rs') := process_caps l ti rev tv rs in PSRet e true rs'
                  end
              | [] =>
                  if negb plugin && s_crit sc then PSRet (Some XInconclusive) true rs
                  else PSRet None true rs
              end
          end
      end
  | _ => PSRet (Some (XResult TInt)) false [(TInt, true)]
  end.

Definition process_signature := process_signature_gen true.
(* before fix 686cc56 *)
Definition process_signature_v0 := process_signature_gen false.

(* ---------- VerificationOutcome.UserMetadata ---------- *)
(* on a non-nil outcome: guard on EnvelopeContent == nil, then json.Unmarshal *)
Definition user_metadata (content payload_ok annot : bool) : umres :=
  if negb content then UMErr
  else if negb payload_ok then UMErr
  else UMOk annot.

Definition out_of (e : option errc) (content : bool) (l : level) (rs : list (vtype * bool))
           (sc : scenario) : outc :=
  mk_outc e true content (Some (name_of l)) rs (user_metadata content (s_payload_ok sc) (s_annot sc)).

(* the two early-return outcomes of a skip-level statement *)
Definition skip_out : outc := mk_outc None true false (Some NSkip) [] UMErr.

(* outcome.Error after the post-checks: mismatch, then user metadata overwrites *)
Definition post_err (sc : scenario) : option errc :=
  let e1 := if s_desc_match sc then None else Some XMismatch in
  if s_meta_req sc && negb (s_meta_ok sc) then Some XMetadata else e1.

(* ---------- verifier.Verify ---------- *)
Definition verify_oci (v : verifier) (sc : scenario) : obs :=
  match v_oci v with
  | None => ORet false None [] (Some XNil)                  (* guard (fix 87f7f59 kept it in Verify) *)
  | Some SelNone => ORet false None [] (Some XNoPolicy)
  | Some SelBadLevel => OPanic        (* verifyIntegrity: outcome.VerificationLevel.Enforcement on nil *)
  | Some (SelLevel l) =>
      if is_skip l then ORet false None [Some skip_out] None
      else match process_signature l (v_pm v) sc with
           | PSPanic => OPanic
           | PSRet (Some e) content rs => ORet false None [Some (out_of (Some e) content l rs sc)] (Some e)
           | PSRet None content rs =>
               (* outcome.EnvelopeContent is non-nil here: processSignature returned nil *)
               if negb content then OPanic
               else if negb (s_payload_ok sc) then ORet false None [Some (out_of (Some XOther) content l rs sc)] (Some XOther)
               else let e := post_err sc in ORet false None [Some (out_of e content l rs sc)] e
           end
  end.

(* ---------- verifier.VerifyBlob ---------- *)
Definition verify_blob (v : verifier) (sc : scenario) : obs :=
  match v_blob v with
  | None => ORet false None [] (Some XNil)
  | Some SelNone => ORet false None [] (Some XNoPolicy)
  | Some SelBadLevel => OPanic
  | Some (SelLevel l) =>
      if is_skip l then ORet false None [Some skip_out] None
      else match process_signature l (v_pm v) sc with
           | PSPanic => OPanic
           | PSRet (Some e) content rs => ORet false None [Some (out_of (Some e) content l rs sc)] (Some e)
           | PSRet None content rs =>
               if negb content then OPanic
               else if negb (s_payload_ok sc) then ORet false None [Some (out_of (Some XOther) content l rs sc)] (Some XOther)
               else if s_descgen_err sc then ORet false None [Some (out_of (Some XOther) content l rs sc)] (Some XOther)
               else let e := post_err sc in ORet false None [Some (out_of e content l rs sc)] e
           end
  end.

(* ---------- verifier.SkipVerify ---------- *)
Definition skip_verify (v : verifier) : obs :=
  match v_oci v with
  | None => ORet false None [] (Some XNil)                  (* fix 87f7f59 *)
  | Some SelNone => ORet false None [] (Some XNoPolicy)
  | Some SelBadLevel => ORet false None [] None             (* (false, nil, nil) *)
  | Some (SelLevel l) =>
      if is_skip l then ORet true (Some NSkip) [] None
      else ORet false (Some (name_of l)) [] None
  end.

(* before fix 87f7f59: v.ociTrustPolicyDoc.GetApplicableTrustPolicy on a nil document *)
Definition skip_verify_v0 (v : verifier) : obs :=
  match v_oci v with
  | None => OPanic
  | _ => skip_verify v
  end.

(* ---------- what is handed to notation.Verify / notation.VerifyBlob ---------- *)
Inductive ccontent := CCNone | CCBad | CCGood.   (* EnvelopeContent nil / payload not JSON / payload JSON *)
Record cout := mk_cout { co_err : bool; co_content : ccontent }.
Inductive vimpl :=
| VNil                                      (* a nil interface value *)
| VLib                                      (* the library's verifier *)
| VCustom (out : option cout) (err : bool). (* a caller-supplied implementation and its answer *)

Definition custom_outc (c : cout) (err : bool) : outc :=
  mk_outc (if co_err c then Some XOther else None)
          (Bool.eqb (co_err c) err)    (* the stub returns its outcome's Error when both are set *)
          (match co_content c with CCNone => false | _ => true end)
          None []
          (match co_content c with CCNone => UMErr | CCBad => UMErr | CCGood => UMOk false end).

(* one call of verifier.Verify(ctx, desc, sig, opts) through the interface *)
Inductive vres := VPanic | VRes (out : option outc) (err : option errc).

Definition call_verify (impl : vimpl) (v : verifier) (sc : scenario) : vres :=
  match impl with
  | VNil => VPanic      (* never reached: notation.Verify guards verifier == nil *)
  | VLib =>
      match verify_oci v sc with
      | ORet _ _ [] e => VRes None e
      | ORet _ _ (o :: _) e => VRes o e
      | _ => VPanic
      end
  | VCustom out err =>
      VRes (match out with Some c => Some (custom_outc c err) | None => None end)
           (if err then Some XOther else None)
  end.

(* ---------- notation.Verify ---------- *)
Inductive refc := RefBad | RefNoTag | RefOK.
Inductive item := FetchErr | Sig (sc : scenario).
Record nreq := mk_nreq {
  n_repo_nil : bool;
  n_max : Z;                  (* MaxSignatureAttempts *)
  n_ref : refc;               (* ParseReference fails / no tag or digest / fine *)
  n_resolve_err : bool;
  n_digest_mismatch : bool;   (* digest reference differing from the resolved digest *)
  n_list_err : bool;          (* ListSignatures itself fails *)
  n_items : list item }.      (* the signature manifests listed, in order *)

Inductive lres :=
| LPanic
| LReturn (e : errc)              (* the callback returned this error *)
| LSuccess (o : option outc)      (* errDoneVerification *)
| LExceeded
| LEnd (any : bool).              (* the page ended; [any] = some signature was processed *)

(* the callback of ListSignatures over one page; [k] = attempts left *)
Fixpoint nloop (impl : vimpl) (v : verifier) (k : nat) (any : bool) (items : list item) : lres :=
  match k with
  | O => LExceeded    (* numOfSignatureProcessed >= max: break / end of page, then the limit error *)
  | S k' =>
      match items with
      | [] => LEnd any
      | FetchErr :: _ => LReturn XRetrieval
      | Sig sc :: rest =>
          match call_verify impl v sc with
          | VPanic => LPanic
          | VRes None (Some e) => LReturn e         (* "Got nil outcome": return err *)
          | VRes (Some _) (Some _) => nloop impl v k' true rest   (* outcome.Error = wrapped; continue *)
          | VRes o None => LSuccess o
          end
      end
  end.

(* the error class of the value the skip check returns is kept as it is *)
Definition nverify (impl : vimpl) (v : verifier) (n : nreq) : obs :=
  match impl with
  | VNil => ORet false None [] (Some XNil)
  | _ =>
  if n_repo_nil n then ORet false None [] (Some XNil) else
  if (n_max n <=? 0)%Z then ORet false None [] (Some XRetrieval) else
  let after_skip :=
    match n_ref n with
    | RefBad | RefNoTag => ORet false None [] (Some XRetrieval)
    | RefOK =>
        if n_resolve_err n then ORet false None [] (Some XRetrieval) else
        if n_digest_mismatch n then ORet false None [] (Some XRetrieval) else
        if n_list_err n then ORet false None [] (Some XOther) else
        match nloop impl v (Z.to_nat (n_max n)) false (n_items n) with
        | LPanic => OPanic
        | LReturn e => ORet false None [] (Some e)
        | LSuccess o => ORet true None [o] None
        | LExceeded => ORet false None [] (Some XFailed)
        | LEnd false => ORet false None [] (Some XRetrieval)
        | LEnd true => ORet false None [] (Some XFailed)
        end
    end in
  match impl with
  | VLib =>
      (* skipChecker, ok := verifier.(verifySkipper) *)
      match skip_verify v with
      | ORet _ _ _ (Some e) => ORet false None [] (Some e)
      | ORet true _ _ None => ORet false None [Some (mk_outc None true false (Some NSkip) [] UMErr)] None
      | ORet false _ _ None => after_skip
      | _ => OPanic
      end
  | _ => after_skip
  end
  end.

(* ---------- notation.VerifyBlob ---------- *)
Record breq := mk_breq { b_reader_nil : bool; b_ctype_bad : bool; b_stype_bad : bool }.

Definition call_verify_blob (impl : vimpl) (v : verifier) (sc : scenario) : vres :=
  match impl with
  | VNil => VPanic
  | VLib =>
      match verify_blob v sc with
      | ORet _ _ [] e => VRes None e
      | ORet _ _ (o :: _) e => VRes o e
      | _ => VPanic
      end
  | VCustom out err =>
      VRes (match out with Some c => Some (custom_outc c err) | None => None end)
           (if err then Some XOther else None)
  end.

(* [payload_ok] of the outcome returned: for the library's verifier it is the
   scenario's, for a custom one its answer's *)
Definition blob_payload_ok (impl : vimpl) (sc : scenario) : bool :=
  match impl with
  | VCustom (Some c) _ => match co_content c with CCGood => true | _ => false end
  | _ => s_payload_ok sc
  end.

(* notation.VerifyBlob drops the outcome on failure: which result the error
   belongs to is no longer observable, only its Go type *)
Definition coarse (e : errc) : errc :=
  match e with
  | XResult _ | XInconclusive | XMismatch | XMetadata => XOther
  | e => e
  end.

Definition nverify_blob (impl : vimpl) (v : verifier) (b : breq) (sc : scenario) : obs :=
  match impl with
  | VNil => ORet false None [] (Some XNil)
  | _ =>
  if b_reader_nil b then ORet false None [] (Some XNil) else
  match s_sig sc with SigEmpty => ORet false None [] (Some XNil) | _ =>
  if b_ctype_bad b then ORet false None [] (Some XOther) else
  if b_stype_bad b then ORet false None [] (Some XOther) else
  match call_verify_blob impl v sc with
  | VPanic => OPanic
  | VRes _ (Some e) => ORet false None [] (Some (coarse e))
  | VRes None None => OPanic                      (* vo.EnvelopeContent on a nil outcome *)
  | VRes (Some o) None =>
      if negb (oc_content o) then ORet false None [Some o] None     (* fix 00e9a29 *)
      else if negb (blob_payload_ok impl sc) then ORet false None [] (Some XOther)
      else ORet true None [Some o] None
  end end
  end.

(* before fix 00e9a29: vo.EnvelopeContent.Payload.Content without the nil test *)
Definition nverify_blob_v0 (impl : vimpl) (v : verifier) (b : breq) (sc : scenario) : obs :=
  match nverify_blob impl v b sc with
  | ORet false None [Some o] None => if negb (oc_content o) then OPanic else ORet false None [Some o] None
  | r => r
  end.

(* ---------- inputs ---------- *)
Inductive entry := EVerify | EVerifyBlob | ESkipVerify | ENVerify | ENVerifyBlob | EUserMeta.

Record input := mk_input {
  i_entry : entry;
  i_ts_nil : bool;        (* the trust store handed to the constructor is nil *)
  i_v : verifier;
  i_impl : vimpl;         (* ENVerify / ENVerifyBlob: what is passed as verifier *)
  i_sc : scenario;        (* the signature of the single-signature entry points *)
  i_n : nreq;             (* ENVerify *)
  i_b : breq;             (* ENVerifyBlob *)
  i_um : ccontent }.      (* EUserMeta: the outcome UserMetadata is called on *)

(* NewVerifierWithOptions: trustStore == nil, or both documents nil *)
Definition construct_fails (i : input) : bool :=
  i_ts_nil i || match v_oci (i_v i), v_blob (i_v i) with None, None => true | _, _ => false end.

Definition uses_lib (i : input) : bool :=
  match i_entry i with
  | EVerify | EVerifyBlob | ESkipVerify => true
  | ENVerify | ENVerifyBlob => match i_impl i with VLib => true | _ => false end
  | EUserMeta => false
  end.

Definition model (i : input) : obs :=
  if uses_lib i && construct_fails i then OConstruct else
  match i_entry i with
  | EVerify => verify_oci (i_v i) (i_sc i)
  | EVerifyBlob => verify_blob (i_v i) (i_sc i)
  | ESkipVerify => skip_verify (i_v i)
  | ENVerify => nverify (i_impl i) (i_v i) (i_n i)
  | ENVerifyBlob => nverify_blob (i_impl i) (i_v i) (i_b i) (i_sc i)
  | EUserMeta =>
      let content := match i_um i with CCNone => false | _ => true end in
      let pok := match i_um i with CCGood => true | _ => false end in
      ORet false None
           [Some (mk_outc None true content None [] (user_metadata content pok (s_annot (i_sc i))))] None
  end.

(* ---------- the contracts of the injected components (input contract) ---------- *)
(* a custom Verifier / BlobVerifier: no error means an outcome without error *)
Definition impl_wf (impl : vimpl) : bool :=
  match impl with
  | VCustom None false => false
  | VCustom (Some c) false => negb (co_err c)
  | _ => true
  end.

(* the documents are as the constructor validated them *)
Definition sel_wf (d : option sel) : bool := match d with Some SelBadLevel => false | _ => true end.

(* since the fixes d78db00, a146158 and 686cc56 there is no contract on the revocation validator or on
   the verification plugin: whatever they answer, the entry points return normally *)
Definition wf (i : input) : bool :=
  sel_wf (v_oci (i_v i)) && sel_wf (v_blob (i_v i)) && impl_wf (i_impl i).

(* ---------- boolean equalities ---------- *)
Definition errc_eqb (a b : errc) : bool :=
  match a, b with
  | XNil, XNil | XNoPolicy, XNoPolicy | XInconclusive, XInconclusive | XMismatch, XMismatch
  | XMetadata, XMetadata | XRetrieval, XRetrieval | XFailed, XFailed | XOther, XOther => true
  | XResult s, XResult t => vtype_eqb s t
  | _, _ => false
  end.
Definition lname_eqb (a b : lname) : bool :=
  match a, b with
  | NStrict, NStrict | NPermissive, NPermissive | NAudit, NAudit | NSkip, NSkip | NCustom, NCustom => true
  | _, _ => false
  end.
Definition umres_eqb (a b : umres) : bool :=
  match a, b with
  | UMPanic, UMPanic | UMErr, UMErr => true
  | UMOk x, UMOk y => Bool.eqb x y
  | _, _ => false
  end.
Definition res_eqb (a b : vtype * bool) : bool := vtype_eqb (fst a) (fst b) && Bool.eqb (snd a) (snd b).
Definition outc_eqb (a b : outc) : bool :=
  opt_eqb errc_eqb (oc_err a) (oc_err b) && Bool.eqb (oc_same a) (oc_same b)
  && Bool.eqb (oc_content a) (oc_content b) && opt_eqb lname_eqb (oc_level a) (oc_level b)
  && list_eqb res_eqb (oc_results a) (oc_results b) && umres_eqb (oc_um a) (oc_um b).
Definition obs_eqb (a b : obs) : bool :=
  match a, b with
  | OPanic, OPanic | OConstruct, OConstruct => true
  | ORet f1 l1 o1 e1, ORet f2 l2 o2 e2 =>
      Bool.eqb f1 f2 && opt_eqb lname_eqb l1 l2 && list_eqb (opt_eqb outc_eqb) o1 o2
      && opt_eqb errc_eqb e1 e2
  | _, _ => false
  end.

(* ---------- the property oracle, on observations only ---------- *)
Definition is_none {A} (x : option A) : bool := match x with None => true | Some _ => false end.
Definition is_some {A} (x : option A) : bool := negb (is_none x).

Definition um_no_panic (x : option outc) : bool :=
  match x with Some o => match oc_um o with UMPanic => false | _ => true end | None => true end.
(* no outcome without error next to an error *)
Definition has_error (x : option outc) : bool :=
  match x with Some o => is_some (oc_err o) | None => true end.

(* the request passed policy selection (decided by the configuration alone) *)
Definition policy_selected (i : input) : bool :=
  match i_entry i with
  | EVerify => match v_oci (i_v i) with Some (SelLevel _) => true | _ => false end
  | EVerifyBlob => match v_blob (i_v i) with Some (SelLevel _) => true | _ => false end
  | _ => false
  end.

Definition spec_cons (i : input) (o : obs) : bool :=
  match o with
  | OPanic => false
  | OConstruct => true
  | ORet flag lvl outs err =>
      forallb um_no_panic outs &&
      forallb is_some outs &&          (* never a nil outcome pointer among the outcomes handed back *)
      match i_entry i with
      | EVerify | EVerifyBlob =>
          match err with
          | None =>
              match outs with
              | [Some o] => is_none (oc_err o) && oc_same o && is_some (oc_level o)
              | _ => false
              end
          | Some e =>
              forallb has_error outs &&
              (if policy_selected i
               then match outs with
                    | [Some o] => oc_same o && opt_eqb errc_eqb (oc_err o) (Some e)
                    | _ => false
                    end
               else true)
          end
      | ESkipVerify =>
          match outs with [] => true | _ => false end &&
          match err with
          | None => match lvl with
                    | Some n => Bool.eqb flag (lname_eqb n NSkip)
                    | None => false
                    end
          | Some _ => negb flag && is_none lvl
          end
      | ENVerify | ENVerifyBlob =>
          match err with
          | None => match outs with [Some o] => is_none (oc_err o) | _ => false end
          | Some _ => forallb has_error outs && negb flag
          end
      | EUserMeta => true
      end
  end.

(* the level of the statement that applies to the entry point at hand, in ITS document
   (library verifier only): the OCI document for Verify / SkipVerify / notation.Verify,
   the blob document for VerifyBlob / notation.VerifyBlob *)
Definition sel_level (i : input) : option level :=
  if negb (uses_lib i) then None else
  match i_entry i with
  | EVerify | ESkipVerify | ENVerify =>
      match v_oci (i_v i) with Some (SelLevel l) => Some l | _ => None end
  | EVerifyBlob | ENVerifyBlob =>
      match v_blob (i_v i) with Some (SelLevel l) => Some l | _ => None end
  | EUserMeta => None
  end.

Definition has_level (n : lname) (x : option outc) : bool :=
  match x with Some o => opt_eqb lname_eqb (oc_level o) (Some n) | None => true end.

(* every outcome carries the level of that statement; a skip-level statement never fails *)
Definition level_ok (i : input) (lvl : option lname) (outs : list (option outc)) (err : option errc) : bool :=
  match sel_level i with
  | None => true
  | Some l =>
      forallb (has_level (name_of l)) outs &&
      match i_entry i with
      | EVerify | EVerifyBlob => if is_skip l then is_none err else true
      | ESkipVerify => opt_eqb lname_eqb lvl (Some (name_of l)) && is_none err
      | _ => true
      end
  end.

Definition spec_ok (i : input) (o : obs) : bool :=
  spec_cons i o &&
  match o with ORet _ lvl outs err => level_ok i lvl outs err | _ => true end.

(* ---------- cases ---------- *)
(* [mk_case]: the nil-ability lattice; [mk_fcase] / [mk_lcase]: the registry client's
   FetchSignatureBlob / ListSignatures (C12_Registry.v) *)
Inductive case :=
| mk_case (id : N) (i : input) (o : obs)
| mk_fcase (id : N) (q : freq) (o : robs)
| mk_lcase (id : N) (q : lreq) (o : robs).

Definition c_id (c : case) : N :=
  match c with mk_case id _ _ | mk_fcase id _ _ | mk_lcase id _ _ => id end.

Definition case_agree (c : case) : bool :=
  match c with
  | mk_case _ i o => obs_eqb (model i) o
  | mk_fcase _ q o => robs_eqb (fetch_sig q) o
  | mk_lcase _ q o => robs_eqb (list_sigs q) o
  end.

Definition case_ok (c : case) : bool :=
  match c with
  | mk_case _ i o => negb (wf i) || spec_ok i o
  | mk_fcase _ _ o | mk_lcase _ _ o => rspec_ok o
  end.

Definition run (cs : list case) : list (N * N * N) :=
  run_cases c_id case_agree case_ok (fun _ => 0%N) cs.
