(* C11_RegistryProofs.v — proofs about C11_Registry (the repository client with faults). *)
From NV Require Import Base Generated C11_Model C11_Proofs C11_Registry.
Open Scope string_scope.

Lemma validate_set_push : forall c p, validate (set_push c p) = validate c.
Proof. reflexivity. Qed.
Lemma eff_ref_set_push : forall c p, eff_ref (set_push c p) = eff_ref c.
Proof. reflexivity. Qed.
Lemma wf_call_set_push : forall h tbl c p, wf_call h tbl (set_push c p) = wf_call h tbl c.
Proof. reflexivity. Qed.
Lemma sig_of_set_push : forall c p, sig_of (set_push c p) = sig_of c.
Proof. reflexivity. Qed.
Lemma validate_set_sign : forall c s, validate (set_sign c s) = validate c.
Proof. reflexivity. Qed.
Lemma eff_ref_set_sign : forall c s, eff_ref (set_sign c s) = eff_ref c.
Proof. reflexivity. Qed.
Lemma wf_call_set_sign : forall h tbl c s, wf_call h tbl (set_sign c s) = wf_call h tbl c.
Proof. reflexivity. Qed.

(* ================= a call up to the point where it would push ================= *)

Inductive pre :=
| PreStop (h' : heap) (t : trace)                  (* ended before PushSignature *)
| PrePush (h2 : heap) (rs : list string) (ss : list sign_call) (pc : push_call).

Definition pre_of (tbl : table) (h : heap) (c : call_in) : pre :=
  let stop := fun (h' : heap) (e : res) (rs : list string) (ss : list sign_call) =>
                PreStop h' (mk_trace e None "" rs ss []) in
  match validate c with
  | Some e => stop h e [] []
  | None =>
  if ci_repo_nil c then stop h ERepoNil [] [] else
  let ref := eff_ref c in
  match lookup_tbl ref tbl with
  | None => stop h EResolve [ref] []
  | Some d =>
  if negb (String.eqb ref (d_dg d)) && ci_isdigest c then stop h EDigestMismatch [ref] [] else
  let es := match ci_meta c with None => [] | Some a => entries (ci_first c) (hread a h) end in
  match add_meta false h (d_ann d) es with
  | (h1, _, Some e) => stop h1 e [ref] []
  | (h1, r1, None) =>
  let d2s := mk_desc (d_mt d) (d_dg d) (d_sz d) (d_rest d) r1 in
  let sc := mk_sign_call (deep h1 d2s) (ci_mt c) (ci_expiry c) (ci_agent c) (opt_mref (ci_pcfg c)) in
  match ci_sign c with
  | SErr => stop h1 ESigner [ref] [sc]
  | SOk sig info =>
  match gen_ann h1 info (ci_pa c) with
  | (h2, inl e) => stop h2 e [ref] [sc]
  | (h2, inr ra) => PrePush h2 [ref] [sc] (mk_push_call (ci_mt c) sig (deep h2 d) (aref_m ra) (aread ra h2))
  end end end end end.

Definition finish (sp : list stored) (x : pre) (p : pscript) : state * trace :=
  match x with
  | PreStop h' t => (mk_state h' sp, t)
  | PrePush h2 rs ss pc =>
      match p with
      | PushErr => (mk_state h2 sp, mk_trace EPush None "" rs ss [pc])
      | PushOK dg => (mk_state h2 (sp ++ [sto_of pc])%list, mk_trace ROk (Some (pc_subject pc)) dg rs ss [pc])
      | PushRefDel dg => (mk_state h2 (sp ++ [sto_of pc])%list, mk_trace RRefDel (Some (pc_subject pc)) dg rs ss [pc])
      end
  end.

Lemma sign_oci_finish : forall tbl h sp c p,
  sign_oci false tbl (mk_state h sp) (set_push c p) = finish sp (pre_of tbl h c) p.
Proof.
  intros tbl h sp c p. unfold sign_oci, pre_of.
  rewrite validate_set_push, eff_ref_set_push.
  cbn [set_push ci_repo_nil ci_isdigest ci_meta ci_first ci_sign ci_mt ci_expiry ci_agent ci_pcfg ci_pa ci_push s_heap s_stored].
  destruct (validate c); [reflexivity|].
  destruct (ci_repo_nil c); [reflexivity|].
  destruct (lookup_tbl (eff_ref c) tbl) as [d|]; [|reflexivity].
  destruct (negb (String.eqb (eff_ref c) (d_dg d)) && ci_isdigest c); [reflexivity|].
  destruct (add_meta false h (d_ann d) match ci_meta c with None => [] | Some a => entries (ci_first c) (hread a h) end) as [[h1 r1] [e|]]; [reflexivity|].
  destruct (ci_sign c) as [|sig info]; [reflexivity|].
  destruct (gen_ann h1 info (ci_pa c)) as [h2 [e|ra]]; [reflexivity|].
  destruct p; reflexivity.
Qed.

Lemma set_push_id : forall c, set_push c (ci_push c) = c.
Proof. intros []; reflexivity. Qed.

Lemma sign_oci_finish' : forall tbl h sp c,
  sign_oci false tbl (mk_state h sp) c = finish sp (pre_of tbl h c) (ci_push c).
Proof. intros. rewrite <- (set_push_id c) at 1. apply sign_oci_finish. Qed.

(* a call that stops before the push ends in none of the classes of a push *)
Lemma pre_stop_class : forall tbl h c h' t, pre_of tbl h c = PreStop h' t ->
  t_pushes t = [] /\ t_art t = None /\ t_sigdg t = "" /\ t_res t <> ROk /\ t_res t <> EPush /\ t_res t <> RRefDel.
Proof.
  intros tbl h c h' t. unfold pre_of.
  destruct (validate c) as [e|] eqn:Ev.
  { intros H; inversion H; subst; cbn. pose proof (validate_class _ _ Ev).
    repeat split; intros ->; discriminate. }
  destruct (ci_repo_nil c). { intros H; inversion H; cbn; repeat split; discriminate. }
  destruct (lookup_tbl (eff_ref c) tbl) as [d|]. 2:{ intros H; inversion H; cbn; repeat split; discriminate. }
  destruct (negb (String.eqb (eff_ref c) (d_dg d)) && ci_isdigest c). { intros H; inversion H; cbn; repeat split; discriminate. }
  destruct (add_meta false h (d_ann d) match ci_meta c with None => [] | Some a => entries (ci_first c) (hread a h) end) as [[h1 r1] [e|]] eqn:Ea.
  { intros H; inversion H; subst; cbn. destruct (add_meta_class _ _ _ _ _ _ Ea) as [-> | ->]; repeat split; discriminate. }
  destruct (ci_sign c) as [|sig info]. { intros H; inversion H; cbn; repeat split; discriminate. }
  destruct (gen_ann h1 info (ci_pa c)) as [h2 [e|ra]] eqn:Eg; [|discriminate].
  intros H; inversion H; subst; cbn. destruct (gen_ann_class _ _ _ _ _ Eg) as [-> | ->]; repeat split; discriminate.
Qed.

Lemma pre_push_sig : forall tbl h c h2 rs ss pc, pre_of tbl h c = PrePush h2 rs ss pc ->
  pc_sig pc = sig_of c /\ rs = [eff_ref c] /\ lookup_tbl (eff_ref c) tbl <> None.
Proof.
  intros tbl h c h2 rs ss pc. unfold pre_of, sig_of.
  destruct (validate c); [discriminate|].
  destruct (ci_repo_nil c); [discriminate|].
  destruct (lookup_tbl (eff_ref c) tbl) as [d|]; [|discriminate].
  destruct (negb (String.eqb (eff_ref c) (d_dg d)) && ci_isdigest c); [discriminate|].
  destruct (add_meta false h (d_ann d) _) as [[h1 r1] [e|]]; [discriminate|].
  destruct (ci_sign c) as [|sig info]; [discriminate|].
  destruct (gen_ann h1 info (ci_pa c)) as [h2' [e|ra]]; [discriminate|].
  intros H; inversion H; subst. cbn. repeat split; discriminate.
Qed.

(* other envelope bytes: the same call but for the bytes handed to PushSignature *)
Lemma pre_of_set_sign : forall tbl h c s,
  pre_of tbl h (set_sign c s)
  = match pre_of tbl h c with
    | PrePush h2 rs ss pc => PrePush h2 rs ss (pc_resig pc s)
    | x => x
    end.
Proof.
  intros tbl h c s. unfold pre_of.
  rewrite validate_set_sign, eff_ref_set_sign.
  cbn [set_sign ci_repo_nil ci_isdigest ci_meta ci_first ci_sign ci_mt ci_expiry ci_agent ci_pcfg ci_pa ci_push].
  destruct (validate c); [reflexivity|].
  destruct (ci_repo_nil c); [reflexivity|].
  destruct (lookup_tbl (eff_ref c) tbl) as [d|]; [|reflexivity].
  destruct (negb (String.eqb (eff_ref c) (d_dg d)) && ci_isdigest c); [reflexivity|].
  destruct (add_meta false h (d_ann d) _) as [[h1 r1] [e|]]; [reflexivity|].
  destruct (ci_sign c) as [|sig info]; [reflexivity|].
  destruct (gen_ann h1 info (ci_pa c)) as [h2 [e|ra]]; reflexivity.
Qed.

(* with an empty table nothing resolves *)
Lemma pre_of_nil : forall h c, exists t, pre_of [] h c = PreStop h t /\ t_signs t = [].
Proof.
  intros h c. unfold pre_of.
  destruct (validate c); [eexists; split; reflexivity|].
  destruct (ci_repo_nil c); eexists; split; reflexivity.
Qed.

(* the heap a call leaves: the addresses stay, only the signer's own map may change *)
Lemma pre_of_frame : forall tbl h c,
  let h' := match pre_of tbl h c with PreStop h' _ => h' | PrePush h2 _ _ _ => h2 end in
  map fst h' = map fst h /\ (forall a, ci_pa c <> PAMap a -> hget a h' = hget a h)
  /\ ((forall a, ci_pa c <> PAMap a) -> h' = h).
Proof.
  intros tbl h c. cbv zeta.
  destruct (sign_oci false tbl (mk_state h []) (set_push c PushErr)) as [st' t] eqn:E.
  pose proof (frame _ _ _ _ _ E) as (F1 & F2 & F3 & _).
  rewrite sign_oci_finish in E. cbn [set_push ci_pa s_heap] in *.
  destruct (pre_of tbl h c); cbn in E; inversion E; subst; cbn [s_heap] in *; auto.
Qed.

(* ================= one call through the client ================= *)

Definition reg_tbl (tbl : table) (f : fault) : table :=
  match fault_at f 0 with Some _ => [] | None => tbl end.

Lemma sign_oci_reg_eq : forall tbl h sp bl fc,
  sign_oci_reg tbl (mk_state h sp) bl fc =
  let c := fc_call fc in
  let f := fc_fault fc in
  match pre_of (reg_tbl tbl f) h c with
  | PreStop h' t =>
      (mk_state h' sp, bl, t, match t_resolves t with [] => [] | _ => [(OResolve, resolve_out tbl c f)] end)
  | PrePush h2 rs ss pc =>
      let '(pops, bl', po) := push_signature f bl (sig_of c) in
      let ops := ((OResolve, resolve_out tbl c f) :: pops) in
      match po with
      | POk => (mk_state h2 (sp ++ [sto_of pc])%list, bl',
                mk_trace ROk (Some (pc_subject pc)) (fc_dg fc) rs ss [pc], ops)
      | PFail => (mk_state h2 sp, bl', mk_trace EPush None "" rs ss [pc], ops)
      | PFailStored => (mk_state h2 (sp ++ [sto_of pc])%list, bl', mk_trace EPush None "" rs ss [pc], ops)
      end
  end.
Proof.
  intros tbl h sp bl fc. cbv zeta. unfold sign_oci_reg, reg_tbl.
  destruct (push_signature (fc_fault fc) bl (sig_of (fc_call fc))) as [[pops bl'] po].
  rewrite sign_oci_finish.
  destruct (pre_of _ h (fc_call fc)) as [h' t|h2 rs ss pc] eqn:Ep.
  - cbn [finish]. cbv beta iota. destruct (pre_stop_class _ _ _ _ _ Ep) as (-> & _). reflexivity.
  - destruct (pre_push_sig _ _ _ _ _ _ _ Ep) as (_ & -> & _).
    destruct po; cbn; reflexivity.
Qed.

(* ---------- PushSignature on the store ---------- *)

Lemma mem_str_In' : forall x l, mem_str x l = true <-> In x l.
Proof. exact mem_str_In. Qed.

Lemma mem_str_false : forall x l, mem_str x l = false <-> ~ In x l.
Proof.
  intros x l. rewrite <- mem_str_In. destruct (mem_str x l); split; intros; try congruence; try tauto.
Qed.

Lemma push_manifest_none : forall k ops bl,
  push_manifest None k ops bl = ((ops ++ [(OPushMan, OOk)])%list, bl, POk).
Proof. reflexivity. Qed.

(* no fault, bytes the store does not hold: pushed, every operation fine; the store then
   holds the bytes and the empty config, and nothing else new *)
Lemma push_signature_healthy : forall bl sig, ~ In sig bl ->
  exists pops bl', push_signature None bl sig = (pops, bl', POk)
    /\ all_ok pops = true
    /\ In sig bl' /\ In cfg_bytes bl'
    /\ (forall x, In x bl' <-> x = sig \/ x = cfg_bytes \/ In x bl).
Proof.
  intros bl sig Hn. unfold push_signature. cbn [fault_at].
  apply mem_str_false in Hn. rewrite Hn.
  destruct (mem_str cfg_bytes (sig :: bl)) eqn:Ec.
  - eexists _, _. split; [reflexivity|]. apply mem_str_In in Ec.
    repeat split; try reflexivity; try (left; reflexivity); try exact Ec.
    + intros [<- | H]; auto.
    + intros [-> | [-> | H]]; [left; reflexivity | exact Ec | right; exact H].
  - eexists _, _. split; [reflexivity|].
    repeat split; try reflexivity; cbn; auto.
    + intros [<- | [<- | H]]; auto.
    + intros [-> | [-> | H]]; auto.
Qed.

(* whatever happens, the store only gains the envelope bytes and the empty config *)
Lemma push_signature_blobs : forall f bl sig pops bl' po,
  push_signature f bl sig = (pops, bl', po) ->
  (forall x, In x bl -> In x bl') /\ (forall x, In x bl' -> x = sig \/ x = cfg_bytes \/ In x bl).
Proof.
  intros f bl sig pops bl' po. unfold push_signature, push_manifest, add_blob.
  destruct (fault_at f 1) as [[|]|].
  { intros H; inversion H; subst; auto. }
  { destruct (mem_str sig bl); intros H; inversion H; subst; cbn; split; auto; intros x [<-|Hx]; auto. }
  destruct (mem_str sig bl). { intros H; inversion H; subst; auto. }
  destruct (fault_at f 2). { intros H; inversion H; subst; cbn; split; auto. intros x [<-|Hx]; auto. }
  destruct (mem_str cfg_bytes (sig :: bl)).
  { destruct (fault_at f 3) as [[|]|]; intros H; inversion H; subst; cbn; split; auto; intros x [<-|Hx]; auto. }
  destruct (fault_at f 3) as [[|]|].
  1,2: intros H; inversion H; subst; cbn; split; auto; intros x; intuition.
  destruct (fault_at f 4) as [[|]|]; intros H; inversion H; subst; cbn; split; auto; intros x; intuition.
Qed.

(* an operation that did not end well is the last one, and then the push is not reported;
   if every operation ended well the push succeeded *)
Lemma push_signature_outcome : forall f bl sig pops bl' po,
  push_signature f bl sig = (pops, bl', po) ->
  (all_ok pops = true <-> po = POk)
  /\ (po = PFailStored <-> In (OPushMan, OInjAfter) pops)
  /\ (forall x, In (OPushBlob, x) pops -> x = ONatural -> In sig bl).
Proof.
  intros f bl sig pops bl' po. unfold push_signature, push_manifest, add_blob.
  destruct (fault_at f 1) as [[|]|].
  1,2: intros H; inversion H; subst; cbn; repeat split; try discriminate; try tauto;
       try (intros [E|[]]; discriminate); try (intros x [E|[]] ->; discriminate).
  destruct (mem_str sig bl) eqn:Em.
  { intros H; inversion H; subst; cbn. apply mem_str_In in Em. repeat split; try discriminate; try tauto.
    intros [E|[]]; discriminate. }
  destruct (fault_at f 2) as [fk|].
  { intros H; inversion H; subst; cbn. destruct fk; cbn; repeat split; try discriminate; try tauto;
      try (intros [E|[E|[]]]; discriminate); intros x [E|[E|[]]] ->; discriminate. }
  destruct (mem_str cfg_bytes (sig :: bl)).
  { destruct (fault_at f 3) as [[|]|]; intros H; inversion H; subst; cbn; repeat split; try discriminate; try tauto;
      try (intros [E|[E|[E|[]]]]; discriminate); try (intros x [E|[E|[E|[]]]] ->; discriminate); auto. }
  destruct (fault_at f 3) as [[|]|].
  1,2: intros H; inversion H; subst; cbn; repeat split; try discriminate; try tauto;
       try (intros [E|[E|[E|[]]]]; discriminate); try (intros x [E|[E|[E|[]]]] ->; discriminate).
  destruct (fault_at f 4) as [[|]|]; intros H; inversion H; subst; cbn; repeat split; try discriminate; try tauto;
    try (intros [E|[E|[E|[E|[]]]]]; discriminate); try (intros x [E|[E|[E|[E|[]]]]] ->; discriminate); auto 6.
Qed.

Lemma all_ok_In : forall ops, all_ok ops = true <-> (forall o x, In (o, x) ops -> x = OOk).
Proof.
  intros ops. unfold all_ok. rewrite forallb_forall. split.
  - intros H o x Hin. specialize (H _ Hin). cbn in H. destruct x; try discriminate; reflexivity.
  - intros H [o x] Hin. cbn. rewrite (H _ _ Hin). reflexivity.
Qed.

Lemma reg_tbl_none : forall tbl, reg_tbl tbl None = tbl.
Proof. reflexivity. Qed.

Lemma pre_stop_resolve : forall tbl h c h' t, pre_of tbl h c = PreStop h' t ->
  lookup_tbl (eff_ref c) tbl = None -> t_resolves t <> [] -> t_res t = EResolve /\ h' = h /\ t_signs t = [].
Proof.
  intros tbl h c h' t. unfold pre_of.
  destruct (validate c). { intros H _; inversion H; cbn; congruence. }
  destruct (ci_repo_nil c). { intros H _; inversion H; cbn; congruence. }
  intros H E. rewrite E in H. inversion H; cbn; auto.
Qed.

(* ---------- a call without a fault, envelope bytes the store does not hold ---------- *)
Theorem reg_healthy : forall tbl st bl fc st' bl' t ops,
  fc_fault fc = None -> ~ In (sig_of (fc_call fc)) bl ->
  sign_oci_reg tbl st bl fc = (st', bl', t, ops) ->
  sign_oci false tbl st (set_push (fc_call fc) (PushOK (fc_dg fc))) = (st', t)
  /\ t_res t <> EPush
  /\ (forall o x, In (o, x) ops ->
        x = OOk \/ (o = OResolve /\ x = ONatural /\ lookup_tbl (eff_ref (fc_call fc)) tbl = None)).
Proof.
  intros tbl [h sp] bl fc st' bl' t ops Ef Hn H.
  rewrite sign_oci_reg_eq in H. cbv zeta in H. rewrite Ef, reg_tbl_none in H.
  rewrite sign_oci_finish.
  destruct (pre_of tbl h (fc_call fc)) as [h1 t1|h2 rs ss pc] eqn:Ep.
  - inversion H; subst. cbn [finish]. split; [reflexivity|].
    destruct (pre_stop_class _ _ _ _ _ Ep) as (_ & _ & _ & _ & Hp & _). split; [exact Hp|].
    intros o x Hin. destruct (t_resolves t); [destruct Hin|].
    destruct Hin as [E|[]]. inversion E; subst. unfold resolve_out. cbn [fault_at].
    destruct (lookup_tbl (eff_ref (fc_call fc)) tbl); cbn; auto.
  - destruct (push_signature_healthy bl _ Hn) as (pops & bl1 & E & Hok & _).
    rewrite E in H. inversion H; subst. cbn [finish]. split; [reflexivity|]. split; [discriminate|].
    intros o x [Hin|Hin].
    + inversion Hin; subst. destruct (pre_push_sig _ _ _ _ _ _ _ Ep) as (_ & _ & Hl).
      unfold resolve_out. cbn [fault_at]. destruct (lookup_tbl (eff_ref (fc_call fc)) tbl); [auto | congruence].
    + left. eapply all_ok_In; eassumption.
Qed.

(* ---------- any call, any fault: the frame ---------- *)
Theorem reg_frame : forall tbl st bl fc st' bl' t ops,
  sign_oci_reg tbl st bl fc = (st', bl', t, ops) ->
  let c := fc_call fc in
  map fst (s_heap st') = map fst (s_heap st)
  /\ (forall a, ci_pa c <> PAMap a -> hget a (s_heap st') = hget a (s_heap st))
  /\ ((forall a, ci_pa c <> PAMap a) -> s_heap st' = s_heap st)
  /\ (s_stored st' = s_stored st /\ t_res t <> ROk
      \/ exists pc, t_pushes t = [pc] /\ pc_sig pc = sig_of c
           /\ s_stored st' = (s_stored st ++ [sto_of pc])%list
           /\ (t_res t = ROk \/ t_res t = EPush /\ In (OPushMan, OInjAfter) ops))
  /\ (forall x, In x bl -> In x bl')
  /\ (forall x, In x bl' -> x = sig_of c \/ x = cfg_bytes \/ In x bl).
Proof.
  intros tbl [h sp] bl fc st' bl' t ops H c. subst c.
  rewrite sign_oci_reg_eq in H. cbv zeta in H.
  pose proof (pre_of_frame (reg_tbl tbl (fc_fault fc)) h (fc_call fc)) as F. cbv zeta in F.
  destruct (pre_of (reg_tbl tbl (fc_fault fc)) h (fc_call fc)) as [h1 t1|h2 rs ss pc] eqn:Ep.
  - inversion H; subst. cbn [s_heap s_stored]. destruct F as (F1 & F2 & F3).
    destruct (pre_stop_class _ _ _ _ _ Ep) as (_ & _ & _ & Hr & _).
    repeat split; auto.
  - destruct (push_signature (fc_fault fc) bl (sig_of (fc_call fc))) as [[pops bl1] po] eqn:E.
    destruct (push_signature_blobs _ _ _ _ _ _ E) as (B1 & B2).
    destruct (push_signature_outcome _ _ _ _ _ _ E) as (_ & O2 & _).
    destruct (pre_push_sig _ _ _ _ _ _ _ Ep) as (Hs & _ & _).
    destruct F as (F1 & F2 & F3).
    destruct po; inversion H; subst; cbn [s_heap s_stored t_res t_pushes]; repeat split; auto.
    + right. exists pc. auto.
    + left. split; [reflexivity | discriminate].
    + right. exists pc. repeat split; auto. right. split; [reflexivity|]. right. apply O2. reflexivity.
Qed.

(* ---------- a call during which a store operation failed ---------- *)
Theorem reg_failed : forall tbl st bl fc st' bl' t ops,
  sign_oci_reg tbl st bl fc = (st', bl', t, ops) ->
  (all_ok ops = false ->
     (t_res t = EResolve \/ t_res t = EPush) /\ t_art t = None /\ t_sigdg t = ""
     /\ (s_stored st' = s_stored st \/ In (OPushMan, OInjAfter) ops))
  /\ (t_res t = EPush -> all_ok ops = false)
  /\ (forall x, In (OPushBlob, x) ops -> x = ONatural -> In (sig_of (fc_call fc)) bl).
Proof.
  intros tbl [h sp] bl fc st' bl' t ops H.
  rewrite sign_oci_reg_eq in H. cbv zeta in H.
  destruct (pre_of (reg_tbl tbl (fc_fault fc)) h (fc_call fc)) as [h1 t1|h2 rs ss pc] eqn:Ep.
  - inversion H; subst. destruct (pre_stop_class _ _ _ _ _ Ep) as (_ & Ha & Hd & _ & Hp & _).
    split; [|split].
    + intros Hf. destruct (t_resolves t) eqn:Er; [discriminate|].
      assert (t_res t = EResolve) as Hres.
      { unfold reg_tbl in Ep. unfold resolve_out in Hf.
        destruct (fault_at (fc_fault fc) 0) as [fk|].
        - eapply pre_stop_resolve; [exact Ep | reflexivity | congruence].
        - destruct (lookup_tbl (eff_ref (fc_call fc)) tbl) eqn:El; [discriminate|].
          eapply pre_stop_resolve; [exact Ep | exact El | congruence]. }
      cbn [s_stored]. auto.
    + intros E. contradiction.
    + intros x Hin. destruct (t_resolves t); [destruct Hin|]. destruct Hin as [E|[]]. discriminate.
  - destruct (push_signature (fc_fault fc) bl (sig_of (fc_call fc))) as [[pops bl1] po] eqn:E.
    destruct (push_signature_outcome _ _ _ _ _ _ E) as (O1 & O2 & O3).
    destruct (pre_push_sig _ _ _ _ _ _ _ Ep) as (_ & _ & Hl).
    assert (resolve_out tbl (fc_call fc) (fc_fault fc) = OOk) as Ero.
    { unfold resolve_out. unfold reg_tbl in Hl. destruct (fault_at (fc_fault fc) 0); [cbn in Hl; congruence|].
      destruct (lookup_tbl (eff_ref (fc_call fc)) tbl); [reflexivity | congruence]. }
    assert (forall ops0, ops0 = (OResolve, resolve_out tbl (fc_call fc) (fc_fault fc)) :: pops ->
            all_ok ops0 = all_ok pops) as Ea.
    { intros ops0 ->. unfold all_ok. cbn [forallb snd]. rewrite Ero. reflexivity. }
    split; [|split].
    + intros Hf. destruct po; inversion H; subst; cbn [t_res t_art t_sigdg s_stored].
      * rewrite (Ea _ eq_refl) in Hf. assert (all_ok pops = true) by (apply O1; reflexivity). congruence.
      * auto.
      * repeat split; auto. right. right. apply O2. reflexivity.
    + intros Hr. destruct po; inversion H; subst; cbn in Hr; try discriminate;
        rewrite (Ea _ eq_refl); destruct (all_ok pops) eqn:Eo; try reflexivity;
        (assert (PFail = POk \/ PFailStored = POk) as [X|X] by (first [left; apply O1; reflexivity | right; apply O1; reflexivity]); discriminate).
    + intros x Hin Hx. apply (O3 x); [|exact Hx].
      destruct po; inversion H; subst; (destruct Hin as [X|Hin]; [discriminate | exact Hin]).
Qed.

(* ================= signing again after a failed call ================= *)

Lemma pre_push_of_ok : forall tbl h sp c dg st1 t1,
  sign_oci false tbl (mk_state h sp) (set_push c (PushOK dg)) = (st1, t1) -> t_res t1 = ROk ->
  exists h2 rs ss pc, pre_of tbl h c = PrePush h2 rs ss pc
    /\ st1 = mk_state h2 (sp ++ [sto_of pc])%list
    /\ t1 = mk_trace ROk (Some (pc_subject pc)) dg rs ss [pc].
Proof.
  intros tbl h sp c dg st1 t1 H Hr. rewrite sign_oci_finish in H.
  destruct (pre_of tbl h c) as [h' t|h2 rs ss pc] eqn:Ep; cbn in H; inversion H; subst.
  - destruct (pre_stop_class _ _ _ _ _ Ep) as (_ & _ & _ & Hn & _). contradiction.
  - exists h2, rs, ss, pc. auto.
Qed.

(* after a successful call the same options go through again, from the heap it left *)
Lemma pre_of_repeat : forall tbl h c h2 rs ss pc,
  wf_call h tbl c = true -> pre_of tbl h c = PrePush h2 rs ss pc ->
  pre_of tbl h2 c = PrePush h2 rs ss pc.
Proof.
  intros tbl h c h2 rs ss pc W Ep.
  pose (c0 := set_push c (PushOK "")).
  assert (sign_oci false tbl (mk_state h []) c0
          = (mk_state h2 ([] ++ [sto_of pc])%list, mk_trace ROk (Some (pc_subject pc)) "" rs ss [pc])) as E.
  { unfold c0. rewrite sign_oci_finish, Ep. reflexivity. }
  destruct (repeat_step tbl h [] c0 _ _ W E eq_refl []) as [x Hx].
  cbn [s_heap] in Hx. unfold c0 in Hx. rewrite sign_oci_finish in Hx.
  destruct (pre_of tbl h2 c) as [h' t|h2' rs' ss' pc'] eqn:Ep2; cbn in Hx; inversion Hx; subst.
  reflexivity.
Qed.

Definition later_calls (c : call_in) (rest : list (string * string)) : list fcall :=
  map (fun sd => mk_fcall (set_sign c (fst sd)) (snd sd) None) rest.

Lemma healthy_tail : forall tbl probes cands h c h2 rs ss pc dg0,
  wf_call h tbl c = true -> pre_of tbl h c = PrePush h2 rs ss pc ->
  forall rest hh sp bl,
  hh = h \/ hh = h2 ->
  NoDup (map fst rest) -> (forall s, In s (map fst rest) -> s <> cfg_bytes /\ ~ In s bl) ->
  let obs := run_fcalls tbl probes cands (mk_state hh sp) bl (later_calls c rest) in
  map fo_co obs = expect_ok tbl probes (mk_trace ROk (Some (pc_subject pc)) dg0 rs ss [pc]) h2 sp rest
  /\ Forall (fun o => all_ok (fo_ops o) = true) obs.
Proof.
  intros tbl probes cands h c h2 rs ss pc dg0 W Ep rest.
  induction rest as [|[s dg] r IH]; intros hh sp bl Hh Hnd Hfr; cbv zeta.
  { cbn. split; constructor. }
  cbn [later_calls map run_fcalls fst snd].
  assert (pre_of tbl hh c = PrePush h2 rs ss pc) as Ephh.
  { destruct Hh as [-> | ->]; [exact Ep | exact (pre_of_repeat _ _ _ _ _ _ _ W Ep)]. }
  assert (pre_of tbl hh (set_sign c s) = PrePush h2 rs ss (pc_resig pc s)) as Eps.
  { rewrite pre_of_set_sign, Ephh. reflexivity. }
  destruct (pre_push_sig _ _ _ _ _ _ _ Eps) as (Hsig & _ & Hl). cbn [pc_resig pc_sig] in Hsig.
  assert (~ In s bl) as Hs by (apply Hfr; left; reflexivity).
  destruct (push_signature_healthy bl s Hs) as (pops & bl1 & Epush & Hok & _ & _ & Hbl).
  rewrite sign_oci_reg_eq. cbv zeta. cbn [fc_call fc_fault fc_dg]. rewrite reg_tbl_none, Eps, <- Hsig, Epush.
  cbn [map fo_co expect_ok retrace t_res t_art t_resolves t_signs t_pushes s_heap s_stored pc_resig pc_subject].
  inversion Hnd as [|? ? Hnin Hnd']; subst.
  destruct (IH h2 (sp ++ [sto_of (pc_resig pc s)])%list bl1 (or_intror eq_refl) Hnd') as [IH1 IH2].
  { intros s' Hs'. destruct (Hfr s' (or_intror Hs')) as [A B]. split; [exact A|].
    intros Hin. apply Hbl in Hin. destruct Hin as [-> | [-> | Hin]]; [contradiction | congruence | contradiction]. }
  split.
  - f_equal. exact IH1.
  - constructor; [|exact IH2]. cbn [fo_ops]. unfold all_ok. cbn [forallb snd].
    unfold resolve_out. cbn [fault_at]. rewrite eff_ref_set_sign in Hl |- *.
    destruct (lookup_tbl (eff_ref c) tbl); [|congruence]. cbn. exact Hok.
Qed.

Theorem retry_after_fault : forall tbl probes cands h sp bl c dg f rest st1 t1,
  wf_call h tbl c = true ->
  sign_oci false tbl (mk_state h sp) (set_push c (PushOK dg)) = (st1, t1) -> t_res t1 = ROk ->
  NoDup (map fst rest) ->
  (forall s, In s (map fst rest) -> s <> sig_of c /\ s <> cfg_bytes /\ ~ In s bl) ->
  exists o1 os,
    run_fcalls tbl probes cands (mk_state h sp) bl (mk_fcall c dg f :: later_calls c rest) = o1 :: os
    /\ map fo_co os = expect_ok tbl probes t1 (s_heap st1) (co_stored (fo_co o1)) rest
    /\ Forall (fun o => all_ok (fo_ops o) = true) os.
Proof.
  intros tbl probes cands h sp bl c dg f rest st1 t1 W H Hr Hnd Hfr.
  destruct (pre_push_of_ok _ _ _ _ _ _ _ H Hr) as (h2 & rs & ss & pc & Ep & -> & ->).
  cbn [s_heap run_fcalls].
  rewrite sign_oci_reg_eq. cbv zeta. cbn [fc_call fc_fault fc_dg].
  unfold reg_tbl. destruct (fault_at f 0) as [fk|].
  - destruct (pre_of_nil h c) as (t0 & -> & _).
    eexists _, _. split; [reflexivity|]. cbn [fo_co co_stored s_stored s_heap].
    apply (healthy_tail tbl probes cands h c h2 rs ss pc dg W Ep rest h sp bl (or_introl eq_refl) Hnd).
    intros s Hs. destruct (Hfr s Hs) as (_ & A & B). auto.
  - rewrite Ep.
    destruct (push_signature f bl (sig_of c)) as [[pops bl1] po] eqn:Epush.
    destruct (push_signature_blobs _ _ _ _ _ _ Epush) as (_ & B2).
    assert (forall s, In s (map fst rest) -> s <> cfg_bytes /\ ~ In s bl1) as Hfr1.
    { intros s Hs. destruct (Hfr s Hs) as (A & B & C). split; [exact B|].
      intros Hin. destruct (B2 _ Hin) as [-> | [-> | Hin']]; congruence || contradiction. }
    destruct po; (eexists _, _; split; [reflexivity|]); cbn [fo_co co_stored s_stored s_heap];
      apply (healthy_tail tbl probes cands h c h2 rs ss pc dg W Ep rest h2 _ bl1 (or_intror eq_refl) Hnd Hfr1).
Qed.

(* ================= the model meets the oracle for histories with faults ================= *)

Lemma present_presence : forall cands bl x,
  mem_str x cands = true -> present cands (presence cands bl) x = mem_str x bl.
Proof.
  intros cands bl x. unfold present, presence. induction cands as [|y cs IH]; cbn; [discriminate|].
  destruct (String.eqb x y) eqn:E.
  - intros _. apply String.eqb_eq in E. subst y. rewrite String.eqb_refl. cbn.
    destruct (mem_str x bl) eqn:Em; [reflexivity|]. cbn.
    (* the remaining candidates: either x occurs again (same answer) or not *)
    clear IH. induction cs as [|z cs IH]; cbn; [reflexivity|].
    destruct (String.eqb z x) eqn:Ez.
    + apply String.eqb_eq in Ez. subst z. rewrite Em. cbn. exact IH.
    + cbn. exact IH.
  - cbn. intros H. rewrite String.eqb_sym, E. cbn. apply IH. exact H.
Qed.

Lemma push_ops_shape : forall f bl sig pops bl' po (A B : bool),
  push_signature f bl sig = (pops, bl', po) -> (mem_str sig bl = true -> B = true) ->
  existsb (fun x => sop_eqb (fst x) OResolve
                    && (oout_eqb (snd x) OInjBefore || oout_eqb (snd x) OInjAfter)) pops = false
  /\ existsb (fun x => push_stage (fst x) && failed (snd x)) pops
     = match po with POk => false | _ => true end
  /\ existsb (fun x => sop_eqb (fst x) OPushMan && oout_eqb (snd x) OInjAfter) pops
     = match po with PFailStored => true | _ => false end
  /\ forallb (fun x => negb (oout_eqb (snd x) ONatural)
                       || (sop_eqb (fst x) OResolve && A)
                       || (sop_eqb (fst x) OPushBlob && B)) pops = true.
Proof.
  intros f bl sig pops bl' po A B. unfold push_signature, push_manifest, add_blob.
  destruct (fault_at f 1) as [[|]|].
  1,2: intros H _; inversion H; subst; cbn; auto.
  destruct (mem_str sig bl) eqn:Em.
  { intros H HB; inversion H; subst; cbn. rewrite (HB eq_refl). cbn. rewrite ?orb_true_r. auto. }
  destruct (fault_at f 2) as [[|]|].
  1,2: intros H _; inversion H; subst; cbn; auto.
  destruct (mem_str cfg_bytes (sig :: bl)).
  { destruct (fault_at f 3) as [[|]|]; intros H _; inversion H; subst; cbn; auto. }
  destruct (fault_at f 3) as [[|]|].
  1,2: intros H _; inversion H; subst; cbn; auto.
  destruct (fault_at f 4) as [[|]|]; intros H _; inversion H; subst; cbn; auto.
Qed.

(* argument errors do not depend on the table *)
Lemma pre_of_nil_args : forall tbl h c t, pre_of [] h c = PreStop h t -> t_resolves t = [] ->
  pre_of tbl h c = PreStop h t.
Proof.
  intros tbl h c t. unfold pre_of.
  destruct (validate c); [auto|].
  destruct (ci_repo_nil c); [auto|].
  cbn. intros H; inversion H; subst; cbn. discriminate.
Qed.

Lemma pre_of_nil_resolve : forall h c t, pre_of [] h c = PreStop h t -> t_resolves t <> [] ->
  t = mk_trace EResolve None "" [eff_ref c] [] [] /\ args_bad c = false.
Proof.
  intros h c t. unfold pre_of.
  destruct (validate c) eqn:Ev; [intros H; inversion H; cbn; congruence|].
  destruct (ci_repo_nil c) eqn:Er; [intros H; inversion H; cbn; congruence|].
  cbn. intros H _; inversion H; subst. split; [reflexivity|]. apply args_ok; assumption.
Qed.

Lemma spec_call_finish : forall tbl probes h sp c p x,
  wf_heap h = true -> wf_call h tbl c = true -> pre_of tbl h c = x ->
  let r := finish sp x p in
  spec_call tbl probes h sp (set_push c p)
    (mk_co (snd r) (s_heap (fst r)) (view tbl probes (s_heap (fst r))) (s_stored (fst r))) = true.
Proof.
  intros tbl probes h sp c p x W Wc <-. cbv zeta.
  apply spec_call_model; [exact W | exact Wc |].
  rewrite sign_oci_finish. destruct (finish sp (pre_of tbl h c) p); reflexivity.
Qed.

Lemma fspec_call_model : forall tbl probes cands h sp bl fc st' bl' t ops,
  wf_heap h = true -> wf_call h tbl (fc_call fc) = true -> mem_str (sig_of (fc_call fc)) cands = true ->
  sign_oci_reg tbl (mk_state h sp) bl fc = (st', bl', t, ops) ->
  fspec_call tbl probes cands h sp (presence cands bl) fc
    (mk_fco (mk_co t (s_heap st') (view tbl probes (s_heap st')) (s_stored st')) ops (presence cands bl')) = true.
Proof.
  intros tbl probes cands h sp bl fc st' bl' t ops W Wc Hc H.
  rewrite sign_oci_reg_eq in H. cbv zeta in H.
  unfold fspec_call. cbv zeta. cbn [fo_ops fo_co co_stored co_trace].
  rewrite (present_presence _ bl _ Hc).
  unfold reg_tbl in H. destruct (fault_at (fc_fault fc) 0) as [fk|] eqn:Ef0.
  - (* the Resolve fails *)
    destruct (pre_of_nil h (fc_call fc)) as (t0 & Ep & _). rewrite Ep in H.
    injection H as E1 E2 E3 E4. subst st' bl' t0 ops.
    destruct (t_resolves t) eqn:Er.
    + (* an argument error: no store operation at all *)
      cbn [existsb forallb andb]. cbn [s_heap s_stored].
      pose proof (pre_of_nil_args tbl _ _ _ Ep Er) as Ep'.
      exact (spec_call_finish tbl probes h sp (fc_call fc) (PushOK (fc_dg fc)) _ W Wc Ep').
    + assert (t_resolves t <> []) as Hne by congruence.
      destruct (pre_of_nil_resolve _ _ _ Ep Hne) as (-> & Hab).
      unfold resolve_out. rewrite Ef0.
      assert (existsb (fun x : sop * oout => sop_eqb (fst x) OResolve
                && (oout_eqb (snd x) OInjBefore || oout_eqb (snd x) OInjAfter)) [(OResolve, inj fk)] = true) as ->
        by (destruct fk; reflexivity).
      assert (forallb (fun x : sop * oout => negb (oout_eqb (snd x) ONatural)
                || sop_eqb (fst x) OResolve && is_none (lookup_tbl (eff_ref (fc_call fc)) tbl)
                || sop_eqb (fst x) OPushBlob && mem_str (sig_of (fc_call fc)) bl) [(OResolve, inj fk)] = true) as ->
        by (destruct fk; reflexivity).
      unfold spec_resolve_fault, view_ok. cbn [co_trace co_heap co_view co_stored t_res t_pushes t_art t_sigdg t_signs t_resolves s_heap s_stored].
      rewrite heap_same_refl, view_eqb_refl, Hab, stored_list_refl, str_list_refl. reflexivity.
  - destruct (pre_of tbl h (fc_call fc)) as [h1 t1|h2 rs ss pc] eqn:Ep.
    + (* stopped before the push *)
      injection H as E1 E2 E3 E4. subst st' bl' t1 ops. cbn [s_heap s_stored].
      assert (existsb (fun x : sop * oout => sop_eqb (fst x) OResolve
                && (oout_eqb (snd x) OInjBefore || oout_eqb (snd x) OInjAfter))
                match t_resolves t with [] => [] | _ :: _ => [(OResolve, resolve_out tbl (fc_call fc) (fc_fault fc))] end = false
              /\ existsb (fun x : sop * oout => push_stage (fst x) && failed (snd x))
                match t_resolves t with [] => [] | _ :: _ => [(OResolve, resolve_out tbl (fc_call fc) (fc_fault fc))] end = false
              /\ existsb (fun x : sop * oout => sop_eqb (fst x) OPushMan && oout_eqb (snd x) OInjAfter)
                match t_resolves t with [] => [] | _ :: _ => [(OResolve, resolve_out tbl (fc_call fc) (fc_fault fc))] end = false
              /\ forallb (fun x : sop * oout => negb (oout_eqb (snd x) ONatural)
                || sop_eqb (fst x) OResolve && is_none (lookup_tbl (eff_ref (fc_call fc)) tbl)
                || sop_eqb (fst x) OPushBlob && mem_str (sig_of (fc_call fc)) bl)
                match t_resolves t with [] => [] | _ :: _ => [(OResolve, resolve_out tbl (fc_call fc) (fc_fault fc))] end = true)
        as (-> & -> & -> & ->).
      { destruct (t_resolves t); [auto|]. unfold resolve_out. rewrite Ef0.
        destruct (lookup_tbl (eff_ref (fc_call fc)) tbl); cbn; auto. }
      cbn [andb].
      exact (spec_call_finish tbl probes h sp (fc_call fc) (PushOK (fc_dg fc)) _ W Wc Ep).
    + (* reached PushSignature *)
      destruct (push_signature (fc_fault fc) bl (sig_of (fc_call fc))) as [[pops bl1] po] eqn:Epush.
      destruct (push_ops_shape _ _ _ _ _ _ (is_none (lookup_tbl (eff_ref (fc_call fc)) tbl))
                  (mem_str (sig_of (fc_call fc)) bl) Epush (fun e => e)) as (S1 & S2 & S3 & S4).
      destruct (pre_push_sig _ _ _ _ _ _ _ Ep) as (_ & _ & Hl).
      assert (resolve_out tbl (fc_call fc) (fc_fault fc) = OOk) as Ero.
      { unfold resolve_out. rewrite Ef0. destruct (lookup_tbl (eff_ref (fc_call fc)) tbl); [reflexivity | congruence]. }
      assert (ops = (OResolve, OOk) :: pops) as -> by (destruct po; inversion H; subst; rewrite Ero; reflexivity).
      cbn [existsb forallb fst snd sop_eqb oout_eqb push_stage failed negb andb orb].
      rewrite S1, S2, S3, S4. cbn [andb orb].
      destruct po; inversion H; subst; clear H; cbn [s_heap s_stored t_pushes].
      * exact (spec_call_finish tbl probes h sp (fc_call fc) (PushOK (fc_dg fc)) _ W Wc Ep).
      * exact (spec_call_finish tbl probes h sp (fc_call fc) PushErr _ W Wc Ep).
      * rewrite rev_unit. rewrite stored_eqb_refl. cbn [andb]. unfold set_stored. cbn [co_trace co_heap co_view].
        rewrite rev_involutive.
        exact (spec_call_finish tbl probes h sp (fc_call fc) PushErr _ W Wc Ep).
Qed.

Lemma sign_oci_reg_wf_heap : forall tbl h sp bl fc st' bl' t ops,
  wf_heap h = true -> sign_oci_reg tbl (mk_state h sp) bl fc = (st', bl', t, ops) ->
  wf_heap (s_heap st') = true /\ map fst (s_heap st') = map fst h.
Proof.
  intros tbl h sp bl fc st' bl' t ops W H.
  destruct (reg_frame _ _ _ _ _ _ _ _ H) as (F1 & _). cbn [s_heap] in F1. split; [|exact F1].
  rewrite sign_oci_reg_eq in H. cbv zeta in H.
  pose proof (sign_oci_wf_heap (reg_tbl tbl (fc_fault fc)) h [] (set_push (fc_call fc) PushErr)) as Hw.
  rewrite sign_oci_finish in Hw.
  destruct (pre_of (reg_tbl tbl (fc_fault fc)) h (fc_call fc)) as [h1 t1|h2 rs ss pc].
  - injection H as <- _ _ _. cbn [s_heap]. exact (Hw _ _ W eq_refl).
  - destruct (push_signature (fc_fault fc) bl (sig_of (fc_call fc))) as [[pops bl1] po].
    specialize (Hw _ _ W eq_refl). cbn [s_heap] in Hw.
    destruct po; injection H as <- _ _ _; exact Hw.
Qed.

Lemma fspec_calls_model : forall tbl probes cands cs h sp bl,
  wf_heap h = true ->
  forallb (fun fc => wf_call h tbl (fc_call fc) && mem_str (sig_of (fc_call fc)) cands) cs = true ->
  fspec_calls tbl probes cands h sp (presence cands bl) cs
    (run_fcalls tbl probes cands (mk_state h sp) bl cs) = true.
Proof.
  intros tbl probes cands cs. induction cs as [|fc cs IH]; intros h sp bl W Wc; [reflexivity|].
  cbn [forallb] in Wc. apply andb_true_iff in Wc. destruct Wc as [Wc1 Wc2].
  apply andb_true_iff in Wc1. destruct Wc1 as [Wa Wb].
  cbn [run_fcalls]. destruct (sign_oci_reg tbl (mk_state h sp) bl fc) as [[[st' bl'] t] ops] eqn:E.
  cbn [fspec_calls]. rewrite (fspec_call_model _ _ _ _ _ _ _ _ _ _ _ W Wa Wb E). cbn [andb fo_co fo_blobs co_heap co_stored].
  destruct (sign_oci_reg_wf_heap _ _ _ _ _ _ _ _ _ W E) as [W' Fa].
  destruct st' as [h' sp']. cbn [s_heap s_stored] in *.
  apply IH; [exact W'|].
  rewrite forallb_forall in Wc2 |- *. intros c0 Hc0.
  rewrite (wf_call_addrs _ _ _ _ Fa). apply Wc2. exact Hc0.
Qed.

Theorem fmodel_spec_ok : forall i, fwf i = true -> fspec_ok i (fmodel i) = true.
Proof.
  intros i W. unfold fwf in W. apply andb_true_iff in W. destruct W as [W1 W2].
  unfold fspec_ok, fmodel. apply fspec_calls_model; assumption.
Qed.

(* ================= witnesses ================= *)

(* the history of C11_Proofs.rf_*: an empty store; the Exists of the config fails in the
   first call; two further calls with new envelope bytes *)
Definition rf_fault_history : list fcall :=
  mk_fcall rf_call "sha256:m1" (Some (2%N, FBefore)) :: later_calls rf_call [("sig2", "sha256:m2"); ("sig3", "sha256:m3")].

Lemma fault_witness :
  let obs := run_fcalls rf_tbl [] [] (mk_state rf_heap []) [] rf_fault_history in
  wf_call rf_heap rf_tbl rf_call = true
  /\ map (fun o => t_res (co_trace (fo_co o))) obs = [EPush; ROk; ROk]
  /\ map (fun o => List.length (co_stored (fo_co o))) obs = [0; 1; 2]%nat
  /\ map (fun o => co_heap (fo_co o)) obs = [rf_heap; rf_heap; rf_heap]
  /\ map fo_ops obs
     = [[(OResolve, OOk); (OPushBlob, OOk); (OExistsCfg, OInjBefore)];
        [(OResolve, OOk); (OPushBlob, OOk); (OExistsCfg, OOk); (OPushCfg, OOk); (OPushMan, OOk)];
        [(OResolve, OOk); (OPushBlob, OOk); (OExistsCfg, OOk); (OPushMan, OOk)]].
Proof. vm_compute. repeat split. Qed.

(* a signer that returns the same envelope bytes: on the healthy store, without any
   fault, the second call with the same options fails (the content-addressed store
   refuses the second Push of the blob and PushSignature does not tolerate that) *)
Lemma same_bytes_refuted :
  exists tbl st c dg,
    wf_call (s_heap st) tbl c = true /\
    let '(st1, bl1, t1, ops1) := sign_oci_reg tbl st [] (mk_fcall c dg None) in
    let '(st2, bl2, t2, ops2) := sign_oci_reg tbl st1 bl1 (mk_fcall c dg None) in
    t_res t1 = ROk /\ all_ok ops1 = true
    /\ t_res t2 = EPush /\ ops2 = [(OResolve, OOk); (OPushBlob, ONatural)]
    /\ s_stored st2 = s_stored st1 /\ s_heap st2 = s_heap st.
Proof.
  exists rf_tbl, (mk_state rf_heap []), rf_call, "sha256:m". vm_compute. repeat split.
Qed.

(* ---------- referrers tag-schema fallback family ---------- *)
Lemma rmodel_spec_ok : forall cs, rspec_calls cs (map rmodel_call cs) = true.
Proof.
  induction cs as [|c cs IH]; simpl; [reflexivity|].
  rewrite IH, Bool.andb_true_r.
  unfold rspec_call, rmodel_call, r_frame.
  destruct (rc_old_index c) as [d|]; [destruct (rc_del_fails c)|]; simpl;
    rewrite ?String.eqb_refl; reflexivity.
Qed.

Lemma rspec_envelope : forall c o,
  rspec_call c o = true -> ro_outcome o <> RFailed ->
  ro_attached o = true /\ ro_envelope o = Some (rc_sig c)
  /\ (forall d, In d (ro_removed o) -> rc_old_index c = Some d).
Proof.
  intros c o H Hn. unfold rspec_call in H.
  apply Bool.andb_true_iff in H. destruct H as [Hf H].
  assert (Hfr : forall d, In d (ro_removed o) -> rc_old_index c = Some d).
  { intros d Hd. unfold r_frame in Hf. rewrite forallb_forall in Hf.
    specialize (Hf d Hd). destruct (rc_old_index c) as [x|]; simpl in Hf; [|discriminate].
    apply String.eqb_eq in Hf. subst. reflexivity. }
  assert (H' : ro_attached o && r_ostr_eqb (ro_envelope o) (Some (rc_sig c)) = true).
  { destruct (ro_outcome o); try exact H. exfalso; apply Hn; reflexivity. }
  apply Bool.andb_true_iff in H'. destruct H' as [Ha He].
  repeat split; auto.
  destruct (ro_envelope o) as [e|]; simpl in He; [|discriminate].
  apply String.eqb_eq in He. subst. reflexivity.
Qed.
