(* C02_Versions.v — property C02, audit round: the three version facts of a VerifyCore
   scenario ([s_minver_valid], and [ver_valid] / [ver_ge_min] of [PMPlugin]) are no longer
   opaque oracle booleans: they are COMPUTED from the version strings by the model of
   internal/semver (IsValid = the regular expression of the source, Generated.gen_re_semver)
   and of golang.org/x/mod/semver.Compare that property C20 owns (C20_Semver.v), so that
   "the plugin is too old" means: its version is below the demanded minimum in SemVer 2.0.0
   precedence (C20_SemverProofs.compare_is_precedence).

     verifier.go   if !notationsemver.IsValid(pluginVersion) { ... }
                   isRequiredVerificationPluginVer(v, min) = semver.Compare("v"+v, "v"+min) != -1
     helpers.go    getVerificationPluginMinVersion: ... !notationsemver.IsValid(version)

   The harness prints every case with [plugin_of] / [minver_valid_of], i.e. the facts are
   evaluated inside Coq from the strings the real code saw. *)
From NV Require Import Base Regex Generated C02_Levels VerifyCore C02_Model C02_Core C02_Proofs C02_Struct.
From NV Require Import C20_Semver C20_SemverProofs.
Open Scope string_scope.
Open Scope list_scope.

(* the string getVerificationPluginMinVersion hands on: "" when the header is absent *)
Definition minver_string (min : attr) : string := match min with AStr m => m | _ => "" end.

(* isRequiredVerificationPluginVer(version, min) *)
Definition ver_ge (version : string) (min : attr) : bool :=
  match xcompare (bytes version) (bytes (minver_string min)) with Lt => false | _ => true end.

(* an installed plugin that answers get-plugin-metadata with this version and these capabilities *)
Definition plugin_of (version : string) (min : attr) (caps : list cap) : pm :=
  PMPlugin (sv_valid version) (ver_ge version min) caps.

(* notationsemver.IsValid of the demanded minimum version *)
Definition minver_valid_of (min : attr) : bool := match min with AStr m => sv_valid m | _ => false end.

(* a scenario whose version facts come from the strings *)
Definition versioned (sc : scenario) (version : string) (caps : list cap) : scenario :=
  mk_sc (s_integrity_ok sc) (s_plugin_attr sc) (s_minver_attr sc) (minver_valid_of (s_minver_attr sc)) (s_other sc)
        (s_nonstring_crit sc) (s_auth sc) (s_identity_ok sc) (s_expired sc) (s_ts_ok sc) (s_rev_ok sc)
        (plugin_of version (s_minver_attr sc) caps) (s_presp sc).

(* no minimum demanded: every valid version will do *)
Lemma ver_ge_no_min version min : (forall m, min <> AStr m) -> ver_ge version min = true.
Proof.
  intros H. unfold ver_ge, minver_string. destruct min; try (now exfalso; eapply H).
  all: unfold xcompare; cbn [bytes]; destruct (xparse (bytes version)); reflexivity.
Qed.

(* with a valid version and a valid minimum: too old = strictly lower SemVer precedence *)
Lemma ver_ge_precedence version m : sv_valid version = true -> sv_valid m = true ->
  ver_ge version (AStr m) = match prec_of version m with Lt => false | _ => true end.
Proof. intros V M. unfold ver_ge, minver_string. now rewrite (compare_is_precedence version m V M). Qed.

(* the demand is well formed *)
Definition demand_ok (sc : scenario) : Prop :=
  exists n, s_plugin_attr sc = AStr n /\ blank n = false
  /\ (s_minver_attr sc = AAbsent \/ exists m, s_minver_attr sc = AStr m /\ blank m = false /\ sv_valid m = true).

Lemma versioned_usable sc version caps : demand_ok sc ->
  usable_caps (versioned sc version caps) =
  if sv_valid version && ver_ge version (s_minver_attr sc)
  then match verification_caps caps with [] => None | vc => Some vc end
  else None.
Proof.
  intros (n & PA & BN & MV). unfold usable_caps, versioned, plugin_of, minver_valid_of. cbn [s_plugin_attr s_minver_attr s_minver_valid s_pm].
  rewrite PA, BN. destruct MV as [-> | (m & -> & BM & VM)]; cbn [attr_malformed]; rewrite ?BM, ?VM; cbn [negb];
    destruct (sv_valid version); cbn [andb]; try reflexivity;
    match goal with |- context [ver_ge ?a ?b] => destruct (ver_ge a b) end; reflexivity.
Qed.

(* TOO OLD, in SemVer terms: a well-formed demand with minimum m, an installed plugin whose valid
   version precedes m — whatever its capabilities, the level, the validations and the plugin's
   answer: rejected as inconclusive right after integrity, nothing else performed or executed *)
Theorem too_old_rejects lvl sc version caps n m :
  s_integrity_ok sc = true -> s_nonstring_crit sc = false ->
  s_plugin_attr sc = AStr n -> blank n = false ->
  s_minver_attr sc = AStr m -> blank m = false -> sv_valid m = true ->
  sv_valid version = true -> prec_of version m = Lt ->
  verify_core lvl (versioned sc version caps)
  = mk_obs EInconclusive [mk_res TIntegrity Enforce false] false [n] None.
Proof.
  intros IO NS PA BN MA BM VM VV LT.
  assert (GE : ver_ge version (AStr m) = false) by (rewrite (ver_ge_precedence _ _ VV VM), LT; reflexivity).
  unfold verify_core, process_signature, process_signature_gen, versioned, plugin_of, minver_valid_of.
  cbn [s_integrity_ok]. rewrite IO. cbn [negb].
  unfold discover, lookup_plugin, minver_error.
  cbn [s_plugin_attr s_minver_attr s_minver_valid s_nonstring_crit s_pm].
  rewrite PA, BN, NS, MA, BM, VM, VV, GE. reflexivity.
Qed.

(* NOT too old: the version is valid and does not precede the demanded minimum (or none is demanded)
   and some verification capability is declared: discovery succeeds, the plugin is usable *)
Theorem not_too_old_usable sc version caps : demand_ok sc ->
  sv_valid version = true ->
  (s_minver_attr sc = AAbsent \/ exists m, s_minver_attr sc = AStr m /\ sv_valid m = true /\ prec_of version m <> Lt) ->
  verification_caps caps <> [] ->
  usable_caps (versioned sc version caps) = Some (verification_caps caps)
  /\ plugin_unusable (versioned sc version caps) = false.
Proof.
  intros D VV MV VC.
  assert (GE : ver_ge version (s_minver_attr sc) = true).
  { destruct MV as [-> | (m & -> & VM & NL)]; [apply ver_ge_no_min; discriminate|].
    rewrite (ver_ge_precedence _ _ VV VM). destruct (prec_of version m); congruence. }
  assert (U : usable_caps (versioned sc version caps) = Some (verification_caps caps)).
  { rewrite (versioned_usable sc version caps D), VV, GE. cbn [andb].
    destruct (verification_caps caps); [congruence | reflexivity]. }
  split; [exact U|]. unfold plugin_unusable. rewrite U. cbn. now rewrite andb_false_r.
Qed.

(* an invalid plugin version is rejected the same way *)
Theorem invalid_version_rejects lvl sc version caps n :
  s_integrity_ok sc = true -> s_nonstring_crit sc = false ->
  s_plugin_attr sc = AStr n -> blank n = false ->
  (s_minver_attr sc = AAbsent \/ exists m, s_minver_attr sc = AStr m /\ blank m = false /\ sv_valid m = true) ->
  sv_valid version = false ->
  verify_core lvl (versioned sc version caps)
  = mk_obs EInconclusive [mk_res TIntegrity Enforce false] false [n] None.
Proof.
  intros IO NS PA BN MV VV.
  unfold verify_core, process_signature, process_signature_gen, versioned, plugin_of, minver_valid_of.
  cbn [s_integrity_ok]. rewrite IO. cbn [negb].
  unfold discover, lookup_plugin, minver_error.
  cbn [s_plugin_attr s_minver_attr s_minver_valid s_nonstring_crit s_pm].
  rewrite PA, BN, NS, VV. destruct MV as [-> | (m & -> & BM & VM)]; rewrite ?BM, ?VM; reflexivity.
Qed.
