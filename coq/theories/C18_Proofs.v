(* C18_Proofs.v — proofs about the model of the plugin signer. *)
From NV Require Import Base C18_Json C18_Model.

Local Arguments mem_str : simpl never.
Local Arguments known_names : simpl never.

(* ---------- small facts ---------- *)
Lemma filter_nil_forallb {A} (p : A -> bool) (l : list A) :
  filter (fun x => negb (p x)) l = [] <-> forallb p l = true.
Proof.
  induction l as [|x l IH]; cbn; [tauto|].
  destruct (p x); cbn.
  - exact IH.
  - split; discriminate.
Qed.

Lemma flat_map_nil {A B} (f : A -> list B) (l : list A) :
  flat_map f l = [] <-> forall x, In x l -> f x = [].
Proof.
  induction l as [|x l IH]; cbn.
  - split; [intros _ y []|reflexivity].
  - split.
    + intros H. apply app_eq_nil in H. destruct H as [Hx Hl].
      intros y [<-|Hy]; [exact Hx|]. apply IH; assumption.
    + intros H. rewrite (H x (or_introl eq_refl)). cbn. apply IH.
      intros y Hy. apply H. right. exact Hy.
Qed.

Lemma ann_subset_spec orig new :
  ann_subset orig new = true <-> forall k v, In (k, v) orig -> lookup k new = Some v.
Proof.
  unfold ann_subset. rewrite forallb_forall. split.
  - intros H k v Hin. specialize (H (k, v) Hin). cbn in H.
    destruct (lookup k new) as [v2|]; [|discriminate].
    apply String.eqb_eq in H. subst. reflexivity.
  - intros H [k v] Hin. cbn. rewrite (H k v Hin). apply String.eqb_refl.
Qed.

Lemma mem_str_In x l : mem_str x l = true <-> In x l.
Proof.
  unfold mem_str. rewrite existsb_exists. split.
  - intros [y [Hy E]]. apply String.eqb_eq in E. subst. exact Hy.
  - intros H. exists x. split; [exact H|apply String.eqb_refl].
Qed.

Lemma lookup_nodup m : nodup_keys m = true -> forall k v, In (k, v) m -> lookup k m = Some v.
Proof.
  induction m as [|[k0 v0] m IH]; cbn; [intros _ k v []|].
  intros H k v Hin. apply andb_true_iff in H. destruct H as [Hn Hm].
  destruct Hin as [E|Hin].
  - inversion E; subst. rewrite String.eqb_refl. reflexivity.
  - destruct (String.eqb k k0) eqn:Ek.
    + apply String.eqb_eq in Ek. subst.
      apply negb_true_iff in Hn.
      assert (mem_str k0 (map fst m) = true) as C.
      { apply mem_str_In. change k0 with (fst (k0, v)). apply in_map. exact Hin. }
      congruence.
    + apply IH; assumption.
Qed.

Lemma ann_subset_refl m : nodup_keys m = true -> ann_subset m m = true.
Proof. intros H. apply ann_subset_spec. apply lookup_nodup. exact H. Qed.

Lemma alg_eqb_eq a b : alg_eqb a b = true <-> a = b.
Proof. destruct a, b; cbn; split; congruence. Qed.

Lemma opt_alg_eqb_eq x a : opt_eqb alg_eqb x (Some a) = true <-> x = Some a.
Proof.
  destruct x as [b|]; cbn; [|split; discriminate].
  rewrite alg_eqb_eq. split; congruence.
Qed.

(* ---------- the member scan is exactly the declarative reading of the tree ---------- *)
Lemma unknown_desc_clean v : unknown_desc v = [] <-> desc_clean v = true.
Proof.
  destruct v; cbn; try tauto.
  apply filter_nil_forallb.
Qed.

Theorem scan_complete j : unknown_attrs j = [] <-> tree_clean j = true.
Proof.
  destruct j; cbn; try tauto.
  rewrite flat_map_nil, forallb_forall.
  split; intros H [k v] Hin; specialize (H (k, v) Hin); cbn in *.
  - destruct (String.eqb k ta_name); cbn; [|discriminate].
    apply unknown_desc_clean. exact H.
  - destruct (String.eqb k ta_name); cbn in *; [|discriminate].
    apply unknown_desc_clean. exact H.
Qed.

(* declarative form of [tree_clean] *)
Definition tree_clean_prop (j : json) : Prop :=
  forall ms, j = JObj ms ->
  forall k v, In (k, v) ms ->
    k = "targetArtifact" /\
    forall dms, v = JObj dms -> forall k' v', In (k', v') dms -> In k' known_names.

Lemma tree_clean_spec j : tree_clean j = true <-> tree_clean_prop j.
Proof.
  unfold tree_clean_prop. destruct j; cbn; try (split; [intros _ ms E; discriminate|reflexivity]).
  rewrite forallb_forall. split.
  - intros H ms0 E k v Hin. inversion E; subst ms0. specialize (H (k, v) Hin). cbn in H.
    apply andb_true_iff in H. destruct H as [Hk Hv]. apply String.eqb_eq in Hk. split; [exact Hk|].
    intros dms -> k' v' Hin'. cbn in Hv. rewrite forallb_forall in Hv.
    apply mem_str_In. apply Hv. unfold names. change k' with (fst (k', v')). apply in_map. exact Hin'.
  - intros H [k v] Hin. cbn. destruct (H ms eq_refl k v Hin) as [Hk Hv].
    subst k. rewrite String.eqb_refl. cbn.
    destruct v; cbn; try reflexivity.
    rewrite forallb_forall. intros k' Hk'. unfold names in Hk'. apply in_map_iff in Hk'.
    destruct Hk' as [[k'' v''] [E Hin']]. cbn in E. subst k''.
    apply mem_str_In. eapply Hv; [reflexivity|exact Hin'].
Qed.

(* the scan of before fix 39b2dda missed members of a shadowed duplicate *)
Theorem old_scan_refuted :
  exists j d,
    dec_payload j = Some d /\ d_dg d = "sha256:aa" /\
    unknown_attrs_lastwins j = [] /\ tree_clean j = false /\ unknown_attrs j = ["evil"].
Proof.
  exists (JObj [("targetArtifact", JObj [("mediaType", JStr "m"); ("digest", JStr "sha256:aa"); ("size", JInt 1);
                                         ("evil", JStr "x")]);
                ("targetArtifact", JNull)]).
  eexists. repeat split; vm_compute; reflexivity.
Qed.

(* ---------- key spec codecs ---------- *)
Lemma decode_keyspec_cases s k :
  decode_keyspec s = Some k ->
  (s = "RSA-2048" /\ k = (KRSA, 2048%N)) \/ (s = "RSA-3072" /\ k = (KRSA, 3072%N)) \/
  (s = "RSA-4096" /\ k = (KRSA, 4096%N)) \/ (s = "EC-256" /\ k = (KEC, 256%N)) \/
  (s = "EC-384" /\ k = (KEC, 384%N)) \/ (s = "EC-521" /\ k = (KEC, 521%N)).
Proof.
  unfold decode_keyspec.
  repeat match goal with
         | |- context [String.eqb s ?c] =>
             let E := fresh "E" in destruct (String.eqb s c) eqn:E;
             [apply String.eqb_eq in E; intros H; inversion H; subst; tauto|]
         end.
  discriminate.
Qed.

Theorem codec_roundtrip s k :
  decode_keyspec s = Some k ->
  encode_keyspec k = Some s /\
  exists h a, hash_of_keyspec k = Some h /\ alg_of_keyspec k = Some a /\
              (h = "SHA-256" /\ hash_bits a = 256 \/ h = "SHA-384" /\ hash_bits a = 384 \/
               h = "SHA-512" /\ hash_bits a = 512)%N.
Proof.
  intros H. apply decode_keyspec_cases in H.
  destruct H as [[-> ->]|[[-> ->]|[[-> ->]|[[-> ->]|[[-> ->]|[-> ->]]]]]]; cbn;
    (split; [reflexivity|]); do 2 eexists; (split; [reflexivity|]); (split; [reflexivity|]); tauto.
Qed.

Theorem codecs s k :
  decode_keyspec s = Some k ->
  In s ["RSA-2048"; "RSA-3072"; "RSA-4096"; "EC-256"; "EC-384"; "EC-521"] /\
  encode_keyspec k = Some s /\
  exists h a, hash_of_keyspec k = Some h /\ alg_of_keyspec k = Some a /\
              (h = "SHA-256" /\ hash_bits a = 256 \/ h = "SHA-384" /\ hash_bits a = 384 \/
               h = "SHA-512" /\ hash_bits a = 512)%N.
Proof.
  intros H. split; [|apply codec_roundtrip; exact H].
  apply decode_keyspec_cases in H. cbn.
  destruct H as [[-> _]|[[-> _]|[[-> _]|[[-> _]|[[-> _]|[-> _]]]]]]; tauto.
Qed.

Lemma decode_alg s k : decode_keyspec s = Some k ->
  exists ksn hn a, encode_keyspec k = Some ksn /\ hash_of_keyspec k = Some hn /\ alg_of_keyspec k = Some a.
Proof.
  intros H. destruct (codec_roundtrip s k H) as [E [h [a [Hh [Ha _]]]]].
  exists s, h, a. tauto.
Qed.

(* ---------- getKeySpec ---------- *)
Lemma get_keyspec_inr i k :
  get_keyspec i = inr k ->
  exists ks, i_dk i = DKAns (i_keyid i) ks /\ decode_keyspec ks = Some k.
Proof.
  unfold get_keyspec. destruct (i_dk i) as [|kid ks]; [discriminate|].
  destruct (String.eqb (i_keyid i) kid) eqn:E; cbn; [|discriminate].
  apply String.eqb_eq in E. subst kid.
  destruct (decode_keyspec ks) as [k'|] eqn:D; [|discriminate].
  intros H. inversion H; subst. exists ks. split; [reflexivity|exact D].
Qed.

Lemma get_keyspec_dk_accept i k : get_keyspec i = inr k -> dk_accept i = alg_of_keyspec k.
Proof.
  intros H. destruct (get_keyspec_inr i k H) as [ks [E D]].
  unfold dk_accept. rewrite E, String.eqb_refl, D. reflexivity.
Qed.

Lemma dk_accept_get_keyspec i a : dk_accept i = Some a ->
  exists k, get_keyspec i = inr k /\ alg_of_keyspec k = Some a.
Proof.
  unfold dk_accept, get_keyspec. destruct (i_dk i) as [|kid ks]; [discriminate|].
  rewrite (String.eqb_sym kid). destruct (String.eqb (i_keyid i) kid); cbn; [|discriminate].
  destruct (decode_keyspec ks) as [k|]; [|discriminate].
  intros H. exists k. split; [reflexivity|exact H].
Qed.

Lemma get_keyspec_inl_dk i e : get_keyspec i = inl e -> dk_accept i = None.
Proof.
  unfold dk_accept, get_keyspec. destruct (i_dk i) as [|kid ks]; [reflexivity|].
  rewrite (String.eqb_sym kid). destruct (String.eqb (i_keyid i) kid); cbn; [|reflexivity].
  destruct (decode_keyspec ks) as [k|] eqn:D; [discriminate|reflexivity].
Qed.

(* ---------- envelope path ---------- *)
Lemma gen_envelope_result i :
  gen_envelope i = (if env_accept i then RSig true None else gen_envelope i)
  /\ (env_accept i = false -> exists e, gen_envelope i = RErr e).
Proof.
  unfold gen_envelope, env_accept. destruct (i_ge i) as [|f]; [split; [reflexivity|eauto]|].
  destruct (String.eqb (ge_type f) (i_mt i)); cbn; [|split; [reflexivity|eauto]].
  destruct (i_mt_ok i); cbn; [|split; [reflexivity|eauto]].
  destruct (ge_parse f); cbn; [|split; [reflexivity|eauto]].
  destruct (ge_verify f); cbn; [|split; [reflexivity|eauto]].
  destruct (String.eqb (ge_ctype f) payload_type); cbn; [|split; [reflexivity|eauto]].
  destruct (ge_payload f) as [j|]; [|split; [reflexivity|eauto]].
  destruct (dec_payload j) as [d|]; [|split; [reflexivity|eauto]].
  unfold payload_desc_valid.
  destruct (content_equal i d); cbn; [|split; [reflexivity|eauto]].
  destruct (ann_subset (i_dann i) (d_ann d)); cbn; [|split; [reflexivity|eauto]].
  destruct (tree_clean j) eqn:T.
  - apply scan_complete in T. rewrite T. split; [reflexivity|discriminate].
  - destruct (unknown_attrs j) eqn:U.
    + apply scan_complete in U. congruence.
    + split; [reflexivity|eauto].
Qed.

Lemma gen_envelope_sig i same rf :
  gen_envelope i = RSig same rf <-> (env_accept i = true /\ same = true /\ rf = None).
Proof.
  destruct (gen_envelope_result i) as [H1 H2].
  destruct (env_accept i).
  - rewrite H1. split.
    + intros E. inversion E. auto.
    + intros [_ [-> ->]]. reflexivity.
  - destruct (H2 eq_refl) as [e He]. rewrite He. split; [discriminate|intros [C _]; discriminate].
Qed.

Lemma gen_envelope_no_panic i : gen_envelope i <> RPanic.
Proof.
  destruct (gen_envelope_result i) as [H1 H2].
  destruct (env_accept i).
  - rewrite H1. discriminate.
  - destruct (H2 eq_refl) as [e He]. rewrite He. discriminate.
Qed.

(* ---------- raw path ---------- *)
Lemma gen_signature_result i k a :
  alg_of_keyspec k = Some a -> (exists s, decode_keyspec s = Some k) ->
  (raw_accept i a = true -> fst (gen_signature i k) = RSig false (Some (built_ret i a)))
  /\ (raw_accept i a = false -> exists e, fst (gen_signature i k) = RErr e).
Proof.
  intros Ha [s Hs]. destruct (decode_alg s k Hs) as [ksn [hn [a' [E1 [E2 E3]]]]].
  assert (a' = a) by congruence. subst a'.
  unfold gen_signature, raw_accept. rewrite E1, E2, E3.
  destruct (i_mt_ok i); cbn; [|split; [discriminate|eauto]].
  destruct (i_gs i) as [|f]; cbn; [split; [discriminate|eauto]|].
  rewrite (String.eqb_sym (gs_keyid f)).
  destruct (String.eqb (i_keyid i) (gs_keyid f)); cbn; [|split; [discriminate|eauto]].
  destruct (gs_chain_parse f); cbn; [|split; [discriminate|eauto]].
  destruct (gs_sig_empty f); cbn; [split; [discriminate|eauto]|].
  destruct (gs_chain_len f =? 0)%N; cbn; [split; [discriminate|eauto]|].
  destruct (gs_chain_valid f); cbn; [|split; [discriminate|eauto]].
  destruct (opt_eqb alg_eqb (gs_leaf_alg f) (Some a)); cbn; [|split; [discriminate|eauto]].
  destruct (gs_sig_ok f); cbn; [|split; [discriminate|eauto]].
  split; [reflexivity|discriminate].
Qed.

(* ---------- which answers are accepted ---------- *)
(* the result of the model, path by path *)
Lemma model_result i :
  (accepts i = true ->
     match i_meta i with
     | MCaps true _ => exists a, dk_accept i = Some a /\ o_res (model i) = RSig false (Some (built_ret i a))
     | _ => o_res (model i) = RSig true None
     end)
  /\ (accepts i = false -> exists e, o_res (model i) = RErr e).
Proof.
  unfold accepts, model. destruct (i_meta i) as [|raw env]; [split; [discriminate|cbn; eauto]|].
  destruct raw.
  - (* raw capability *)
    destruct (get_keyspec i) as [e|k] eqn:G.
    + rewrite (get_keyspec_inl_dk i e G). destruct (i_blob i); cbn; split; try discriminate; eauto.
    + rewrite (get_keyspec_dk_accept i k G).
      destruct (get_keyspec_inr i k G) as [ks [_ D]].
      destruct (decode_alg ks k D) as [_ [_ [a [_ [_ Ha]]]]]. rewrite Ha.
      destruct (gen_signature_result i k a Ha (ex_intro _ ks D)) as [R1 R2].
      destruct (gen_signature i k) as [r q] eqn:GS. cbn in R1, R2.
      destruct (i_blob i); cbn; (split; [intros A; exists a; split; [reflexivity|apply R1; exact A]|exact R2]).
  - destruct env.
    + (* envelope capability only *)
      destruct (i_blob i).
      * destruct (get_keyspec i) as [e|k] eqn:G.
        -- rewrite (get_keyspec_inl_dk i e G). rewrite andb_false_r. cbn. split; [discriminate|eauto].
        -- rewrite (get_keyspec_dk_accept i k G).
           destruct (get_keyspec_inr i k G) as [ks [_ D]].
           destruct (decode_alg ks k D) as [_ [_ [a [_ [_ Ha]]]]]. rewrite Ha. cbn. rewrite andb_true_r.
           destruct (gen_envelope_result i) as [H1 H2].
           split; [intros A; rewrite A in H1; exact H1|exact H2].
      * cbn. rewrite andb_true_r.
        destruct (gen_envelope_result i) as [H1 H2].
        split; [intros A; rewrite A in H1; exact H1|exact H2].
    + destruct (i_blob i); [|split; [discriminate|cbn; eauto]].
      destruct (get_keyspec i) as [e|k]; cbn; split; try discriminate; eauto.
Qed.

(* ---------- C18_total: a signature or an error, never a panic ---------- *)
Theorem total i : (exists same rf, o_res (model i) = RSig same rf) \/ (exists e, o_res (model i) = RErr e).
Proof.
  destruct (model_result i) as [H1 H2]. destruct (accepts i).
  - left. specialize (H1 eq_refl). destruct (i_meta i) as [|[|] env]; eauto.
    destruct H1 as [a [_ H]]. eauto.
  - right. apply H2. reflexivity.
Qed.

Theorem no_panic i : o_res (model i) <> RPanic.
Proof.
  destruct (total i) as [[s [r H]]|[e H]]; rewrite H; discriminate.
Qed.

Theorem total_both i :
  o_res (model i) <> RPanic /\
  ((exists same rf, o_res (model i) = RSig same rf) \/ (exists e, o_res (model i) = RErr e)).
Proof. split; [apply no_panic|apply total]. Qed.

(* a signature is returned exactly for the accepted answers *)
Theorem sig_iff i : (exists same rf, o_res (model i) = RSig same rf) <-> accepts i = true.
Proof.
  destruct (model_result i) as [H1 H2]. split.
  - intros [s [r H]]. destruct (accepts i); [reflexivity|].
    destruct (H2 eq_refl) as [e He]. congruence.
  - intros A. specialize (H1 A). destruct (i_meta i) as [|[|] env]; eauto.
    destruct H1 as [a [_ H]]. eauto.
Qed.

Theorem error_otherwise i : accepts i = false -> exists e, o_res (model i) = RErr e.
Proof. apply model_result. Qed.

Theorem sig_iff_both i :
  ((exists same rf, o_res (model i) = RSig same rf) <-> accepts i = true) /\
  (accepts i = false -> exists e, o_res (model i) = RErr e).
Proof. split; [apply sig_iff|apply error_otherwise]. Qed.

(* ---------- C18_envelope ---------- *)
Theorem envelope_sound i env same rf :
  i_meta i = MCaps false env ->
  o_res (model i) = RSig same rf ->
  same = true /\ rf = None /\ env = true /\
  exists f j d,
    i_ge i = GEAns f /\
    ge_type f = i_mt i /\ i_mt_ok i = true /\ ge_parse f = true /\ ge_verify f = true /\
    ge_ctype f = payload_type /\
    ge_payload f = Some j /\ dec_payload j = Some d /\
    d_mt d = i_dmt i /\ d_dg d = i_ddg i /\ d_sz d = i_dsz i /\
    (forall k v, In (k, v) (i_dann i) -> lookup k (d_ann d) = Some v) /\
    tree_clean_prop j /\
    (i_blob i = true -> exists ks k, i_dk i = DKAns (i_keyid i) ks /\ decode_keyspec ks = Some k).
Proof.
  intros M H.
  assert (accepts i = true) as A by (apply sig_iff; eauto).
  destruct (model_result i) as [H1 _]. specialize (H1 A). rewrite M in H1.
  rewrite H1 in H. inversion H; subst same rf. clear H.
  unfold accepts in A. rewrite M in A. destruct env; [|discriminate].
  apply andb_true_iff in A. destruct A as [EA DK].
  split; [reflexivity|]. split; [reflexivity|]. split; [reflexivity|].
  unfold env_accept in EA. destruct (i_ge i) as [|f]; [discriminate|].
  repeat (apply andb_true_iff in EA; destruct EA as [EA ?]).
  destruct (ge_payload f) as [j|] eqn:P; [|discriminate].
  destruct (dec_payload j) as [d|] eqn:D; [|discriminate].
  match goal with H : (_ && tree_clean j) = true |- _ => apply andb_true_iff in H; destruct H as [H Ht];
    apply andb_true_iff in H; destruct H as [Hc Ha] end.
  unfold content_equal in Hc. apply andb_true_iff in Hc. destruct Hc as [Hc Hsz].
  apply andb_true_iff in Hc. destruct Hc as [Hmt Hdg].
  apply String.eqb_eq in Hmt, Hdg. apply Z.eqb_eq in Hsz.
  exists f, j, d.
  repeat match goal with H : String.eqb _ _ = true |- _ => apply String.eqb_eq in H end.
  repeat (split; [solve [reflexivity | assumption | congruence]|]).
  split; [apply ann_subset_spec; exact Ha|].
  split; [apply tree_clean_spec; exact Ht|].
  intros B. rewrite B in DK. destruct (dk_accept i) as [a|] eqn:DA; [|discriminate].
  destruct (dk_accept_get_keyspec i a DA) as [k [G _]].
  destruct (get_keyspec_inr i k G) as [ks [E Dk]]. eauto.
Qed.

(* ---------- C18_raw ---------- *)
Theorem raw_sound i env same rf :
  i_meta i = MCaps true env ->
  o_res (model i) = RSig same rf ->
  exists ks k a f,
    i_dk i = DKAns (i_keyid i) ks /\ decode_keyspec ks = Some k /\ alg_of_keyspec k = Some a /\
    i_mt_ok i = true /\
    i_gs i = GSAns f /\ gs_keyid f = i_keyid i /\ gs_chain_parse f = true /\
    gs_sig_empty f = false /\ gs_chain_len f <> 0%N /\ gs_chain_valid f = true /\
    gs_leaf_alg f = Some a /\ gs_sig_ok f = true /\
    same = false /\ rf = Some (built_ret i a).
Proof.
  intros M H.
  assert (accepts i = true) as A by (apply sig_iff; eauto).
  destruct (model_result i) as [H1 _]. specialize (H1 A). rewrite M in H1.
  destruct H1 as [a [DA R]]. rewrite R in H. inversion H; subst same rf. clear H.
  unfold accepts in A. rewrite M, DA in A.
  destruct (dk_accept_get_keyspec i a DA) as [k [G Ha]].
  destruct (get_keyspec_inr i k G) as [ks [E Dk]].
  unfold raw_accept in A. apply andb_true_iff in A. destruct A as [Hmt A].
  destruct (i_gs i) as [|f]; [discriminate|].
  repeat (apply andb_true_iff in A; destruct A as [A ?]).
  exists ks, k, a, f.
  repeat match goal with H : String.eqb _ _ = true |- _ => apply String.eqb_eq in H end.
  repeat match goal with H : negb _ = true |- _ => apply negb_true_iff in H end.
  repeat match goal with H : opt_eqb alg_eqb _ _ = true |- _ => apply opt_alg_eqb_eq in H end.
  repeat (split; [solve [reflexivity | assumption | congruence]|]).
  split.
  - intros C. match goal with H : (gs_chain_len f =? 0)%N = false |- _ => rewrite C in H; discriminate end.
  - repeat (split; [solve [reflexivity | assumption | congruence]|]). reflexivity.
Qed.

(* what generate-signature is asked: the described key spec and its hash *)
Theorem raw_request i ks h :
  o_gs_req (model i) = Some (ks, h) ->
  exists k, i_dk i = DKAns (i_keyid i) ks /\ decode_keyspec ks = Some k /\ hash_of_keyspec k = Some h.
Proof.
  unfold model. destruct (i_meta i) as [|raw env]; [discriminate|].
  assert (forall k, snd (gen_signature i k) = Some (ks, h) ->
                    get_keyspec i = inr k ->
                    exists k, i_dk i = DKAns (i_keyid i) ks /\ decode_keyspec ks = Some k /\ hash_of_keyspec k = Some h) as Core.
  { intros k S G. destruct (get_keyspec_inr i k G) as [ks' [E D]].
    destruct (codec_roundtrip ks' k D) as [En _].
    unfold gen_signature in S. rewrite En in S.
    destruct (i_mt_ok i); cbn in S; [|discriminate].
    destruct (hash_of_keyspec k) as [hn|] eqn:Hh; [|discriminate].
    destruct (alg_of_keyspec k) as [a|]; [|discriminate].
    assert (Some (ks', hn) = Some (ks, h)) as Q.
    { destruct (i_gs i) as [|f]; cbn in S; [exact S|].
      repeat match type of S with context [if ?b then _ else _] => destruct b; cbn in S; try exact S end. }
    inversion Q; subst. exists k. tauto. }
  destruct (i_blob i).
  - destruct (get_keyspec i) as [e|k] eqn:G; [discriminate|].
    destruct raw.
    + destruct (gen_signature i k) as [r q] eqn:GS. cbn. intros Q. apply (Core k); [rewrite GS; exact Q|reflexivity].
    + destruct env; discriminate.
  - destruct raw.
    + destruct (get_keyspec i) as [e|k] eqn:G; [discriminate|].
      destruct (gen_signature i k) as [r q] eqn:GS. cbn. intros Q. apply (Core k); [rewrite GS; exact Q|reflexivity].
    + destruct env; discriminate.
Qed.

(* SignBlob hands the digest algorithm of the described key spec to the descriptor generator *)
Theorem blob_digest_alg i n :
  o_digest_alg (model i) = n -> n <> 0%N ->
  i_blob i = true /\ exists ks k a, i_dk i = DKAns (i_keyid i) ks /\ decode_keyspec ks = Some k /\
                                    alg_of_keyspec k = Some a /\ n = hash_bits a.
Proof.
  unfold model. destruct (i_meta i) as [|raw env]; [cbn; congruence|].
  destruct (i_blob i).
  - destruct (get_keyspec i) as [e|k] eqn:G; [cbn; congruence|].
    destruct (get_keyspec_inr i k G) as [ks [E D]].
    destruct (decode_alg ks k D) as [_ [_ [a [_ [_ Ha]]]]].
    assert (bits_of k = hash_bits a) as B by (unfold bits_of; rewrite Ha; reflexivity).
    intros H _. split; [reflexivity|]. exists ks, k, a.
    assert (n = bits_of k) as N.
    { destruct raw; [destruct (gen_signature i k); cbn in H; congruence|].
      destruct env; cbn in H; congruence. }
    rewrite N, B. tauto.
  - destruct raw.
    + destruct (get_keyspec i) as [e|k]; [cbn; congruence|]. destruct (gen_signature i k); cbn; congruence.
    + destruct env; cbn; congruence.
Qed.

(* ---------- the oracle ---------- *)
Lemma ret_ok_built i a : wf i = true -> ret_ok i a (built_ret i a) = true.
Proof.
  intros W. unfold ret_ok, built_ret. cbn.
  rewrite !String.eqb_refl, Z.eqb_refl, (ann_subset_refl _ W). cbn.
  destruct a; reflexivity.
Qed.

Theorem model_spec_ok i : wf i = true -> spec_ok i (model i) = true.
Proof.
  intros W. unfold spec_ok.
  destruct (model_result i) as [H1 H2].
  destruct (accepts i) eqn:A.
  - specialize (H1 eq_refl). unfold accepts in A. unfold sig_justified.
    destruct (i_meta i) as [|raw env]; [discriminate|].
    destruct raw.
    + destruct H1 as [a [DA R]]. rewrite R, DA. rewrite DA in A. rewrite A, (ret_ok_built i a W). reflexivity.
    + rewrite H1. destruct env; [|discriminate].
      apply andb_true_iff in A. destruct A as [EA DK]. rewrite EA. cbn.
      destruct (i_blob i); [|reflexivity]. destruct (dk_accept i); [reflexivity|discriminate].
  - destruct (H2 eq_refl) as [e He]. rewrite He. reflexivity.
Qed.

(* an implementation observation with a signature that the oracle accepts is justified
   exactly as the model's: the oracle is the acceptance predicate *)
Theorem spec_sig_accepts i same rf o1 o2 :
  spec_ok i (mk_obs (RSig same rf) o1 o2) = true -> accepts i = true.
Proof.
  unfold spec_ok, sig_justified, accepts. cbn.
  destruct (i_meta i) as [|raw env]; [discriminate|].
  destruct raw.
  - destruct (dk_accept i) as [a|]; [|discriminate]. destruct rf as [r|]; [|discriminate].
    intros H. apply andb_true_iff in H. destruct H as [H _]. apply andb_true_iff in H. tauto.
  - destruct env; [|discriminate]. intros H.
    apply andb_true_iff in H. destruct H as [H B]. apply andb_true_iff in H. destruct H as [_ H].
    rewrite H. cbn. destruct (i_blob i); [|reflexivity]. destruct (dk_accept i); [reflexivity|discriminate].
Qed.

(* ---------- the struct decoding on a clean, duplicate-free descriptor is the plain reading ---------- *)
Lemma find_dfield_known k : In k known_names -> exists f, find_dfield k = Some f /\ dfield_name f = k.
Proof.
  unfold known_names. cbn. intros H.
  repeat (destruct H as [<-|H]; [eexists; split; vm_compute; reflexivity|]). destruct H.
Qed.

Definition plain_member (d : dsc) (k : string) (v : json) : Prop :=
  (k = "mediaType" -> forall s, v = JStr s -> d_mt d = s) /\
  (k = "digest" -> forall s, v = JStr s -> d_dg d = s) /\
  (k = "size" -> forall z, v = JInt z -> d_sz d = z).

Lemma dfield_name_inj f g : dfield_name f = dfield_name g -> f = g.
Proof. destruct f, g; cbn; intros H; try reflexivity; discriminate. Qed.

Local Arguments dec_dmember : simpl never.

(* members after (k, v) that do not repeat k leave the field of k alone *)
Lemma dec_dmembers_keep dms : forall d d' k,
  In k known_names -> ~ In k (names dms) -> (forall k', In k' (names dms) -> In k' known_names) ->
  dec_dmembers d dms = Some d' ->
  (k = "mediaType" -> d_mt d' = d_mt d) /\ (k = "digest" -> d_dg d' = d_dg d) /\ (k = "size" -> d_sz d' = d_sz d).
Proof.
  induction dms as [|[k0 v0] dms IH]; cbn; intros d d' k Hk Hn Hall H.
  - inversion H; subst. tauto.
  - destruct (dec_dmember d (k0, v0)) as [d1|] eqn:D; [|discriminate].
    assert (k <> k0) as Ne by (intros ->; apply Hn; left; reflexivity).
    assert (~ In k (names dms)) as Hn' by (intros C; apply Hn; right; exact C).
    specialize (IH d1 d' k Hk Hn' (fun k' Hk' => Hall k' (or_intror Hk')) H).
    destruct (find_dfield_known k0 (Hall k0 (or_introl eq_refl))) as [f0 [F0 N0]].
    unfold dec_dmember in D. rewrite F0 in D.
    assert ((k = "mediaType" -> d_mt d1 = d_mt d) /\ (k = "digest" -> d_dg d1 = d_dg d) /\ (k = "size" -> d_sz d1 = d_sz d)) as Step.
    { destruct f0; cbn in N0; subst k0;
        repeat match type of D with
               | context [match ?x with Some _ => _ | None => _ end] => destruct x; [|discriminate]
               | context [if ?x then _ else _] => destruct x; [|discriminate]
               end;
        inversion D; subst; cbn; repeat split; intros ->; try reflexivity; exfalso; apply Ne; reflexivity. }
    destruct IH as [I1 [I2 I3]]. destruct Step as [S1 [S2 S3]].
    repeat split; intros E; [rewrite (I1 E); auto|rewrite (I2 E); auto|rewrite (I3 E); auto].
Qed.

Theorem plain_reading dms : forall d d',
  NoDup (names dms) -> (forall k', In k' (names dms) -> In k' known_names) ->
  dec_dmembers d dms = Some d' ->
  forall k v, In (k, v) dms -> plain_member d' k v.
Proof.
  induction dms as [|[k0 v0] dms IH]; cbn; intros d d' ND Hall H k v Hin; [destruct Hin|].
  destruct (dec_dmember d (k0, v0)) as [d1|] eqn:D; [|discriminate].
  inversion ND as [|? ? Hn ND']; subst.
  destruct Hin as [E|Hin].
  - inversion E; subst k0 v0. clear E.
    assert (In k known_names) as Hk by (apply Hall; left; reflexivity).
    destruct (dec_dmembers_keep dms d1 d' k Hk Hn (fun k' Hk' => Hall k' (or_intror Hk')) H) as [K1 [K2 K3]].
    unfold dec_dmember in D.
    unfold plain_member. repeat split; intros -> ? ->; cbn in D.
    + inversion D; subst. rewrite (K1 eq_refl). reflexivity.
    + inversion D; subst. rewrite (K2 eq_refl). reflexivity.
    + unfold find_dfield in D. cbn in D. destruct (int64_ok z); [|discriminate]. inversion D; subst.
      rewrite (K3 eq_refl). reflexivity.
  - eapply IH; eauto.
Qed.
