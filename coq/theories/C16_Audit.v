(* C16_Audit.v — theorem audit of C16 (docs/audit/C16.md): the clauses of the
   property that had no direct statement, proved over C16_Model.
     1. "a name that would resolve anywhere else is rejected ... and causes no
        process execution and no file-system change", stated on the path the
        manager computes (not on the model's validation function)
     2. what the three name operations do, exactly (effect log, file system)
     3. Install with a refused derived name: what is false (the source is run,
        and may be made executable, before the name is examined) and the exact
        part that holds
     4. histories: any sequence of operations on one plugin root
   No axioms. *)
From NV Require Import Base C16_Path C16_Model C16_Proofs.
Open Scope string_scope.

(* ------------------------------------------------------------------ *)
(* 1. resolving elsewhere                                              *)

(* <root>/<name>, as the manager joins it, is the direct child of the clean
   root whose last component is the name *)
Definition resolves_to_child (root name : string) : Prop :=
  comps_of (pjoin [root; name]) = (comps_of (clean root) ++ [name])%list.

Lemma elsewhere_invalid root name :
  is_abs root = true -> ~ resolves_to_child root name -> valid_name name = false.
Proof.
  intros A H. destruct (valid_name name) eqn:V; [|reflexivity].
  exfalso. apply H. apply (characterise root name A). now apply valid_name_single.
Qed.

Lemma elsewhere_rejected i name :
  is_abs (i_root i) = true -> name_op i name ->
  ~ resolves_to_child (i_root i) name ->
  let r := exec_op i in
  (r_err r = EInvalid \/ r_err r = EEmpty) /\ r_log r = [] /\ r_fs r = world i.
Proof.
  intros A NO H. apply (name_op_invalid i name NO). now apply (elsewhere_invalid (i_root i)).
Qed.

(* every name: refused with nothing done, or a direct child and contained *)
Lemma every_name i name :
  is_abs (i_root i) = true -> name_op i name ->
  let r := exec_op i in
  let a := allowed (i_root i) name in
  ((r_err r = EInvalid \/ r_err r = EEmpty) /\ r_log r = [] /\ r_fs r = world i)
  \/
  (resolves_to_child (i_root i) name /\ pjoin [i_root i; name] = a
   /\ r_err r <> EInvalid
   /\ Forall (fun e => withinb a (eff_path e) = true) (r_log r)
   /\ (forall q, withinb a q = false -> fs_lookup q (r_fs r) = fs_lookup q (world i))).
Proof.
  intros A NO r a. destruct (valid_name name) eqn:V.
  - right. destruct (name_op_valid i name A NO V) as (S & _ & L & F).
    destruct (name_op_step i name A NO V) as (_ & NI & _).
    split; [apply (characterise _ _ A); exact S|].
    split; [now apply dir_path|]. split; [exact NI|]. split; [exact L | exact F].
  - left. now apply (name_op_invalid i name).
Qed.

(* an error other than the two refusals never hides an escape: it is returned
   only after a stat of <root>/<name>[/notation-<name>] *)
Lemma accepted_name_is_child i name :
  is_abs (i_root i) = true -> name_op i name ->
  r_err (exec_op i) <> EInvalid -> r_err (exec_op i) <> EEmpty ->
  resolves_to_child (i_root i) name.
Proof.
  intros A NO N1 N2. destruct (valid_name name) eqn:V.
  - apply (characterise _ _ A). now apply valid_name_single.
  - destruct (name_op_invalid i name NO V) as ([E | E] & _); congruence.
Qed.

(* ------------------------------------------------------------------ *)
(* 2. the name operations, exactly                                     *)

Lemma lookup_exact w root name :
  is_abs root = true -> valid_name name = true ->
  let b := child_path (allowed root name) (bin_name name) in
  let r := get_meta w root name in
  r_fs r = w
  /\ match stat w b with
     | SOk (NFile _ _) =>
         r_err r = ENone /\ r_meta r = fst (run_meta w b name)
         /\ r_log r = [EStat b; EExec b (snd (run_meta w b name))]
     | SOk NDir => r_err r = EOther /\ r_meta r = MNone /\ r_log r = [EStat b]
     | SOtherErr => r_err r = EOther /\ r_meta r = MNone /\ r_log r = [EStat b]
     | SNotExist => r_err r = ENotExist /\ r_meta r = MNone /\ r_log r = [EStat b]
     end.
Proof.
  intros A V b r. unfold r, get_meta, get. rewrite V. cbn [negb].
  rewrite (bin_path _ _ A V). fold b.
  destruct (stat w b) as [| |[|x m]]; cbn; auto.
  destruct (run_meta w b name) as [mm ran]. cbn. auto.
Qed.

Lemma uninstall_exact w root name :
  is_abs root = true -> valid_name name = true ->
  let a := allowed root name in
  uninstall w root name =
  match stat w a with
  | SOk _ => (ENone, fs_remove_all a w, [EStat a; ERemoveAll a])
  | SNotExist => (ENotExist, w, [EStat a])
  | SOtherErr => (EOther, w, [EStat a])
  end.
Proof.
  intros A V a. unfold uninstall. rewrite V. cbn [negb]. rewrite (dir_path _ _ A V). fold a.
  now destruct (stat w a).
Qed.

(* a process runs only for a regular file with its executable bit at
   <root>/<name>/notation-<name> *)
Lemma run_meta_ran w p nm :
  snd (run_meta w p nm) = true -> exists m, fs_lookup p w = Some (NFile true m).
Proof.
  unfold run_meta. destruct (fs_lookup p w) as [[|[|] [[mn v]|]]|]; cbn; try discriminate.
  - intros _. now eexists.
  - intros _. now eexists.
Qed.

(* ------------------------------------------------------------------ *)
(* 3. Install and a refused derived name                               *)

(* every acceptable name a source offers is among its raw names *)
Lemma parse_raw f n : parse_plugin_name f = Some n -> In n (raw_name f).
Proof.
  unfold parse_plugin_name, raw_name. destruct (cut_prefix bin_prefix f) as [m|]; [|discriminate].
  destruct (valid_name m); [|discriminate]. intros E. inversion E. now left.
Qed.

Lemma candidates_raw w s n : In n (candidates w s) -> In n (raw_names w s).
Proof.
  unfold candidates, raw_names. destruct (stat w s) as [| |[|x m]]; try contradiction.
  - intros H. apply in_flat_map in H as ([c nd] & Hin & H). apply in_flat_map.
    exists (c, nd). split; [exact Hin|]. cbn in *. destruct nd as [|x m]; [contradiction|].
    destruct (parse_plugin_name c) as [k|] eqn:P; [|contradiction].
    destruct H as [<- | []]. now apply parse_raw.
  - destruct (parse_plugin_name (base_name s)) as [k|] eqn:P; [|contradiction].
    intros [<- | []]. now apply parse_raw.
Qed.

Lemma raw_invalid_no_candidates w s :
  (forall n, In n (raw_names w s) -> valid_name n = false) -> candidates w s = [].
Proof.
  intros H. destruct (candidates w s) as [|n l] eqn:C; [reflexivity|].
  assert (Hin : In n (candidates w s)) by (rewrite C; now left).
  pose proof (candidates_valid _ _ _ Hin) as V.
  rewrite (H n (candidates_raw _ _ _ Hin)) in V. discriminate.
Qed.

(* the clause in full, for Install: when every notation-<n> file of the source
   has a name the validation refuses, Install fails, the source is stat'ed
   (and read, if a directory) and nothing else happens: no process runs, no
   mode bit is set, the file system is the one it started from *)
Lemma install_refused_no_effect w root src ow :
  (forall n, In n (raw_names w src) -> valid_name n = false) ->
  let r := install w root src ow in
  r_err r <> ENone /\ r_fs r = w
  /\ Forall (fun e => e = EStat src \/ e = EReadDir src) (r_log r).
Proof. intros H. apply install_no_candidate. now apply raw_invalid_no_candidates. Qed.

Lemma install_elsewhere_no_effect w root src ow :
  is_abs root = true ->
  (forall n, In n (raw_names w src) -> ~ resolves_to_child root n) ->
  let r := install w root src ow in
  r_err r <> ENone /\ r_fs r = w
  /\ Forall (fun e => e = EStat src \/ e = EReadDir src) (r_log r).
Proof.
  intros A H. apply install_refused_no_effect. intros n Hn.
  apply (elsewhere_invalid root n A). now apply H.
Qed.

(* Install never gets as far as the manager's own validation with a bad name *)
Lemma install_core_not_invalid w root n file s ff ow log :
  is_abs root = true -> valid_name n = true ->
  r_err (install_core w root n file s ff ow log) <> EInvalid.
Proof.
  intros A V. unfold install_core. destruct (run_meta w file n) as [nm ran].
  destruct nm as [|newv|]; try (cbn; discriminate).
  pose proof (verdict_valid w root n newv ow None A V) as VV.
  destruct (install_verdict w root n newv ow) as [v vlog]. destruct VV as (_ & N1 & _).
  destruct v as [e|]; [cbn; congruence|]. cbn.
  unfold install_finish.
  pose proof (uninstall_ok_step w root n None A V) as U.
  destruct (uninstall w root n) as [[ue w2] ulog]. destruct U as (_ & N2 & _).
  destruct ue; try (cbn; congruence);
    destruct (if ff then _ else _) as [[o w3] clog]; cbn; destruct o; discriminate.
Qed.

Lemma install_not_invalid w root src ow :
  is_abs root = true -> src <> "/" -> r_err (install w root src ow) <> EInvalid.
Proof.
  intros A NS. unfold install.
  destruct (String.eqb src ""); [cbn; discriminate|].
  destruct (stat w src) as [| |[|x m]]; try (cbn; discriminate).
  - pose proof (parse_dir_step w src NS) as P.
    destruct (parse_dir w src) as [[[[file n] w1]|] l]; [|cbn; discriminate].
    destruct P as (_ & _ & Ic). apply install_core_not_invalid; [exact A|].
    eapply cand_names_valid; eauto.
  - destruct (parse_plugin_name (base_name src)) as [n|] eqn:P; [|cbn; discriminate].
    destruct x; cbn [negb]; [|cbn; discriminate].
    apply install_core_not_invalid; [exact A | eapply parse_valid; eauto].
Qed.

(* every operation, Install included: the invalid-name error means that
   nothing at all has happened *)
Lemma invalid_name_no_effect i :
  wf i = true -> r_err (exec_op i) = EInvalid ->
  r_log (exec_op i) = [] /\ r_fs (exec_op i) = world i.
Proof.
  unfold wf. rewrite andb_true_iff. intros (A & W) E.
  assert (NAME : forall j name, is_abs (i_root j) = true -> name_op j name ->
             r_err (exec_op j) = EInvalid -> r_log (exec_op j) = [] /\ r_fs (exec_op j) = world j).
  { intros j name Aj NO Ej. destruct (valid_name name) eqn:V.
    - destruct (name_op_step j name Aj NO V) as (_ & NI & _). congruence.
    - destruct (name_op_invalid j name NO V) as (_ & L & F). auto. }
  destruct (i_op i) as [name|name|name| |a mb pm tr|s ow|ex es|name] eqn:O.
  - apply (NAME i name A); [now left | exact E].
  - apply (NAME i name A); [right; now left | exact E].
  - apply (NAME i name A); [right; now right | exact E].
  - unfold exec_op in *. rewrite O in *. cbn. auto.
  - destruct (verify_x_reduces (world i) (i_root i) a mb pm)
      as [(X & _) | (s & -> & -> & -> & _ & _ & _)].
    + unfold exec_op in *. rewrite O in *. rewrite X. cbn. auto.
    + rewrite (exec_verify_x_as_verify i s tr O) in *.
      apply (NAME (with_op i (OVerify s)) s A); [right; now right | exact E].
  - exfalso. rewrite !andb_true_iff, negb_true_iff in W. destruct W as (_ & NS).
    apply String.eqb_neq in NS. unfold exec_op in E. rewrite O in E.
    exact (install_not_invalid _ _ _ _ A NS E).
  - unfold exec_op in *. rewrite O in *. cbn. auto.
  - unfold exec_op in *. rewrite O in *. cbn. auto.
Qed.

(* every install source: it offers no acceptable name and nothing happens, or
   Install works with an acceptable name of the source and stays in the source
   and in <root>/<name> *)
Lemma install_total w root src ow :
  is_abs root = true -> src <> "/" ->
  let r := install w root src ow in
  (candidates w src = [] /\ r_err r <> ENone /\ r_fs r = w
   /\ Forall (fun e => e = EStat src \/ e = EReadDir src) (r_log r))
  \/
  (exists name,
     In name (candidates w src) /\ valid_name name = true /\ resolves_to_child root name
     /\ r_err r <> EInvalid
     /\ Forall (fun e => withinb src (eff_path e) = true
                         \/ withinb (allowed root name) (eff_path e) = true) (r_log r)
     /\ (forall q, withinb src q = true \/ withinb (allowed root name) q = true
                   \/ fs_lookup q (r_fs r) = fs_lookup q w
                   \/ (fs_lookup q w = None /\ fs_lookup q (r_fs r) = Some NDir
                       /\ In q (prefixes (allowed root name))))).
Proof.
  intros A NS r. destruct (candidates w src) as [|c0 cs] eqn:C.
  - left. split; [reflexivity|]. apply install_no_candidate. exact C.
  - right. pose proof (install_not_invalid w root src ow A NS) as NI. fold r in NI.
    destruct (install_contained_explicit w root src ow A NS) as [(E & L & F) | (n & Ic & V & _ & L & F)];
      fold r in E, L, F || fold r in L, F.
    + assert (Hc : In c0 (candidates w src)) by (rewrite C; now left).
      pose proof (candidates_valid _ _ _ Hc) as V. rewrite <- C.
      exists c0. split; [exact Hc|]. split; [exact V|].
      split; [apply (characterise _ _ A), valid_name_single, V|]. split; [exact NI|]. split.
      * eapply Forall_impl; [|exact L]. intros e We. now left.
      * intros q. destruct (F q) as [Wq | Eq]; auto.
    + rewrite <- C. exists n. split; [exact Ic|]. split; [exact V|].
      split; [apply (characterise _ _ A), valid_name_single, V|]. split; [exact NI|]. now split.
Qed.

(* ---- the code before /repo 30cc14e ---- *)
(* parsePluginName accepted every non-empty rest; the derived name was examined
   only by Get / Uninstall, after the source had been made executable and run *)
Definition parse_plugin_name_v0 (f : string) : option string :=
  match cut_prefix bin_prefix f with
  | Some EmptyString => None
  | Some n => Some n
  | None => None
  end.

Definition scan_step_v0 (src : string) (st : option scan) (e : string * node) : option scan :=
  match st with
  | None => None
  | Some st =>
      match snd e with
      | NDir => Some st
      | NFile x _ =>
          match parse_plugin_name_v0 (fst e) with
          | None => Some st
          | Some nm =>
              let p := child_path src (fst e) in
              let files := (sc_files st ++ [p])%list in
              let log := (sc_log st ++ [EStat p])%list in
              if negb x then
                Some (mk_scan (sc_found st) (sc_file st) (sc_name st) nm files log)
              else if sc_found st then None
              else Some (mk_scan true p nm nm files log)
          end
      end
  end.

Definition parse_dir_v0 (w : fs) (src : string) : option (string * string * fs) * list eff :=
  match fold_left (scan_step_v0 src) (children w src) (Some scan0) with
  | None => (None, [EReadDir src])
  | Some st =>
      let log := EReadDir src :: sc_log st in
      if sc_found st then (Some (sc_file st, sc_name st, w), log)
      else
        match sc_files st with
        | [cand] =>
            match fs_lookup cand w with
            | Some (NFile _ m) =>
                (Some (cand, sc_cand st, fs_set cand (NFile true m) w),
                 (log ++ [EStat cand; EChmod cand])%list)
            | _ => (None, (log ++ [EStat cand])%list)
            end
        | _ => (None, log)
        end
  end.

Definition install_v0 (w : fs) (root src : string) (ow : bool) : outcome :=
  if String.eqb src "" then mk_out EOther MNone w [] []
  else
    match stat w src with
    | SNotExist => mk_out ENotExist MNone w [EStat src] []
    | SOtherErr => mk_out EOther MNone w [EStat src] []
    | SOk NDir =>
        match parse_dir_v0 w src with
        | (None, l) => mk_out EOther MNone w (EStat src :: l) []
        | (Some (file, name, w1), l) =>
            install_core w1 root name file src false ow (EStat src :: l)
        end
    | SOk (NFile x _) =>
        match parse_plugin_name_v0 (base_name src) with
        | None => mk_out EOther MNone w [EStat src] []
        | Some name =>
            if negb x then mk_out EOther MNone w [EStat src; EStat src] []
            else install_core w root name src src true ow [EStat src; EStat src]
        end
    end.

Definition witness_fs : fs :=
  [("/s", NDir); ("/s/notation-..", NFile true (Some ("..", 1%N))); ("/p", NDir); ("/p/r", NDir)].
Definition witness_fs_noexec : fs :=
  [("/s", NDir); ("/s/notation-..", NFile false (Some ("..", 1%N))); ("/p", NDir); ("/p/r", NDir)].

(* before the fix the source file was executed ... *)
Lemma install_v0_exec_refuted :
  exists w root src ow,
    is_abs root = true /\ src <> "/"
    /\ raw_names w src = [".."] /\ valid_name ".." = false
    /\ let r := install_v0 w root src ow in
       r_err r = EInvalid /\ In (EExec src true) (r_log r).
Proof.
  exists witness_fs, "/p/r", "/s/notation-..", true. vm_compute.
  repeat split; auto 10; discriminate.
Qed.

(* ... and the single non-executable candidate of a directory was made executable *)
Lemma install_v0_chmod_refuted :
  exists w root src ow,
    is_abs root = true /\ src <> "/"
    /\ raw_names w src = [".."] /\ valid_name ".." = false
    /\ let r := install_v0 w root src ow in
       r_err r = EInvalid
       /\ fs_lookup "/s/notation-.." w = Some (NFile false (Some ("..", 1%N)))
       /\ fs_lookup "/s/notation-.." (r_fs r) = Some (NFile true (Some ("..", 1%N)))
       /\ In (EChmod "/s/notation-..") (r_log r)
       /\ In (EExec "/s/notation-.." true) (r_log r).
Proof.
  exists witness_fs_noexec, "/p/r", "/s", false. vm_compute.
  repeat split; auto 12; discriminate.
Qed.

(* the same two sources on the code as it is now *)
Lemma install_witnesses_now :
  install witness_fs "/p/r" "/s/notation-.." true
    = mk_out EOther MNone witness_fs [EStat "/s/notation-.."] []
  /\ install witness_fs_noexec "/p/r" "/s" false
    = mk_out EOther MNone witness_fs_noexec [EStat "/s"; EReadDir "/s"] [].
Proof. vm_compute. split; reflexivity. Qed.

(* ------------------------------------------------------------------ *)
(* 4. histories: any sequence of operations on one plugin root         *)

(* the operations run one after the other, each on the file system the
   previous one left; the effect logs are concatenated *)
Fixpoint run_seq (w : fs) (root : string) (ops : list op) : fs * list eff :=
  match ops with
  | [] => (w, [])
  | o :: r =>
      let x := exec_op (mk_input w [] root o) in
      let '(w', l) := run_seq (r_fs x) root r in (w', (r_log x ++ l)%list)
  end.

(* the paths a history may touch: a direct child <root>/<n> of the plugin root
   (n accepted by the validation) and what lies below it, and the install
   sources the history names *)
Definition in_region (root : string) (ops : list op) (q : string) : Prop :=
  (exists n, valid_name n = true /\ withinb (allowed root n) q = true)
  \/ (exists src ow, In (OInstall src ow) ops /\ withinb src q = true).

(* everything else is as it was, except that missing ancestor directories of
   the plugin root (and the root) may have been created by MkdirAll *)
Definition hframe (root : string) (ops : list op) (w w' : fs) : Prop :=
  forall q,
    fs_lookup q w' = fs_lookup q w
    \/ in_region root ops q
    \/ (fs_lookup q w = None /\ fs_lookup q w' = Some NDir /\ In q (prefixes (clean root))).

Lemma in_region_incl root ops ops' q :
  incl ops ops' -> in_region root ops q -> in_region root ops' q.
Proof.
  intros I [H | (s & ow & Hin & W)]; [now left|]. right. exists s, ow. split; [now apply I | exact W].
Qed.

Lemma hframe_incl root ops ops' w w' :
  incl ops ops' -> hframe root ops w w' -> hframe root ops' w w'.
Proof.
  intros I F q. destruct (F q) as [E | [R | X]]; auto. right. left. eapply in_region_incl; eauto.
Qed.

Lemma hframe_refl root ops w : hframe root ops w w.
Proof. intros q. now left. Qed.

Lemma hframe_trans root ops w1 w2 w3 :
  hframe root ops w1 w2 -> hframe root ops w2 w3 -> hframe root ops w1 w3.
Proof.
  intros F1 F2 q.
  destruct (F2 q) as [E2 | [R2 | (N2 & D2 & P2)]];
    destruct (F1 q) as [E1 | [R1 | (N1 & D1 & P1)]]; auto.
  - left. congruence.
  - right. right. rewrite E2. auto.
  - right. right. rewrite <- E1. auto.
Qed.

(* the ancestors of <root>/<n> are the ancestors of the root, the root, and
   <root>/<n> itself *)
Lemma prefixes_from_app cur a b :
  prefixes_from cur (a ++ b) = (prefixes_from cur a ++ prefixes_from (fold_left child_path a cur) b)%list.
Proof.
  revert cur. induction a as [|x a IH]; intros cur; cbn; [reflexivity|]. now rewrite IH.
Qed.

Lemma fold_child_render l :
  Forall (fun c => plainb c = true) l -> fold_left child_path l "/" = render true l.
Proof.
  induction l as [|x l IH] using rev_ind; intros H; [reflexivity|].
  apply Forall_app in H as (Hl & Hx).
  rewrite fold_left_app. cbn [fold_left]. rewrite (IH Hl). symmetry. now apply render_snoc.
Qed.

Lemma prefixes_allowed root n :
  is_abs root = true -> valid_name n = true ->
  prefixes (allowed root n) = (prefixes (clean root) ++ [allowed root n])%list.
Proof.
  intros A V. unfold prefixes.
  rewrite <- (dir_path _ _ A V) at 1.
  rewrite (proj2 (characterise root n A) (valid_name_single _ V)).
  rewrite prefixes_from_app. cbn [prefixes_from]. f_equal.
  rewrite (comps_of_clean_root _ A).
  rewrite fold_child_render by (apply Forall_rev, root_stack_plain).
  unfold allowed. now rewrite (clean_abs _ A).
Qed.

(* one operation *)
Lemma op_hstep root o w :
  is_abs root = true ->
  (forall src ow, o = OInstall src ow -> src <> "/") ->
  let x := exec_op (mk_input w [] root o) in
  Forall (fun e => in_region root [o] (eff_path e)) (r_log x) /\ hframe root [o] w (r_fs x).
Proof.
  intros A NS x. set (i := mk_input w [] root o).
  assert (NAME : forall name, name_op i name ->
            Forall (fun e => in_region root [o] (eff_path e)) (r_log (exec_op i))
            /\ hframe root [o] w (r_fs (exec_op i))).
  { intros name NO. destruct (valid_name name) eqn:V.
    - destruct (name_op_valid i name A NO V) as (_ & _ & L & F). split.
      + eapply Forall_impl; [|exact L]. intros e W. left. now exists name.
      + intros q. destruct (withinb (allowed root name) q) eqn:W.
        * right. left. left. now exists name.
        * left. exact (F q W).
    - destruct (name_op_invalid i name NO V) as (_ & L & F). rewrite L, F.
      split; [constructor | apply hframe_refl]. }
  destruct o as [name|name|name| |a mb pm tr|s ow|ex es|name].
  - apply (NAME name). now left.
  - apply (NAME name). right. now left.
  - apply (NAME name). right. now right.
  - cbn. split; [constructor | apply hframe_refl].
  - destruct (verify_x_reduces w root a mb pm) as [(E & _) | (s & -> & -> & -> & _ & _ & _)].
    + unfold x, exec_op. cbn. rewrite E. cbn. split; [constructor | apply hframe_refl].
    + unfold x. fold i. rewrite (exec_verify_x_as_verify i s tr eq_refl).
      set (i' := with_op i (OVerify s)).
      assert (NO : name_op i' s) by (right; right; reflexivity).
      destruct (valid_name s) eqn:V.
      * destruct (name_op_valid i' s A NO V) as (_ & _ & L & F). split.
        -- eapply Forall_impl; [|exact L]. intros e W. left. now exists s.
        -- intros q. destruct (withinb (allowed root s) q) eqn:W.
           ++ right. left. left. now exists s.
           ++ left. exact (F q W).
      * destruct (name_op_invalid i' s NO V) as (_ & L & F). rewrite L, F.
        split; [constructor | apply hframe_refl].
  - specialize (NS s ow eq_refl).
    pose proof (install_contained_explicit w root s ow A NS) as IC. cbn zeta in IC.
    assert (SRC : forall q, withinb s q = true -> in_region root [OInstall s ow] q).
    { intros q W. right. exists s, ow. split; [now left | exact W]. }
    change (exec_op i) with (install w root s ow) in x. unfold x.
    destruct IC as [(_ & L & F) | (n & _ & V & _ & L & F)].
    + split.
      * eapply Forall_impl; [|exact L]. intros e W. now apply SRC.
      * intros q. destruct (F q) as [W | E]; [right; left; now apply SRC | now left].
    + split.
      * eapply Forall_impl; [|exact L]. intros e [W | W]; [now apply SRC|]. left. now exists n.
      * intros q. destruct (F q) as [W | [W | [E | (N & D & P)]]].
        -- right. left. now apply SRC.
        -- right. left. left. now exists n.
        -- now left.
        -- rewrite (prefixes_allowed _ _ A V) in P. apply in_app_or in P as [P | [<- | []]].
           ++ right. right. auto.
           ++ right. left. left. exists n. split; [exact V | apply withinb_refl].
  - cbn. split; [constructor | apply hframe_refl].
  - cbn. split; [constructor | apply hframe_refl].
Qed.

Lemma history_contained root ops : forall w,
  is_abs root = true ->
  (forall src ow, In (OInstall src ow) ops -> src <> "/") ->
  Forall (fun e => in_region root ops (eff_path e)) (snd (run_seq w root ops))
  /\ hframe root ops w (fst (run_seq w root ops)).
Proof.
  induction ops as [|o r IH]; intros w A NS; cbn [run_seq].
  - cbn. split; [constructor | apply hframe_refl].
  - destruct (op_hstep root o w A) as (L1 & F1).
    { intros s ow E. apply (NS s ow). left. now symmetry. }
    set (x := exec_op (mk_input w [] root o)) in *.
    destruct (IH (r_fs x) A) as (L2 & F2).
    { intros s ow H. apply (NS s ow). now right. }
    destruct (run_seq (r_fs x) root r) as [w' l]. cbn [fst snd] in *.
    assert (I1 : incl [o] (o :: r)) by (intros y [<- | []]; now left).
    assert (I2 : incl r (o :: r)) by (intros y Hy; now right).
    split.
    + apply Forall_app. split.
      * eapply Forall_impl; [|exact L1]. intros e. now apply in_region_incl.
      * eapply Forall_impl; [|exact L2]. intros e. now apply in_region_incl.
    + apply (hframe_trans root (o :: r) w (r_fs x) w');
        [exact (hframe_incl root [o] _ _ _ I1 F1) | exact (hframe_incl root r _ _ _ I2 F2)].
Qed.

(* a history of lookups, removals and verifications only (no Install): nothing
   outside the direct children of the plugin root is ever touched; in
   particular the root, its ancestors and its siblings are as they were *)
Definition no_install (o : op) : Prop := forall s ow, o <> OInstall s ow.

Lemma history_names_only root ops w :
  is_abs root = true -> Forall no_install ops ->
  Forall (fun e => exists n, valid_name n = true /\ withinb (allowed root n) (eff_path e) = true)
         (snd (run_seq w root ops))
  /\ forall q, (forall n, valid_name n = true -> withinb (allowed root n) q = false) ->
               fs_lookup q (fst (run_seq w root ops)) = fs_lookup q w.
Proof.
  intros A NI. rewrite Forall_forall in NI.
  assert (NOI : forall s ow, ~ In (OInstall s ow) ops).
  { intros s ow H. exact (NI _ H s ow eq_refl). }
  destruct (history_contained root ops w A) as (L & F).
  { intros s ow H. exfalso. exact (NOI s ow H). }
  assert (NOMK : forall w, hframe root ops w (fst (run_seq w root ops)) ->
            forall q, fs_lookup q (fst (run_seq w root ops)) = fs_lookup q w \/ in_region root ops q).
  { clear L F w. induction ops as [|o r IH]; intros w _ q; [now left|].
    cbn [run_seq]. set (x := exec_op (mk_input w [] root o)).
    assert (NIr : forall x0, In x0 r -> no_install x0) by (intros y Hy; apply NI; now right).
    assert (NOIr : forall s ow, ~ In (OInstall s ow) r) by (intros s ow H; apply (NOI s ow); now right).
    specialize (IH NIr NOIr (r_fs x) (proj2 (history_contained root r (r_fs x) A
                  (fun s ow H => False_ind _ (NOIr s ow H)))) q).
    destruct (run_seq (r_fs x) root r) as [w' l] eqn:RS. cbn [fst] in *.
    assert (ONE : fs_lookup q (r_fs x) = fs_lookup q w \/ in_region root (o :: r) q).
    { set (i := mk_input w [] root o).
      assert (NAME : forall name, name_op i name ->
                fs_lookup q (r_fs (exec_op i)) = fs_lookup q w \/ in_region root (o :: r) q).
      { intros name NO. destruct (valid_name name) eqn:V.
        - destruct (name_op_valid i name A NO V) as (_ & _ & _ & Fr).
          destruct (withinb (allowed root name) q) eqn:W.
          + right. left. now exists name.
          + left. exact (Fr q W).
        - destruct (name_op_invalid i name NO V) as (_ & _ & Fr). left. now rewrite Fr. }
      destruct o as [name|name|name| |a mb pm tr|s ow|ex es|name].
      - apply (NAME name). now left.
      - apply (NAME name). right. now left.
      - apply (NAME name). right. now right.
      - now left.
      - destruct (verify_x_reduces w root a mb pm) as [(E & _) | (s & -> & -> & -> & _ & _ & _)].
        + left. unfold x, exec_op. cbn. now rewrite E.
        + unfold x. fold i. rewrite (exec_verify_x_as_verify i s tr eq_refl).
          set (i' := with_op i (OVerify s)).
          assert (NO : name_op i' s) by (right; right; reflexivity).
          destruct (valid_name s) eqn:V.
          * destruct (name_op_valid i' s A NO V) as (_ & _ & _ & Fr).
            destruct (withinb (allowed root s) q) eqn:W.
            -- right. left. now exists s.
            -- left. exact (Fr q W).
          * destruct (name_op_invalid i' s NO V) as (_ & _ & Fr). left. now rewrite Fr.
      - exfalso. apply (NOI s ow). now left.
      - now left.
      - now left. }
    destruct IH as [E | R].
    - destruct ONE as [E1 | R1]; [left; congruence | now right].
    - right. eapply in_region_incl; [|exact R]. intros y Hy. now right. }
  split.
  - eapply Forall_impl; [|exact L]. intros e [H | (s & ow & Hin & _)]; [exact H|].
    exfalso. exact (NOI s ow Hin).
  - intros q OUT. destruct (NOMK w F q) as [E | [(n & V & W) | (s & ow & Hin & _)]]; [exact E | |].
    + rewrite (OUT n V) in W. discriminate.
    + exfalso. exact (NOI s ow Hin).
Qed.

(* the plugin root itself lies in no <root>/<n> *)
Lemma child_path_longer d n q :
  n <> "" -> withinb (child_path d n) q = true -> String.length d < String.length q.
Proof.
  intros NE.
  assert (LN : 1 <= String.length n) by (destruct n; [congruence | cbn; lia]).
  assert (LA : forall a b, String.length (a ++ b) = String.length a + String.length b).
  { induction a as [|c a IH]; intros b; cbn; [reflexivity | now rewrite IH]. }
  assert (LP : forall p s, has_prefix p s = true -> String.length p <= String.length s).
  { intros p s H. apply has_prefix_spec in H as [t ->]. rewrite LA. lia. }
  unfold withinb, child_path. rewrite orb_true_iff, String.eqb_eq.
  destruct (String.eqb d "/") eqn:E.
  - apply String.eqb_eq in E. subst d. intros [-> | H].
    + rewrite LA. cbn. lia.
    + apply LP in H. rewrite !LA in H. cbn in *. lia.
  - intros [-> | H].
    + rewrite !LA. cbn. lia.
    + apply LP in H. rewrite !LA in H. cbn in *. lia.
Qed.

Lemma root_outside_children root n :
  valid_name n = true -> withinb (allowed root n) (clean root) = false.
Proof.
  intros V. destruct (withinb (allowed root n) (clean root)) eqn:W; [|reflexivity].
  apply child_path_longer in W; [lia | now apply valid_name_nonempty].
Qed.

(* no history without Install changes the plugin root itself *)
Lemma history_root_kept root ops w :
  is_abs root = true -> Forall no_install ops ->
  fs_lookup (clean root) (fst (run_seq w root ops)) = fs_lookup (clean root) w.
Proof.
  intros A NI. apply (proj2 (history_names_only root ops w A NI)).
  intros n V. now apply root_outside_children.
Qed.

(* ------------------------------------------------------------------ *)
(* 5. the verifier's fragment in full                                  *)

(* the manager is called at most once, through Get, with the value of a
   critical string attribute that is not blank, and only when the minimum
   version attribute is well formed and the verifier has a manager *)
Lemma verify_plan_calls a mb pm :
  snd (verify_plan a mb pm) = []
  \/ exists s, a = VStr s /\ all_space s = false /\ mb = false /\ pm = true
               /\ verify_plan a mb pm = (ENone, [CGet s]).
Proof.
  destruct a as [|s| |s]; cbn; auto.
  destruct (all_space s) eqn:SP; cbn; auto.
  destruct mb; cbn; auto. destruct pm; cbn; auto.
  right. exists s. auto.
Qed.

(* whether the signing certificate is trusted is not consulted *)
Lemma verify_x_ignores_trust w e root a mb pm t1 t2 :
  exec_op (mk_input w e root (OVerifyX a mb pm t1)) = exec_op (mk_input w e root (OVerifyX a mb pm t2)).
Proof. reflexivity. Qed.

(* end-to-end verification, whatever the attribute: nothing is touched, or the
   attribute's value is a single component and everything stays in <root>/<value> *)
Lemma verify_x_contained i a mb pm t :
  is_abs (i_root i) = true -> i_op i = OVerifyX a mb pm t ->
  let r := exec_op i in
  (r_log r = [] /\ r_fs r = world i)
  \/ (exists s, a = VStr s /\ valid_name s = true /\ resolves_to_child (i_root i) s
       /\ r_err r <> EInvalid
       /\ Forall (fun e => withinb (allowed (i_root i) s) (eff_path e) = true) (r_log r)
       /\ (forall q, withinb (allowed (i_root i) s) q = false ->
                     fs_lookup q (r_fs r) = fs_lookup q (world i))).
Proof.
  intros A O r.
  destruct (verify_x_reduces (world i) (i_root i) a mb pm)
    as [(E & _) | (s & -> & -> & -> & _ & _ & _)].
  - left. unfold r, exec_op. rewrite O, E. auto.
  - unfold r. rewrite (exec_verify_x_as_verify i s t O).
    set (i' := with_op i (OVerify s)).
    assert (NO : name_op i' s) by (right; right; reflexivity).
    destruct (every_name i' s A NO) as [(_ & L & F) | (RC & _ & NI & L & F)].
    + left. auto.
    + destruct (valid_name s) eqn:V.
      * right. exists s. auto 10.
      * left. destruct (name_op_invalid i' s NO V) as (_ & L' & F'). auto.
Qed.

(* white space: a few values of strings.TrimSpace(s) == "" *)
Lemma all_space_examples :
  all_space "" = true /\ all_space (B [32; 9; 10; 11; 12; 13]%N) = true
  /\ all_space (B [194; 160]%N) = true /\ all_space (B [194; 133; 32]%N) = true
  /\ all_space (B [225; 154; 128]%N) = true /\ all_space (B [226; 128; 128]%N) = true
  /\ all_space (B [226; 128; 138]%N) = true /\ all_space (B [226; 128; 168; 226; 128; 169]%N) = true
  /\ all_space (B [226; 128; 175]%N) = true /\ all_space (B [226; 129; 159]%N) = true
  /\ all_space (B [227; 128; 128; 32]%N) = true
  /\ all_space (B [226; 128; 139]%N) = false   (* U+200B zero width space *)
  /\ all_space (B [225; 160; 142]%N) = false   (* U+180E *)
  /\ all_space (B [239; 187; 191]%N) = false   (* U+FEFF *)
  /\ all_space (B [194]%N) = false /\ all_space (B [194; 32]%N) = false
  /\ all_space (B [160]%N) = false /\ all_space (B [32; 46; 46]%N) = false.
Proof. vm_compute. repeat split. Qed.

(* ------------------------------------------------------------------ *)
(* 6. the paths of the effect log are clean rooted paths               *)
(* [withinb] compares strings; it means containment because the paths it is
   applied to contain no ".", ".." or empty component *)

Lemma clean_render l :
  Forall (fun c => plainb c = true) l -> clean (render true l) = render true l.
Proof.
  intros P.
  assert (A : is_abs (render true l) = true) by reflexivity.
  rewrite (clean_abs _ A). f_equal.
  unfold render. change ("/" ++ join_slash l) with ("" ++ String slash (join_slash l)).
  rewrite split_slash_app. cbn [split_slash app].
  destruct l as [|a l].
  - reflexivity.
  - rewrite split_join_plain; [|discriminate|].
    + change ("" :: a :: l) with ([""] ++ (a :: l))%list. rewrite clean_stack_app.
      change (clean_stack true [""] []) with (@nil string).
      rewrite (clean_stack_plain _ _ _ P), app_nil_r. apply rev_involutive.
    + eapply Forall_impl; [|exact P]. intros x. apply plainb_no_slash.
Qed.

Lemma pjoin_root_clean root rel :
  is_abs root = true ->
  clean (pjoin [root; rel]) = pjoin [root; rel] /\ is_abs (pjoin [root; rel]) = true.
Proof.
  intros A. rewrite (pjoin_root _ _ A). split; [|reflexivity].
  apply clean_render. apply Forall_rev.
  apply clean_stack_rooted_inv; [apply split_slash_pieces | apply root_stack_plain].
Qed.

Definition clean_rooted (p : string) : Prop := clean p = p /\ is_abs p = true.

Lemma name_paths_clean root name :
  is_abs root = true -> valid_name name = true ->
  clean_rooted (allowed root name)
  /\ clean_rooted (child_path (allowed root name) (bin_name name)).
Proof.
  intros A V. rewrite <- (bin_path _ _ A V), <- (dir_path _ _ A V).
  split; now apply pjoin_root_clean.
Qed.

Lemma name_op_paths_clean i name :
  is_abs (i_root i) = true -> name_op i name ->
  Forall (fun e => clean_rooted (eff_path e)) (r_log (exec_op i)).
Proof.
  intros A NO. destruct (valid_name name) eqn:V.
  - destruct (name_paths_clean (i_root i) name A V) as (Ca & Cb).
    assert (GM : forall w, Forall (fun e => clean_rooted (eff_path e)) (r_log (get_meta w (i_root i) name))).
    { intros w. destruct (get_meta_valid w (i_root i) name A V) as (_ & _ & _ & L).
      destruct L as [L | [ran L]]; rewrite L.
      - constructor; [exact Cb | constructor].
      - constructor; [exact Cb | constructor; [exact Cb | constructor]]. }
    destruct NO as [H | [H | H]]; unfold exec_op; rewrite H.
    + apply GM.
    + destruct (uninstall_valid (world i) (i_root i) name A V) as [U | (e & _ & _ & _ & U)];
        rewrite U; cbn.
      * constructor; [exact Ca | constructor; [exact Ca | constructor]].
      * constructor; [exact Ca | constructor].
    + destruct (all_space name) eqn:SP.
      * rewrite (verify_lookup_blank _ _ _ SP). constructor.
      * rewrite (verify_lookup_nonblank _ _ _ SP). cbn. apply GM.
  - destruct (name_op_invalid i name NO V) as (_ & -> & _). constructor.
Qed.

(* for a clean rooted a, "q is a or lies below a" on strings is "the
   components of q extend those of a" *)
Lemma withinb_comps a q :
  withinb a q = true -> exists rest, comps_of q = (comps_of a ++ rest)%list.
Proof.
  unfold withinb. rewrite orb_true_iff, String.eqb_eq. intros [-> | H].
  - exists []. now rewrite app_nil_r.
  - apply has_prefix_spec in H as [t ->]. exists (comps_of t).
    unfold comps_of. rewrite append_assoc. change ("/" ++ t) with (String slash t).
    rewrite split_slash_app, filter_app. reflexivity.
Qed.
