(* C11_Audit.v — statements added by the theorem audit (docs/audit/C11.md): the converse
   of the refusals (a call with nothing to refuse reaches the signer and ends as signer,
   generateAnnotations and repository decide) and concrete witnesses for the hypotheses
   of the theorems of props/C11_Property.v. *)
From NV Require Import Base Generated C11_Model C11_Proofs C11_Registry C11_RegistryProofs.
Open Scope string_scope.

(* the result class when nothing is refused: decided by the signer's answer, the signing
   time, and the repository's answer *)
Definition outcome (c : call_in) : res :=
  match ci_sign c with
  | SErr => ESigner
  | SOk _ None => EAnnInfoNil
  | SOk _ (Some si) =>
      match si_time si with
      | None => EAnnTime
      | Some _ => match ci_push c with PushOK _ => ROk | PushErr => EPush | PushRefDel _ => RRefDel end
      end
  end.

Lemma outcome_reached : forall c, reached_signer (outcome c) = true.
Proof.
  intros c. unfold outcome. destruct (ci_sign c) as [|s [si|]]; try reflexivity.
  destruct (si_time si); [destruct (ci_push c)|]; reflexivity.
Qed.

Lemma gen_ann_some : forall h si p tm, si_time si = Some tm ->
  exists h2 ra, gen_ann h (Some si) p = (h2, inr ra).
Proof.
  intros h si p tm Et. unfold gen_ann.
  destruct (awrite k_thumb (json_strs (si_chain si)) h match p with PAMap a => AShared a | _ => AFresh [] end) as [h1 r1].
  rewrite Et. destruct (awrite k_created (rfc3339 tm) h1 r1) as [h2 r2]. eauto.
Qed.

Theorem accepts : forall tbl st c st' t d,
  sign_oci false tbl st c = (st', t) ->
  validate c = None -> ci_repo_nil c = false ->
  lookup_tbl (eff_ref c) tbl = Some d ->
  (eff_ref c = d_dg d \/ ci_isdigest c = false) ->
  nodup_str (map fst (meta_of c (s_heap st))) = true ->
  (forall k, In k (map fst (meta_of c (s_heap st))) ->
             reserved k = false /\ lookup k (aread (d_ann d) (s_heap st)) = None) ->
  t_res t = outcome c /\ reached_signer (t_res t) = true.
Proof.
  intros tbl [h sp] c st' t d H Hv Hn Hl Hp Hnd Hm. cbn [s_heap] in *.
  assert (t_res t = outcome c) as E; [|rewrite E; split; [reflexivity | apply outcome_reached]].
  rewrite sign_oci_finish' in H. unfold pre_of in H. rewrite Hv, Hn, Hl in H.
  assert (negb (String.eqb (eff_ref c) (d_dg d)) && ci_isdigest c = false) as Epin.
  { destruct Hp as [Hp | Hp]; [rewrite Hp, String.eqb_refl; reflexivity | rewrite Hp; apply andb_false_r]. }
  rewrite Epin in H. fold (meta_es c h) in H.
  assert (exists r1, add_meta false h (d_ann d) (meta_es c h) = (h, r1, None)) as [r1 Ea].
  { rewrite add_meta_false. destruct (meta_es c h) as [|e0 es0] eqn:Ees; [eauto|]. rewrite <- Ees.
    eexists. f_equal. apply add_pure_complete.
    - unfold meta_es, meta_of in *. destruct (ci_meta c); [apply nodup_entries; exact Hnd | reflexivity].
    - intros k Hk. apply keys_meta_es in Hk. apply Hm. exact Hk. }
  rewrite Ea in H. unfold outcome.
  destruct (ci_sign c) as [|sig [si|]]; [inversion H; reflexivity | | inversion H; reflexivity].
  destruct (si_time si) as [tm|] eqn:Et.
  - destruct (gen_ann_some h si (ci_pa c) tm Et) as (h2 & ra & Eg). rewrite Eg in H.
    cbn [finish] in H. destruct (ci_push c); inversion H; reflexivity.
  - unfold gen_ann in H.
    destruct (awrite k_thumb (json_strs (si_chain si)) h match ci_pa c with PAMap a => AShared a | _ => AFresh [] end) as [h1 r0].
    rewrite Et in H. inversion H; reflexivity.
Qed.

(* ---------- witnesses (hypotheses of the property theorems are satisfiable) ---------- *)

(* "v1" resolves to sha256:aa; a digest reference that resolves to it although it spells
   another digest *)
Definition au_tbl : table :=
  [("v1", mk_desc "application/vnd.oci.image.manifest.v1+json" "sha256:aa" 7 "" (AShared 0));
   ("sha256:bb", mk_desc "application/vnd.oci.image.manifest.v1+json" "sha256:aa" 7 "" (AShared 0))].
(* object 0: the artifact's annotations; 1: metadata; 2: the signer's plugin annotations;
   3: reserved metadata; 4: colliding metadata; 5: plugin config *)
Definition au_heap : heap :=
  [(0%N, [("org.example.extra", "1")]); (1%N, [("k", "v")]); (2%N, [(k_thumb, "stale"); ("p", "q")]);
   (3%N, [("m", "1"); ("io.cncf.notary.x", "2")]); (4%N, [("org.example.extra", "1")]); (5%N, [("cfg", "1")])].
Definition au_call (ref : string) (isdg : bool) (meta : option addr) (p : pa) : call_in :=
  mk_call_in false false ref None isdg mt_jws 0 "" meta None (Some 5%N)
             (SOk "sig" (Some (mk_sinfo ["ab"; "cd"] (Some 1759082096%Z)))) p (PushOK "sha256:m").

Lemma witness_refuses :
  let st := mk_state au_heap [] in
  (* digest reference resolving elsewhere *)
  t_res (snd (sign_oci false au_tbl st (au_call "sha256:bb" true (Some 1%N) PANone))) = EDigestMismatch
  (* reserved prefix *)
  /\ t_res (snd (sign_oci false au_tbl st (au_call "v1" false (Some 3%N) PANone))) = EMetaReserved
  (* overwriting an annotation of the artifact (even with the same value) *)
  /\ t_res (snd (sign_oci false au_tbl st (au_call "v1" false (Some 4%N) PANone))) = EMetaPresent
  (* unresolvable *)
  /\ t_res (snd (sign_oci false au_tbl st (au_call "v9" false (Some 1%N) PANone))) = EResolve
  /\ fst (sign_oci false au_tbl st (au_call "v1" false (Some 3%N) PANone)) = st.
Proof. vm_compute. repeat split. Qed.

(* a signer with plugin annotations (a heap object within the contract wf_call): pushed
   with thumbprints and time replaced, "p" kept; the signer's own map is the one object
   that changes; metadata, plugin config and the artifact's map do not *)
Lemma witness_plugin_annotations :
  let st := mk_state au_heap [] in
  let c := au_call "v1" false (Some 1%N) (PAMap 2%N) in
  let r := sign_oci false au_tbl st c in
  wf_call au_heap au_tbl c = true /\ wf (mk_input au_heap au_tbl [] [c; c]) = true
  /\ t_res (snd r) = ROk
  /\ map pc_ann (t_pushes (snd r))
     = [[(k_thumb, "[""ab"",""cd""]"); ("p", "q"); (k_created, "2025-09-28T17:54:56Z")]]
  /\ hget 2%N (s_heap (fst r)) <> hget 2%N au_heap
  /\ (forall a, In a [0; 1; 3; 4; 5]%N -> hget a (s_heap (fst r)) = hget a au_heap)
  /\ reached_signer (t_res (snd r)) = true
  /\ t_res (snd r) = outcome c.
Proof.
  vm_compute. repeat split; try discriminate.
  intros a [<-|[<-|[<-|[<-|[<-|[]]]]]]; reflexivity.
Qed.
