(* C14_Model.v — a CRL cache entry is only ever absent or complete.  Definitions only.

   Part 1: small-step semantics of a cache directory shared by any number of
   writers and readers.  It mirrors, statement by statement,
     internal/file/file.go  WriteFile  (os.CreateTemp in the cache directory with
        O_EXCL, Write, Close, os.Rename over the key; deferred clean-up
        os.Remove(temp) when a step failed), as called by
     verifier/crl/crl.go    FileCache.Set  (key = hex(sha256(url)) under root) and
     verifier/crl/crl.go    FileCache.Get  (os.ReadFile(key): open once, read the
        opened inode to EOF).
   Steps of different actors interleave arbitrarily (a trace is any list of
   events); a writer may stop after any step (crash = no further event, or the
   explicit event ECrash).  write(2) and read(2) move arbitrary chunk sizes.
   Kernel semantics that are ASSUMED (they are the meaning of the events):
   rename(2) replaces the directory entry atomically, an opened inode stays
   readable and unchanged by a later rename/unlink of its name, O_EXCL creation
   fails on an existing name.  sha256 is a parameter ([sha]).

   Part 2: the executable case model used by the correspondence check: a
   schedule at the granularity of the verif hook points of WriteFile
   (created / written / closed / return) is expanded into a trace of Part 1 and
   executed (SF: a writer whose rename is made to fail takes the error path EFail);
   plus the boolean property oracle [spec_ok] on observations.

   Part 3 (end of file): runs of Part 1 decorated with the API-level events a
   free-running case records; used only in theorem statements. *)
From NV Require Import Base Generated.
Open Scope string_scope.
Open Scope list_scope.

Definition data := list ascii.

(* ---------- association lists ---------- *)
Section Maps.
  Context {K V : Type} (eqb : K -> K -> bool).
  Fixpoint get (k : K) (m : list (K * V)) : option V :=
    match m with
    | [] => None
    | (k', v) :: m' => if eqb k k' then Some v else get k m'
    end.
  Fixpoint del (k : K) (m : list (K * V)) : list (K * V) :=
    match m with
    | [] => []
    | (k', v) :: m' => if eqb k k' then del k m' else (k', v) :: del k m'
    end.
  Definition put (k : K) (v : V) (m : list (K * V)) : list (K * V) := (k, v) :: del k m.
End Maps.
Notation getN := (get N.eqb).
Notation putN := (put N.eqb).
Notation getS := (get String.eqb).
Notation putS := (put String.eqb).
Notation delS := (del String.eqb).

(* ---------- names: keys and temporary names ---------- *)
Definition is_hex (a : ascii) : bool :=
  let n := N_of_ascii a in
  ((48 <=? n) && (n <=? 57) || (97 <=? n) && (n <=? 102))%N.
Definition is_digit (a : ascii) : bool :=
  let n := N_of_ascii a in ((48 <=? n) && (n <=? 57))%N.

Fixpoint all_hex (s : string) : bool :=
  match s with EmptyString => true | String a s' => is_hex a && all_hex s' end.

Definition hexdigit (d : N) : ascii := ascii_of_N (if (d <? 10)%N then 48 + d else 87 + d)%N.

(* encoding/hex.EncodeToString *)
Fixpoint hex (l : list N) : string :=
  match l with
  | [] => EmptyString
  | b :: l' => String (hexdigit ((b / 16) mod 16)%N) (String (hexdigit (b mod 16)%N) (hex l'))
  end.

(* shape of a cache key name: 64 lower-case hex digits *)
Definition keyshape (n : string) : bool := all_hex n && (String.length n =? 64)%nat.

(* os.CreateTemp(dir, pattern): name = prefix ++ decimal ++ suffix, split at the last '*' *)
Fixpoint split_last_star (s : string) : option (string * string) :=
  match s with
  | EmptyString => None
  | String a s' =>
      match split_last_star s' with
      | Some (p, q) => Some (String a p, q)
      | None => if Ascii.eqb a "*" then Some (EmptyString, s') else None
      end
  end.
Definition tmp_prefix : string :=
  match split_last_star gen_temp_file_pattern with Some (p, _) => p | None => gen_temp_file_pattern end.
Definition tmp_suffix : string :=
  match split_last_star gen_temp_file_pattern with Some (_, q) => q | None => EmptyString end.

Definition is_temp (t : string) : bool :=
  let l := list_ascii_of_string t in
  let rest := skipn (String.length tmp_prefix) l in
  let q := list_ascii_of_string tmp_suffix in
  let mid := firstn (List.length rest - List.length q) rest in
  has_prefix tmp_prefix t
  && match mid with [] => false | _ => true end
  && forallb is_digit mid
  && list_eqb Ascii.eqb (skipn (List.length mid) rest) q.

(* ---------- Part 1: the semantics ---------- *)
Inductive wpc := POpen | PClosed | PDone | PFailed | PDead.
Definition wpc_eqb (a b : wpc) : bool :=
  match a, b with
  | POpen, POpen | PClosed, PClosed | PDone, PDone | PFailed, PFailed | PDead, PDead => true
  | _, _ => false
  end.

Record wrec := mk_w {
  w_url : string; w_content : data; w_tmp : string;
  w_ino : N;                (* the inode behind the writer's file descriptor *)
  w_pc : wpc; w_inplace : bool }.

Inductive rres := Miss | Hit (c : data).
Inductive rst := RReading (buf : data) | RDone (res : rres).
Record rrec := mk_r {
  r_url : string;
  r_ino : option N;         (* the inode the reader opened (None: ENOENT) *)
  r_st : rst }.

Record state := mk_state {
  s_dir : list (string * N);     (* name -> inode number *)
  s_ino : list (N * data);       (* inode number -> content *)
  s_w : list (N * wrec);
  s_r : list (N * rrec) }.

Definition init : state := mk_state [] [] [] [].

Inductive event :=
| ECreate (w : N) (u : string) (c : data) (t : string)
    (* Set(u, bundle encoded as c) starts: os.CreateTemp succeeded with name t *)
| EWrite (w : N) (n : nat)      (* write(2) moved the next n bytes *)
| EClose (w : N)                (* whole content written; close *)
| ERename (w : N)               (* os.Rename(temp, key) *)
| EFail (w : N)                 (* a step failed: deferred clean-up os.Remove(temp) *)
| ECrash (w : N)                (* the writing process is killed *)
| EOpen (r : N) (u : string)    (* Get(u): open(key) *)
| ERead (r : N) (n : nat)       (* read(2) moved the next n bytes *)
| EEof (r : N)                  (* read(2) returned 0: ReadFile returns *)
| EInplace (w : N) (u : string) (c : data).
    (* VARIANT program, not the code: open(key, O_CREATE|O_TRUNC) and write in place *)

Definition safe (e : event) : bool := match e with EInplace _ _ _ => false | _ => true end.

Section Sem.
Variable sha : string -> list N.
Definition key (u : string) : string := hex (sha u).

Definition set_w (s : state) (w : N) (wr : wrec) : state :=
  mk_state (s_dir s) (s_ino s) (putN w wr (s_w s)) (s_r s).
Definition with_pc (wr : wrec) (p : wpc) : wrec :=
  mk_w (w_url wr) (w_content wr) (w_tmp wr) (w_ino wr) p (w_inplace wr).

Definition step (s : state) (e : event) : option state :=
  match e with
  | ECreate w u c t =>
      match getN w (s_w s), getS t (s_dir s), getN w (s_ino s) with
      | None, None, None =>
          if is_temp t then
            Some (mk_state (putS t w (s_dir s)) (putN w [] (s_ino s))
                           (putN w (mk_w u c t w POpen false) (s_w s)) (s_r s))
          else None
      | _, _, _ => None
      end
  | EWrite w n =>
      match getN w (s_w s) with
      | Some wr =>
          match w_pc wr, getN (w_ino wr) (s_ino s) with
          | POpen, Some d =>
              Some (mk_state (s_dir s)
                      (putN (w_ino wr) (d ++ firstn n (skipn (List.length d) (w_content wr))) (s_ino s))
                      (s_w s) (s_r s))
          | _, _ => None
          end
      | None => None
      end
  | EClose w =>
      match getN w (s_w s) with
      | Some wr =>
          match w_pc wr, getN (w_ino wr) (s_ino s) with
          | POpen, Some d =>
              if (List.length (w_content wr) <=? List.length d)%nat
              then Some (set_w s w (with_pc wr (if w_inplace wr then PDone else PClosed)))
              else None
          | _, _ => None
          end
      | None => None
      end
  | ERename w =>
      match getN w (s_w s) with
      | Some wr =>
          match w_pc wr, w_inplace wr, getS (w_tmp wr) (s_dir s) with
          | PClosed, false, Some i =>
              Some (mk_state (putS (key (w_url wr)) i (delS (w_tmp wr) (s_dir s))) (s_ino s)
                             (putN w (with_pc wr PDone) (s_w s)) (s_r s))
          | _, _, _ => None
          end
      | None => None
      end
  | EFail w =>
      match getN w (s_w s) with
      | Some wr =>
          match w_pc wr, w_inplace wr with
          | POpen, false | PClosed, false =>
              Some (mk_state (delS (w_tmp wr) (s_dir s)) (s_ino s)
                             (putN w (with_pc wr PFailed) (s_w s)) (s_r s))
          | _, _ => None
          end
      | None => None
      end
  | ECrash w =>
      match getN w (s_w s) with
      | Some wr =>
          match w_pc wr with
          | POpen | PClosed => Some (set_w s w (with_pc wr PDead))
          | _ => None
          end
      | None => None
      end
  | EOpen r u =>
      match getN r (s_r s) with
      | Some _ => None
      | None =>
          Some (mk_state (s_dir s) (s_ino s) (s_w s)
                  (putN r (match getS (key u) (s_dir s) with
                           | None => mk_r u None (RDone Miss)
                           | Some i => mk_r u (Some i) (RReading [])
                           end) (s_r s)))
      end
  | ERead r n =>
      match getN r (s_r s) with
      | Some (mk_r u (Some i) (RReading buf)) =>
          match getN i (s_ino s) with
          | Some d =>
              Some (mk_state (s_dir s) (s_ino s) (s_w s)
                      (putN r (mk_r u (Some i) (RReading (buf ++ firstn n (skipn (List.length buf) d)))) (s_r s)))
          | None => None
          end
      | _ => None
      end
  | EEof r =>
      match getN r (s_r s) with
      | Some (mk_r u (Some i) (RReading buf)) =>
          match getN i (s_ino s) with
          | Some d =>
              if (List.length d <=? List.length buf)%nat
              then Some (mk_state (s_dir s) (s_ino s) (s_w s) (putN r (mk_r u (Some i) (RDone (Hit buf))) (s_r s)))
              else None
          | None => None
          end
      | _ => None
      end
  | EInplace w u c =>
      match getN w (s_w s) with
      | Some _ => None
      | None =>
          match getS (key u) (s_dir s) with
          | Some i =>
              Some (mk_state (s_dir s) (putN i [] (s_ino s))
                             (putN w (mk_w u c (key u) i POpen true) (s_w s)) (s_r s))
          | None =>
              Some (mk_state (putS (key u) w (s_dir s)) (putN w [] (s_ino s))
                             (putN w (mk_w u c (key u) w POpen true) (s_w s)) (s_r s))
          end
      end
  end.

Fixpoint exec (s : state) (tr : list event) : option state :=
  match tr with
  | [] => Some s
  | e :: tr' => match step s e with Some s' => exec s' tr' | None => None end
  end.


(* VARIANT reader program, not the code: the length is taken from a separate earlier
   look-up of the key (stat), then the key is opened and exactly that many bytes are
   read (io.ReadFull).  [VStat r u] remembers the current length of the entry;
   [VSizedGet r u] opens the key NOW and returns the first n bytes of what it finds
   (when the entry is shorter than n, ReadFull fails: the read is an error, not modelled). *)
Inductive vevent := VE (e : event) | VStat (r : N) (u : string) | VSizedGet (r : N) (u : string).

Definition vstep (vs : state * list (N * nat)) (ve : vevent) : option (state * list (N * nat)) :=
  let s := fst vs in
  match ve with
  | VE e => match step s e with Some s' => Some (s', snd vs) | None => None end
  | VStat r u =>
      match getS (key u) (s_dir s) with
      | Some i => match getN i (s_ino s) with
                  | Some d => Some (s, putN r (List.length d) (snd vs))
                  | None => None
                  end
      | None => None
      end
  | VSizedGet r u =>
      match getN r (snd vs), getN r (s_r s), getS (key u) (s_dir s) with
      | Some n, None, Some i =>
          match getN i (s_ino s) with
          | Some d => if (n <=? List.length d)%nat
                      then Some (mk_state (s_dir s) (s_ino s) (s_w s)
                                   (putN r (mk_r u (Some i) (RDone (Hit (firstn n d)))) (s_r s)), snd vs)
                      else None
          | None => None
          end
      | _, _, _ => None
      end
  end.

Fixpoint vexec (vs : state * list (N * nat)) (tr : list vevent) : option (state * list (N * nat)) :=
  match tr with
  | [] => Some vs
  | e :: tr' => match vstep vs e with Some vs' => vexec vs' tr' | None => None end
  end.

End Sem.

(* ---------- Part 2: cases of the correspondence check ---------- *)

(* schedule events.  Hook-driven cases use SW/SR/SF (a writer is advanced to its
   next hook point; a reader performs a whole Get while every writer is held; SF is
   fault injection: while writer w is held at the "closed" point the driver unlinks
   its temporary file and releases it, so that os.Rename fails, the deferred clean-up
   of WriteFile runs and Set returns an error).
   Free-running cases (storms, random kills) use the API-level events
   AStart/ARet/ABeg/AEnd ordered by a global clock. *)
Inductive sev :=
| SW (w : N)                 (* advance writer w to its next hook point *)
| SR (r : N) (u : string)    (* reader r: Get(u) *)
| SF (w : N)                 (* make the rename of writer w (held at "closed") fail and advance it *)
| AStart (w : N) | ARet (w : N) (ok : bool)
| ABeg (r : N) (u : string) | AEnd (r : N).

Inductive oread := OMiss | OHit (b : string) | OErr | OCorrupt.
(* OErr: Get returned an error other than ErrCacheMiss; OCorrupt: a bundle no writer stored *)

Record input := mk_input {
  i_free : bool;                               (* free-running case: no schedule-determined outcome *)
  i_sha : list (string * list N);              (* oracle: crypto/sha256 of every URL used *)
  i_writers : list (N * (string * string));    (* writer -> (url, name of the bundle it stores) *)
  i_tmps : list (N * string);                  (* oracle: temporary name os.CreateTemp chose, as the hook reported it *)
  i_sched : list sev }.

Definition readrec := (N * string * oread)%type.   (* reader, URL, result of Get *)

Record obs := mk_obs {
  o_points : list N;        (* per SW / SF, in order: hook point reached: 1 created, 2 written, 3 closed,
                               4 returned nil, 5 returned an error, 0 nothing left to do *)
  o_reads : list readrec;   (* in schedule order *)
  o_dir : list (string * string) }.
  (* final listing of the cache root: name -> "" (empty) | bundle name (complete encoding) | "<" partial | "?" other *)

Definition sha_of (tab : list (string * list N)) (u : string) : list N :=
  match getS u tab with Some h => h | None => [] end.

Definition str_of (d : data) : string := string_of_list_ascii d.
Definition dat_of (s : string) : data := list_ascii_of_string s.

(* one hook-granularity step of writer w in state s: the events of Part 1 it
   stands for and the hook point reached *)
Definition macro (i : input) (s : state) (w : N) : list event * N :=
  match getN w (s_w s) with
  | None =>
      match getN w (i_writers i), getN w (i_tmps i) with
      | Some (u, b), Some t => ([ECreate w u (dat_of b) t], 1%N)
      | _, _ => ([], 0%N)
      end
  | Some wr =>
      match w_pc wr with
      | POpen =>
          match getN (w_ino wr) (s_ino s) with
          | Some d => if (List.length (w_content wr) <=? List.length d)%nat
                      then ([EClose w], 3%N)
                      else ([EWrite w (List.length (w_content wr))], 2%N)
          | None => ([], 0%N)
          end
      | PClosed => ([ERename w], 4%N)
      | _ => ([], 0%N)
      end
  end.

(* the step of a writer whose rename is made to fail: the error path of WriteFile
   (deferred Close + os.Remove(temp)), then Set returns the error: point 5.  Only a
   writer held at "closed" can be treated so; otherwise nothing happens. *)
Definition macro_fault (s : state) (w : N) : list event * N :=
  match getN w (s_w s) with
  | Some wr => match w_pc wr with PClosed => ([EFail w], 5%N) | _ => ([], 0%N) end
  | None => ([], 0%N)
  end.

(* a whole Get while every writer is held: open, one read(2) of everything, EOF *)
Definition read_events (sha : string -> list N) (r : N) (u : string) (s : state) : list event :=
  match getS (key sha u) (s_dir s) with
  | None => [EOpen r u]
  | Some i => [EOpen r u; ERead r (match getN i (s_ino s) with Some d => List.length d | None => 0%nat end); EEof r]
  end.

Definition oread_of (s : state) (r : N) : oread :=
  match getN r (s_r s) with
  | Some rr => match r_st rr with
               | RDone Miss => OMiss
               | RDone (Hit c) => OHit (str_of c)
               | RReading _ => OErr
               end
  | None => OErr
  end.

Definition listing (s : state) : list (string * string) :=
  map (fun ni => (fst ni, match getN (snd ni) (s_ino s) with Some d => str_of d | None => "?" end)) (s_dir s).

(* runs a hook-driven schedule from state s: hook points, reads, final state;
   None = stuck (an event of the expansion is not enabled: e.g. the temporary name
   given by the oracle already exists, or a reader id is used twice) *)
Fixpoint mgo (i : input) (s : state) (sched : list sev) : option (list N * list readrec * state) :=
  match sched with
  | [] => Some ([], [], s)
  | SW w :: rest =>
      match exec (sha_of (i_sha i)) s (fst (macro i s w)) with
      | Some s' =>
          match mgo i s' rest with
          | Some (ps, rs, sf) => Some (snd (macro i s w) :: ps, rs, sf)
          | None => None
          end
      | None => None
      end
  | SF w :: rest =>
      match exec (sha_of (i_sha i)) s (fst (macro_fault s w)) with
      | Some s' =>
          match mgo i s' rest with
          | Some (ps, rs, sf) => Some (snd (macro_fault s w) :: ps, rs, sf)
          | None => None
          end
      | None => None
      end
  | SR r u :: rest =>
      match exec (sha_of (i_sha i)) s (read_events (sha_of (i_sha i)) r u s) with
      | Some s' =>
          match mgo i s' rest with
          | Some (ps, rs, sf) => Some (ps, (r, u, oread_of s' r) :: rs, sf)
          | None => None
          end
      | None => None
      end
  | _ :: rest => mgo i s rest
  end.

Definition model (i : input) : obs :=
  match mgo i init (i_sched i) with
  | Some (ps, rs, sf) => mk_obs ps rs (listing sf)
  | None => mk_obs [] [] [("stuck", "stuck")]
  end.

(* ---------- boolean equalities ---------- *)
Definition oread_eqb (a b : oread) : bool :=
  match a, b with
  | OMiss, OMiss | OErr, OErr | OCorrupt, OCorrupt => true
  | OHit x, OHit y => String.eqb x y
  | _, _ => false
  end.
Definition pair_eqb {A B} (ea : A -> A -> bool) (eb : B -> B -> bool) (x y : A * B) : bool :=
  ea (fst x) (fst y) && eb (snd x) (snd y).
Definition subset {A} (eqb : A -> A -> bool) (a b : list A) : bool :=
  forallb (fun x => existsb (eqb x) b) a.
(* directory listings are compared as sets (names are unique in a directory) *)
Definition dir_eqb (a b : list (string * string)) : bool :=
  (List.length a =? List.length b)%nat
  && subset (pair_eqb String.eqb String.eqb) a b && subset (pair_eqb String.eqb String.eqb) b a.

Definition obs_eqb (a b : obs) : bool :=
  list_eqb N.eqb (o_points a) (o_points b)
  && list_eqb (pair_eqb (pair_eqb N.eqb String.eqb) oread_eqb) (o_reads a) (o_reads b)
  && dir_eqb (o_dir a) (o_dir b).

(* ---------- the property oracle (observations only; never calls [model]) ---------- *)
Definition memN (x : N) (l : list N) : bool := existsb (N.eqb x) l.

Definition ukey (i : input) (u : string) : string := key (sha_of (i_sha i)) u.
Definition wkey (i : input) (w : N) : string :=
  match getN w (i_writers i) with Some (u, _) => ukey i u | None => "" end.
Definition wbundle (i : input) (w : N) : string :=
  match getN w (i_writers i) with Some (_, b) => b | None => "" end.

Fixpoint find_read (r : N) (reads : list readrec) : option oread :=
  match reads with
  | [] => None
  | (r', _, res) :: rest => if (r =? r')%N then Some res else find_read r rest
  end.

(* The monitor of the API-level history (linearisability-style freshness):
     n_started  writers whose Set has started
     n_ret      writers whose Set has returned
     n_before   writer -> the writers that had already returned when it started
     n_stale    writers that returned before a later *successful* Set for the same key
                started: their bundle must not be seen by a read that begins now
     n_hit      keys for which a Set has returned nil: a read that begins now must hit
     n_open     reads in flight: reader -> (url, stale set and "miss allowed" at its beginning) *)
Record mon := mk_mon {
  n_started : list N; n_ret : list N; n_before : list (N * list N);
  n_stale : list N; n_hit : list string;
  n_open : list (N * (string * (list N * bool))) }.

Definition mon0 : mon := mk_mon [] [] [] [] [] [].

Definition mon_step (i : input) (reads : list readrec) (mo : mon * bool) (e : sev) : mon * bool :=
  let '(m, ok) := mo in
  match e with
  | AStart w =>
      (mk_mon (w :: n_started m) (n_ret m) (putN w (n_ret m) (n_before m)) (n_stale m) (n_hit m) (n_open m), ok)
  | ARet w true =>
      let before := match getN w (n_before m) with Some l => l | None => [] end in
      let k := wkey i w in
      (mk_mon (n_started m) (w :: n_ret m) (n_before m)
              (filter (fun x => String.eqb (wkey i x) k) before ++ n_stale m) (k :: n_hit m) (n_open m), ok)
  | ARet w false =>
      (mk_mon (n_started m) (w :: n_ret m) (n_before m) (n_stale m) (n_hit m) (n_open m), ok)
  | ABeg r u =>
      (mk_mon (n_started m) (n_ret m) (n_before m) (n_stale m) (n_hit m)
              (putN r (u, (n_stale m, negb (existsb (String.eqb (ukey i u)) (n_hit m)))) (n_open m)), ok)
  | AEnd r =>
      match getN r (n_open m), find_read r reads with
      | Some (u, (stale, miss_ok)), Some res =>
          let good :=
            match res with
            | OMiss => miss_ok
            | OHit b =>
                (* a writer of this key, started by now, not stale when the read began, stores b *)
                existsb (fun x => String.eqb (wkey i x) (ukey i u) && String.eqb (wbundle i x) b
                                  && negb (memN x stale)) (n_started m)
            | _ => false
            end in
          (m, ok && good)
      | _, _ => (m, false)
      end
  | _ => (m, ok)
  end.

(* runs the monitor over the history of the case; hook-driven schedules are read
   as API histories with the observed hook points: the first SW of a writer is
   the start of its Set, the SW / SF that reports point 4 / 5 its return; SR is a whole read *)
Fixpoint fresh_go (i : input) (reads : list readrec) (sched : list sev) (pts : list N)
         (mo : mon * bool) : mon * bool :=
  match sched with
  | [] => mo
  | SW w :: rest | SF w :: rest =>
      let p := hd 0%N pts in
      let mo1 := if memN w (n_started (fst mo)) then mo else mon_step i reads mo (AStart w) in
      let mo2 := if (p =? 4)%N then mon_step i reads mo1 (ARet w true)
                 else if (p =? 5)%N then mon_step i reads mo1 (ARet w false) else mo1 in
      fresh_go i reads rest (tl pts) mo2
  | SR r u :: rest =>
      fresh_go i reads rest pts (mon_step i reads (mon_step i reads mo (ABeg r u)) (AEnd r))
  | e :: rest => fresh_go i reads rest pts (mon_step i reads mo e)
  end.

Definition fresh_ok (i : input) (o : obs) : bool :=
  snd (fresh_go i (o_reads o) (i_sched i) (o_points o) (mon0, true)).

(* every read yields a miss or a complete bundle that some writer of the case
   stores under the key of the URL read *)
Definition reads_ok (i : input) (o : obs) : bool :=
  forallb (fun rr : readrec =>
    let '(_, u, res) := rr in
    match res with
    | OMiss => true
    | OHit b => existsb (fun w => String.eqb (wkey i (fst w)) (ukey i u) && String.eqb (wbundle i (fst w)) b)
                        (i_writers i)
    | _ => false
    end) (o_reads o).

(* the temporary names the hook reported: never key-shaped, inside the cache root
   (reported relative to it: no '/'), pairwise distinct among the writers of a case *)
Fixpoint distinct_str (l : list string) : bool :=
  match l with
  | [] => true
  | x :: l' => negb (existsb (String.eqb x) l') && distinct_str l'
  end.
Definition tmps_ok (i : input) : bool :=
  forallb (fun wt : N * string => negb (keyshape (snd wt)) && negb (contains_byte "/" (snd wt))) (i_tmps i)
  && distinct_str (map snd (i_tmps i)).

(* the directory holds only complete keys of writers and names that cannot be keys *)
Definition listing_ok (i : input) (o : obs) : bool :=
  forallb (fun nt : string * string =>
    if keyshape (fst nt)
    then existsb (fun w => String.eqb (wkey i (fst w)) (fst nt) && String.eqb (wbundle i (fst w)) (snd nt)) (i_writers i)
    else true) (o_dir o)
  && tmps_ok i.

Definition spec_ok (i : input) (o : obs) : bool :=
  reads_ok i o && fresh_ok i o && listing_ok i o.

(* input contract of the case model: a hook-driven schedule that is not stuck
   (the temporary names given by the oracle are admissible results of
   os.CreateTemp in the cache root: of the pattern's form and fresh when used, else
   the run is stuck; not key-shaped, relative, distinct; reader ids are used once) *)
Definition wf (i : input) : bool :=
  negb (i_free i)
  && match mgo i init (i_sched i) with Some _ => true | None => false end
  && forallb (fun e => match e with SW _ | SR _ _ | SF _ => true | _ => false end) (i_sched i)
  && tmps_ok i.

(* ---------- cases ---------- *)
Record case := mk_case { c_id : N; c_in : input; c_obs : obs }.

Definition run (cs : list case) : list (N * N * N) :=
  run_cases c_id
    (fun c => i_free (c_in c) || obs_eqb (model (c_in c)) (c_obs c))
    (fun c => spec_ok (c_in c) (c_obs c))
    (fun _ => 0%N) cs.

(* ---------- Part 3: API-level histories of ARBITRARY runs of Part 1 ----------
   Used only by the theorem that the oracle above accepts every free-running history the
   semantics can produce (C14_free_runs_meet_oracle); not used by [run].

   A run of Part 1 is decorated with the API-level events a free-running case records
   (AStart / ARet / ABeg / AEnd, taken from a global clock before each call and after each
   return).  The decoration may be placed anywhere the real calls allow:
     AStart w  at any time before the writer's temporary file exists,
     ARet w true   at any time after its rename,   ARet w false  at any time after its failure,
     ABeg r u  at any time before reader r opens (u is the URL it will open),
     AEnd r    at any time after the read completed;
   a killed writer never returns.  [xguard] is exactly this discipline (plus: every writer
   is one of the case's table, and no in-place writer). *)
Inductive xev := XE (e : event) | XA (a : sev).

Definition declared_b (i : input) (e : event) : bool :=
  match e with
  | ECreate w u c _ =>
      match getN w (i_writers i) with
      | Some (u', b) => String.eqb u u' && list_eqb Ascii.eqb c (dat_of b)
      | None => false
      end
  | _ => true
  end.

Definition xguard (i : input) (s : state) (m : mon) (x : xev) : bool :=
  match x with
  | XE e =>
      safe e && declared_b i e &&
      match e with
      | ECreate w _ _ _ => memN w (n_started m)
      | EOpen r u => match getN r (n_open m) with Some (u', _) => String.eqb u u' | None => false end
      | _ => true
      end
  | XA (AStart w) => match getN w (s_w s) with None => true | Some _ => false end
  | XA (ARet w ok) =>
      match getN w (s_w s) with
      | Some wr => wpc_eqb (w_pc wr) (if ok then PDone else PFailed)
      | None => false
      end
  | XA (ABeg r _) =>
      match getN r (s_r s), getN r (n_open m) with None, None => true | _, _ => false end
  | XA (AEnd r) =>
      match getN r (s_r s) with
      | Some rr => match r_st rr with RDone _ => true | RReading _ => false end
      | None => false
      end
  | XA _ => false
  end.

(* the monitor state after an API event (the verdict bit and the reads play no role in it) *)
Definition mon_next (i : input) (m : mon) (a : sev) : mon := fst (mon_step i [] (m, true) a).

Fixpoint xexec (i : input) (s : state) (m : mon) (xs : list xev) : option (state * mon) :=
  match xs with
  | [] => Some (s, m)
  | x :: xs' =>
      if xguard i s m x then
        match x with
        | XE e => match step (sha_of (i_sha i)) s e with Some s' => xexec i s' m xs' | None => None end
        | XA a => xexec i s (mon_next i m a) xs'
        end
      else None
  end.

(* the recorded history and the underlying run *)
Fixpoint api_of (xs : list xev) : list sev :=
  match xs with [] => [] | XA a :: xs' => a :: api_of xs' | XE _ :: xs' => api_of xs' end.
Fixpoint run_of (xs : list xev) : list event :=
  match xs with [] => [] | XE e :: xs' => e :: run_of xs' | XA _ :: xs' => run_of xs' end.

(* what the case records: the completed reads of the final state ... *)
Definition readrecs (s : state) : list readrec :=
  flat_map (fun rrr : N * rrec =>
    match r_st (snd rrr) with
    | RDone Miss => [(fst rrr, r_url (snd rrr), OMiss)]
    | RDone (Hit c) => [(fst rrr, r_url (snd rrr), OHit (str_of c))]
    | RReading _ => []
    end) (s_r s).

(* ... as a free-running case of the writers of i with history xs *)
Definition free_input (i : input) (xs : list xev) : input :=
  mk_input true (i_sha i) (i_writers i) (i_tmps i) (api_of xs).
Definition free_obs (s : state) : obs := mk_obs [] (readrecs s) (listing s).

(* the least decoration of a run: every Set is seen to start just before its temporary
   file is created and every Get just before it opens; nothing is seen to return *)
Fixpoint decorate (tr : list event) : list xev :=
  match tr with
  | [] => []
  | ECreate w u c t :: tr' => XA (AStart w) :: XE (ECreate w u c t) :: decorate tr'
  | EOpen r u :: tr' => XA (ABeg r u) :: XE (EOpen r u) :: decorate tr'
  | e :: tr' => XE e :: decorate tr'
  end.
