(* C15_Proofs.v — proofs about the model of the CRL file cache (C15_Model.v).
   No axioms. *)
From NV Require Import Base C15_Model.
Open Scope string_scope.

(* ---------- association lists ---------- *)
Lemma alookup_adel_same {V} k (m : list (string * V)) : alookup k (adel k m) = None.
Proof.
  induction m as [|[k' v] m IH]; cbn; auto.
  destruct (String.eqb k k') eqn:E; cbn; auto. rewrite E; auto.
Qed.

Lemma alookup_adel_other {V} k k' (m : list (string * V)) :
  k' <> k -> alookup k' (adel k m) = alookup k' m.
Proof.
  intros N. induction m as [|[k2 v] m IH]; cbn; auto.
  destruct (String.eqb k k2) eqn:E; cbn.
  - apply String.eqb_eq in E; subst k2.
    destruct (String.eqb k' k) eqn:E2; auto. apply String.eqb_eq in E2; contradiction.
  - rewrite IH; auto.
Qed.

Lemma alookup_aset_same {V} k (v : V) m : alookup k (aset k v m) = Some v.
Proof. unfold aset; cbn. rewrite String.eqb_refl; auto. Qed.

Lemma alookup_aset_other {V} k k' (v : V) m :
  k' <> k -> alookup k' (aset k v m) = alookup k' m.
Proof.
  intros N. unfold aset; cbn.
  destruct (String.eqb k' k) eqn:E. { apply String.eqb_eq in E; contradiction. }
  apply alookup_adel_other; auto.
Qed.

Lemma In_adel {V} k (m : list (string * V)) x : In x (adel k m) -> In x m.
Proof.
  induction m as [|[k' v] m IH]; cbn; auto.
  destruct (String.eqb k k'); cbn; intuition.
Qed.

Lemma In_aset {V} k (v : V) m x : In x (aset k v m) -> x = (k, v) \/ In x m.
Proof. unfold aset; cbn. intros [H|H]; auto. right; eapply In_adel; eauto. Qed.

(* ---------- encoding/hex ---------- *)
Definition unhexdigit (a : ascii) : N :=
  let n := N_of_ascii a in if (n <? 58)%N then (n - 48)%N else (n - 87)%N.
Definition unhex2 (x y : ascii) : ascii := ascii_of_N (16 * unhexdigit x + unhexdigit y).

Lemma hex_byte_shape : forall a, exists x y,
  hex_byte a = String x (String y EmptyString) /\ unhex2 x y = a /\
  is_hexdigit x = true /\ is_hexdigit y = true.
Proof.
  intros a. exists (hexdigit (N_of_ascii a / 16)), (hexdigit (N_of_ascii a mod 16)).
  destruct a as [[] [] [] [] [] [] [] []]; vm_compute; repeat split.
Qed.

Lemma hex_inj : forall s1 s2, hex s1 = hex s2 -> s1 = s2.
Proof.
  induction s1 as [|a s1 IH]; destruct s2 as [|b s2]; cbn [hex]; auto.
  - destruct (hex_byte_shape b) as (x & y & E & _). rewrite E. cbn. discriminate.
  - destruct (hex_byte_shape a) as (x & y & E & _). rewrite E. cbn. discriminate.
  - destruct (hex_byte_shape a) as (x & y & E & U & _).
    destruct (hex_byte_shape b) as (x' & y' & E' & U' & _).
    rewrite E, E'. cbn. intros H. injection H as Hx Hy Hr.
    f_equal; [congruence | auto].
Qed.

Lemma hex_alphabet : forall s, all_chars is_hexdigit (hex s) = true.
Proof.
  induction s as [|a s IH]; cbn [hex]; auto.
  destruct (hex_byte_shape a) as (x & y & E & _ & Hx & Hy). rewrite E. cbn.
  rewrite Hx, Hy, IH. reflexivity.
Qed.

Lemma hex_length : forall s, String.length (hex s) = 2 * String.length s.
Proof.
  induction s as [|a s IH]; cbn [hex]; auto.
  destruct (hex_byte_shape a) as (x & y & E & _). rewrite E. cbn. rewrite IH. lia.
Qed.

Lemma all_chars_no_byte p c s :
  all_chars p s = true -> p c = false -> contains_byte c s = false.
Proof.
  intros H Hc. induction s as [|a s IH]; cbn in *; auto.
  apply andb_true_iff in H as [Ha Hs]. rewrite IH by auto.
  destruct (Ascii.eqb a c) eqn:E; auto. apply Ascii.eqb_eq in E; subst. congruence.
Qed.

(* ---------- boolean equalities ---------- *)
Lemma opt_str_eqb_refl d : opt_str_eqb d d = true.
Proof. destruct d; cbn; auto. apply String.eqb_refl. Qed.

Lemma opt_str_eqb_eq a b : opt_str_eqb a b = true -> a = b.
Proof.
  destruct a, b; cbn; try discriminate; auto.
  intros H; apply String.eqb_eq in H; congruence.
Qed.

Lemma slot_eqb_refl s : slot_eqb s s = true.
Proof. destruct s; cbn; auto. rewrite String.eqb_refl, opt_str_eqb_refl; auto. Qed.

Lemma list_eqb_str_refl l : list_eqb String.eqb l l = true.
Proof. induction l; cbn; auto. rewrite String.eqb_refl; auto. Qed.

Lemma mem_str_In x l : mem_str x l = true <-> In x l.
Proof.
  unfold mem_str. rewrite existsb_exists. split.
  - intros (y & Hy & E). apply String.eqb_eq in E; subst; auto.
  - intros H. exists x; split; auto. apply String.eqb_refl.
Qed.

Lemma In_dedup us : forall x, In x (dedup us) <-> In x us.
Proof.
  induction us as [|u us IH]; intros x; cbn; [tauto|].
  destruct (mem_str u (dedup us)) eqn:E.
  - apply mem_str_In in E. apply IH in E. rewrite IH. split; auto. intros [<-|H]; auto.
  - cbn. rewrite IH. tauto.
Qed.

(* ---------- the entry as seen by Get ---------- *)
Section Entry.
  Variable parse : string -> crlfact.
  Notation get_entry := (get_entry parse).

  Lemma entry_ok_get_entry b d t : entry_ok parse b d t (get_entry b d t) = true.
  Proof.
    unfold entry_ok, C15_Model.get_entry, part_state, check_expiry.
    destruct (parse b) as [|rb [nb|]]; cbn.
    - destruct d as [dd|]; cbn; auto.
      destruct (parse dd) as [|rd [nd|]]; cbn; auto. destruct (t >? nd)%Z; auto.
    - destruct d as [dd|]; cbn.
      + destruct (parse dd) as [|rd [nd|]]; cbn.
        * destruct (t >? nb)%Z; auto.
        * destruct (t >? nb)%Z; cbn; destruct (t >? nd)%Z; cbn; auto.
          rewrite String.eqb_refl, String.eqb_refl; auto.
        * destruct (t >? nb)%Z; cbn; auto.
      + destruct (t >? nb)%Z; cbn; auto. rewrite String.eqb_refl; auto.
    - destruct d as [dd|]; cbn; auto.
      destruct (parse dd) as [|rd [nd|]]; cbn; auto. destruct (t >? nd)%Z; auto.
  Qed.

  (* a bundle is returned iff every part parses, has a NextUpdate and it has
     not passed; the bundle carries the Raw of each part *)
  Lemma hit_iff b d t b' d' :
    get_entry b d t = RHit b' d' <->
    (exists nb, parse b = POk b' (Some nb) /\ (t <= nb)%Z) /\
    match d with
    | None => d' = None
    | Some dd => exists rd nd, d' = Some rd /\ parse dd = POk rd (Some nd) /\ (t <= nd)%Z
    end.
  Proof.
    unfold C15_Model.get_entry, check_expiry. split.
    - destruct (parse b) as [|rb [nb|]]; try discriminate.
      + destruct d as [dd|].
        * destruct (parse dd) as [|rd [nd|]]; try discriminate;
            destruct (t >? nb)%Z eqn:E1; try discriminate.
          destruct (t >? nd)%Z eqn:E2; try discriminate.
          intros H; injection H as <- <-. split; eauto 8 with zarith.
          -- exists nb; split; auto. lia.
          -- exists rd, nd; repeat split; auto. lia.
        * destruct (t >? nb)%Z eqn:E1; try discriminate.
          intros H; injection H as <- <-. split; auto. exists nb; split; auto; lia.
      + destruct d as [dd|]; [destruct (parse dd) as [|rd [nd|]]|]; discriminate.
    - intros [(nb & Hb & Lb) Hd]. rewrite Hb.
      assert ((t >? nb)%Z = false) as -> by lia.
      destruct d as [dd|].
      + destruct Hd as (rd & nd & -> & Hp & Ld). rewrite Hp.
        assert ((t >? nd)%Z = false) as -> by lia. reflexivity.
      + subst; reflexivity.
  Qed.

  (* both parts well-formed with a NextUpdate, one of them passed: a miss *)
  Lemma expired_miss b d t rb nb :
    parse b = POk rb (Some nb) ->
    match d with
    | None => (t > nb)%Z
    | Some dd => exists rd nd, parse dd = POk rd (Some nd) /\ ((t > nb)%Z \/ (t > nd)%Z)
    end ->
    exists k, get_entry b d t = RMiss k.
  Proof.
    unfold C15_Model.get_entry, check_expiry. intros -> H. destruct d as [dd|].
    - destruct H as (rd & nd & -> & H).
      destruct (t >? nb)%Z eqn:E1; eauto. destruct (t >? nd)%Z eqn:E2; eauto. lia.
    - assert ((t >? nb)%Z = true) as -> by lia. eauto.
  Qed.

  (* a miss is only ever answered for an entry one of whose parts has expired *)
  Lemma miss_only_expired b d t k :
    get_entry b d t = RMiss k ->
    (exists rb nb, parse b = POk rb (Some nb) /\ (t > nb)%Z) \/
    (exists dd rd nd, d = Some dd /\ parse dd = POk rd (Some nd) /\ (t > nd)%Z).
  Proof.
    unfold C15_Model.get_entry, check_expiry.
    destruct (parse b) as [|rb [nb|]]; try discriminate.
    - destruct d as [dd|].
      + destruct (parse dd) as [|rd [nd|]]; try discriminate;
          destruct (t >? nb)%Z eqn:E1; try discriminate;
          try (intros _; left; exists rb, nb; split; auto; lia).
        destruct (t >? nd)%Z eqn:E2; try discriminate.
        intros _; right; exists dd, rd, nd; repeat split; auto; lia.
      + destruct (t >? nb)%Z eqn:E1; try discriminate.
        intros _; left; exists rb, nb; split; auto; lia.
    - destruct d as [dd|]; [destruct (parse dd) as [|rd [nd|]]|]; discriminate.
  Qed.

  (* a part without NextUpdate is an error (unless the base has already expired), never a bundle *)
  Lemma zero_error b d t :
    (exists rb, parse b = POk rb None) \/
    (exists rb nb dd rd, parse b = POk rb (Some nb) /\ (t <= nb)%Z /\ d = Some dd /\ parse dd = POk rd None) ->
    (forall dd, d = Some dd -> parse dd <> PErr) ->
    exists k, get_entry b d t = RErr k /\ (k = 5 \/ k = 6)%N.
  Proof.
    unfold C15_Model.get_entry, check_expiry. intros [(rb & ->)|(rb & nb & dd & rd & -> & L & -> & ->)] Hd.
    - destruct d as [dd|]; eauto.
      specialize (Hd dd eq_refl). destruct (parse dd) as [|rd nd]; [contradiction|eauto].
    - assert ((t >? nb)%Z = false) as -> by lia. eauto.
  Qed.

  (* a part that does not parse is an error *)
  Lemma unparsable_error b d t :
    parse b = PErr \/ (exists dd, d = Some dd /\ parse dd = PErr) ->
    exists k, get_entry b d t = RErr k /\ (k = 3 \/ k = 4)%N.
  Proof.
    unfold C15_Model.get_entry. intros [->|(dd & -> & Hd)]; eauto.
    rewrite Hd. destruct (parse b); eauto.
  Qed.
End Entry.

(* ---------- simulation: the directory against the map url -> slot ---------- *)
Section Sim.
  Variable sha : string -> string.
  Variable enc : string -> option string -> string.
  Variable dec : string -> option (string * option string).
  Variable parse : string -> crlfact.
  Variable US : list string.
  Hypothesis Hinj : inj_on sha US.

  Notation fname := (file_name sha).

  Lemma fname_inj u v : In u US -> In v US -> fname u = fname v -> u = v.
  Proof. intros Hu Hv E. apply hex_inj in E. apply Hinj; auto. Qed.

  Definition rel (n : option node) (sl : option slot) : Prop :=
    match n, sl with
    | None, None => True
    | Some None, Some SDir => True
    | Some (Some c), Some sl' => sl' = slot_of (dec c)
    | _, _ => False
    end.

  Definition inv (f : fs) (s : sstate) : Prop :=
    forall u, In u US -> rel (alookup (fname u) f) (s u).

  Definition keys_ok (f : fs) : Prop :=
    forall n v, In (n, v) f -> exists u, In u US /\ n = fname u.

  Lemma inv_upd f s u nd sl :
    In u US -> inv f s -> rel (Some nd) (Some sl) ->
    inv (aset (fname u) nd f) (supd u (Some sl) s).
  Proof.
    intros Hu I R v Hv. unfold supd.
    destruct (String.eqb v u) eqn:E.
    - apply String.eqb_eq in E; subst v. rewrite alookup_aset_same; auto.
    - rewrite alookup_aset_other; auto.
      intros Ef. apply fname_inj in Ef; auto. subst. rewrite String.eqb_refl in E; discriminate.
  Qed.

  Lemma inv_del f s u :
    In u US -> inv f s -> inv (adel (fname u) f) (supd u None s).
  Proof.
    intros Hu I v Hv. unfold supd.
    destruct (String.eqb v u) eqn:E.
    - apply String.eqb_eq in E; subst v. rewrite alookup_adel_same; cbn; auto.
    - rewrite alookup_adel_other; auto.
      intros Ef. apply fname_inj in Ef; auto. subst. rewrite String.eqb_refl in E; discriminate.
  Qed.

  Lemma keys_upd f u nd : In u US -> keys_ok f -> keys_ok (aset (fname u) nd f).
  Proof. intros Hu K n v H. apply In_aset in H as [H|H]; [injection H as -> _; eauto | eauto]. Qed.

  Lemma keys_del f u : keys_ok f -> keys_ok (adel (fname u) f).
  Proof. intros K n v H. apply In_adel in H; eauto. Qed.

  Lemma slot_of_not_dir r : slot_of r <> SDir.
  Proof. destruct r as [[b d]|]; cbn; discriminate. Qed.

  Lemma get_sim f s u t :
    inv f s -> In u US -> get sha dec parse f u t = spec_get parse (s u) t.
  Proof.
    intros I Hu. specialize (I u Hu). unfold get, rel in *.
    destruct (alookup (fname u) f) as [[c|]|], (s u) as [[b d| |]|]; cbn; try contradiction; auto;
      destruct (dec c) as [[b' d']|]; cbn in I; try discriminate; auto.
    injection I as -> ->; auto.
  Qed.

  Lemma step_sim f s o :
    inv f s -> keys_ok f -> In (op_url o) US -> rt_op enc dec o ->
    exists f' w,
      step sha enc dec parse f o = (f', snd (spec_step dec parse s o), w) /\
      inv f' (fst (spec_step dec parse s o)) /\ keys_ok f' /\
      map (join root) w = writes_of sha o.
  Proof.
    intros I K Hu Hrt. destruct o as [u bd|u t|u c|u|u]; cbn [op_url] in Hu.
    - (* Set *)
      destruct bd as [[[b|] d]|]; cbn [step set spec_step writes_of].
      + pose proof (I u Hu) as R. unfold rel in R. cbn in Hrt.
        destruct (alookup (fname u) f) as [[c|]|] eqn:El, (s u) as [[b0 d0| |]|] eqn:Es;
          try contradiction; cbn [fst snd].
        * do 2 eexists; split; [reflexivity|]. split; [|split; [apply keys_upd; auto|reflexivity]].
          apply inv_upd; auto. cbn. rewrite Hrt. reflexivity.
        * do 2 eexists; split; [reflexivity|]. split; [|split; [apply keys_upd; auto|reflexivity]].
          apply inv_upd; auto. cbn. rewrite Hrt. reflexivity.
        * exfalso. eapply slot_of_not_dir; eauto.
        * do 2 eexists; split; [reflexivity|]. split; [|split; [auto|reflexivity]]. auto.
        * do 2 eexists; split; [reflexivity|]. split; [|split; [apply keys_upd; auto|reflexivity]].
          apply inv_upd; auto. cbn. rewrite Hrt. reflexivity.
      + do 2 eexists; split; [reflexivity|]. cbn. auto.
      + do 2 eexists; split; [reflexivity|]. cbn. auto.
    - (* Get *)
      cbn [step spec_step writes_of fst snd]. do 2 eexists; split; [|split; [eauto|split; [eauto|reflexivity]]].
      rewrite (get_sim f s u t I Hu). reflexivity.
    - (* the environment writes a file *)
      cbn [step spec_step writes_of fst snd]. do 2 eexists; split; [reflexivity|].
      split; [|split; [apply keys_upd; auto|reflexivity]]. apply inv_upd; auto. cbn; auto.
    - cbn [step spec_step writes_of fst snd]. do 2 eexists; split; [reflexivity|].
      split; [|split; [apply keys_del; auto|reflexivity]]. apply inv_del; auto.
    - cbn [step spec_step writes_of fst snd]. do 2 eexists; split; [reflexivity|].
      split; [|split; [apply keys_upd; auto|reflexivity]]. apply inv_upd; auto. cbn; auto.
  Qed.
End Sim.
