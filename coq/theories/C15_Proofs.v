(* C15_Proofs.v — proofs about the model of the CRL file cache (C15_Model.v).
   No axioms. *)
From NV Require Import Base C15_Model.
Open Scope string_scope.

(* ---------- association lists ---------- *)
Lemma alookup_adel_same {V} k (m : list (string * V)) : alookup k (adel k m) = None.
Proof.
  induction m as [|[k' v] m IH]; cbn; auto.
  destruct (String.eqb k k') eqn:E; cbn; auto. rewrite E; auto.
Qed.

Lemma alookup_adel_other {V} k k' (m : list (string * V)) :
  k' <> k -> alookup k' (adel k m) = alookup k' m.
Proof.
  intros N. induction m as [|[k2 v] m IH]; cbn; auto.
  destruct (String.eqb k k2) eqn:E; cbn.
  - apply String.eqb_eq in E; subst k2.
    destruct (String.eqb k' k) eqn:E2; auto. apply String.eqb_eq in E2; contradiction.
  - rewrite IH; auto.
Qed.

Lemma alookup_aset_same {V} k (v : V) m : alookup k (aset k v m) = Some v.
Proof. unfold aset; cbn. rewrite String.eqb_refl; auto. Qed.

Lemma alookup_aset_other {V} k k' (v : V) m :
  k' <> k -> alookup k' (aset k v m) = alookup k' m.
Proof.
  intros N. unfold aset; cbn.
  destruct (String.eqb k' k) eqn:E. { apply String.eqb_eq in E; contradiction. }
  apply alookup_adel_other; auto.
Qed.

Lemma In_adel {V} k (m : list (string * V)) x : In x (adel k m) -> In x m.
Proof.
  induction m as [|[k' v] m IH]; cbn; auto.
  destruct (String.eqb k k'); cbn; intuition.
Qed.

Lemma In_aset {V} k (v : V) m x : In x (aset k v m) -> x = (k, v) \/ In x m.
Proof. unfold aset; cbn. intros [H|H]; auto. right; eapply In_adel; eauto. Qed.

(* ---------- encoding/hex ---------- *)
Definition unhexdigit (a : ascii) : N :=
  let n := N_of_ascii a in if (n <? 58)%N then (n - 48)%N else (n - 87)%N.
Definition unhex2 (x y : ascii) : ascii := ascii_of_N (16 * unhexdigit x + unhexdigit y).

Lemma hex_byte_shape : forall a, exists x y,
  hex_byte a = String x (String y EmptyString) /\ unhex2 x y = a /\
  is_hexdigit x = true /\ is_hexdigit y = true.
Proof.
  intros a. exists (hexdigit (N_of_ascii a / 16)), (hexdigit (N_of_ascii a mod 16)).
  destruct a as [[] [] [] [] [] [] [] []]; vm_compute; repeat split.
Qed.

Lemma hex_inj : forall s1 s2, hex s1 = hex s2 -> s1 = s2.
Proof.
  induction s1 as [|a s1 IH]; destruct s2 as [|b s2]; cbn [hex]; auto.
  - destruct (hex_byte_shape b) as (x & y & E & _). rewrite E. cbn. discriminate.
  - destruct (hex_byte_shape a) as (x & y & E & _). rewrite E. cbn. discriminate.
  - destruct (hex_byte_shape a) as (x & y & E & U & _).
    destruct (hex_byte_shape b) as (x' & y' & E' & U' & _).
    rewrite E, E'. cbn. intros H. injection H as Hx Hy Hr.
    f_equal; [congruence | auto].
Qed.

Lemma hex_alphabet : forall s, all_chars is_hexdigit (hex s) = true.
Proof.
  induction s as [|a s IH]; cbn [hex]; auto.
  destruct (hex_byte_shape a) as (x & y & E & _ & Hx & Hy). rewrite E. cbn.
  rewrite Hx, Hy, IH. reflexivity.
Qed.

Lemma hex_length : forall s, String.length (hex s) = 2 * String.length s.
Proof.
  induction s as [|a s IH]; cbn [hex]; auto.
  destruct (hex_byte_shape a) as (x & y & E & _). rewrite E. cbn. rewrite IH.
  rewrite <- plus_n_Sm. reflexivity.
Qed.

Lemma all_chars_no_byte p c s :
  all_chars p s = true -> p c = false -> contains_byte c s = false.
Proof.
  intros H Hc. induction s as [|a s IH]; cbn in *; auto.
  apply andb_true_iff in H as [Ha Hs]. rewrite IH by auto.
  destruct (Ascii.eqb a c) eqn:E; auto. apply Ascii.eqb_eq in E; subst. congruence.
Qed.

(* ---------- boolean equalities ---------- *)
Lemma opt_str_eqb_refl d : opt_str_eqb d d = true.
Proof. destruct d; cbn; auto. apply String.eqb_refl. Qed.

Lemma opt_str_eqb_eq a b : opt_str_eqb a b = true -> a = b.
Proof.
  destruct a, b; cbn; try discriminate; auto.
  intros H; apply String.eqb_eq in H; congruence.
Qed.

Lemma slot_eqb_refl s : slot_eqb s s = true.
Proof. destruct s; cbn; auto. rewrite String.eqb_refl, opt_str_eqb_refl; auto. Qed.

Lemma list_eqb_str_refl l : list_eqb String.eqb l l = true.
Proof. induction l; cbn; auto. rewrite String.eqb_refl; auto. Qed.

Lemma mem_str_In x l : mem_str x l = true <-> In x l.
Proof.
  unfold mem_str. rewrite existsb_exists. split.
  - intros (y & Hy & E). apply String.eqb_eq in E; subst; auto.
  - intros H. exists x; split; auto. apply String.eqb_refl.
Qed.

Lemma In_dedup us : forall x, In x (dedup us) <-> In x us.
Proof.
  induction us as [|u us IH]; intros x; cbn; [tauto|].
  destruct (mem_str u (dedup us)) eqn:E.
  - apply mem_str_In in E. apply IH in E. rewrite IH. split; auto. intros [<-|H]; auto.
  - cbn. rewrite IH. tauto.
Qed.

(* ---------- comparisons of instants (small proof terms: no lia, Print Assumptions walks them) ---------- *)
Lemma gtb_false_le t n : (t >? n)%Z = false <-> (t <= n)%Z.
Proof. rewrite Z.gtb_ltb. apply Z.ltb_ge. Qed.

Lemma gtb_true_gt t n : (t >? n)%Z = true <-> (t > n)%Z.
Proof. rewrite Z.gtb_ltb, Z.ltb_lt. split; [apply Z.lt_gt | apply Z.gt_lt]. Qed.

Ltac zb :=
  repeat match goal with
         | H : (_ >? _)%Z = true |- _ => apply gtb_true_gt in H
         | H : (_ >? _)%Z = false |- _ => apply gtb_false_le in H
         end;
  match goal with
  | |- (_ >? _)%Z = true => apply (proj2 (gtb_true_gt _ _))
  | |- (_ >? _)%Z = false => apply (proj2 (gtb_false_le _ _))
  | |- _ => idtac
  end;
  first [ assumption
        | exfalso; match goal with
                   | H1 : (?t <= ?n)%Z, H2 : (?t > ?n)%Z |- _ => exact (Zle_not_lt _ _ H1 (Z.gt_lt _ _ H2))
                   end ].

(* ---------- the entry as seen by Get ---------- *)
Section Entry.
  Variable parse : string -> crlfact.
  Notation get_entry := (get_entry parse).

  Lemma entry_ok_get_entry b d t : entry_ok parse b d t (get_entry b d t) = true.
  Proof.
    unfold entry_ok, C15_Model.get_entry, part_state, check_expiry.
    destruct (parse b) as [|rb [nb|]]; destruct d as [dd|];
      try destruct (parse dd) as [|rd [nd|]]; cbn;
      repeat match goal with |- context [(?x >? ?y)%Z] => destruct (x >? y)%Z; cbn end;
      rewrite ?String.eqb_refl; auto.
  Qed.

  (* a bundle is returned iff every part parses, has a NextUpdate and it has
     not passed; the bundle carries the Raw of each part *)
  Lemma hit_iff b d t b' d' :
    get_entry b d t = RHit b' d' <->
    (exists nb, parse b = POk b' (Some nb) /\ (t <= nb)%Z) /\
    match d with
    | None => d' = None
    | Some dd => exists rd nd, d' = Some rd /\ parse dd = POk rd (Some nd) /\ (t <= nd)%Z
    end.
  Proof.
    unfold C15_Model.get_entry, check_expiry. split.
    - destruct (parse b) as [|rb [nb|]]; try discriminate.
      + destruct d as [dd|].
        * destruct (parse dd) as [|rd [nd|]]; try discriminate;
            destruct (t >? nb)%Z eqn:E1; try discriminate.
          destruct (t >? nd)%Z eqn:E2; try discriminate.
          intros H; injection H as <- <-.
          split; [exists nb; split; auto; zb | exists rd, nd; repeat split; auto; zb].
        * destruct (t >? nb)%Z eqn:E1; try discriminate.
          intros H; injection H as <- <-. split; auto. exists nb; split; auto; zb.
      + destruct d as [dd|]; [destruct (parse dd) as [|rd [nd|]]|]; discriminate.
    - intros [(nb & Hb & Lb) Hd]. rewrite Hb.
      assert ((t >? nb)%Z = false) as -> by zb.
      destruct d as [dd|].
      + destruct Hd as (rd & nd & -> & Hp & Ld). rewrite Hp.
        assert ((t >? nd)%Z = false) as -> by zb. reflexivity.
      + subst; reflexivity.
  Qed.

  (* both parts well-formed with a NextUpdate, one of them passed: a miss *)
  Lemma expired_miss b d t rb nb :
    parse b = POk rb (Some nb) ->
    match d with
    | None => (t > nb)%Z
    | Some dd => exists rd nd, parse dd = POk rd (Some nd) /\ ((t > nb)%Z \/ (t > nd)%Z)
    end ->
    exists k, get_entry b d t = RMiss k.
  Proof.
    unfold C15_Model.get_entry, check_expiry. intros -> H. destruct d as [dd|].
    - destruct H as (rd & nd & -> & H).
      destruct (t >? nb)%Z eqn:E1; eauto. destruct (t >? nd)%Z eqn:E2; eauto. destruct H; zb.
    - assert ((t >? nb)%Z = true) as -> by zb. eauto.
  Qed.

  (* a miss is only ever answered for an entry one of whose parts has expired *)
  Lemma miss_only_expired b d t k :
    get_entry b d t = RMiss k ->
    (exists rb nb, parse b = POk rb (Some nb) /\ (t > nb)%Z) \/
    (exists dd rd nd, d = Some dd /\ parse dd = POk rd (Some nd) /\ (t > nd)%Z).
  Proof.
    unfold C15_Model.get_entry, check_expiry.
    destruct (parse b) as [|rb [nb|]] eqn:Eb; try discriminate.
    - destruct d as [dd|].
      + destruct (parse dd) as [|rd [nd|]] eqn:Ed; try discriminate;
          destruct (t >? nb)%Z eqn:E1; try discriminate;
          try (intros _; left; exists rb, nb; split; auto; zb).
        destruct (t >? nd)%Z eqn:E2; try discriminate.
        intros _; right; exists dd, rd, nd; repeat split; auto; zb.
      + destruct (t >? nb)%Z eqn:E1; try discriminate.
        intros _; left; exists rb, nb; split; auto; zb.
    - destruct d as [dd|]; [destruct (parse dd) as [|rd [nd|]]|]; discriminate.
  Qed.

  (* a part without NextUpdate is an error (unless the base has already expired), never a bundle *)
  Lemma zero_error b d t :
    (exists rb, parse b = POk rb None) \/
    (exists rb nb dd rd, parse b = POk rb (Some nb) /\ (t <= nb)%Z /\ d = Some dd /\ parse dd = POk rd None) ->
    (forall dd, d = Some dd -> parse dd <> PErr) ->
    exists k, get_entry b d t = RErr k /\ (k = 5 \/ k = 6)%N.
  Proof.
    unfold C15_Model.get_entry, check_expiry. intros [(rb & ->)|(rb & nb & dd & rd & -> & L & -> & ->)] Hd.
    - destruct d as [dd|]; eauto.
      specialize (Hd dd eq_refl). destruct (parse dd) as [|rd nd]; [contradiction|eauto].
    - assert ((t >? nb)%Z = false) as -> by zb. eauto.
  Qed.

  (* a part that does not parse is an error *)
  Lemma unparsable_error b d t :
    parse b = PErr \/ (exists dd, d = Some dd /\ parse dd = PErr) ->
    exists k, get_entry b d t = RErr k /\ (k = 3 \/ k = 4)%N.
  Proof.
    unfold C15_Model.get_entry. intros [->|(dd & -> & Hd)]; eauto.
    rewrite Hd. destruct (parse b); eauto.
  Qed.
End Entry.

(* ---------- simulation: the directory against the map url -> slot ---------- *)
Section Sim.
  Variable sha : string -> string.
  Variable enc : bool -> string -> option string -> string.
  Variable dec : string -> option (string * option string).
  Variable parse : string -> crlfact.
  Variable US : list string.
  Hypothesis Hinj : inj_on sha US.

  Notation fname := (file_name sha).

  Lemma fname_inj u v : In u US -> In v US -> fname u = fname v -> u = v.
  Proof. intros Hu Hv E. apply hex_inj in E. apply Hinj; auto. Qed.

  Definition rel (n : option node) (sl : option slot) : Prop :=
    match n, sl with
    | None, None => True
    | Some None, Some SDir => True
    | Some (Some c), Some sl' => sl' = slot_of (dec c)
    | _, _ => False
    end.

  Definition inv (f : fs) (s : sstate) : Prop :=
    forall u, In u US -> rel (alookup (fname u) f) (s u).

  Definition keys_ok (f : fs) : Prop :=
    forall n v, In (n, v) f -> exists u, In u US /\ n = fname u.

  Lemma inv_upd f s u nd sl :
    In u US -> inv f s -> rel (Some nd) (Some sl) ->
    inv (aset (fname u) nd f) (supd u (Some sl) s).
  Proof.
    intros Hu I R v Hv. unfold supd.
    destruct (String.eqb v u) eqn:E.
    - apply String.eqb_eq in E; subst v. rewrite alookup_aset_same; auto.
    - rewrite alookup_aset_other; auto.
      intros Ef. apply fname_inj in Ef; auto. subst. rewrite String.eqb_refl in E; discriminate.
  Qed.

  Lemma inv_del f s u :
    In u US -> inv f s -> inv (adel (fname u) f) (supd u None s).
  Proof.
    intros Hu I v Hv. unfold supd.
    destruct (String.eqb v u) eqn:E.
    - apply String.eqb_eq in E; subst v. rewrite alookup_adel_same; cbn; auto.
    - rewrite alookup_adel_other; auto.
      intros Ef. apply fname_inj in Ef; auto. subst. rewrite String.eqb_refl in E; discriminate.
  Qed.

  Lemma keys_upd f u nd : In u US -> keys_ok f -> keys_ok (aset (fname u) nd f).
  Proof. intros Hu K n v H. apply In_aset in H as [H|H]; [injection H as -> _; eauto | eauto]. Qed.

  Lemma keys_del f u : keys_ok f -> keys_ok (adel (fname u) f).
  Proof. intros K n v H. apply In_adel in H; eauto. Qed.

  Lemma slot_of_not_dir r : slot_of r <> SDir.
  Proof. destruct r as [[b d]|]; cbn; discriminate. Qed.

  Lemma get_sim f s u t :
    inv f s -> In u US -> get sha dec parse f u t = spec_get parse (s u) t.
  Proof.
    intros I Hu. specialize (I u Hu). unfold get, rel in *.
    destruct (alookup (fname u) f) as [[c|]|], (s u) as [[b d| |]|]; cbn; try contradiction; auto;
      destruct (dec c) as [[b' d']|]; cbn in I; try discriminate; auto.
    injection I as -> ->; auto.
  Qed.

  Lemma step_sim f s o :
    inv f s -> keys_ok f -> In (op_url o) US -> rt_op enc dec o ->
    exists f' w,
      step sha enc dec parse f o = (f', snd (spec_step dec parse s o), w) /\
      inv f' (fst (spec_step dec parse s o)) /\ keys_ok f' /\
      map (join root) w = writes_of sha o.
  Proof.
    intros I K Hu Hrt. destruct o as [u e bd|u t|u c|u|u]; cbn [op_url] in Hu.
    - (* Set *)
      destruct bd as [[[b|] d]|]; cbn [step set spec_step writes_of].
      + pose proof (I u Hu) as R. unfold rel in R. cbn in Hrt.
        destruct (alookup (fname u) f) as [[c|]|] eqn:El, (s u) as [[b0 d0| |]|] eqn:Es;
          try contradiction; cbn [fst snd].
        * do 2 eexists; split; [reflexivity|]. split; [|split; [apply keys_upd; auto|reflexivity]].
          apply inv_upd; auto. cbn. rewrite Hrt. reflexivity.
        * do 2 eexists; split; [reflexivity|]. split; [|split; [apply keys_upd; auto|reflexivity]].
          apply inv_upd; auto. cbn. rewrite Hrt. reflexivity.
        * exfalso. eapply slot_of_not_dir; eauto.
        * do 2 eexists; split; [reflexivity|]. split; [|split; [auto|reflexivity]]. auto.
        * do 2 eexists; split; [reflexivity|]. split; [|split; [apply keys_upd; auto|reflexivity]].
          apply inv_upd; auto. cbn. rewrite Hrt. reflexivity.
      + do 2 eexists; split; [reflexivity|]. cbn. auto.
      + do 2 eexists; split; [reflexivity|]. cbn. auto.
    - (* Get *)
      cbn [step spec_step writes_of fst snd]. rewrite (get_sim f s u t I Hu).
      do 2 eexists; split; [reflexivity|]. split; [auto|split; [auto|reflexivity]].
    - (* the environment writes a file *)
      cbn [step spec_step writes_of fst snd]. do 2 eexists; split; [reflexivity|].
      split; [|split; [apply keys_upd; auto|reflexivity]]. apply inv_upd; auto; cbn; auto.
    - cbn [step spec_step writes_of fst snd]. do 2 eexists; split; [reflexivity|].
      split; [|split; [apply keys_del; auto|reflexivity]]. apply inv_del; auto.
    - cbn [step spec_step writes_of fst snd]. do 2 eexists; split; [reflexivity|].
      split; [|split; [apply keys_upd; auto|reflexivity]]. apply inv_upd; auto; cbn; auto.
  Qed.

  Lemma run_sim : forall ops f s,
    inv f s -> keys_ok f -> incl (urls ops) US -> roundtrip_on enc dec ops ->
    fst (fst (run_ops sha enc dec parse f ops)) = fst (spec_run dec parse s ops) /\
    inv (snd (run_ops sha enc dec parse f ops)) (snd (spec_run dec parse s ops)) /\
    keys_ok (snd (run_ops sha enc dec parse f ops)) /\
    map (join root) (snd (fst (run_ops sha enc dec parse f ops))) = expected_writes sha ops.
  Proof.
    induction ops as [|o ops IH]; intros f s I K Hin Hrt.
    - cbn. auto.
    - assert (In (op_url o) US) as Hu by (apply Hin; cbn; auto).
      assert (incl (urls ops) US) as Hin' by (intros x Hx; apply Hin; cbn; auto).
      inversion Hrt as [|? ? Ho Hrt']; subst.
      destruct (step_sim f s o I K Hu Ho) as (f1 & w & Es & I1 & K1 & W).
      cbn [run_ops spec_run]. rewrite Es.
      destruct (spec_step dec parse s o) as [s1 r] eqn:Esp; cbn [fst snd] in *.
      specialize (IH f1 s1 I1 K1 Hin' Hrt').
      destruct (run_ops sha enc dec parse f1 ops) as [[rs ws] f2].
      destruct (spec_run dec parse s1 ops) as [rs' s2]. cbn [fst snd] in *.
      destruct IH as (-> & I2 & K2 & W2). repeat split; auto.
      unfold expected_writes in *. cbn [flat_map]. rewrite map_app, W, W2. reflexivity.
  Qed.
End Sim.

Lemma inv_empty sha dec US : inv sha dec US [] sempty.
Proof. intros u _. cbn. exact I. Qed.

Lemma keys_empty sha US : keys_ok sha US [].
Proof. intros n v []. Qed.

(* the cache refines the map url -> slot, for histories of any length *)
Theorem refines sha enc dec parse ops :
  inj_on sha (urls ops) -> roundtrip_on enc dec ops ->
  impl_results sha enc dec parse ops = map_results dec parse ops.
Proof.
  intros Hi Hr.
  apply (run_sim sha enc dec parse (urls ops) Hi ops [] sempty); auto.
  - apply inv_empty.
  - apply keys_empty.
  - apply incl_refl.
Qed.

(* ---------- the map: what a url holds depends on the operations on that url only ---------- *)
Section Spec.
  Variable dec : string -> option (string * option string).
  Variable parse : string -> crlfact.
  Notation spec_run := (spec_run dec parse).
  Notation spec_step := (spec_step dec parse).

  Lemma spec_run_app a : forall b s,
    spec_run s (a ++ b)%list =
      ((fst (spec_run s a) ++ fst (spec_run (snd (spec_run s a)) b))%list,
       snd (spec_run (snd (spec_run s a)) b)).
  Proof.
    induction a as [|o a IH]; intros b s; cbn [app C15_Model.spec_run].
    - cbn. destruct (spec_run s b); reflexivity.
    - destruct (spec_step s o) as [s1 r]. rewrite IH.
      destruct (spec_run s1 a) as [ra sa]. cbn [fst snd].
      destruct (spec_run sa b) as [rb sb]. reflexivity.
  Qed.

  Lemma supd_other u v x s : v <> u -> supd u x s v = s v.
  Proof.
    intros N. unfold supd. destruct (String.eqb v u) eqn:E; auto.
    apply String.eqb_eq in E; contradiction.
  Qed.

  Lemma supd_same u x s : supd u x s u = x.
  Proof. unfold supd. rewrite String.eqb_refl; auto. Qed.

  Lemma step_other s o u : op_url o <> u -> fst (spec_step s o) u = s u.
  Proof.
    intros N. destruct o as [v e bd|v t|v c|v|v]; cbn in *; auto;
      try (apply supd_other; congruence).
    destruct bd as [[[b|] d]|]; cbn; auto.
    destruct (s v) as [[| |]|]; cbn; auto; apply supd_other; congruence.
  Qed.

  Lemma run_others ops : forall s u,
    (forall o, In o ops -> op_url o <> u) -> snd (spec_run s ops) u = s u.
  Proof.
    induction ops as [|o ops IH]; intros s u H; cbn [C15_Model.spec_run]; auto.
    pose proof (step_other s o u (H o (or_introl eq_refl))) as E.
    destruct (spec_step s o) as [s1 r]. cbn [fst] in E.
    specialize (IH s1 u (fun o' Ho' => H o' (or_intror Ho'))).
    destruct (spec_run s1 ops) as [rs s2]. cbn [snd] in *. congruence.
  Qed.

  (* the step on a url looks at the slot of that url only *)
  Lemma step_local s1 s2 o :
    s1 (op_url o) = s2 (op_url o) ->
    snd (spec_step s1 o) = snd (spec_step s2 o) /\
    fst (spec_step s1 o) (op_url o) = fst (spec_step s2 o) (op_url o).
  Proof.
    intros E. destruct o as [v e bd|v t|v c|v|v]; cbn in *; rewrite ?supd_same; auto.
    - destruct bd as [[[b|] d]|]; cbn; auto. rewrite <- E.
      destruct (s1 v) as [[| |]|] eqn:E1; cbn; rewrite ?supd_same; auto; split; congruence.
    - rewrite E; auto.
  Qed.

  Lemma run_filter ops : forall s1 s2 u,
    s1 u = s2 u ->
    snd (spec_run s1 ops) u = snd (spec_run s2 (filter (on_url u) ops)) u.
  Proof.
    induction ops as [|o ops IH]; intros s1 s2 u E; cbn [C15_Model.spec_run filter]; auto.
    unfold on_url at 1. destruct (String.eqb (op_url o) u) eqn:Eu.
    - apply String.eqb_eq in Eu. cbn [C15_Model.spec_run].
      assert (s1 (op_url o) = s2 (op_url o)) as E' by (rewrite Eu; auto).
      destruct (step_local s1 s2 o E') as [_ Hs]. rewrite Eu in Hs.
      destruct (spec_step s1 o) as [s1' r1], (spec_step s2 o) as [s2' r2]. cbn [fst] in Hs.
      specialize (IH s1' s2' u Hs).
      destruct (spec_run s1' ops), (spec_run s2' (filter (on_url u) ops)). auto.
    - assert (op_url o <> u) as N by (intros X; rewrite X, String.eqb_refl in Eu; discriminate).
      pose proof (step_other s1 o u N) as Hs.
      destruct (spec_step s1 o) as [s1' r1]. cbn [fst] in Hs.
      assert (s1' u = s2 u) as E' by congruence.
      specialize (IH s1' s2 u E'). destruct (spec_run s1' ops). auto.
  Qed.

  (* without a directory planted by the environment, no slot is a directory *)
  Lemma run_no_dir ops : forall s u,
    s u <> Some SDir -> (forall o, In o ops -> o <> OMkdir u) ->
    snd (spec_run s ops) u <> Some SDir.
  Proof.
    induction ops as [|o ops IH]; intros s u Hs H; cbn [C15_Model.spec_run]; auto.
    assert (fst (spec_step s o) u <> Some SDir) as Hs1.
    { destruct (string_dec (op_url o) u) as [E|N]; [|rewrite step_other; auto].
      assert (o <> OMkdir u) as Ho by (apply H; cbn; auto).
      destruct o as [v e bd|v t|v c|v|v]; cbn in E; subst v; cbn; rewrite ?supd_same; auto; try discriminate.
      - destruct bd as [[[b|] d]|]; cbn; auto.
        destruct (s u) as [[| |]|] eqn:E1; cbn; rewrite ?supd_same; auto; try discriminate; congruence.
      - intros X; injection X as X. eapply slot_of_not_dir; eauto. }
    destruct (spec_step s o) as [s1 r]. cbn [fst] in Hs1.
    specialize (IH s1 u Hs1 (fun o' Ho' => H o' (or_intror Ho'))).
    destruct (spec_run s1 ops). auto.
  Qed.

  (* the oracle's replay of a history accepts the map's own results *)
  Lemma check_spec_run ops : forall s,
    check dec parse s ops (fst (spec_run s ops)) = Some (snd (spec_run s ops)).
  Proof.
    induction ops as [|o ops IH]; intros s; cbn [C15_Model.spec_run]; auto.
    destruct (spec_step s o) as [s1 r] eqn:Es.
    specialize (IH s1). destruct (spec_run s1 ops) as [rs s2]. cbn [fst snd] in *.
    destruct o as [v e bd|v t|v c|v|v]; cbn in Es |- *.
    - destruct bd as [[[b|] d]|]; cbn in Es.
      + destruct (s v) as [[| |]|]; injection Es as <- <-; cbn; auto.
      + injection Es as <- <-; cbn; auto.
      + injection Es as <- <-; cbn; auto.
    - injection Es as <- <-.
      assert (get_ok parse (s v) t (spec_get parse (s v) t) = true) as ->; auto.
      destruct (s v) as [[b d| |]|]; cbn; auto. apply entry_ok_get_entry.
    - injection Es as <- <-; auto.
    - injection Es as <- <-; auto.
    - injection Es as <- <-; auto.
  Qed.
End Spec.

(* ---------- the theorems of the property ---------- *)
Section Top.
  Variable sha : string -> string.
  Variable enc : bool -> string -> option string -> string.
  Variable dec : string -> option (string * option string).
  Variable parse : string -> crlfact.
  Notation results := (impl_results sha enc dec parse).
  Notation fname := (file_name sha).

  (* the answer to a final Get is the map's answer for what the url holds *)
  Lemma final_get ops u t :
    inj_on sha (urls (ops ++ [OGet u t])) -> roundtrip_on enc dec (ops ++ [OGet u t]) ->
    last (results (ops ++ [OGet u t])%list) RNone = spec_get parse (map_after dec parse ops u) t.
  Proof.
    intros Hi Hr. rewrite refines; auto. unfold map_results, map_after.
    rewrite spec_run_app. cbn [fst snd C15_Model.spec_run spec_step]. apply last_last.
  Qed.

  Theorem get_after_set pre mid u e b d t :
    let ops := (pre ++ OSet u e (Some (Some b, d)) :: mid)%list in
    inj_on sha (urls (ops ++ [OGet u t])) -> roundtrip_on enc dec (ops ++ [OGet u t]) ->
    (forall o, In o pre -> o <> OMkdir u) ->
    (forall o, In o mid -> op_url o <> u) ->
    last (results (ops ++ [OGet u t])%list) RNone = get_entry parse b (norm d) t.
  Proof.
    intros ops Hi Hr Hpre Hmid. rewrite final_get; auto.
    unfold ops, map_after. rewrite spec_run_app. cbn [snd].
    assert (snd (spec_run dec parse sempty pre) u <> Some SDir) as Hnd.
    { apply run_no_dir; auto. cbn. discriminate. }
    set (s0 := snd (spec_run dec parse sempty pre)) in *.
    cbn [C15_Model.spec_run spec_step].
    assert (exists s1, (match s0 u with
                        | Some SDir => (s0, RErr 9)
                        | _ => (supd u (Some (SEntry b (norm d))) s0, ROk)
                        end) = (s1, ROk) /\ s1 u = Some (SEntry b (norm d))) as (s1 & -> & E1).
    { destruct (s0 u) as [[| |]|]; try (eexists; split; [reflexivity|apply supd_same]).
      contradiction Hnd; auto. }
    pose proof (run_others dec parse mid s1 u Hmid) as Eo.
    destruct (spec_run dec parse s1 mid) as [rs s2]. cbn [snd] in *.
    rewrite Eo, E1. reflexivity.
  Qed.

  Theorem get_never_set ops u t :
    inj_on sha (urls (ops ++ [OGet u t])) -> roundtrip_on enc dec (ops ++ [OGet u t]) ->
    (forall o, In o ops -> op_url o <> u) ->
    last (results (ops ++ [OGet u t])%list) RNone = RMiss 0.
  Proof.
    intros Hi Hr H. rewrite final_get; auto. unfold map_after.
    rewrite run_others; auto.
  Qed.

  (* a corrupted entry: the last thing that happened to the url's file is that
     it was overwritten with bytes that do not decode, or whose parts do not parse *)
  Notation not_an_entry := (not_an_entry dec parse).

  Theorem corrupt_error (f : fs) u t c :
    alookup (fname u) f = Some (Some c) -> not_an_entry c ->
    exists k, get sha dec parse f u t = RErr k.
  Proof.
    intros El H.
    destruct H as [Hd|(b & d & Hd & H)];
      [exists 2%N | destruct (unparsable_error parse b d t H) as (k & Ek & _); exists k];
      unfold get; rewrite El, Hd; auto.
  Qed.

  Theorem corrupt_history pre mid u c t :
    let ops := (pre ++ OPut u c :: mid)%list in
    inj_on sha (urls (ops ++ [OGet u t])) -> roundtrip_on enc dec (ops ++ [OGet u t]) ->
    (forall o, In o mid -> op_url o <> u) -> not_an_entry c ->
    exists k, last (results (ops ++ [OGet u t])%list) RNone = RErr k.
  Proof.
    intros ops Hi Hr Hmid H. rewrite final_get; auto.
    unfold ops, map_after. rewrite spec_run_app. cbn [snd C15_Model.spec_run spec_step].
    set (s1 := supd u (Some (slot_of (dec c))) (snd (spec_run dec parse sempty pre))).
    pose proof (run_others dec parse mid s1 u Hmid) as Eo.
    destruct (spec_run dec parse s1 mid) as [rs s2]. cbn [snd] in *.
    destruct H as [Hd|(b & d & Hd & H)];
      [exists 2%N | destruct (unparsable_error parse b d t H) as (k & Ek & _); exists k];
      rewrite Eo; unfold s1; rewrite supd_same, Hd; cbn; auto.
  Qed.

  Theorem set_nil_nothing (f : fs) u :
    (forall e, set sha enc f u e None = (f, RErr 7, [])) /\
    forall e d, set sha enc f u e (Some (None, d)) = (f, RErr 8, []).
  Proof. split; reflexivity. Qed.

  (* isolation, one step: a Set on u leaves the file of every other url alone *)
  Theorem set_isolated (f : fs) u u' e bd t :
    u' <> u -> (sha u' = sha u -> u' = u) ->
    alookup (fname u') (fst (fst (set sha enc f u e bd))) = alookup (fname u') f /\
    get sha dec parse (fst (fst (set sha enc f u e bd))) u' t = get sha dec parse f u' t.
  Proof.
    intros N Hi.
    assert (fname u' <> fname u) as Nf by (intros E; apply hex_inj in E; auto).
    assert (alookup (fname u') (fst (fst (set sha enc f u e bd))) = alookup (fname u') f) as E.
    { destruct bd as [[[b|] d]|]; cbn; auto.
      destruct (alookup (fname u) f) as [[c|]|]; cbn; auto; apply alookup_aset_other; auto. }
    split; auto. unfold get. rewrite E. reflexivity.
  Qed.

  (* isolation, whole histories: what a Get on u answers does not depend on any
     operation on another url *)
  Theorem isolated_history ops u t :
    inj_on sha (urls (ops ++ [OGet u t])) -> roundtrip_on enc dec (ops ++ [OGet u t]) ->
    last (results (ops ++ [OGet u t])%list) RNone =
    last (results (filter (on_url u) ops ++ [OGet u t])%list) RNone.
  Proof.
    intros Hi Hr.
    assert (forall o, In o (filter (on_url u) ops ++ [OGet u t])%list -> In o (ops ++ [OGet u t])%list) as Hsub.
    { intros o Ho. apply in_app_or in Ho as [Ho|Ho]; apply in_or_app; auto.
      apply filter_In in Ho as [Ho _]; auto. }
    rewrite !final_get; auto.
    - f_equal. unfold map_after. apply run_filter; auto.
    - intros x y Hx Hy. unfold urls in *. apply in_map_iff in Hx as (ox & <- & Hox).
      apply in_map_iff in Hy as (oy & <- & Hoy).
      apply Hi; apply in_map; auto.
    - unfold roundtrip_on in *. rewrite Forall_forall in *. auto.
  Qed.

  (* Get looks at the file of its url only *)
  Theorem get_reads_only (f f' : fs) u t :
    alookup (fname u) f = alookup (fname u) f' ->
    get sha dec parse f u t = get sha dec parse f' u t.
  Proof. intros E. unfold get. rewrite E. reflexivity. Qed.

  (* the file name: lower-case hex digits only, two per digest byte *)
  Theorem file_name_shape u :
    all_chars is_hexdigit (fname u) = true /\
    String.length (fname u) = 2 * String.length (sha u).
  Proof. split; [apply hex_alphabet | apply hex_length]. Qed.

  Theorem file_name_no_byte u c : is_hexdigit c = false -> contains_byte c (fname u) = false.
  Proof. intros H. eapply all_chars_no_byte; eauto. apply hex_alphabet. Qed.

  Lemma step_writes f o : map (join root) (snd (step sha enc dec parse f o)) = writes_of sha o.
  Proof.
    destruct o as [u e bd|u t|u c|u|u]; cbn; auto.
    destruct bd as [[[b|] d]|]; cbn; auto.
    destruct (alookup (fname u) f) as [[c|]|]; cbn; auto.
  Qed.

  Lemma run_writes ops : forall f,
    map (join root) (snd (fst (run_ops sha enc dec parse f ops))) = expected_writes sha ops.
  Proof.
    induction ops as [|o ops IH]; intros f; cbn [run_ops]; auto.
    pose proof (step_writes f o) as W.
    destruct (step sha enc dec parse f o) as [[f1 r] w]. cbn [snd] in W.
    specialize (IH f1). destruct (run_ops sha enc dec parse f1 ops) as [[rs ws] f2]. cbn [fst snd] in *.
    unfold expected_writes in *. cbn [flat_map]. rewrite map_app, W, IH. reflexivity.
  Qed.

  (* every destination handed to file.WriteFile is root/<file name of a url of the history> *)
  Theorem writes_in_root ops p :
    In p (map (join root) (impl_writes sha enc dec parse ops)) ->
    exists u, In u (urls ops) /\ p = join root (fname u).
  Proof.
    unfold impl_writes. rewrite run_writes. unfold expected_writes. intros H.
    apply in_flat_map in H as (o & Ho & Hp).
    exists (op_url o). split; [apply in_map; auto|].
    destruct o as [u e bd|u t|u c|u|u]; cbn in Hp; try contradiction.
    destruct bd as [[[b|] d]|]; cbn in Hp; try contradiction.
    destruct Hp as [<-|[]]. reflexivity.
  Qed.
End Top.

(* ---------- the model meets the oracle ---------- *)
Lemma inj_b_on sha us : inj_b sha us = true -> inj_on sha us.
Proof.
  unfold inj_b. intros H u v Hu Hv E.
  rewrite forallb_forall in H.
  assert (forall x, In x us -> In (x, sha x) (map (fun u => (u, sha u)) (dedup us))) as Hin.
  { intros x Hx. apply in_map_iff. exists x; split; auto. apply (proj2 (In_dedup _ _)); auto. }
  specialize (H _ (Hin u Hu)). rewrite forallb_forall in H. specialize (H _ (Hin v Hv)).
  cbn in H. rewrite E, String.eqb_refl in H. apply String.eqb_eq; auto.
Qed.

Lemma dec_res_eqb_eq a b : dec_res_eqb a b = true -> a = b.
Proof.
  destruct a as [[a1 a2]|], b as [[b1 b2]|]; cbn; try discriminate; auto.
  intros H. apply andb_true_iff in H as [H1 H2].
  apply String.eqb_eq in H1. apply opt_str_eqb_eq in H2. congruence.
Qed.

Lemma roundtrip_b_on dec ops : roundtrip_b dec ops = true -> roundtrip_on enc_json dec ops.
Proof.
  unfold roundtrip_b, roundtrip_on. rewrite forallb_forall, Forall_forall.
  intros H o Ho. specialize (H o Ho).
  destruct o as [u e bd|u t|u c|u|u]; cbn; auto.
  destruct bd as [[[b|] d]|]; cbn; auto. apply dec_res_eqb_eq; auto.
Qed.

Lemma rel_node_ok dec n sl : rel dec n sl -> node_ok dec n sl = true.
Proof.
  unfold rel, node_ok. destruct n as [[c|]|], sl as [[| |]|]; try contradiction; auto;
    intros ->; apply slot_eqb_refl.
Qed.

Theorem model_spec_ok : forall i, wf i = true -> spec_ok i (model i) = true.
Proof.
  intros i H. unfold wf in H.
  apply andb_true_iff in H as [H Hrt]. apply andb_true_iff in H as [Hinj _].
  apply inj_b_on in Hinj. apply roundtrip_b_on in Hrt.
  destruct (run_sim (tab_sha i) enc_json (tab_dec i) (tab_parse i) (urls (i_ops i)) Hinj
              (i_ops i) [] sempty (inv_empty _ _ _) (keys_empty _ _) (incl_refl _) Hrt)
    as (Er & I & K & W).
  unfold model, spec_ok.
  destruct (run_ops (tab_sha i) enc_json (tab_dec i) (tab_parse i) [] (i_ops i)) as [[rs ws] f].
  cbn [fst snd o_res o_writes o_files o_outside o_temps_ok] in *.
  rewrite Er, check_spec_run, W, list_eqb_str_refl. rewrite !andb_true_r.
  unfold files_ok. apply andb_true_iff. split.
  - apply forallb_forall. intros u Hu. apply (proj1 (In_dedup _ _)) in Hu. apply rel_node_ok. apply I; auto.
  - apply forallb_forall. intros [n v] Hn. destruct (K n v Hn) as (u & Hu & ->).
    apply existsb_exists. exists u. split; [apply (proj2 (In_dedup _ _)); auto|]. cbn. apply String.eqb_refl.
Qed.
