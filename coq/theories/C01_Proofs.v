(* C01_Proofs.v — proofs about C01_Model. *)
From NV Require Import Base Regex Generated C01_Model.
Open Scope string_scope.
Open Scope list_scope.

(* ---------- small facts ---------- *)

Lemma err_eqb_none : forall e, err_eqb e ENone = true <-> e = ENone.
Proof. destruct e; simpl; split; intro H; try reflexivity; try discriminate. Qed.

Lemma is_success_iff : forall o, is_success o = true <-> o_err o = ENone.
Proof. intro o. unfold is_success. apply err_eqb_none. Qed.

Lemma lookup_remove_neq : forall k k' m, k <> k' -> lookup k' (remove_key k m) = lookup k' m.
Proof.
  intros k k' m Hne. induction m as [|[a b] m IH]; simpl; [reflexivity|].
  destruct (String.eqb k a) eqn:E1.
  - apply String.eqb_eq in E1. subst a. rewrite IH.
    destruct (String.eqb k' k) eqn:E2; [apply String.eqb_eq in E2; congruence | reflexivity].
  - simpl. rewrite IH. reflexivity.
Qed.

Lemma lookup_set_neq : forall k k' v m, k <> k' -> lookup k' (set_key k v m) = lookup k' m.
Proof.
  intros k k' v m Hne. unfold set_key. simpl.
  destruct (String.eqb k' k) eqn:E; [apply String.eqb_eq in E; congruence|].
  apply lookup_remove_neq. exact Hne.
Qed.

(* ---------- levels ---------- *)

Lemma find_level_in : forall name ls e, find_level name ls = Some e -> In (name, e) ls.
Proof.
  intros name ls. induction ls as [|[n e0] ls IH]; simpl; intros e H; [discriminate|].
  destruct (find_level name ls) as [e'|] eqn:F.
  - inversion H; subst. right. apply IH. reflexivity.
  - destruct (String.eqb n name) eqn:E; [|discriminate].
    apply String.eqb_eq in E. inversion H; subst. left. reflexivity.
Qed.

Lemma apply_override_integrity : forall enf kv enf',
  apply_override enf kv = Some enf' -> lookup "integrity" enf' = lookup "integrity" enf.
Proof.
  intros enf [k v] enf' H. unfold apply_override in H.
  destruct (negb (mem_str k gen_validation_types)); [discriminate|].
  destruct (negb (mem_str v gen_validation_actions)); [discriminate|].
  destruct (String.eqb k "integrity") eqn:E; [discriminate|].
  destruct (negb (String.eqb k "revocation") && String.eqb v "skip"); [discriminate|].
  inversion H; subst. apply lookup_set_neq.
  intro C. subst k. rewrite String.eqb_refl in E. discriminate.
Qed.

Lemma apply_overrides_integrity : forall ov enf enf',
  apply_overrides enf ov = Some enf' -> lookup "integrity" enf' = lookup "integrity" enf.
Proof.
  induction ov as [|kv ov IH]; simpl; intros enf enf' H.
  - inversion H; reflexivity.
  - destruct (apply_override enf kv) as [e1|] eqn:E; [|discriminate].
    rewrite (IH _ _ H). eapply apply_override_integrity; eassumption.
Qed.

Lemma is_skip_name : forall l, is_skip l = true -> fst l = "skip".
Proof.
  intros l H. unfold is_skip in H.
  destruct (find_level "skip" gen_levels); [|discriminate].
  apply andb_true_iff in H. destruct H as [H _]. apply String.eqb_eq in H. exact H.
Qed.

(* the base level named by a legal statement *)
Lemma get_level_base : forall lvl ov l, get_level lvl ov = Some l ->
  exists base, In (lvl, base) gen_levels /\
    ((ov = [] /\ l = (lvl, base)) \/
     (ov <> [] /\ lvl <> "skip" /\ fst l = "custom" /\ lookup "integrity" (snd l) = lookup "integrity" base)).
Proof.
  intros lvl ov l H. unfold get_level in H.
  destruct (String.eqb lvl ""); [discriminate|].
  destruct (find_level lvl gen_levels) as [base|] eqn:F; [|discriminate].
  exists base. split; [apply find_level_in; exact F|].
  destruct ov as [|kv ov].
  - left. inversion H; subst. split; reflexivity.
  - right. destruct (String.eqb lvl "skip") eqn:E; [discriminate|].
    destruct (apply_overrides base (kv :: ov)) as [enf|] eqn:A; [|discriminate].
    inversion H; subst. simpl. repeat split.
    + discriminate.
    + intro C. subst lvl. discriminate.
    + eapply apply_overrides_integrity; eassumption.
Qed.

(* integrity is "enforce" in every legal level other than skip *)
Lemma integrity_enforced : forall lvl ov l,
  get_level lvl ov = Some l -> is_skip l = false ->
  lookup_default "integrity" (snd l) = "enforce".
Proof.
  intros lvl ov l H Hs.
  destruct (get_level_base _ _ _ H) as [base [Hin Hc]].
  assert (Hb : lvl = "skip" \/ lookup "integrity" base = Some "enforce").
  { simpl in Hin.
    repeat (destruct Hin as [Hin|Hin]; [inversion Hin; subst; first [right; reflexivity | left; reflexivity]|]).
    contradiction. }
  destruct Hc as [[Hov Hl]|[Hov [Hns [Hn Hi]]]].
  - subst l. destruct Hb as [Hb|Hb].
    + subst lvl. exfalso. simpl in Hin.
      repeat (destruct Hin as [Hin|Hin]; [inversion Hin; subst; try discriminate; vm_compute in Hs; discriminate|]).
      contradiction.
    + unfold lookup_default. simpl. rewrite Hb. reflexivity.
  - destruct Hb as [Hb|Hb]; [contradiction|].
    unfold lookup_default. rewrite Hi, Hb. reflexivity.
Qed.

(* only the statement whose level is literally "skip" (no override) is skipped *)
Lemma skip_iff_named : forall lvl ov l, get_level lvl ov = Some l ->
  (is_skip l = true <-> lvl = "skip").
Proof.
  intros lvl ov l H. split.
  - intro Hs. apply is_skip_name in Hs.
    destruct (get_level_base _ _ _ H) as [base [_ [[_ Hl]|[_ [_ [Hn _]]]]]].
    + subst l. exact Hs.
    + rewrite Hn in Hs. discriminate.
  - intro E. subst lvl. destruct ov as [|kv ov].
    + vm_compute in H. inversion H; subst. vm_compute. reflexivity.
    + exfalso. destruct (get_level_base _ _ _ H) as [base [_ [[Hov _]|[_ [Hns _]]]]].
      * discriminate.
      * apply Hns. reflexivity.
Qed.

(* ---------- the checks ---------- *)

Lemma verify_integrity_none : forall e, verify_integrity e = None <-> Intact e.
Proof.
  intro e. unfold verify_integrity, Intact.
  destruct (e_parse e); simpl.
  - destruct (e_verify e); simpl.
    + destruct (String.eqb (e_ctype e) media_type_payload_v1) eqn:E.
      * apply String.eqb_eq in E. split; intro; auto.
      * split; [discriminate|]. intros [_ [_ C]]. rewrite C, String.eqb_refl in E. discriminate.
    + split; [discriminate|]. intros [_ [C _]]. discriminate.
    + split; [discriminate|]. intros [_ [C _]]. discriminate.
  - split; [discriminate|]. intros [C _]. discriminate.
Qed.

Lemma intact_iff : forall e, intact e = true <-> Intact e.
Proof.
  intro e. unfold intact, Intact. rewrite !andb_true_iff, String.eqb_eq.
  destruct (e_verify e); split;
    try (intros [[A B] C]; repeat split; auto; discriminate);
    try (intros [A [B C]]; repeat split; auto; discriminate).
Qed.

Lemma intact_verify : forall e, intact e = true <-> verify_integrity e = None.
Proof. intro e. rewrite intact_iff, verify_integrity_none. reflexivity. Qed.

Lemma md_pair_ok_iff : forall ann kv, md_pair_ok ann kv = true <-> lookup (fst kv) ann = Some (snd kv).
Proof.
  intros ann [k v]. unfold md_pair_ok. simpl.
  destruct (lookup k ann) as [g|].
  - rewrite String.eqb_eq. split; intro H; [subst; reflexivity | inversion H; reflexivity].
  - split; discriminate.
Qed.

Lemma md_ok_iff : forall t md, md_ok t md = true <-> MdPresent md t.
Proof.
  intros t md. unfold md_ok, MdPresent. rewrite forallb_forall. split.
  - intros H k v Hin. apply (md_pair_ok_iff (t_ann t) (k, v)). apply H. exact Hin.
  - intros H [k v] Hin. apply md_pair_ok_iff. simpl. apply H. exact Hin.
Qed.

Lemma md_present_iff : forall t md, md_present md t = true <-> MdPresent md t.
Proof.
  intros t md. unfold md_present, MdPresent. rewrite forallb_forall. split.
  - intros H k v Hin. specialize (H (k, v) Hin). simpl in H.
    destruct (lookup k (t_ann t)) as [g|]; simpl in H; [|discriminate].
    apply String.eqb_eq in H. subst. reflexivity.
  - intros H [k v] Hin. simpl. rewrite (H k v Hin). simpl. apply String.eqb_refl.
Qed.

Lemma check_md_none : forall t md e, check_md t md e = ENone <-> e = ENone /\ MdPresent md t.
Proof.
  intros t md e. unfold check_md. destruct md as [|kv md].
  - split; [intro H; split; [exact H | intros k v []] | intros [H _]; exact H].
  - rewrite <- md_ok_iff. destruct (md_ok t (kv :: md)).
    + split; [intro H; split; [exact H | reflexivity] | intros [H _]; exact H].
    + split; [discriminate | intros [_ C]; discriminate].
Qed.

Lemma desc_equal_iff : forall t d, desc_equal t d = true <->
  t_dg t = t_dg d /\ t_sz t = t_sz d /\ t_mt t = t_mt d.
Proof.
  intros t d. unfold desc_equal. rewrite !andb_true_iff, !String.eqb_eq, Z.eqb_eq. tauto.
Qed.

Lemma str_neq_negb : forall a b, negb (String.eqb a b) = false <-> a = b.
Proof. intros a b. rewrite negb_false_iff. apply String.eqb_eq. Qed.

Lemma blob_mismatch_false : forall d t, blob_mismatch d t = false <->
  t_dg t = t_dg d /\ t_sz t = t_sz d /\ (t_mt d <> "" -> t_mt t = t_mt d).
Proof.
  intros d t. unfold blob_mismatch. rewrite !orb_false_iff, andb_false_iff, !negb_false_iff.
  rewrite !String.eqb_eq, Z.eqb_eq. split.
  - intros [[A B] C]. repeat split; auto. intro Hne. destruct C as [C|C]; [contradiction | auto].
  - intros [A [B C]]. repeat split; auto.
    destruct (String.eqb (t_mt d) "") eqn:E; [left; apply String.eqb_eq; exact E|].
    right. symmetry. apply C. intro X. rewrite X in E. discriminate.
Qed.

Lemma bound_iff : forall c e t, bound c e t = true <-> Bound c e t.
Proof.
  intros c e t. destruct c as [d|g|b]; simpl.
  - rewrite !andb_true_iff, !String.eqb_eq, Z.eqb_eq. tauto.
  - destruct (alg_of (e_hash e)) as [a|].
    + destruct (run_gen g a) as [d|] eqn:G.
      * rewrite !andb_true_iff, orb_true_iff, !String.eqb_eq, Z.eqb_eq. split.
        -- intros [[A B] C]. exists a, d. repeat split; auto. intro Hne. destruct C; [contradiction|auto].
        -- intros [a' [d' [Ha [Hg [A [B C]]]]]]. inversion Ha; subst a'. rewrite G in Hg. inversion Hg; subst d'.
           repeat split; auto.
           destruct (String.eqb (t_mt d) "") eqn:E; [left; apply String.eqb_eq; exact E|].
           right. apply C. intro X. rewrite X in E. discriminate.
      * split; [discriminate|]. intros [a' [d' [Ha [Hg _]]]]. inversion Ha; subst a'. rewrite G in Hg. discriminate.
    + split; [discriminate|]. intros [a' [d' [Ha _]]]. discriminate.
  - destruct (alg_of (e_hash e)) as [a|].
    + rewrite !andb_true_iff, orb_true_iff, !String.eqb_eq, Z.eqb_eq. split.
      * intros [[[R A] B] C]. exists a. repeat split; auto. intro Hne. destruct C; [contradiction|auto].
      * intros [a' [Ha [R [A [B C]]]]]. inversion Ha; subst a'. repeat split; auto.
        destruct (String.eqb (b_mt b) "") eqn:E; [left; apply String.eqb_eq; exact E|].
        right. apply C. intro X. rewrite X in E. discriminate.
    + split; [discriminate|]. intros [a' [Ha _]]. discriminate.
Qed.

(* ---------- the common prefix ---------- *)

Lemma prefix_inr : forall l i iact t, is_skip l = false ->
  (prefix l i = inr (iact, t) <->
   Intact (i_env i) /\ i_rest i = true /\ e_decode (i_env i) = Some t /\
   iact = lookup_default "integrity" (snd l)).
Proof.
  intros l i iact t Hs. unfold prefix. rewrite Hs. rewrite <- verify_integrity_none.
  destruct (verify_integrity (i_env i)) as [k|].
  - split; [discriminate | intros [C _]; discriminate].
  - destruct (i_rest i); simpl.
    + destruct (e_decode (i_env i)) as [t'|].
      * split.
        -- intro H. inversion H; subst. repeat split; reflexivity.
        -- intros [_ [_ [E1 E2]]]. inversion E1; subst. reflexivity.
      * split; [discriminate | intros [_ [_ [C _]]]; discriminate].
    + split; [discriminate | intros [_ [C _]]; discriminate].
Qed.

(* when the prefix returns, it returns an error, with the state the property speaks about *)
Lemma prefix_inl : forall l i o, is_skip l = false -> prefix l i = inl o ->
  o_err o <> ENone /\ o_desc o = None /\
  o_out o = Some (o_err o, if intact (i_env i) then 1%N else 0%N) /\
  o_iact o = lookup_default "integrity" (snd l) /\
  (intact (i_env i) = false -> o_touched o = false /\ exists k, verify_integrity (i_env i) = Some k /\ o_err o = EIntegrity k) /\
  (intact (i_env i) = true -> o_touched o = i_rest_touch i /\
                             (i_rest i = false /\ o_err o = ERest \/ i_rest i = true /\ e_decode (i_env i) = None /\ o_err o = EJson)).
Proof.
  intros l i o Hs. unfold prefix. rewrite Hs.
  destruct (intact (i_env i)) eqn:HI.
  - pose proof (proj1 (intact_verify _) HI) as HV. rewrite HV.
    destruct (i_rest i); simpl.
    + destruct (e_decode (i_env i)) as [t|]; [discriminate|].
      intro H. inversion H; subst; simpl.
      split; [discriminate|]. split; [reflexivity|]. split; [reflexivity|]. split; [reflexivity|].
      split; [discriminate|]. intros _. split; [reflexivity|]. right. repeat split; reflexivity.
    + intro H. inversion H; subst; simpl.
      split; [discriminate|]. split; [reflexivity|]. split; [reflexivity|]. split; [reflexivity|].
      split; [discriminate|]. intros _. split; [reflexivity|]. left. split; reflexivity.
  - destruct (verify_integrity (i_env i)) as [k|] eqn:HV.
    + intro H. inversion H; subst; simpl.
      split; [discriminate|]. split; [reflexivity|]. split; [reflexivity|]. split; [reflexivity|].
      split; [|discriminate]. intros _. split; [reflexivity|]. exists k. split; reflexivity.
    + apply intact_verify in HV. congruence.
Qed.

(* ---------- success, characterised ---------- *)

Definition Accepted (i : input) : Prop :=
  Intact (i_env i) /\ i_rest i = true /\ args_ok (i_call i) (i_md i) = true /\
  exists t, e_decode (i_env i) = Some t /\ Bound (i_call i) (i_env i) t /\ MdPresent (i_md i) t.

Lemma verify_oci_success : forall l i d, is_skip l = false ->
  (o_err (verify_oci l i d) = ENone <->
   Intact (i_env i) /\ i_rest i = true /\
   exists t, e_decode (i_env i) = Some t /\ Bound (COCI d) (i_env i) t /\ MdPresent (i_md i) t).
Proof.
  intros l i d Hs. unfold verify_oci.
  destruct (prefix l i) as [o|[iact t]] eqn:P.
  - destruct (prefix_inl _ _ _ Hs P) as [Hne [_ [_ [_ [Hbad Hgood]]]]].
    split; [intro C; contradiction|].
    intros [HI [HR [t [HD _]]]]. exfalso.
    apply intact_iff in HI. destruct (Hgood HI) as [_ [[C _]|[_ [C _]]]]; congruence.
  - apply (prefix_inr _ _ _ _ Hs) in P. destruct P as [HI [HR [HD _]]].
    unfold finish; simpl. rewrite check_md_none. split.
    + intros [E M]. split; [exact HI|]. split; [exact HR|]. exists t. split; [exact HD|]. split; [|exact M].
      destruct (desc_equal t d) eqn:Q; [|discriminate]. apply desc_equal_iff in Q. simpl. tauto.
    + intros [_ [_ [t' [HD' [B M]]]]]. rewrite HD in HD'. inversion HD'; subst t'. split; [|exact M].
      simpl in B. assert (Q : desc_equal t d = true) by (apply desc_equal_iff; tauto). rewrite Q. reflexivity.
Qed.

(* VerifyBlob with any descriptor generator g *)
Lemma verify_blob_success : forall l i g, is_skip l = false ->
  (o_err (verify_blob l i g) = ENone <->
   Intact (i_env i) /\ i_rest i = true /\
   exists t a d, e_decode (i_env i) = Some t /\ alg_of (e_hash (i_env i)) = Some a /\ g a = Some d /\
                 t_dg t = t_dg d /\ t_sz t = t_sz d /\ (t_mt d <> "" -> t_mt t = t_mt d) /\
                 MdPresent (i_md i) t).
Proof.
  intros l i g Hs. unfold verify_blob.
  destruct (prefix l i) as [o|[iact t]] eqn:P.
  - destruct (prefix_inl _ _ _ Hs P) as [Hne [_ [_ [_ [Hbad Hgood]]]]].
    split; [intro C; contradiction|].
    intros [HI [HR [t [a [d [HD _]]]]]]. exfalso.
    apply intact_iff in HI. destruct (Hgood HI) as [_ [[C _]|[_ [C _]]]]; congruence.
  - apply (prefix_inr _ _ _ _ Hs) in P. destruct P as [HI [HR [HD _]]].
    destruct (alg_of (e_hash (i_env i))) as [a|] eqn:A.
    + destruct (g a) as [d|] eqn:G.
      * unfold finish; simpl. rewrite check_md_none. split.
        -- intros [E M]. split; [exact HI|]. split; [exact HR|]. exists t, a, d.
           destruct (blob_mismatch d t) eqn:Q; [discriminate|]. apply blob_mismatch_false in Q.
           destruct Q as [Q1 [Q2 Q3]]. repeat split; auto.
        -- intros [_ [_ [t' [a' [d' [HD' [A' [G' [Q1 [Q2 [Q3 M]]]]]]]]]]].
           rewrite HD in HD'. inversion HD'; subst t'. inversion A'; subst a'. rewrite G in G'. inversion G'; subst d'.
           split; [|exact M].
           assert (Q : blob_mismatch d t = false) by (apply blob_mismatch_false; auto). rewrite Q. reflexivity.
      * simpl. split; [discriminate|].
        intros [_ [_ [t' [a' [d' [_ [A' [G' _]]]]]]]]. inversion A'; subst a'. rewrite G in G'. discriminate.
    + simpl. split; [discriminate|].
      intros [_ [_ [t' [a' [d' [_ [A' _]]]]]]]. discriminate.
Qed.

Lemma verify_blob_shape : forall l i g, is_skip l = false ->
  o_desc (verify_blob l i g) = None /\
  (o_err (verify_blob l i g) = ENone -> o_out (verify_blob l i g) = Some (ENone, 1%N)).
Proof.
  intros l i g Hs. unfold verify_blob.
  destruct (prefix l i) as [o|[iact t]] eqn:P.
  - destruct (prefix_inl _ _ _ Hs P) as [Hne [Hd _]]. split; [exact Hd | intro C; contradiction].
  - destruct (alg_of (e_hash (i_env i))) as [a|]; [destruct (g a) as [d|]|]; unfold finish; simpl;
      (split; [reflexivity | intro E; rewrite E; reflexivity]).
Qed.

Lemma top_gen_some : forall b md a d, top_gen b md a = Some d <->
  b_read_ok b = true /\ exists ann, add_user_metadata [] md = Some ann /\
  d = mk_t (b_mt b) (digest_of b a) (b_size b) ann.
Proof.
  intros b md a d. unfold top_gen. destruct (b_read_ok b); simpl.
  - destruct (add_user_metadata [] md) as [ann|].
    + split.
      * intro H. inversion H; subst. split; [reflexivity|]. exists ann. split; reflexivity.
      * intros [_ [ann' [E1 E2]]]. inversion E1; subst. reflexivity.
    + split; [discriminate | intros [_ [ann' [C _]]]; discriminate].
  - split; [discriminate | intros [C _]; discriminate].
Qed.

Lemma top_success : forall l i b, is_skip l = false ->
  (o_err (notation_verify_blob l i b) = ENone <->
   Intact (i_env i) /\ i_rest i = true /\ args_ok (CTop b) (i_md i) = true /\
   exists t, e_decode (i_env i) = Some t /\ Bound (CTop b) (i_env i) t /\ MdPresent (i_md i) t).
Proof.
  intros l i b Hs. unfold notation_verify_blob, args_ok.
  destruct (b_sig_empty b); simpl.
  { split; [discriminate | intros [_ [_ [C _]]]; discriminate]. }
  destruct (String.eqb (b_mt b) "" || b_mt_valid b) eqn:EM.
  2:{ apply orb_false_iff in EM. destruct EM as [E1 E2]. rewrite E1, E2. simpl.
      split; [discriminate | intros [_ [_ [C _]]]; discriminate]. }
  assert (EM' : negb (String.eqb (b_mt b) "") && negb (b_mt_valid b) = false).
  { apply orb_true_iff in EM. destruct EM as [E|E]; rewrite E; simpl; [reflexivity | apply andb_false_r]. }
  rewrite EM'. simpl.
  destruct (String.eqb (b_sigmt b) media_type_jws || String.eqb (b_sigmt b) media_type_cose); simpl.
  2:{ split; [discriminate | intros [_ [_ [C _]]]; discriminate]. }
  pose proof (verify_blob_success l i (top_gen b (i_md i)) Hs) as VS.
  pose proof (verify_blob_shape l i (top_gen b (i_md i)) Hs) as [_ VO].
  set (V := verify_blob l i (top_gen b (i_md i))) in *.
  assert (K : o_err (match o_err V with
        | ENone =>
            match o_out V with
            | Some (_, 0%N) => mk_o ENone (o_out V) (o_iact V) (Some zero_target) (o_touched V)
            | _ => match e_decode (i_env i) with
                   | None => mk_o EJson None "" None (o_touched V)
                   | Some t => mk_o ENone (o_out V) (o_iact V) (Some t) (o_touched V)
                   end
            end
        | e => mk_o e None "" None (o_touched V)
        end) = ENone <-> o_err V = ENone).
  { destruct (o_err V) eqn:E; simpl; try (split; intro X; discriminate X).
    rewrite (VO eq_refl). simpl.
    destruct (proj1 VS eq_refl) as [_ [_ [t [a [d [HD _]]]]]]. rewrite HD. simpl. tauto. }
  match goal with |- ?L <-> _ => change L with (o_err (match o_err V with
        | ENone =>
            match o_out V with
            | Some (_, 0%N) => mk_o ENone (o_out V) (o_iact V) (Some zero_target) (o_touched V)
            | _ => match e_decode (i_env i) with
                   | None => mk_o EJson None "" None (o_touched V)
                   | Some t => mk_o ENone (o_out V) (o_iact V) (Some t) (o_touched V)
                   end
            end
        | e => mk_o e None "" None (o_touched V)
        end) = ENone) end.
  rewrite K, VS. split.
  - intros [HI [HR [t [a [d [HD [Ha [Hg [Q1 [Q2 [Q3 M]]]]]]]]]]].
    apply top_gen_some in Hg. destruct Hg as [Hr [ann [AU Ed]]]. subst d. simpl in *.
    split; [exact HI|]. split; [exact HR|]. rewrite AU. split; [reflexivity|].
    exists t. split; [exact HD|]. split; [|exact M].
    exists a. repeat split; auto.
  - intros [HI [HR [HA [t [HD [[a [Ha [Hr [Q1 [Q2 Q3]]]]] M]]]]]].
    destruct (add_user_metadata [] (i_md i)) as [ann|] eqn:AU; [|discriminate].
    split; [exact HI|]. split; [exact HR|].
    exists t, a, (mk_t (b_mt b) (digest_of b a) (b_size b) ann).
    split; [exact HD|]. split; [exact Ha|]. split.
    + apply top_gen_some. split; [exact Hr|]. exists ann. split; [exact AU | reflexivity].
    + simpl. repeat split; auto.
Qed.

Definition body (l : string * amap) (i : input) : obs :=
  match i_call i with
  | COCI d => verify_oci l i d
  | CBlob g => verify_blob l i (run_gen g)
  | CTop b => notation_verify_blob l i b
  end.

Lemma model_body : forall i l, get_level (i_level i) (i_override i) = Some l -> model i = body l i.
Proof. intros i l H. unfold model, body. rewrite H. reflexivity. Qed.

Lemma body_success : forall l i, is_skip l = false -> (o_err (body l i) = ENone <-> Accepted i).
Proof.
  intros l i Hs. unfold body, Accepted. destruct (i_call i) as [d|g|b] eqn:C.
  - rewrite (verify_oci_success _ _ _ Hs). simpl. tauto.
  - rewrite (verify_blob_success _ _ _ Hs). simpl. split.
    + intros [HI [HR [t [a [d [HD [Ha [Hg [Q1 [Q2 [Q3 M]]]]]]]]]]].
      split; [exact HI|]. split; [exact HR|]. split; [reflexivity|].
      exists t. split; [exact HD|]. split; [|exact M]. exists a, d. auto.
    + intros [HI [HR [_ [t [HD [[a [d [Ha [Hg [Q1 [Q2 Q3]]]]]] M]]]]]].
      split; [exact HI|]. split; [exact HR|]. exists t, a, d. auto 10.
  - apply (top_success _ _ _ Hs).
Qed.

(* C01_error_sticks / completeness: under a legal non-skip statement, success
   is exactly: intact, rest passes, arguments fine, bound, metadata present *)
Theorem success_iff : forall i, NonSkip (i_level i) (i_override i) ->
  (o_err (model i) = ENone <-> Accepted i).
Proof.
  intros i [l [HL Hs]]. rewrite (model_body _ _ HL). apply body_success. exact Hs.
Qed.

(* ---------- the soundness statements, per entry point ---------- *)

Theorem oci_sound : forall i d, i_call i = COCI d -> NonSkip (i_level i) (i_override i) ->
  o_err (model i) = ENone ->
  Intact (i_env i) /\
  exists t, e_decode (i_env i) = Some t /\
            t_dg t = t_dg d /\ t_sz t = t_sz d /\ t_mt t = t_mt d /\
            (forall k v, In (k, v) (i_md i) -> lookup k (t_ann t) = Some v).
Proof.
  intros i d C NS H. apply (success_iff _ NS) in H.
  destruct H as [HI [_ [_ [t [HD [B M]]]]]]. rewrite C in B. simpl in B.
  split; [exact HI|]. exists t. tauto.
Qed.

Theorem blob_sound : forall i g, i_call i = CBlob g -> NonSkip (i_level i) (i_override i) ->
  o_err (model i) = ENone ->
  Intact (i_env i) /\
  exists t a d, e_decode (i_env i) = Some t /\
            alg_of (e_hash (i_env i)) = Some a /\ run_gen g a = Some d /\
            t_dg t = t_dg d /\ t_sz t = t_sz d /\ (t_mt d <> "" -> t_mt t = t_mt d) /\
            (forall k v, In (k, v) (i_md i) -> lookup k (t_ann t) = Some v).
Proof.
  intros i g C NS H. apply (success_iff _ NS) in H.
  destruct H as [HI [_ [_ [t [HD [B M]]]]]]. rewrite C in B. simpl in B.
  destruct B as [a [d [Ha [Hg [Q1 [Q2 Q3]]]]]].
  split; [exact HI|]. exists t, a, d. auto 10.
Qed.

Theorem top_sound : forall i b, i_call i = CTop b -> NonSkip (i_level i) (i_override i) ->
  o_err (model i) = ENone ->
  Intact (i_env i) /\
  exists t a, e_decode (i_env i) = Some t /\
            alg_of (e_hash (i_env i)) = Some a /\ b_read_ok b = true /\
            t_dg t = digest_of b a /\ t_sz t = b_size b /\ (b_mt b <> "" -> t_mt t = b_mt b) /\
            (forall k v, In (k, v) (i_md i) -> lookup k (t_ann t) = Some v) /\
            o_desc (model i) = Some t.
Proof.
  intros i b C NS H. pose proof H as H0. apply (success_iff _ NS) in H.
  destruct H as [HI [HR [HA [t [HD [B M]]]]]]. rewrite C in B. simpl in B.
  destruct B as [a [Ha [Hr [Q1 [Q2 Q3]]]]].
  split; [exact HI|]. exists t, a. repeat split; auto.
  destruct NS as [l [HL Hs]]. rewrite (model_body _ _ HL) in *. unfold body in *. rewrite C in *.
  unfold notation_verify_blob in *.
  destruct (b_sig_empty b); [discriminate|].
  destruct (negb (String.eqb (b_mt b) "") && negb (b_mt_valid b)); [discriminate|].
  destruct (negb (String.eqb (b_sigmt b) media_type_jws || String.eqb (b_sigmt b) media_type_cose)); [discriminate|].
  pose proof (verify_blob_shape l i (top_gen b (i_md i)) Hs) as [_ VO].
  destruct (o_err (verify_blob l i (top_gen b (i_md i)))) eqn:E; try discriminate.
  rewrite (VO eq_refl). simpl. rewrite HD. reflexivity.
Qed.

(* the error of a descriptor mismatch is not overwritten by a passing metadata check *)
Theorem mismatch_sticks : forall i d t, i_call i = COCI d -> NonSkip (i_level i) (i_override i) ->
  Intact (i_env i) -> i_rest i = true -> e_decode (i_env i) = Some t ->
  o_err (model i) =
    (if md_ok t (i_md i) then (if desc_equal t d then ENone else EMismatch) else EMetadata).
Proof.
  intros i d t C [l [HL Hs]] HI HR HD. rewrite (model_body _ _ HL). unfold body. rewrite C.
  unfold verify_oci.
  assert (P : prefix l i = inr (lookup_default "integrity" (snd l), t)).
  { apply prefix_inr; auto. }
  rewrite P. unfold finish, check_md; simpl.
  destruct (i_md i) as [|kv md]; [reflexivity|]. destruct (md_ok t (kv :: md)); reflexivity.
Qed.

Theorem blob_mismatch_sticks : forall i g t a d, i_call i = CBlob g -> NonSkip (i_level i) (i_override i) ->
  Intact (i_env i) -> i_rest i = true -> e_decode (i_env i) = Some t ->
  alg_of (e_hash (i_env i)) = Some a -> run_gen g a = Some d ->
  o_err (model i) =
    (if md_ok t (i_md i) then (if blob_mismatch d t then EMismatch else ENone) else EMetadata).
Proof.
  intros i g t a d C [l [HL Hs]] HI HR HD HA HG. rewrite (model_body _ _ HL). unfold body. rewrite C.
  unfold verify_blob.
  assert (P : prefix l i = inr (lookup_default "integrity" (snd l), t)).
  { apply prefix_inr; auto. }
  rewrite P, HA, HG. unfold finish, check_md; simpl.
  destruct (i_md i) as [|kv md]; [reflexivity|]. destruct (md_ok t (kv :: md)); reflexivity.
Qed.

(* ---------- integrity first ---------- *)

Lemma body_not_intact : forall l i k, is_skip l = false -> verify_integrity (i_env i) = Some k ->
  o_touched (body l i) = false /\ o_err (body l i) <> ENone /\
  (o_err (body l i) = EIntegrity k /\ o_out (body l i) = Some (EIntegrity k, 0%N) \/
   o_out (body l i) = None /\ exists b, i_call i = CTop b /\ (o_err (body l i) = EIntegrity k \/ o_err (body l i) = EArg)).
Proof.
  intros l i k Hs HV.
  assert (P : prefix l i = inl (mk_o (EIntegrity k) (Some (EIntegrity k, 0%N)) (lookup_default "integrity" (snd l)) None false)).
  { unfold prefix. rewrite Hs, HV. reflexivity. }
  unfold body. destruct (i_call i) as [d|g|b].
  - unfold verify_oci. rewrite P. simpl. repeat split; [discriminate | left; split; reflexivity].
  - unfold verify_blob. rewrite P. simpl. repeat split; [discriminate | left; split; reflexivity].
  - unfold notation_verify_blob, verify_blob. rewrite P. simpl.
    destruct (b_sig_empty b); simpl.
    { repeat split; [discriminate | right; split; [reflexivity|]; exists b; split; [reflexivity | right; reflexivity]]. }
    destruct (negb (String.eqb (b_mt b) "") && negb (b_mt_valid b)); simpl.
    { repeat split; [discriminate | right; split; [reflexivity|]; exists b; split; [reflexivity | right; reflexivity]]. }
    destruct (negb (String.eqb (b_sigmt b) media_type_jws || String.eqb (b_sigmt b) media_type_cose)); simpl.
    { repeat split; [discriminate | right; split; [reflexivity|]; exists b; split; [reflexivity | right; reflexivity]]. }
    repeat split; [discriminate | right; split; [reflexivity|]; exists b; split; [reflexivity | left; reflexivity]].
Qed.

Theorem integrity_first : forall i, NonSkip (i_level i) (i_override i) -> ~ Intact (i_env i) ->
  o_err (model i) <> ENone /\ o_touched (model i) = false /\
  (forall c, o_out (model i) = Some (o_err (model i), c) -> c = 0%N) /\
  (forall d, i_call i = COCI d -> exists k, o_err (model i) = EIntegrity k) /\
  (forall g, i_call i = CBlob g -> exists k, o_err (model i) = EIntegrity k).
Proof.
  intros i [l [HL Hs]] HN. rewrite (model_body _ _ HL).
  destruct (verify_integrity (i_env i)) as [k|] eqn:HV.
  2:{ exfalso. apply HN. apply verify_integrity_none. exact HV. }
  destruct (body_not_intact l i k Hs HV) as [HT [HE HO]].
  split; [exact HE|]. split; [exact HT|]. split; [|split].
  - intros c Hc. destruct HO as [[E O]|[O _]]; rewrite O in Hc; [|discriminate].
    inversion Hc; reflexivity.
  - intros d C. destruct HO as [[E O]|[O [b [C' _]]]]; [exists k; exact E | congruence].
  - intros g C. destruct HO as [[E O]|[O [b [C' _]]]]; [exists k; exact E | congruence].
Qed.

(* ---------- no configuration rescues a bad envelope / artifact / metadata ---------- *)

Definition Facts (i : input) : Prop :=
  Intact (i_env i) /\
  exists t, e_decode (i_env i) = Some t /\ Bound (i_call i) (i_env i) t /\ MdPresent (i_md i) t.

Theorem no_configuration_helps : forall i lvl ov rest touch,
  ~ Facts i ->
  o_err (model (reconfig i lvl ov rest touch)) = ENone ->
  lvl = "skip".
Proof.
  intros i lvl ov rest touch HF H.
  destruct (get_level lvl ov) as [l|] eqn:HL.
  - destruct (is_skip l) eqn:Hs.
    + apply (skip_iff_named _ _ _ HL). exact Hs.
    + exfalso. apply HF.
      assert (NS : NonSkip (i_level (reconfig i lvl ov rest touch)) (i_override (reconfig i lvl ov rest touch))).
      { exists l. split; assumption. }
      apply (success_iff _ NS) in H. destruct H as [HI [_ [_ HT]]]. split; assumption.
  - unfold model in H. simpl in H. rewrite HL in H. discriminate.
Qed.

(* ---------- the outcome ---------- *)

Lemma body_outcome : forall l i, is_skip l = false ->
  (forall e c, o_out (body l i) = Some (e, c) ->
     e = o_err (body l i) /\ o_iact (body l i) = lookup_default "integrity" (snd l) /\
     (o_err (body l i) = ENone -> c = 1%N)).
Proof.
  intros l i Hs e c. unfold body.
  assert (OCI : forall d, o_out (verify_oci l i d) = Some (e, c) ->
     e = o_err (verify_oci l i d) /\ o_iact (verify_oci l i d) = lookup_default "integrity" (snd l) /\
     (o_err (verify_oci l i d) = ENone -> c = 1%N)).
  { intros d. unfold verify_oci. destruct (prefix l i) as [o|[iact t]] eqn:P.
    - destruct (prefix_inl _ _ _ Hs P) as [Hne [_ [Ho [Hi _]]]]. rewrite Ho. intro H. inversion H; subst.
      repeat split; auto. intro C. contradiction.
    - apply (prefix_inr _ _ _ _ Hs) in P. destruct P as [_ [_ [_ Hi]]]. unfold finish; simpl.
      intro H. inversion H; subst. repeat split; auto. }
  assert (BLOB : forall g, o_out (verify_blob l i g) = Some (e, c) ->
     e = o_err (verify_blob l i g) /\ o_iact (verify_blob l i g) = lookup_default "integrity" (snd l) /\
     (o_err (verify_blob l i g) = ENone -> c = 1%N)).
  { intros g. unfold verify_blob. destruct (prefix l i) as [o|[iact t]] eqn:P.
    - destruct (prefix_inl _ _ _ Hs P) as [Hne [_ [Ho [Hi _]]]]. rewrite Ho. intro H. inversion H; subst.
      repeat split; auto. intro C. contradiction.
    - apply (prefix_inr _ _ _ _ Hs) in P. destruct P as [_ [_ [_ Hi]]].
      destruct (alg_of (e_hash (i_env i))) as [a|]; [destruct (g a) as [d|]|]; unfold finish; simpl;
        intro H; inversion H; subst; repeat split; auto; discriminate. }
  destruct (i_call i) as [d|g|b]; [apply OCI | apply BLOB |].
  unfold notation_verify_blob.
  destruct (b_sig_empty b); simpl; [discriminate|].
  destruct (negb (String.eqb (b_mt b) "") && negb (b_mt_valid b)); simpl; [discriminate|].
  destruct (negb (String.eqb (b_sigmt b) media_type_jws || String.eqb (b_sigmt b) media_type_cose)); simpl; [discriminate|].
  pose proof (verify_blob_shape l i (top_gen b (i_md i)) Hs) as [_ VO].
  specialize (BLOB (top_gen b (i_md i))).
  destruct (o_err (verify_blob l i (top_gen b (i_md i)))) eqn:E; simpl; try discriminate.
  rewrite (VO eq_refl) in *. simpl.
  destruct (e_decode (i_env i)) as [t|]; simpl; [|discriminate].
  intro H. destruct (BLOB H) as [B1 [B2 B3]]. repeat split; auto.
Qed.

Theorem outcome_consistent : forall i e c, NonSkip (i_level i) (i_override i) ->
  o_out (model i) = Some (e, c) ->
  e = o_err (model i) /\ o_iact (model i) = "enforce" /\ (o_err (model i) = ENone -> c = 1%N).
Proof.
  intros i e c [l [HL Hs]] H. rewrite (model_body _ _ HL) in *.
  destruct (body_outcome l i Hs e c H) as [A [B C]].
  split; [exact A|]. split; [|exact C]. rewrite B. eapply integrity_enforced; eassumption.
Qed.

(* ---------- the boolean oracle is met by the model ---------- *)

Theorem model_spec_ok : forall i, wf i = true -> spec_ok i (model i) = true.
Proof.
  intros i _. unfold spec_ok.
  destruct (get_level (i_level i) (i_override i)) as [l|] eqn:HL.
  2:{ unfold model. rewrite HL. reflexivity. }
  destruct (is_skip l) eqn:Hs; [reflexivity|].
  assert (NS : NonSkip (i_level i) (i_override i)) by (exists l; split; assumption).
  apply andb_true_iff. split; [apply andb_true_iff; split|].
  - destruct (is_success (model i)) eqn:S; [|reflexivity].
    apply is_success_iff in S. pose proof S as S0.
    apply (success_iff _ NS) in S. destruct S as [HI [HR [HA [t [HD [B M]]]]]].
    rewrite (proj2 (intact_iff _) HI), HD, (proj2 (bound_iff _ _ _) B), (proj2 (md_present_iff _ _) M). simpl.
    assert (OUT : o_out (model i) = Some (ENone, 1%N)).
    { rewrite (model_body _ _ HL) in *. unfold body in *.
      destruct (i_call i) as [d|g|b] eqn:C.
      - unfold verify_oci in *. destruct (prefix l i) as [o|[iact t']] eqn:P.
        + destruct (prefix_inl _ _ _ Hs P) as [Hne _]. contradiction.
        + unfold finish in *. simpl in *. rewrite S0. reflexivity.
      - apply (verify_blob_shape l i (run_gen g) Hs). exact S0.
      - unfold notation_verify_blob in *.
        destruct (b_sig_empty b); [discriminate|].
        destruct (negb (String.eqb (b_mt b) "") && negb (b_mt_valid b)); [discriminate|].
        destruct (negb (String.eqb (b_sigmt b) media_type_jws || String.eqb (b_sigmt b) media_type_cose)); [discriminate|].
        pose proof (verify_blob_shape l i (top_gen b (i_md i)) Hs) as [_ VO].
        destruct (o_err (verify_blob l i (top_gen b (i_md i)))) eqn:E; try discriminate.
        rewrite (VO eq_refl) in *. simpl. rewrite HD. simpl. reflexivity. }
    rewrite OUT. simpl.
    destruct (is_top (i_call i)) eqn:T; [|reflexivity].
    destruct (i_call i) as [d|g|b] eqn:C; try discriminate.
    destruct (top_sound i b C NS S0) as [_ [t' [a [HD' [_ [_ [_ [_ [_ [_ OD]]]]]]]]]].
    rewrite HD in HD'. inversion HD'; subst t'. rewrite OD. simpl.
    unfold target_eqb. rewrite !String.eqb_refl, Z.eqb_refl. simpl.
    assert (LE : list_eqb pair_eqb (t_ann t) (t_ann t) = true).
    { apply list_eqb_spec; [|reflexivity].
      intros [a1 b1] [a2 b2]. unfold pair_eqb. simpl. rewrite andb_true_iff, !String.eqb_eq.
      split; [intros [-> ->]; reflexivity | intro X; inversion X; auto]. }
    rewrite LE. reflexivity.
  - destruct (intact (i_env i)) eqn:HI; [reflexivity|].
    assert (HN : ~ Intact (i_env i)) by (intro X; apply intact_iff in X; congruence).
    destruct (integrity_first i NS HN) as [HE [HT _]].
    rewrite HT. simpl. rewrite andb_true_r. apply negb_true_iff.
    destruct (is_success (model i)) eqn:S; [apply is_success_iff in S; contradiction | reflexivity].
  - destruct (o_out (model i)) as [[e c]|] eqn:O; [|reflexivity].
    destruct (outcome_consistent i e c NS O) as [_ [B _]]. rewrite B. reflexivity.
Qed.

(* ---------- the statement without a hypothesis on the level ---------- *)

(* an illegal statement verifies nothing: no verifier exists *)
Theorem illegal_statement : forall i, get_level (i_level i) (i_override i) = None ->
  model i = mk_o EPolicy None "" None false.
Proof. intros i H. unfold model. rewrite H. reflexivity. Qed.

Lemma get_level_skip_no_override : forall ov l, get_level "skip" ov = Some l -> ov = [].
Proof.
  intros ov l H. destruct (get_level_base _ _ _ H) as [base [_ [[Hov _]|[_ [Hns _]]]]].
  - exact Hov.
  - exfalso. apply Hns. reflexivity.
Qed.

(* every success: either the statement is the skip level (without override), or
   the statement is legal, not skip, and the envelope is accepted on its merits *)
Theorem success_cases : forall i, o_err (model i) = ENone ->
  (i_level i = "skip" /\ i_override i = []) \/
  (NonSkip (i_level i) (i_override i) /\ Accepted i).
Proof.
  intros i H. destruct (get_level (i_level i) (i_override i)) as [l|] eqn:HL.
  - destruct (is_skip l) eqn:Hs.
    + left. pose proof (proj1 (skip_iff_named _ _ _ HL) Hs) as E. split; [exact E|].
      rewrite E in HL. eapply get_level_skip_no_override; eassumption.
    + right. assert (NS : NonSkip (i_level i) (i_override i)) by (exists l; split; assumption).
      split; [exact NS|]. apply (success_iff _ NS). exact H.
  - rewrite (illegal_statement _ HL) in H. discriminate.
Qed.

(* what the skip level returns: nothing is consulted, no integrity result, no
   envelope content, and (notation.VerifyBlob) the zero descriptor *)
Theorem skip_verifies_nothing : forall i, i_level i = "skip" -> i_override i = [] ->
  o_touched (model i) = false /\ o_iact (model i) = "" /\
  (forall e c, o_out (model i) = Some (e, c) -> e = ENone /\ c = 0%N) /\
  (forall t, o_desc (model i) = Some t -> t = zero_target).
Proof.
  intros i HL HO. unfold model. rewrite HL, HO.
  destruct (get_level "skip" []) as [l|] eqn:G; [|vm_compute in G; discriminate].
  assert (Hs : is_skip l = true) by (apply (skip_iff_named _ _ _ G); reflexivity).
  assert (P : prefix l i = inl (mk_o ENone (Some (ENone, 0%N)) "" None false)).
  { unfold prefix. rewrite Hs. reflexivity. }
  assert (K : forall o, o = mk_o ENone (Some (ENone, 0%N)) "" None false ->
    o_touched o = false /\ o_iact o = "" /\
    (forall e c, o_out o = Some (e, c) -> e = ENone /\ c = 0%N) /\
    (forall t, o_desc o = Some t -> t = zero_target)).
  { intros o ->. simpl. split; [reflexivity|]. split; [reflexivity|]. split.
    - intros e c X. inversion X. split; reflexivity.
    - intros t X. discriminate. }
  assert (KA : forall o, o = mk_o EArg None "" None false ->
    o_touched o = false /\ o_iact o = "" /\
    (forall e c, o_out o = Some (e, c) -> e = ENone /\ c = 0%N) /\
    (forall t, o_desc o = Some t -> t = zero_target)).
  { intros o ->. simpl. split; [reflexivity|]. split; [reflexivity|]. split.
    - intros e c X. discriminate.
    - intros t X. discriminate. }
  destruct (i_call i) as [d|g|b].
  - apply K. unfold verify_oci. rewrite P. reflexivity.
  - apply K. unfold verify_blob. rewrite P. reflexivity.
  - unfold notation_verify_blob, verify_blob. rewrite P. simpl.
    destruct (b_sig_empty b); simpl; [exact (KA _ eq_refl)|].
    destruct (negb (String.eqb (b_mt b) "") && negb (b_mt_valid b)); simpl; [exact (KA _ eq_refl)|].
    destruct (negb (String.eqb (b_sigmt b) media_type_jws || String.eqb (b_sigmt b) media_type_cose)); simpl;
      [exact (KA _ eq_refl)|].
    split; [reflexivity|]. split; [reflexivity|]. split.
    + intros e c X. inversion X. split; reflexivity.
    + intros t X. inversion X. reflexivity.
Qed.

(* ---------- no configuration helps, with the override ---------- *)

Theorem no_configuration_helps_strong : forall i lvl ov rest touch,
  ~ Facts i ->
  o_err (model (reconfig i lvl ov rest touch)) = ENone ->
  lvl = "skip" /\ ov = [].
Proof.
  intros i lvl ov rest touch HF H.
  destruct (success_cases _ H) as [[E1 E2]|[_ [HI [_ [_ HT]]]]].
  - simpl in E1, E2. split; assumption.
  - exfalso. apply HF. split; assumption.
Qed.

(* the three named ways of being wrong, one by one, under every configuration *)

Theorem tampered_rejected : forall i lvl ov rest touch, lvl <> "skip" ->
  (e_parse (i_env i) = false \/ e_verify (i_env i) <> VOk \/ e_ctype (i_env i) <> media_type_payload_v1) ->
  o_err (model (reconfig i lvl ov rest touch)) <> ENone.
Proof.
  intros i lvl ov rest touch Hn Hbad H.
  assert (HF : ~ Facts i).
  { intros [[A [B C]] _]. destruct Hbad as [X|[X|X]]; [congruence | contradiction | contradiction]. }
  destruct (no_configuration_helps_strong _ _ _ _ _ HF H) as [E _]. contradiction.
Qed.

Theorem other_artifact_rejected : forall i lvl ov rest touch t, lvl <> "skip" ->
  e_decode (i_env i) = Some t -> ~ Bound (i_call i) (i_env i) t ->
  o_err (model (reconfig i lvl ov rest touch)) <> ENone.
Proof.
  intros i lvl ov rest touch t Hn HD HB H.
  assert (HF : ~ Facts i).
  { intros [_ [t' [HD' [B _]]]]. rewrite HD in HD'. inversion HD'; subst t'. contradiction. }
  destruct (no_configuration_helps_strong _ _ _ _ _ HF H) as [E _]. contradiction.
Qed.

Theorem missing_metadata_rejected : forall i lvl ov rest touch k v, lvl <> "skip" ->
  In (k, v) (i_md i) ->
  (forall t, e_decode (i_env i) = Some t -> lookup k (t_ann t) <> Some v) ->
  o_err (model (reconfig i lvl ov rest touch)) <> ENone.
Proof.
  intros i lvl ov rest touch k v Hn Hin Hmiss H.
  assert (HF : ~ Facts i).
  { intros [_ [t [HD [_ M]]]]. apply (Hmiss t HD). apply M. exact Hin. }
  destruct (no_configuration_helps_strong _ _ _ _ _ HF H) as [E _]. contradiction.
Qed.

(* ---------- notation.VerifyBlob: the error when both post-checks are reached ---------- *)

Theorem top_mismatch_sticks : forall i b t a ann, i_call i = CTop b -> NonSkip (i_level i) (i_override i) ->
  args_ok (CTop b) (i_md i) = true -> b_read_ok b = true -> add_user_metadata [] (i_md i) = Some ann ->
  Intact (i_env i) -> i_rest i = true -> e_decode (i_env i) = Some t ->
  alg_of (e_hash (i_env i)) = Some a ->
  o_err (model i) =
    (if md_ok t (i_md i)
     then (if blob_mismatch (mk_t (b_mt b) (digest_of b a) (b_size b) ann) t then EMismatch else ENone)
     else EMetadata).
Proof.
  intros i b t a ann C [l [HL Hs]] HA HR HU HI HRest HD HAlg.
  rewrite (model_body _ _ HL). unfold body. rewrite C.
  unfold args_ok in HA. apply andb_true_iff in HA. destruct HA as [HA _].
  apply andb_true_iff in HA. destruct HA as [HA A3]. apply andb_true_iff in HA. destruct HA as [A1 A2].
  unfold notation_verify_blob.
  apply negb_true_iff in A1. rewrite A1.
  assert (EM' : negb (String.eqb (b_mt b) "") && negb (b_mt_valid b) = false).
  { apply orb_true_iff in A2. destruct A2 as [E|E]; rewrite E; simpl; [reflexivity | apply andb_false_r]. }
  rewrite EM', A3. simpl.
  assert (P : prefix l i = inr (lookup_default "integrity" (snd l), t)).
  { apply prefix_inr; auto. }
  assert (G : top_gen b (i_md i) a = Some (mk_t (b_mt b) (digest_of b a) (b_size b) ann)).
  { apply top_gen_some. split; [exact HR|]. exists ann. split; [exact HU | reflexivity]. }
  unfold verify_blob. rewrite P, HAlg, G. unfold finish, check_md. simpl.
  set (d := mk_t (b_mt b) (digest_of b a) (b_size b) ann).
  destruct (i_md i) as [|kv md].
  - simpl. destruct (blob_mismatch d t); simpl; [reflexivity|]. rewrite HD. reflexivity.
  - destruct (md_ok t (kv :: md)); simpl; [|reflexivity].
    destruct (blob_mismatch d t); simpl; [reflexivity|]. rewrite HD. reflexivity.
Qed.
