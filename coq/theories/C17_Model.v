(* C17_Model.v — plugin processes are contained. Definitions only.
   Mirrors
     plugin/plugin.go            run, execCommander.Output, GetMetadata, validate,
                                 the four other commands, NewCLIPlugin
     plugin/proto/errors.go      RequestError.UnmarshalJSON (completeness rule)
     internal/io/limitedwriter.go LimitedWriter.Write
   and a timed transition model of what os/exec documents for
   CommandContext + WaitDelay (part (c); a model of the Go runtime and the OS,
   tied to reality only by the timing experiments of the harness).
   and the loop of io.Copy over LimitWriter(&bytes.Buffer, cap) (the wiring of
   execCommander.Output: how the cap on both streams turns into an executor error).
   Oracle inputs (outside /repo): what encoding/json makes of the captured
   stdout for the response type of the command (decodes? decoded metadata
   fields) and of the captured stderr for plugin.Error (decodes? code, message,
   metadata map: nil, or its entries sorted by key). *)
From NV Require Import Base Generated.

(* ================================================================== *)
(* (b) LimitedWriter.Write as a state machine over any underlying writer *)
(* ================================================================== *)

(* one call of the underlying writer W.Write(p'): it reports [u_n] bytes
   written (a well-behaved io.Writer reports 0 <= n <= len p') and maybe an
   error *)
Record ureply := mk_ureply { u_n : Z; u_err : bool }.

Inductive werr := WNil | WLimit | WUnder.      (* nil / ErrLimitExceeded / W's error *)

Record wres := mk_wres {
  w_n : Z;                 (* first result of Write *)
  w_err : werr;            (* second result of Write *)
  w_offered : option Z }.  (* length of the slice handed to W.Write; None = W not called *)

(* func (l *LimitedWriter) Write(p []byte) (int, error)
   state: l.N (remaining); [len] = len(p); [under] = what W answers when it is
   offered k bytes *)
Definition lw_write (remaining : Z) (len : Z) (under : Z -> ureply) : Z * wres :=
  if (remaining <=? 0)%Z then (remaining, mk_wres 0 WLimit None)      (* if l.N <= 0 *)
  else
    let k := if (len >? remaining)%Z then remaining else len in       (* p = p[:l.N] *)
    let r := under k in                                               (* n, err := l.W.Write(p) *)
    ((remaining - u_n r)%Z,                                           (* l.N -= int64(n) *)
     mk_wres (u_n r) (if u_err r then WUnder else WNil) (Some k)).

(* a sequence of writes: (len p, behaviour of W on this call) *)
Fixpoint lw_run (remaining : Z) (ws : list (Z * (Z -> ureply))) : list wres :=
  match ws with
  | [] => []
  | (len, under) :: ws' =>
      let '(rem', r) := lw_write remaining len under in
      r :: lw_run rem' ws'
  end.

(* final remaining count (for the invariant) *)
Fixpoint lw_final (remaining : Z) (ws : list (Z * (Z -> ureply))) : Z :=
  match ws with
  | [] => remaining
  | (len, under) :: ws' => lw_final (fst (lw_write remaining len under)) ws'
  end.

(* bytes the underlying writer took over a run *)
Definition accepted (rs : list wres) : Z :=
  fold_right (fun r a => (match w_offered r with Some _ => w_n r | None => 0 end + a)%Z) 0%Z rs.
Definition offered (rs : list wres) : Z :=
  fold_right (fun r a => (match w_offered r with Some k => k | None => 0 end + a)%Z) 0%Z rs.

(* scripted underlying writer of the harness: takes min(a, offered) bytes *)
Definition scripted (a : Z) (e : bool) : Z -> ureply :=
  fun k => mk_ureply (if (a <? k)%Z then a else k) e.

Record winput := mk_winput {
  wi_limit : Z;
  wi_writes : list (Z * Z * bool) }.     (* (len p, bytes W accepts at most, W errs) *)

Definition wscript (ws : list (Z * Z * bool)) : list (Z * (Z -> ureply)) :=
  map (fun x => let '(len, a, e) := x in (len, scripted a e)) ws.

Definition model_w (i : winput) : list wres := lw_run (wi_limit i) (wscript (wi_writes i)).

(* ================================================================== *)
(* (b') the wiring of execCommander.Output: io.Copy from the pipe of   *)
(*      the plugin into LimitWriter(&bytes.Buffer, cap)                *)
(* ================================================================== *)

(* bytes.Buffer.Write: takes everything it is offered, never fails *)
Definition buffer_w : Z -> ureply := fun k => mk_ureply k false.

Inductive cerr := CNil | CShort | CLimit | CUnder.   (* nil / io.ErrShortWrite / ErrLimitExceeded / W's error *)

Record cres := mk_cres {
  c_written : Z;       (* first result of io.Copy = bytes the buffer holds *)
  c_err : cerr;        (* second result of io.Copy *)
  c_left : Z;          (* l.N afterwards *)
  c_reads : N }.       (* chunks io.Copy took from the pipe before it stopped *)

(* io.Copy(dst, src), the documented loop of copyBuffer: every Read delivers a
   chunk of nr > 0 bytes (the last one is followed by EOF);
     nw, ew := dst.Write(buf[0:nr]); written += nw;
     if ew != nil { err = ew; break }; if nr != nw { err = ErrShortWrite; break }
   [dst] is the LimitedWriter with [remaining] bytes left over a bytes.Buffer. *)
Fixpoint copy_loop (remaining written : Z) (reads : N) (chunks : list Z) : cres :=
  match chunks with
  | [] => mk_cres written CNil remaining reads                         (* EOF *)
  | nr :: cs =>
      let '(rem', r) := lw_write remaining nr buffer_w in
      let written' := (written + w_n r)%Z in
      match w_err r with
      | WLimit => mk_cres written' CLimit rem' (reads + 1)
      | WUnder => mk_cres written' CUnder rem' (reads + 1)
      | WNil => if (w_n r =? nr)%Z then copy_loop rem' written' (reads + 1) cs
                else mk_cres written' CShort rem' (reads + 1)
      end
  end.

Record cinput := mk_cinput { ci_limit : Z; ci_chunks : list Z }.

Definition model_c (i : cinput) : cres := copy_loop (ci_limit i) 0 0 (ci_chunks i).

Definition zsum (l : list Z) : Z := fold_right Z.add 0%Z l.

(* ================================================================== *)
(* (c) timed transition model of exec.CommandContext(...).Run()        *)
(* ================================================================== *)

Inductive time := Fin (t : N) | Never.

Definition tle (a b : time) : bool :=
  match a, b with
  | _, Never => true
  | Never, Fin _ => false
  | Fin x, Fin y => (x <=? y)%N
  end.
Definition tlt (a b : time) : bool := negb (tle b a).
Definition tmax (a b : time) : time := if tle a b then b else a.
Definition tmin (a b : time) : time := if tle a b then a else b.
Definition tadd (a : time) (d : N) : time :=
  match a with Fin x => Fin (x + d) | Never => Never end.

(* what the plugin process and its descendants do (times from the start of the call) *)
Record beh := mk_beh {
  b_exit : time;       (* when the process exits if nobody kills it *)
  b_desc : time;       (* until when descendants keep the stdout/stderr pipes open
                          (Fin 0 = no descendant; a kill of the plugin does not reach them) *)
  b_lat : N }.         (* latency between the kill request and the death of the process
                          (SIGKILL cannot be caught: finite) *)

(* how the host runs it *)
Record hostcfg := mk_hostcfg {
  h_ctx : bool;              (* exec.CommandContext (true) or exec.Command (false) *)
  h_done : time;             (* when the context is cancelled or expires *)
  h_delay : option N }.      (* cmd.WaitDelay; None = zero value = wait for the pipes for ever *)

Definition killed (h : hostcfg) (b : beh) : bool := h_ctx h && tlt (h_done h) (b_exit b).

(* death of the process: by itself, or [b_lat] after the kill request if that
   comes first *)
Definition t_end (h : hostcfg) (b : beh) : time :=
  if killed h b then tmin (b_exit b) (tadd (h_done h) (b_lat b)) else b_exit b.

(* the last write end of the pipes is closed *)
Definition t_pipes (h : hostcfg) (b : beh) : time := tmax (t_end h b) (b_desc b).

(* the moment Wait stops waiting for the copying goroutines: WaitDelay after the
   context was done (if that is what ended the process), else after the exit *)
Definition t_io_deadline (h : hostcfg) (b : beh) : time :=
  match h_delay h with
  | None => Never
  | Some d => if killed h b then tadd (h_done h) d else tadd (t_end h b) d
  end.

(* cmd.Run returns when the process is dead and (the pipes are closed or the
   I/O deadline has passed) *)
Definition t_return (h : hostcfg) (b : beh) : time :=
  tmax (t_end h b) (tmin (t_pipes h b) (t_io_deadline h b)).

(* Wait gave up on the pipes (exec.ErrWaitDelay) *)
Definition io_expired (h : hostcfg) (b : beh) : bool :=
  tlt (t_io_deadline h b) (t_pipes h b).

(* ================================================================== *)
(* (a) CLIPlugin: run + metadata validation                            *)
(* ================================================================== *)

Inductive cmd := GetMetadata | DescribeKey | GenerateSignature | GenerateEnvelope | VerifySignature.

Definition cmd_arg (c : cmd) : string :=
  match c with
  | GetMetadata => "get-plugin-metadata"
  | DescribeKey => "describe-key"
  | GenerateSignature => "generate-signature"
  | GenerateEnvelope => "generate-envelope"
  | VerifySignature => "verify-signature"
  end.

Definition is_metadata (c : cmd) : bool := match c with GetMetadata => true | _ => false end.

Inductive fkind := FExec | FNoExec | FMissing | FDir.

(* plugin.GetMetadataResponse as decoded by encoding/json *)
Record meta := mk_meta {
  m_name : string; m_desc : string; m_ver : string; m_url : string;
  m_caps : list string; m_cvs : list string }.

(* json.Unmarshal(stdout, resp) for the response type of the command *)
Inductive sout := SBad | SGood (m : meta).   (* m is meaningful for get-plugin-metadata only *)

(* json.Unmarshal(stderr, &plugin.Error{}) on the captured stderr *)
(* errorMetadata: None = nil map (absent or null), Some l = the map, sorted by key *)
Inductive serr := ENotJson | EJson (code msg : string) (md : option amap).

Definition is_none {A} (o : option A) : bool := match o with None => true | Some _ => false end.

Definition contract_version : string := "1.0".     (* plugin.ContractVersion, framework constant *)
Definition cap : N := gen_max_plugin_output.       (* maxPluginOutputSize, from the source *)
Definition plugin_wait_delay : N := 5000.          (* pluginWaitDelay = 5 s, in ms *)

Record pinput := mk_pinput {
  i_cmd : cmd;
  i_name : string;           (* name given to NewCLIPlugin *)
  i_base : string;           (* base name of the path given to NewCLIPlugin
                                (CLIManager.Get and Install pass notation-<name>) *)
  i_file : fkind;
  i_exit : N;                (* exit code of the stub when it exits by itself *)
  i_sleep : N;               (* ms the stub stays alive after writing its output *)
  i_desc : option N;         (* a descendant keeps the pipes open until this time (ms) *)
  i_deadline : option N;     (* the context is done at this time (ms) *)
  i_stdout_len : N;          (* bytes the stub writes to stdout *)
  i_stdout : sout;           (* oracle: decoding of those bytes (when within the cap) *)
  i_stderr_len : N;          (* bytes the stub writes to stderr *)
  i_stderr : serr;           (* oracle: decoding of the first min(len, cap) bytes *)
  i_bound : N;               (* the call must have returned by this time (ms) *)
  (* the request side (stdin of the plugin). NOTHING below reads these three
     fields: the time by which the call returns, and its result, do not depend
     on how large the request is, on whether the plugin drains its stdin, or on
     a descendant keeping the inherited stdin open (Audit.frame_stdin). *)
  i_request_large : bool;    (* the serialized request exceeds the 64 KiB pipe buffer *)
  i_reads_stdin : bool;      (* the plugin reads its stdin to EOF *)
  i_child_holds_stdin : bool (* the descendant of i_desc also holds the stdin read end *) }.

Inductive result :=
| ROk
| RReq (code msg : string) (md : option amap)   (* proto.RequestError: Code, Err, Metadata *)
| RExec                        (* *PluginExecutableFileError *)
| RMalformed (why : N)         (* *PluginMalformedError: 0 stderr not a structured error,
                                  8 response does not decode, 1..7 metadata rule *)
| RName                        (* name mismatch *)
| RNew                         (* NewCLIPlugin refused the file *)
| ROther.

Record pobs := mk_pobs {
  p_result : result;
  p_in_time : bool;              (* returned no later than i_bound *)
  p_argv : option string }.      (* argv[1] the stub saw; None = it never ran *)

(* validate(metadata): first failing rule, 0 = none *)
Definition validate (m : meta) : N :=
  if String.eqb (m_name m) "" then 1
  else if String.eqb (m_desc m) "" then 2
  else if String.eqb (m_ver m) "" then 3
  else if String.eqb (m_url m) "" then 4
  else match m_caps m with [] => 5 | _ =>
       match m_cvs m with [] => 6 | _ =>
       if mem_str contract_version (m_cvs m) then 0 else 7 end end.

(* RequestError.UnmarshalJSON + the caller in run *)
Definition stderr_result (e : serr) : result :=
  match e with
  | ENotJson => RMalformed 0
  | EJson code msg md =>
      if String.eqb code "" && String.eqb msg "" && is_none md then RMalformed 0   (* "incomplete json" *)
      else RReq code msg md                    (* RequestError{Code, Err: message, Metadata} *)
  end.

(* plugin.BinaryPrefix + name (manager_unix.go binName) *)
Definition bin_name (name : string) : string := "notation-" ++ name.

Definition opt_time (o : option N) : time := match o with Some t => Fin t | None => Never end.

Definition host_of (i : pinput) : hostcfg :=
  mk_hostcfg true (opt_time (i_deadline i)) (Some plugin_wait_delay).
Definition beh_of (i : pinput) : beh :=
  mk_beh (Fin (i_sleep i)) (match i_desc i with Some t => Fin t | None => Fin 0 end) 0.

(* cmd.Start starts a process: the file can be executed and the context is not
   already done when the call is made (Start returns ctx.Err() before forking) *)
Definition ctx_done_at_call (i : pinput) : bool :=
  match i_deadline i with Some 0%N => true | _ => false end.
Definition started (i : pinput) : bool :=
  match i_file i with FExec => negb (ctx_done_at_call i) | _ => false end.

(* len(stderr) the host holds after the call: nothing when no process ran,
   else what the copy into the LimitedWriter let through *)
Definition captured_stderr (i : pinput) : N :=
  if started i then N.min (i_stderr_len i) cap else 0.

(* execCommander.Output returned err != nil *)
Definition exec_failed (i : pinput) : bool :=
  negb (started i)
  || killed (host_of i) (beh_of i)
  || negb (i_exit i =? 0)%N
  || (cap <? i_stdout_len i)%N           (* copy error of the stdout goroutine / SIGPIPE *)
  || (cap <? i_stderr_len i)%N           (* copy error of the stderr goroutine / SIGPIPE *)
  || io_expired (host_of i) (beh_of i).  (* exec.ErrWaitDelay *)

(* func run(...) error, followed by the command-specific part *)
Definition run_result (i : pinput) : result :=
  if exec_failed i then
    if (captured_stderr i =? 0)%N then RExec                 (* len(stderr) == 0 *)
    else stderr_result (i_stderr i)
  else
    match i_stdout i with
    | SBad => RMalformed 8
    | SGood m =>
        if is_metadata (i_cmd i) then
          match validate m with
          | 0%N => if String.eqb (m_name m) (i_name i) then ROk else RName
          | k => RMalformed k
          end
        else ROk
    end.

Definition model_p (i : pinput) : pobs :=
  match i_file i with
  | FMissing | FDir => mk_pobs RNew true None
  | _ =>
      mk_pobs (run_result i)
              (tle (t_return (host_of i) (beh_of i)) (Fin (i_bound i)))
              (if started i then Some (cmd_arg (i_cmd i)) else None)
  end.

(* ================================================================== *)
(* cases                                                               *)
(* ================================================================== *)

Inductive input := IProc (i : pinput) | IWriter (i : winput) | ICopy (i : cinput).
Inductive obs := OProc (o : pobs) | OWriter (o : list wres) | OCopy (o : cres) (buffered : Z).

Definition model (i : input) : obs :=
  match i with
  | IProc p => OProc (model_p p)
  | IWriter w => OWriter (model_w w)
  | ICopy c => let r := model_c c in OCopy r (c_written r)     (* buffer.Len() = bytes written *)
  end.

(* ---------- boolean equalities ---------- *)
Definition pair_eqb (a b : string * string) : bool :=
  String.eqb (fst a) (fst b) && String.eqb (snd a) (snd b).
Definition md_eqb (a b : option amap) : bool := opt_eqb (list_eqb pair_eqb) a b.
Definition result_eqb (a b : result) : bool :=
  match a, b with
  | ROk, ROk | RExec, RExec | RName, RName | RNew, RNew | ROther, ROther => true
  | RReq c m d, RReq c' m' d' => String.eqb c c' && String.eqb m m' && md_eqb d d'
  | RMalformed k, RMalformed k' => (k =? k')%N
  | _, _ => false
  end.

Definition pobs_eqb (a b : pobs) : bool :=
  result_eqb (p_result a) (p_result b) && Bool.eqb (p_in_time a) (p_in_time b)
  && opt_eqb String.eqb (p_argv a) (p_argv b).

Definition werr_eqb (a b : werr) : bool :=
  match a, b with WNil, WNil | WLimit, WLimit | WUnder, WUnder => true | _, _ => false end.

Definition wres_eqb (a b : wres) : bool :=
  (w_n a =? w_n b)%Z && werr_eqb (w_err a) (w_err b) && opt_eqb Z.eqb (w_offered a) (w_offered b).

Definition cerr_eqb (a b : cerr) : bool :=
  match a, b with CNil, CNil | CShort, CShort | CLimit, CLimit | CUnder, CUnder => true | _, _ => false end.

Definition cres_eqb (a b : cres) : bool :=
  (c_written a =? c_written b)%Z && cerr_eqb (c_err a) (c_err b) && (c_left a =? c_left b)%Z
  && (c_reads a =? c_reads b)%N.

Definition obs_eqb (a b : obs) : bool :=
  match a, b with
  | OProc x, OProc y => pobs_eqb x y
  | OWriter x, OWriter y => list_eqb wres_eqb x y
  | OCopy x bx, OCopy y by_ => cres_eqb x y && (bx =? by_)%Z
  | _, _ => false
  end.

(* ---------- the property oracle, on observations only ---------- *)

Definition meta_ok (name : string) (m : meta) : bool :=
  negb (String.eqb (m_name m) "") && negb (String.eqb (m_desc m) "")
  && negb (String.eqb (m_ver m) "") && negb (String.eqb (m_url m) "")
  && negb (match m_caps m with [] => true | _ => false end)
  && negb (match m_cvs m with [] => true | _ => false end)
  && mem_str contract_version (m_cvs m)
  && String.eqb (m_name m) name.

(* the process did not exit successfully (or never ran) *)
Definition failing (i : pinput) : bool :=
  match i_file i with FExec => false | _ => true end
  || ctx_done_at_call i
  || (match i_deadline i with Some d => (d <? i_sleep i)%N | None => false end)
  || negb (i_exit i =? 0)%N.

Definition success_allowed (i : pinput) : bool :=
  negb (failing i) && (i_stdout_len i <=? cap)%N
  && match i_stdout i with
     | SBad => false
     | SGood m => if is_metadata (i_cmd i) then meta_ok (i_name i) m else true
     end.

(* which error a failing process must produce: the plugin's own structured
   error when the captured stderr holds one (at least one field), a typed
   executable-file / malformed-plugin error otherwise *)
Definition typed_error (r : result) : bool :=
  match r with RExec | RMalformed _ => true | _ => false end.

Definition error_kind_ok (i : pinput) (r : result) : bool :=
  if (N.min (i_stderr_len i) cap =? 0)%N then typed_error r
  else match i_stderr i with
       | ENotJson => typed_error r
       | EJson code msg md =>
           if String.eqb code "" && String.eqb msg "" && is_none md
           then typed_error r
           else match r with
                | RReq c m d => String.eqb c code && String.eqb m msg && md_eqb d md
                | _ => false
                end
       end.

(* [p_argv o] is what the plugin process itself recorded: None = no process ran.
   A process that ran was given the command of the call; a call whose process
   never ran printed nothing, so its error is a typed one; a success needs a
   process that ran. *)
Definition spec_p (i : pinput) (o : pobs) : bool :=
  p_in_time o
  && match p_argv o with Some a => String.eqb a (cmd_arg (i_cmd i)) | None => true end
  && match i_file i with
     | FMissing | FDir => match p_result o with ROk => false | _ => true end
     | _ =>
         if failing i then
           match p_argv o with
           | None => typed_error (p_result o)
           | Some _ => error_kind_ok i (p_result o)
           end
         else match p_result o with
              | ROk => success_allowed i && negb (is_none (p_argv o))
              | ROther => false
              | _ => true
              end
     end.

(* writer oracle: walks the observed results with the remaining budget *)
Fixpoint spec_w_aux (remaining : Z) (lens : list Z) (rs : list wres) : bool :=
  match lens, rs with
  | [], [] => true
  | len :: lens', r :: rs' =>
      if (remaining <=? 0)%Z then
        (* exhausted: limit error, nothing handed over *)
        match w_err r, w_offered r with
        | WLimit, None => (w_n r =? 0)%Z && spec_w_aux remaining lens' rs'
        | _, _ => false
        end
      else
        match w_offered r with
        | None => false
        | Some k =>
            (* never more than the remaining budget is handed over, and the
               reported count is what a well-behaved W took of it *)
            (k =? Z.min len remaining)%Z
            && (0 <=? w_n r)%Z && (w_n r <=? k)%Z
            && negb (werr_eqb (w_err r) WLimit)
            && spec_w_aux (remaining - w_n r) lens' rs'
        end
  | _, _ => false
  end.

Definition spec_w (i : winput) (rs : list wres) : bool :=
  spec_w_aux (wi_limit i) (map (fun x => fst (fst x)) (wi_writes i)) rs
  && (accepted rs <=? Z.max 0 (wi_limit i))%Z.

(* copy oracle: the buffer never holds more than the limit; the copy fails
   exactly when the plugin printed more than the limit, and then the buffer
   holds exactly the limit; otherwise it holds everything *)
Definition spec_c (i : cinput) (r : cres) (buffered : Z) : bool :=
  let total := zsum (ci_chunks i) in
  let L := Z.max 0 (ci_limit i) in
  (buffered <=? L)%Z && (buffered =? c_written r)%Z
  && (if (L <? total)%Z then negb (cerr_eqb (c_err r) CNil) && (buffered =? L)%Z
      else cerr_eqb (c_err r) CNil && (buffered =? total)%Z).

Definition spec_ok (i : input) (o : obs) : bool :=
  match i, o with
  | IProc p, OProc q => spec_p p q
  | IWriter w, OWriter rs => spec_w w rs
  | ICopy c, OCopy r b => spec_c c r b
  | _, _ => false
  end.

(* ---------- the input contract ---------- *)
(* process cases: the time bound handed to the harness is at least
   min(context done, own exit) + WaitDelay; writer cases: lengths are lengths *)
Definition wf_p (i : pinput) : bool :=
  (match i_deadline i with
   | Some d => (N.min d (i_sleep i) + plugin_wait_delay <=? i_bound i)%N
   | None => (i_sleep i + plugin_wait_delay <=? i_bound i)%N
   end).

Definition wf_w (i : winput) : bool :=
  forallb (fun x => let '(len, a, _) := x in (0 <=? len)%Z && (0 <=? a)%Z) (wi_writes i).

(* copy cases: io.Copy writes only what a Read delivered: nr > 0 *)
Definition wf_c (i : cinput) : bool := forallb (fun nr => (0 <? nr)%Z) (ci_chunks i).

Definition wf (i : input) : bool :=
  match i with IProc p => wf_p p | IWriter w => wf_w w | ICopy c => wf_c c end.

Record case := mk_case { c_id : N; c_in : input; c_obs : obs }.

(* compact printing of writer observations: k < 0 means W was not called *)
Definition wr (n : Z) (e : werr) (k : Z) : wres :=
  mk_wres n e (if (k <? 0)%Z then None else Some k).

Definition run (cs : list case) : list (N * N * N) :=
  run_cases c_id
    (fun c => obs_eqb (model (c_in c)) (c_obs c))
    (fun c => negb (wf (c_in c)) || spec_ok (c_in c) (c_obs c))
    (fun _ => 0%N) cs.
