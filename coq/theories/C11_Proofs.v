(* C11_Proofs.v — lemmas and proofs about C11_Model (SignOCI over a heap of maps). *)
From NV Require Import Base Generated C11_Model.
Open Scope string_scope.

(* ================= maps ================= *)

Lemma str_eqb_refl : forall s, String.eqb s s = true.
Proof. intros s. apply String.eqb_eq. reflexivity. Qed.

Lemma lookup_mset_eq : forall k v m, lookup k (mset k v m) = Some v.
Proof.
  intros k v m. induction m as [|[k' v'] m IH]; cbn.
  - rewrite str_eqb_refl. reflexivity.
  - destruct (String.eqb k k') eqn:E; cbn.
    + rewrite str_eqb_refl. reflexivity.
    + rewrite E. exact IH.
Qed.

Lemma lookup_mset_neq : forall k v m x, x <> k -> lookup x (mset k v m) = lookup x m.
Proof.
  intros k v m x Hx. induction m as [|[k' v'] m IH]; cbn.
  - destruct (String.eqb x k) eqn:E; [apply String.eqb_eq in E; contradiction | reflexivity].
  - destruct (String.eqb k k') eqn:E; cbn.
    + apply String.eqb_eq in E. subst k'.
      destruct (String.eqb x k) eqn:E2; [apply String.eqb_eq in E2; contradiction | reflexivity].
    + rewrite IH. reflexivity.
Qed.

Lemma lookup_mset : forall k v m x,
  lookup x (mset k v m) = if String.eqb x k then Some v else lookup x m.
Proof.
  intros k v m x. destruct (String.eqb x k) eqn:E.
  - apply String.eqb_eq in E. subst x. apply lookup_mset_eq.
  - apply lookup_mset_neq. intros ->. rewrite str_eqb_refl in E. discriminate.
Qed.

Lemma mset_idem : forall k v m, lookup k m = Some v -> mset k v m = m.
Proof.
  intros k v m. induction m as [|[k' v'] m IH]; cbn; intros H.
  - discriminate.
  - destruct (String.eqb k k') eqn:E.
    + apply String.eqb_eq in E. subst k'. inversion H. reflexivity.
    + rewrite IH by exact H. reflexivity.
Qed.

Lemma mem_str_In : forall x l, mem_str x l = true <-> In x l.
Proof.
  intros x l. unfold mem_str. rewrite existsb_exists. split.
  - intros [y [Hy E]]. apply String.eqb_eq in E. subst y. exact Hy.
  - intros H. exists x. split; [exact H | apply str_eqb_refl].
Qed.

Lemma keys_mset : forall k v m x,
  In x (map fst (mset k v m)) <-> x = k \/ In x (map fst m).
Proof.
  intros k v m x. induction m as [|[k' v'] m IH]; cbn.
  - split; [intros [H|[]]; auto | intros [H|[]]; auto].
  - destruct (String.eqb k k') eqn:E; cbn.
    + apply String.eqb_eq in E. subst k'. split; intros [H|H]; auto.
    + rewrite IH. split; intros H; intuition auto.
Qed.

Lemma nodup_mset : forall k v m,
  nodup_str (map fst m) = true -> nodup_str (map fst (mset k v m)) = true.
Proof.
  intros k v m. induction m as [|[k' v'] m IH]; cbn; intros H.
  - reflexivity.
  - apply andb_true_iff in H. destruct H as [H1 H2].
    destruct (String.eqb k k') eqn:E; cbn.
    + apply String.eqb_eq in E. subst k'. rewrite H1, H2. reflexivity.
    + rewrite IH by exact H2. rewrite andb_true_r.
      apply negb_true_iff. apply negb_true_iff in H1.
      destruct (mem_str k' (map fst (mset k v m))) eqn:M; [|reflexivity].
      apply mem_str_In in M. apply keys_mset in M. destruct M as [M|M].
      * subst k'. rewrite str_eqb_refl in E. discriminate.
      * apply mem_str_In in M. congruence.
Qed.

Lemma lookup_In_keys : forall k m, lookup k m <> None <-> In k (map fst m).
Proof.
  intros k m. induction m as [|[k' v'] m IH]; cbn.
  - split; [congruence | intros []].
  - destruct (String.eqb k k') eqn:E.
    + apply String.eqb_eq in E. subst k'. split; [auto | congruence].
    + rewrite IH. split; [auto | intros [H|H]; [subst k'; rewrite str_eqb_refl in E; discriminate | exact H]].
Qed.

Lemma lookup_app : forall k a b,
  lookup k (a ++ b)%list = match lookup k a with Some v => Some v | None => lookup k b end.
Proof.
  intros k a b. induction a as [|[k' v'] a IH]; cbn; [reflexivity|].
  destruct (String.eqb k k'); [reflexivity | exact IH].
Qed.

Lemma lookup_remove_key_neq : forall k x m, x <> k -> lookup x (remove_key k m) = lookup x m.
Proof.
  intros k x m Hx. induction m as [|[k' v'] m IH]; cbn; [reflexivity|].
  destruct (String.eqb k k') eqn:E.
  - apply String.eqb_eq in E. subst k'.
    destruct (String.eqb x k) eqn:E2; [apply String.eqb_eq in E2; contradiction | exact IH].
  - cbn. destruct (String.eqb x k'); [reflexivity | exact IH].
Qed.

(* the iteration order does not change the map *)
Lemma lookup_entries : forall f m x, lookup x (entries f m) = lookup x m.
Proof.
  intros [k|] m x; cbn; [|reflexivity].
  destruct (lookup k m) as [v|] eqn:L; [|reflexivity].
  cbn. destruct (String.eqb x k) eqn:E.
  - apply String.eqb_eq in E. subst x. symmetry. exact L.
  - apply lookup_remove_key_neq. intros ->. rewrite str_eqb_refl in E. discriminate.
Qed.

Lemma keys_entries : forall f m x, In x (map fst (entries f m)) <-> In x (map fst m).
Proof.
  intros f m x. rewrite <- !lookup_In_keys. rewrite lookup_entries. tauto.
Qed.

Lemma keys_remove_key : forall k m x, In x (map fst (remove_key k m)) <-> x <> k /\ In x (map fst m).
Proof.
  intros k m x. induction m as [|[k' v'] m IH]; cbn; [tauto|].
  destruct (String.eqb k k') eqn:E.
  - apply String.eqb_eq in E. subst k'. rewrite IH. split; [tauto|]. intros [H1 [H2|H2]]; [congruence | tauto].
  - cbn. rewrite IH. split.
    + intros [H|H]; [subst k'; split; [intros ->; rewrite str_eqb_refl in E; discriminate | auto] | tauto].
    + tauto.
Qed.

Lemma nodup_remove_key : forall k m,
  nodup_str (map fst m) = true -> nodup_str (map fst (remove_key k m)) = true.
Proof.
  intros k m. induction m as [|[k' v'] m IH]; cbn; intros H; [reflexivity|].
  apply andb_true_iff in H. destruct H as [H1 H2].
  destruct (String.eqb k k'); [exact (IH H2)|].
  cbn. rewrite IH by exact H2. rewrite andb_true_r.
  apply negb_true_iff. apply negb_true_iff in H1.
  destruct (mem_str k' (map fst (remove_key k m))) eqn:M; [|reflexivity].
  apply mem_str_In in M. apply keys_remove_key in M. destruct M as [_ M].
  apply mem_str_In in M. congruence.
Qed.

Lemma nodup_entries : forall f m,
  nodup_str (map fst m) = true -> nodup_str (map fst (entries f m)) = true.
Proof.
  intros [k|] m H; cbn; [|exact H].
  destruct (lookup k m) as [v|]; [|exact H].
  cbn. rewrite nodup_remove_key by exact H. rewrite andb_true_r.
  apply negb_true_iff. destruct (mem_str k (map fst (remove_key k m))) eqn:M; [|reflexivity].
  apply mem_str_In in M. apply keys_remove_key in M. destruct M as [M _]. congruence.
Qed.

(* ---------- map equivalence ---------- *)

Lemma opt_str_eqb_refl : forall o : option string, opt_eqb String.eqb o o = true.
Proof. intros [s|]; cbn; [apply str_eqb_refl | reflexivity]. Qed.

Lemma opt_str_eqb_eq : forall a b : option string, opt_eqb String.eqb a b = true <-> a = b.
Proof.
  intros [a|] [b|]; cbn; split; intros H; try discriminate; try reflexivity.
  - apply String.eqb_eq in H. congruence.
  - inversion H. apply str_eqb_refl.
Qed.

Lemma amap_eqv_ext : forall a b, (forall k, lookup k a = lookup k b) -> amap_eqv a b = true.
Proof.
  intros a b H. unfold amap_eqv, sub_map. apply andb_true_iff. split; apply forallb_forall; intros kv _.
  - rewrite H. apply opt_str_eqb_refl.
  - rewrite H. apply opt_str_eqb_refl.
Qed.

Lemma amap_eqv_sound : forall a b, amap_eqv a b = true -> forall k, lookup k a = lookup k b.
Proof.
  intros a b H k. unfold amap_eqv, sub_map in H. apply andb_true_iff in H. destruct H as [H1 H2].
  rewrite forallb_forall in H1, H2.
  destruct (lookup k a) as [v|] eqn:La.
  - assert (In k (map fst a)) as Hin by (apply lookup_In_keys; congruence).
    apply in_map_iff in Hin. destruct Hin as [[k0 v0] [E Hin]]. cbn in E. subst k0.
    specialize (H1 _ Hin). cbn in H1. apply opt_str_eqb_eq in H1. congruence.
  - destruct (lookup k b) as [v|] eqn:Lb; [|reflexivity].
    assert (In k (map fst b)) as Hin by (apply lookup_In_keys; congruence).
    apply in_map_iff in Hin. destruct Hin as [[k0 v0] [E Hin]]. cbn in E. subst k0.
    specialize (H2 _ Hin). cbn in H2. apply opt_str_eqb_eq in H2. congruence.
Qed.

Lemma amap_eqv_refl : forall a, amap_eqv a a = true.
Proof. intros a. apply amap_eqv_ext. reflexivity. Qed.

(* ================= the heap ================= *)

Lemma hget_hupd_eq : forall a m h, hget a h <> None -> hget a (hupd a m h) = Some m.
Proof.
  intros a m h. induction h as [|[a' m'] h IH]; cbn; intros H; [congruence|].
  destruct (a =? a')%N eqn:E; cbn; rewrite E; [reflexivity | exact (IH H)].
Qed.

Lemma hget_hupd_neq : forall a b m h, b <> a -> hget b (hupd a m h) = hget b h.
Proof.
  intros a b m h Hb. induction h as [|[a' m'] h IH]; cbn; [reflexivity|].
  destruct (a =? a')%N eqn:E; cbn.
  - apply N.eqb_eq in E. subst a'. destruct (b =? a)%N eqn:E2; [apply N.eqb_eq in E2; contradiction | reflexivity].
  - destruct (b =? a')%N; [reflexivity | exact IH].
Qed.

Lemma hupd_same : forall a m h, hget a h = Some m -> hupd a m h = h.
Proof.
  intros a m h. induction h as [|[a' m'] h IH]; cbn; intros H; [reflexivity|].
  destruct (a =? a')%N eqn:E.
  - apply N.eqb_eq in E. subst a'. inversion H. reflexivity.
  - rewrite IH by exact H. reflexivity.
Qed.

Lemma hupd_none : forall a m h, hget a h = None -> hupd a m h = h.
Proof.
  intros a m h. induction h as [|[a' m'] h IH]; cbn; intros H; [reflexivity|].
  destruct (a =? a')%N eqn:E; [discriminate|]. rewrite IH by exact H. reflexivity.
Qed.

Lemma hupd_hupd : forall a m1 m2 h, hupd a m2 (hupd a m1 h) = hupd a m2 h.
Proof.
  intros a m1 m2 h. induction h as [|[a' m'] h IH]; cbn; [reflexivity|].
  destruct (a =? a')%N eqn:E; cbn; rewrite E; [reflexivity | rewrite IH; reflexivity].
Qed.

Lemma addrs_hupd : forall a m h, map fst (hupd a m h) = map fst h.
Proof.
  intros a m h. induction h as [|[a' m'] h IH]; cbn; [reflexivity|].
  destruct (a =? a')%N eqn:E; cbn; [apply N.eqb_eq in E; subst; reflexivity | rewrite IH; reflexivity].
Qed.

Lemma hread_hupd_eq : forall a m h, hget a h <> None -> hread a (hupd a m h) = m.
Proof. intros. unfold hread. rewrite hget_hupd_eq by assumption. reflexivity. Qed.

Lemma hread_hupd_neq : forall a b m h, b <> a -> hread b (hupd a m h) = hread b h.
Proof. intros. unfold hread. rewrite hget_hupd_neq by assumption. reflexivity. Qed.

Lemma wf_heap_hget : forall h a m, wf_heap h = true -> hget a h = Some m -> nodup_str (map fst m) = true.
Proof.
  intros h a m. induction h as [|[a' m'] h IH]; cbn; intros W H; [discriminate|].
  apply andb_true_iff in W. destruct W as [W1 W2].
  destruct (a =? a')%N; [inversion H; subst; exact W1 | exact (IH W2 H)].
Qed.

Lemma wf_heap_hread : forall h a, wf_heap h = true -> nodup_str (map fst (hread a h)) = true.
Proof.
  intros h a W. unfold hread. destruct (hget a h) eqn:E; [exact (wf_heap_hget _ _ _ W E) | reflexivity].
Qed.

Lemma wf_heap_hupd : forall h a m, wf_heap h = true -> nodup_str (map fst m) = true -> wf_heap (hupd a m h) = true.
Proof.
  intros h a m. induction h as [|[a' m'] h IH]; cbn; intros W Hm; [reflexivity|].
  apply andb_true_iff in W. destruct W as [W1 W2].
  destruct (a =? a')%N; cbn.
  - rewrite Hm, W2. reflexivity.
  - rewrite W1. cbn. apply IH; assumption.
Qed.

(* ================= addUserMetadataToDescriptor (the code now) ================= *)

(* the loop on a map nobody else holds *)
Fixpoint add_pure (es m : amap) : amap * option res :=
  match es with
  | [] => (m, None)
  | (k, v) :: es' =>
      if reserved k then (m, Some EMetaReserved)
      else match lookup k m with
           | Some _ => (m, Some EMetaPresent)
           | None => add_pure es' (mset k v m)
           end
  end.

Lemma add_loop_fresh : forall es h m,
  add_loop es h (AFresh m) = (h, AFresh (fst (add_pure es m)), snd (add_pure es m)).
Proof.
  induction es as [|[k v] es IH]; intros h m; cbn; [reflexivity|].
  destruct (reserved k); [reflexivity|].
  destruct (lookup k m); [reflexivity|]. apply IH.
Qed.

Lemma add_meta_false : forall h r es,
  add_meta false h r es =
  match es with
  | [] => (h, r, None)
  | _ => (h, AFresh (fst (add_pure es (aread r h))), snd (add_pure es (aread r h)))
  end.
Proof.
  intros h r [|e es]; [reflexivity|]. unfold add_meta. apply add_loop_fresh.
Qed.

Lemma add_meta_false_heap : forall h r es h' r' e, add_meta false h r es = (h', r', e) -> h' = h.
Proof.
  intros h r es h' r' e H. rewrite add_meta_false in H. destruct es; inversion H; reflexivity.
Qed.

Lemma add_pure_class : forall es m e, snd (add_pure es m) = Some e -> e = EMetaReserved \/ e = EMetaPresent.
Proof.
  induction es as [|[k v] es IH]; intros m e; cbn; [discriminate|].
  destruct (reserved k); [cbn; intros H; inversion H; auto|].
  destruct (lookup k m); [cbn; intros H; inversion H; auto|]. apply IH.
Qed.

Definition union_lookup (a b : amap) (k : string) : option string :=
  match lookup k a with Some v => Some v | None => lookup k b end.

Lemma add_pure_ok : forall es m,
  snd (add_pure es m) = None ->
  (forall k, In k (map fst es) -> reserved k = false /\ lookup k m = None)
  /\ nodup_str (map fst es) = true
  /\ (forall x, lookup x (fst (add_pure es m)) = union_lookup m es x).
Proof.
  induction es as [|[k v] es IH]; intros m; cbn.
  - intros _. split; [intros k []|]. split; [reflexivity|]. intros x. unfold union_lookup. destruct (lookup x m); reflexivity.
  - destruct (reserved k) eqn:R; [discriminate|].
    destruct (lookup k m) eqn:L; [discriminate|]. intros H.
    destruct (IH _ H) as [A [B C]]. split; [|split].
    + intros k0 [E|Hin]; [subst k0; auto|].
      destruct (A _ Hin) as [A1 A2]. split; [exact A1|].
      rewrite lookup_mset in A2. destruct (String.eqb k0 k); [discriminate | exact A2].
    + rewrite B, andb_true_r. apply negb_true_iff.
      destruct (mem_str k (map fst es)) eqn:M; [|reflexivity].
      apply mem_str_In in M. destruct (A _ M) as [_ A2]. rewrite lookup_mset_eq in A2. discriminate.
    + intros x. rewrite C. unfold union_lookup. cbn. rewrite lookup_mset.
      destruct (String.eqb x k) eqn:E; [|reflexivity].
      apply String.eqb_eq in E. subst x. rewrite L. reflexivity.
Qed.

Lemma add_pure_reserved : forall es m k,
  In k (map fst es) -> reserved k = true -> snd (add_pure es m) <> None.
Proof.
  induction es as [|[k0 v] es IH]; intros m k; cbn; [intros []|].
  intros [E|Hin] R.
  - subst k0. rewrite R. cbn. discriminate.
  - destruct (reserved k0); [cbn; discriminate|].
    destruct (lookup k0 m); [cbn; discriminate|]. exact (IH _ _ Hin R).
Qed.

Lemma add_pure_present : forall es m k,
  In k (map fst es) -> lookup k m <> None -> snd (add_pure es m) <> None.
Proof.
  induction es as [|[k0 v] es IH]; intros m k; cbn; [intros []|].
  intros [E|Hin] P.
  - subst k0. destruct (reserved k); [cbn; discriminate|].
    destruct (lookup k m); [cbn; discriminate | congruence].
  - destruct (reserved k0); [cbn; discriminate|].
    destruct (lookup k0 m) eqn:L; [cbn; discriminate|].
    apply (IH _ _ Hin). rewrite lookup_mset. destruct (String.eqb k k0); [discriminate | exact P].
Qed.

Lemma add_pure_complete : forall es m,
  nodup_str (map fst es) = true ->
  (forall k, In k (map fst es) -> reserved k = false /\ lookup k m = None) ->
  snd (add_pure es m) = None.
Proof.
  induction es as [|[k v] es IH]; intros m N A; cbn; [reflexivity|].
  cbn in N. apply andb_true_iff in N. destruct N as [N1 N2].
  destruct (A k (or_introl eq_refl)) as [R L]. rewrite R, L.
  apply IH; [exact N2|]. intros k0 Hin. destruct (A k0 (or_intror Hin)) as [R0 L0]. split; [exact R0|].
  rewrite lookup_mset. destruct (String.eqb k0 k) eqn:E; [|exact L0].
  apply String.eqb_eq in E. subst k0. apply negb_true_iff in N1.
  apply mem_str_In in Hin. congruence.
Qed.

Lemma add_pure_reserved_inv : forall es m,
  snd (add_pure es m) = Some EMetaReserved -> exists k, In k (map fst es) /\ reserved k = true.
Proof.
  induction es as [|[k v] es IH]; intros m; cbn; [discriminate|].
  destruct (reserved k) eqn:R; [intros _; exists k; auto|].
  destruct (lookup k m); [cbn; discriminate|].
  intros H. destruct (IH _ H) as [k0 [A B]]. exists k0. auto.
Qed.

Lemma add_pure_present_inv : forall es m,
  nodup_str (map fst es) = true ->
  snd (add_pure es m) = Some EMetaPresent -> exists k, In k (map fst es) /\ lookup k m <> None.
Proof.
  induction es as [|[k v] es IH]; intros m N; cbn; [discriminate|].
  cbn in N. apply andb_true_iff in N. destruct N as [N1 N2].
  destruct (reserved k) eqn:R; [cbn; discriminate|].
  destruct (lookup k m) eqn:L; [intros _; exists k; split; [auto | congruence]|].
  intros H. destruct (IH _ N2 H) as [k0 [A B]]. exists k0. split; [auto|].
  rewrite lookup_mset in B. destruct (String.eqb k0 k) eqn:E; [|exact B].
  apply String.eqb_eq in E. subst k0. apply negb_true_iff in N1. apply mem_str_In in A. congruence.
Qed.

(* ================= generateAnnotations ================= *)

Lemma k_created_neq_thumb : String.eqb k_created k_thumb = false.
Proof. reflexivity. Qed.

Lemma k_thumb_neq_created : String.eqb k_thumb k_created = false.
Proof. reflexivity. Qed.

Definition two_ann (js c : string) : amap := [(k_thumb, js); (k_created, c)].

Lemma gen_ann_fresh : forall h si p,
  (forall a, p <> PAMap a) ->
  gen_ann h (Some si) p =
  match si_time si with
  | None => (h, inl EAnnTime)
  | Some t => (h, inr (AFresh (two_ann (json_strs (si_chain si)) (rfc3339 t))))
  end.
Proof.
  intros h si p Hp. unfold gen_ann.
  assert (match p with PAMap a => AShared a | _ => AFresh [] end = AFresh []) as ->.
  { destruct p; try reflexivity. exfalso. exact (Hp a eq_refl). }
  cbn. destruct (si_time si); reflexivity.
Qed.

Lemma gen_ann_map : forall h si a,
  hget a h <> None ->
  gen_ann h (Some si) (PAMap a) =
  let m1 := mset k_thumb (json_strs (si_chain si)) (hread a h) in
  match si_time si with
  | None => (hupd a m1 h, inl EAnnTime)
  | Some t => (hupd a (mset k_created (rfc3339 t) m1) h, inr (AShared a))
  end.
Proof.
  intros h si a Ha. unfold gen_ann. cbn. destruct (si_time si); [|reflexivity].
  rewrite hread_hupd_eq by exact Ha. rewrite hupd_hupd. reflexivity.
Qed.

(* the heap after generateAnnotations differs at most at the signer's map *)
Lemma gen_ann_frame : forall h info p h2 x,
  gen_ann h info p = (h2, x) ->
  map fst h2 = map fst h
  /\ (forall b, p <> PAMap b -> hget b h2 = hget b h)
  /\ ((forall a, p <> PAMap a) -> h2 = h).
Proof.
  intros h [si|] p h2 x H.
  2:{ cbn in H. inversion H. auto. }
  destruct p as [| |a].
  1,2: rewrite gen_ann_fresh in H by (intros a; discriminate);
       destruct (si_time si); inversion H; auto.
  unfold gen_ann in H. cbn in H.
  destruct (si_time si).
  - inversion H. subst h2. rewrite !addrs_hupd. split; [reflexivity|]. split.
    + intros b Hb. assert (b <> a) by congruence. rewrite !hget_hupd_neq by assumption. reflexivity.
    + intros Hp. exfalso. exact (Hp a eq_refl).
  - inversion H. subst h2. rewrite !addrs_hupd. split; [reflexivity|]. split.
    + intros b Hb. assert (b <> a) by congruence. rewrite !hget_hupd_neq by assumption. reflexivity.
    + intros Hp. exfalso. exact (Hp a eq_refl).
Qed.

Lemma wf_heap_awrite : forall k v h r h' r',
  wf_heap h = true -> awrite k v h r = (h', r') -> wf_heap h' = true.
Proof.
  intros k v h [|a|m] h' r' W H; cbn in H; inversion H; subst; try exact W.
  apply wf_heap_hupd; [exact W|]. apply nodup_mset. apply wf_heap_hread. exact W.
Qed.

Lemma wf_heap_gen_ann : forall h info p h2 x,
  wf_heap h = true -> gen_ann h info p = (h2, x) -> wf_heap h2 = true.
Proof.
  intros h [si|] p h2 x W H; [|cbn in H; inversion H; subst; exact W].
  unfold gen_ann in H.
  destruct (awrite k_thumb (json_strs (si_chain si)) h match p with PAMap a => AShared a | _ => AFresh [] end) as [h1 r1] eqn:E1.
  pose proof (wf_heap_awrite _ _ _ _ _ _ W E1) as W1.
  destruct (si_time si); [|inversion H; subst; exact W1].
  destruct (awrite k_created (rfc3339 z) h1 r1) as [h3 r3] eqn:E2.
  inversion H. subst. exact (wf_heap_awrite _ _ _ _ _ _ W1 E2).
Qed.
