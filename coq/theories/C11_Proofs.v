(* C11_Proofs.v — lemmas and proofs about C11_Model (SignOCI over a heap of maps). *)
From NV Require Import Base Generated C11_Model.
Open Scope string_scope.

Arguments reserved : simpl never.
Arguments rfc3339 : simpl never.
Arguments json_strs : simpl never.

(* ================= maps ================= *)

Lemma str_eqb_refl : forall s, String.eqb s s = true.
Proof. intros s. apply String.eqb_eq. reflexivity. Qed.

Lemma lookup_mset_eq : forall k v m, lookup k (mset k v m) = Some v.
Proof.
  intros k v m. induction m as [|[k' v'] m IH]; cbn.
  - rewrite str_eqb_refl. reflexivity.
  - destruct (String.eqb k k') eqn:E; cbn.
    + rewrite str_eqb_refl. reflexivity.
    + rewrite E. exact IH.
Qed.

Lemma lookup_mset_neq : forall k v m x, x <> k -> lookup x (mset k v m) = lookup x m.
Proof.
  intros k v m x Hx. induction m as [|[k' v'] m IH]; cbn.
  - destruct (String.eqb x k) eqn:E; [apply String.eqb_eq in E; contradiction | reflexivity].
  - destruct (String.eqb k k') eqn:E; cbn.
    + apply String.eqb_eq in E. subst k'.
      destruct (String.eqb x k) eqn:E2; [apply String.eqb_eq in E2; contradiction | reflexivity].
    + rewrite IH. reflexivity.
Qed.

Lemma lookup_mset : forall k v m x,
  lookup x (mset k v m) = if String.eqb x k then Some v else lookup x m.
Proof.
  intros k v m x. destruct (String.eqb x k) eqn:E.
  - apply String.eqb_eq in E. subst x. apply lookup_mset_eq.
  - apply lookup_mset_neq. intros ->. rewrite str_eqb_refl in E. discriminate.
Qed.

Lemma mset_idem : forall k v m, lookup k m = Some v -> mset k v m = m.
Proof.
  intros k v m. induction m as [|[k' v'] m IH]; cbn; intros H.
  - discriminate.
  - destruct (String.eqb k k') eqn:E.
    + apply String.eqb_eq in E. subst k'. inversion H. reflexivity.
    + rewrite IH by exact H. reflexivity.
Qed.

Lemma mem_str_In : forall x l, mem_str x l = true <-> In x l.
Proof.
  intros x l. unfold mem_str. rewrite existsb_exists. split.
  - intros [y [Hy E]]. apply String.eqb_eq in E. subst y. exact Hy.
  - intros H. exists x. split; [exact H | apply str_eqb_refl].
Qed.

Lemma keys_mset : forall k v m x,
  In x (map fst (mset k v m)) <-> x = k \/ In x (map fst m).
Proof.
  intros k v m x. induction m as [|[k' v'] m IH]; cbn.
  - split; [intros [H|[]]; auto | intros [H|[]]; auto].
  - destruct (String.eqb k k') eqn:E; cbn.
    + apply String.eqb_eq in E. subst k'. split; intros [H|H]; auto.
    + rewrite IH. split; intros H; intuition auto.
Qed.

Lemma nodup_mset : forall k v m,
  nodup_str (map fst m) = true -> nodup_str (map fst (mset k v m)) = true.
Proof.
  intros k v m. induction m as [|[k' v'] m IH]; cbn; intros H.
  - reflexivity.
  - apply andb_true_iff in H. destruct H as [H1 H2].
    destruct (String.eqb k k') eqn:E; cbn.
    + apply String.eqb_eq in E. subst k'. rewrite H1, H2. reflexivity.
    + rewrite IH by exact H2. rewrite andb_true_r.
      apply negb_true_iff. apply negb_true_iff in H1.
      destruct (mem_str k' (map fst (mset k v m))) eqn:M; [|reflexivity].
      apply mem_str_In in M. apply keys_mset in M. destruct M as [M|M].
      * subst k'. rewrite str_eqb_refl in E. discriminate.
      * apply mem_str_In in M. congruence.
Qed.

Lemma lookup_In_keys : forall k m, lookup k m <> None <-> In k (map fst m).
Proof.
  intros k m. induction m as [|[k' v'] m IH]; cbn.
  - split; [congruence | intros []].
  - destruct (String.eqb k k') eqn:E.
    + apply String.eqb_eq in E. subst k'. split; [auto | congruence].
    + rewrite IH. split; [auto | intros [H|H]; [subst k'; rewrite str_eqb_refl in E; discriminate | exact H]].
Qed.

Lemma lookup_app : forall k a b,
  lookup k (a ++ b)%list = match lookup k a with Some v => Some v | None => lookup k b end.
Proof.
  intros k a b. induction a as [|[k' v'] a IH]; cbn; [reflexivity|].
  destruct (String.eqb k k'); [reflexivity | exact IH].
Qed.

Lemma lookup_remove_key_neq : forall k x m, x <> k -> lookup x (remove_key k m) = lookup x m.
Proof.
  intros k x m Hx. induction m as [|[k' v'] m IH]; cbn; [reflexivity|].
  destruct (String.eqb k k') eqn:E.
  - apply String.eqb_eq in E. subst k'.
    destruct (String.eqb x k) eqn:E2; [apply String.eqb_eq in E2; contradiction | exact IH].
  - cbn. destruct (String.eqb x k'); [reflexivity | exact IH].
Qed.

(* the iteration order does not change the map *)
Lemma lookup_entries : forall f m x, lookup x (entries f m) = lookup x m.
Proof.
  intros [k|] m x; cbn; [|reflexivity].
  destruct (lookup k m) as [v|] eqn:L; [|reflexivity].
  cbn. destruct (String.eqb x k) eqn:E.
  - apply String.eqb_eq in E. subst x. symmetry. exact L.
  - apply lookup_remove_key_neq. intros ->. rewrite str_eqb_refl in E. discriminate.
Qed.

Lemma keys_entries : forall f m x, In x (map fst (entries f m)) <-> In x (map fst m).
Proof.
  intros f m x. rewrite <- !lookup_In_keys. rewrite lookup_entries. tauto.
Qed.

Lemma keys_remove_key : forall k m x, In x (map fst (remove_key k m)) <-> x <> k /\ In x (map fst m).
Proof.
  intros k m x. induction m as [|[k' v'] m IH]; cbn; [tauto|].
  destruct (String.eqb k k') eqn:E.
  - apply String.eqb_eq in E. subst k'. rewrite IH. split; [tauto|]. intros [H1 [H2|H2]]; [congruence | tauto].
  - cbn. rewrite IH. split.
    + intros [H|H]; [subst k'; split; [intros ->; rewrite str_eqb_refl in E; discriminate | auto] | tauto].
    + tauto.
Qed.

Lemma nodup_remove_key : forall k m,
  nodup_str (map fst m) = true -> nodup_str (map fst (remove_key k m)) = true.
Proof.
  intros k m. induction m as [|[k' v'] m IH]; cbn; intros H; [reflexivity|].
  apply andb_true_iff in H. destruct H as [H1 H2].
  destruct (String.eqb k k'); [exact (IH H2)|].
  cbn. rewrite IH by exact H2. rewrite andb_true_r.
  apply negb_true_iff. apply negb_true_iff in H1.
  destruct (mem_str k' (map fst (remove_key k m))) eqn:M; [|reflexivity].
  apply mem_str_In in M. apply keys_remove_key in M. destruct M as [_ M].
  apply mem_str_In in M. congruence.
Qed.

Lemma nodup_entries : forall f m,
  nodup_str (map fst m) = true -> nodup_str (map fst (entries f m)) = true.
Proof.
  intros [k|] m H; cbn; [|exact H].
  destruct (lookup k m) as [v|]; [|exact H].
  cbn. rewrite nodup_remove_key by exact H. rewrite andb_true_r.
  apply negb_true_iff. destruct (mem_str k (map fst (remove_key k m))) eqn:M; [|reflexivity].
  apply mem_str_In in M. apply keys_remove_key in M. destruct M as [M _]. congruence.
Qed.

(* ---------- map equivalence ---------- *)

Lemma opt_str_eqb_refl : forall o : option string, opt_eqb String.eqb o o = true.
Proof. intros [s|]; cbn; [apply str_eqb_refl | reflexivity]. Qed.

Lemma opt_str_eqb_eq : forall a b : option string, opt_eqb String.eqb a b = true <-> a = b.
Proof.
  intros [a|] [b|]; cbn; split; intros H; try discriminate; try reflexivity.
  - apply String.eqb_eq in H. congruence.
  - inversion H. apply str_eqb_refl.
Qed.

Lemma amap_eqv_ext : forall a b, (forall k, lookup k a = lookup k b) -> amap_eqv a b = true.
Proof.
  intros a b H. unfold amap_eqv, sub_map. apply andb_true_iff. split; apply forallb_forall; intros kv _.
  - rewrite H. apply opt_str_eqb_refl.
  - rewrite H. apply opt_str_eqb_refl.
Qed.

Lemma amap_eqv_sound : forall a b, amap_eqv a b = true -> forall k, lookup k a = lookup k b.
Proof.
  intros a b H k. unfold amap_eqv, sub_map in H. apply andb_true_iff in H. destruct H as [H1 H2].
  rewrite forallb_forall in H1, H2.
  destruct (lookup k a) as [v|] eqn:La.
  - assert (In k (map fst a)) as Hin by (apply lookup_In_keys; congruence).
    apply in_map_iff in Hin. destruct Hin as [[k0 v0] [E Hin]]. cbn in E. subst k0.
    specialize (H1 _ Hin). cbn in H1. apply opt_str_eqb_eq in H1. congruence.
  - destruct (lookup k b) as [v|] eqn:Lb; [|reflexivity].
    assert (In k (map fst b)) as Hin by (apply lookup_In_keys; congruence).
    apply in_map_iff in Hin. destruct Hin as [[k0 v0] [E Hin]]. cbn in E. subst k0.
    specialize (H2 _ Hin). cbn in H2. apply opt_str_eqb_eq in H2. congruence.
Qed.

Lemma amap_eqv_refl : forall a, amap_eqv a a = true.
Proof. intros a. apply amap_eqv_ext. reflexivity. Qed.

(* ================= the heap ================= *)

Lemma hget_hupd_eq : forall a m h, hget a h <> None -> hget a (hupd a m h) = Some m.
Proof.
  intros a m h. induction h as [|[a' m'] h IH]; cbn; intros H; [congruence|].
  destruct (a =? a')%N eqn:E; cbn; rewrite E; [reflexivity | exact (IH H)].
Qed.

Lemma hget_hupd_neq : forall a b m h, b <> a -> hget b (hupd a m h) = hget b h.
Proof.
  intros a b m h Hb. induction h as [|[a' m'] h IH]; cbn; [reflexivity|].
  destruct (a =? a')%N eqn:E; cbn.
  - apply N.eqb_eq in E. subst a'. destruct (b =? a)%N eqn:E2; [apply N.eqb_eq in E2; contradiction | reflexivity].
  - destruct (b =? a')%N; [reflexivity | exact IH].
Qed.

Lemma hupd_same : forall a m h, hget a h = Some m -> hupd a m h = h.
Proof.
  intros a m h. induction h as [|[a' m'] h IH]; cbn; intros H; [reflexivity|].
  destruct (a =? a')%N eqn:E.
  - apply N.eqb_eq in E. subst a'. inversion H. reflexivity.
  - rewrite IH by exact H. reflexivity.
Qed.

Lemma hupd_none : forall a m h, hget a h = None -> hupd a m h = h.
Proof.
  intros a m h. induction h as [|[a' m'] h IH]; cbn; intros H; [reflexivity|].
  destruct (a =? a')%N eqn:E; [discriminate|]. rewrite IH by exact H. reflexivity.
Qed.

Lemma hupd_hupd : forall a m1 m2 h, hupd a m2 (hupd a m1 h) = hupd a m2 h.
Proof.
  intros a m1 m2 h. induction h as [|[a' m'] h IH]; cbn; [reflexivity|].
  destruct (a =? a')%N eqn:E; cbn; rewrite E; [reflexivity | rewrite IH; reflexivity].
Qed.

Lemma addrs_hupd : forall a m h, map fst (hupd a m h) = map fst h.
Proof.
  intros a m h. induction h as [|[a' m'] h IH]; cbn; [reflexivity|].
  destruct (a =? a')%N eqn:E; cbn; [apply N.eqb_eq in E; subst; reflexivity | rewrite IH; reflexivity].
Qed.

Lemma hread_hupd_eq : forall a m h, hget a h <> None -> hread a (hupd a m h) = m.
Proof. intros. unfold hread. rewrite hget_hupd_eq by assumption. reflexivity. Qed.

Lemma hread_hupd_neq : forall a b m h, b <> a -> hread b (hupd a m h) = hread b h.
Proof. intros. unfold hread. rewrite hget_hupd_neq by assumption. reflexivity. Qed.

Lemma wf_heap_hget : forall h a m, wf_heap h = true -> hget a h = Some m -> nodup_str (map fst m) = true.
Proof.
  intros h a m. induction h as [|[a' m'] h IH]; cbn; intros W H; [discriminate|].
  apply andb_true_iff in W. destruct W as [W1 W2].
  destruct (a =? a')%N; [inversion H; subst; exact W1 | exact (IH W2 H)].
Qed.

Lemma wf_heap_hread : forall h a, wf_heap h = true -> nodup_str (map fst (hread a h)) = true.
Proof.
  intros h a W. unfold hread. destruct (hget a h) eqn:E; [exact (wf_heap_hget _ _ _ W E) | reflexivity].
Qed.

Lemma wf_heap_hupd : forall h a m, wf_heap h = true -> nodup_str (map fst m) = true -> wf_heap (hupd a m h) = true.
Proof.
  intros h a m. induction h as [|[a' m'] h IH]; cbn; intros W Hm; [reflexivity|].
  apply andb_true_iff in W. destruct W as [W1 W2].
  destruct (a =? a')%N; cbn.
  - rewrite Hm, W2. reflexivity.
  - rewrite W1. cbn. apply IH; assumption.
Qed.

(* ================= addUserMetadataToDescriptor (the code now) ================= *)

(* the loop on a map nobody else holds *)
Fixpoint add_pure (es m : amap) : amap * option res :=
  match es with
  | [] => (m, None)
  | (k, v) :: es' =>
      if reserved k then (m, Some EMetaReserved)
      else match lookup k m with
           | Some _ => (m, Some EMetaPresent)
           | None => add_pure es' (mset k v m)
           end
  end.

Lemma add_loop_fresh : forall es h m,
  add_loop es h (AFresh m) = (h, AFresh (fst (add_pure es m)), snd (add_pure es m)).
Proof.
  induction es as [|[k v] es IH]; intros h m; cbn; [reflexivity|].
  destruct (reserved k); [reflexivity|].
  destruct (lookup k m); [reflexivity|]. apply IH.
Qed.

Lemma add_meta_false : forall h r es,
  add_meta false h r es =
  match es with
  | [] => (h, r, None)
  | _ => (h, AFresh (fst (add_pure es (aread r h))), snd (add_pure es (aread r h)))
  end.
Proof.
  intros h r [|e es]; [reflexivity|]. unfold add_meta. apply add_loop_fresh.
Qed.

Lemma add_meta_false_heap : forall h r es h' r' e, add_meta false h r es = (h', r', e) -> h' = h.
Proof.
  intros h r es h' r' e H. rewrite add_meta_false in H. destruct es; inversion H; reflexivity.
Qed.

Lemma add_pure_class : forall es m e, snd (add_pure es m) = Some e -> e = EMetaReserved \/ e = EMetaPresent.
Proof.
  induction es as [|[k v] es IH]; intros m e; cbn; [discriminate|].
  destruct (reserved k); [cbn; intros H; inversion H; auto|].
  destruct (lookup k m); [cbn; intros H; inversion H; auto|]. apply IH.
Qed.

Lemma add_pure_ok : forall es m,
  snd (add_pure es m) = None ->
  (forall k, In k (map fst es) -> reserved k = false /\ lookup k m = None)
  /\ nodup_str (map fst es) = true
  /\ (forall x, lookup x (fst (add_pure es m)) = union_lookup m es x).
Proof.
  induction es as [|[k v] es IH]; intros m; cbn.
  - intros _. split; [intros k []|]. split; [reflexivity|]. intros x. unfold union_lookup. destruct (lookup x m); reflexivity.
  - destruct (reserved k) eqn:R; [discriminate|].
    destruct (lookup k m) eqn:L; [discriminate|]. intros H.
    destruct (IH _ H) as [A [B C]]. split; [|split].
    + intros k0 [E|Hin]; [subst k0; auto|].
      destruct (A _ Hin) as [A1 A2]. split; [exact A1|].
      rewrite lookup_mset in A2. destruct (String.eqb k0 k); [discriminate | exact A2].
    + rewrite B, andb_true_r. apply negb_true_iff.
      destruct (mem_str k (map fst es)) eqn:M; [|reflexivity].
      apply mem_str_In in M. destruct (A _ M) as [_ A2]. rewrite lookup_mset_eq in A2. discriminate.
    + intros x. rewrite C. unfold union_lookup. cbn. rewrite lookup_mset.
      destruct (String.eqb x k) eqn:E; [|reflexivity].
      apply String.eqb_eq in E. subst x. rewrite L. reflexivity.
Qed.

Lemma add_pure_reserved : forall es m k,
  In k (map fst es) -> reserved k = true -> snd (add_pure es m) <> None.
Proof.
  induction es as [|[k0 v] es IH]; intros m k; cbn; [intros []|].
  intros [E|Hin] R.
  - subst k0. rewrite R. cbn. discriminate.
  - destruct (reserved k0); [cbn; discriminate|].
    destruct (lookup k0 m); [cbn; discriminate|]. exact (IH _ _ Hin R).
Qed.

Lemma add_pure_present : forall es m k,
  In k (map fst es) -> lookup k m <> None -> snd (add_pure es m) <> None.
Proof.
  induction es as [|[k0 v] es IH]; intros m k; cbn; [intros []|].
  intros [E|Hin] P.
  - subst k0. destruct (reserved k); [cbn; discriminate|].
    destruct (lookup k m); [cbn; discriminate | congruence].
  - destruct (reserved k0); [cbn; discriminate|].
    destruct (lookup k0 m) eqn:L; [cbn; discriminate|].
    apply (IH _ _ Hin). rewrite lookup_mset. destruct (String.eqb k k0); [discriminate | exact P].
Qed.

Lemma add_pure_complete : forall es m,
  nodup_str (map fst es) = true ->
  (forall k, In k (map fst es) -> reserved k = false /\ lookup k m = None) ->
  snd (add_pure es m) = None.
Proof.
  induction es as [|[k v] es IH]; intros m N A; cbn; [reflexivity|].
  cbn in N. apply andb_true_iff in N. destruct N as [N1 N2].
  destruct (A k (or_introl eq_refl)) as [R L]. rewrite R, L.
  apply IH; [exact N2|]. intros k0 Hin. destruct (A k0 (or_intror Hin)) as [R0 L0]. split; [exact R0|].
  rewrite lookup_mset. destruct (String.eqb k0 k) eqn:E; [|exact L0].
  apply String.eqb_eq in E. subst k0. apply negb_true_iff in N1.
  apply mem_str_In in Hin. congruence.
Qed.

Lemma add_pure_reserved_inv : forall es m,
  snd (add_pure es m) = Some EMetaReserved -> exists k, In k (map fst es) /\ reserved k = true.
Proof.
  induction es as [|[k v] es IH]; intros m; cbn; [discriminate|].
  destruct (reserved k) eqn:R; [intros _; exists k; auto|].
  destruct (lookup k m); [cbn; discriminate|].
  intros H. destruct (IH _ H) as [k0 [A B]]. exists k0. auto.
Qed.

Lemma add_pure_present_inv : forall es m,
  nodup_str (map fst es) = true ->
  snd (add_pure es m) = Some EMetaPresent -> exists k, In k (map fst es) /\ lookup k m <> None.
Proof.
  induction es as [|[k v] es IH]; intros m N; cbn; [discriminate|].
  cbn in N. apply andb_true_iff in N. destruct N as [N1 N2].
  destruct (reserved k) eqn:R; [cbn; discriminate|].
  destruct (lookup k m) eqn:L; [intros _; exists k; split; [auto | congruence]|].
  intros H. destruct (IH _ N2 H) as [k0 [A B]]. exists k0. split; [auto|].
  rewrite lookup_mset in B. destruct (String.eqb k0 k) eqn:E; [|exact B].
  apply String.eqb_eq in E. subst k0. apply negb_true_iff in N1. apply mem_str_In in A. congruence.
Qed.

(* ================= generateAnnotations ================= *)

Lemma k_created_neq_thumb : String.eqb k_created k_thumb = false.
Proof. reflexivity. Qed.

Lemma k_thumb_neq_created : String.eqb k_thumb k_created = false.
Proof. reflexivity. Qed.

Definition two_ann (js c : string) : amap := [(k_thumb, js); (k_created, c)].

Lemma gen_ann_fresh : forall h si p,
  (forall a, p <> PAMap a) ->
  gen_ann h (Some si) p =
  match si_time si with
  | None => (h, inl EAnnTime)
  | Some t => (h, inr (AFresh (two_ann (json_strs (si_chain si)) (rfc3339 t))))
  end.
Proof.
  intros h si p Hp. unfold gen_ann.
  assert (match p with PAMap a => AShared a | _ => AFresh [] end = AFresh []) as ->.
  { destruct p; try reflexivity. exfalso. exact (Hp a eq_refl). }
  cbn. destruct (si_time si); reflexivity.
Qed.

Lemma gen_ann_map : forall h si a,
  hget a h <> None ->
  gen_ann h (Some si) (PAMap a) =
  let m1 := mset k_thumb (json_strs (si_chain si)) (hread a h) in
  match si_time si with
  | None => (hupd a m1 h, inl EAnnTime)
  | Some t => (hupd a (mset k_created (rfc3339 t) m1) h, inr (AShared a))
  end.
Proof.
  intros h si a Ha. unfold gen_ann. cbn. destruct (si_time si); [|reflexivity].
  rewrite hread_hupd_eq by exact Ha. rewrite hupd_hupd. reflexivity.
Qed.

(* the heap after generateAnnotations differs at most at the signer's map *)
Lemma gen_ann_frame : forall h info p h2 x,
  gen_ann h info p = (h2, x) ->
  map fst h2 = map fst h
  /\ (forall b, p <> PAMap b -> hget b h2 = hget b h)
  /\ ((forall a, p <> PAMap a) -> h2 = h).
Proof.
  intros h [si|] p h2 x H.
  2:{ cbn in H. inversion H. auto. }
  destruct p as [| |a].
  1,2: rewrite gen_ann_fresh in H by (intros a; discriminate);
       destruct (si_time si); inversion H; auto.
  unfold gen_ann in H. cbn in H.
  destruct (si_time si).
  - inversion H. subst h2. rewrite !addrs_hupd. split; [reflexivity|]. split.
    + intros b Hb. assert (b <> a) by congruence. rewrite !hget_hupd_neq by assumption. reflexivity.
    + intros Hp. exfalso. exact (Hp a eq_refl).
  - inversion H. subst h2. rewrite !addrs_hupd. split; [reflexivity|]. split.
    + intros b Hb. assert (b <> a) by congruence. rewrite !hget_hupd_neq by assumption. reflexivity.
    + intros Hp. exfalso. exact (Hp a eq_refl).
Qed.

Lemma wf_heap_awrite : forall k v h r h' r',
  wf_heap h = true -> awrite k v h r = (h', r') -> wf_heap h' = true.
Proof.
  intros k v h [|a|m] h' r' W H; cbn in H; inversion H; subst; try exact W.
  apply wf_heap_hupd; [exact W|]. apply nodup_mset. apply wf_heap_hread. exact W.
Qed.

Lemma wf_heap_gen_ann : forall h info p h2 x,
  wf_heap h = true -> gen_ann h info p = (h2, x) -> wf_heap h2 = true.
Proof.
  intros h [si|] p h2 x W H; [|cbn in H; inversion H; subst; exact W].
  unfold gen_ann in H.
  destruct (awrite k_thumb (json_strs (si_chain si)) h match p with PAMap a => AShared a | _ => AFresh [] end) as [h1 r1] eqn:E1.
  pose proof (wf_heap_awrite _ _ _ _ _ _ W E1) as W1.
  destruct (si_time si); [|inversion H; subst; exact W1].
  destruct (awrite k_created (rfc3339 z) h1 r1) as [h3 r3] eqn:E2.
  inversion H. subst. exact (wf_heap_awrite _ _ _ _ _ _ W1 E2).
Qed.

(* ================= SignOCI: the shape of one call ================= *)

Definition meta_es (c : call_in) (h : heap) : amap :=
  match ci_meta c with None => [] | Some a => entries (ci_first c) (hread a h) end.

Definition mk_sc (c : call_in) (h : heap) (d : desc) (r1 : aref) : sign_call :=
  mk_sign_call (deep h (mk_desc (d_mt d) (d_dg d) (d_sz d) (d_rest d) r1))
               (ci_mt c) (ci_expiry c) (ci_agent c) (opt_mref (ci_pcfg c)).

Definition mk_pc (c : call_in) (sig : string) (h2 : heap) (d : desc) (ra : aref) : push_call :=
  mk_push_call (ci_mt c) sig (deep h2 d) (aref_m ra) (aread ra h2).

Definition mk_sto (c : call_in) (sig : string) (h2 : heap) (d : desc) (ra : aref) : stored :=
  mk_stored (ci_mt c) sig (forget (deep h2 d)) (aread ra h2).

(* everything before the signer is called went through *)
Definition ready (tbl : table) (h : heap) (c : call_in) (d : desc) (r1 : aref) : Prop :=
  validate c = None /\ ci_repo_nil c = false
  /\ lookup_tbl (eff_ref c) tbl = Some d
  /\ negb (String.eqb (eff_ref c) (d_dg d)) && ci_isdigest c = false
  /\ add_meta false h (d_ann d) (meta_es c h) = (h, r1, None).

Inductive step_spec (tbl : table) (h : heap) (sp : list stored) (c : call_in) : state -> trace -> Prop :=
| SS_arg : forall e, validate c = Some e ->
    step_spec tbl h sp c (mk_state h sp) (mk_trace e None "" [] [] [])
| SS_repo : validate c = None -> ci_repo_nil c = true ->
    step_spec tbl h sp c (mk_state h sp) (mk_trace ERepoNil None "" [] [] [])
| SS_resolve : validate c = None -> ci_repo_nil c = false -> lookup_tbl (eff_ref c) tbl = None ->
    step_spec tbl h sp c (mk_state h sp) (mk_trace EResolve None "" [eff_ref c] [] [])
| SS_pin : forall d, validate c = None -> ci_repo_nil c = false -> lookup_tbl (eff_ref c) tbl = Some d ->
    negb (String.eqb (eff_ref c) (d_dg d)) && ci_isdigest c = true ->
    step_spec tbl h sp c (mk_state h sp) (mk_trace EDigestMismatch None "" [eff_ref c] [] [])
| SS_meta : forall d r e, validate c = None -> ci_repo_nil c = false -> lookup_tbl (eff_ref c) tbl = Some d ->
    negb (String.eqb (eff_ref c) (d_dg d)) && ci_isdigest c = false ->
    add_meta false h (d_ann d) (meta_es c h) = (h, r, Some e) ->
    step_spec tbl h sp c (mk_state h sp) (mk_trace e None "" [eff_ref c] [] [])
| SS_signer : forall d r1, ready tbl h c d r1 -> ci_sign c = SErr ->
    step_spec tbl h sp c (mk_state h sp) (mk_trace ESigner None "" [eff_ref c] [mk_sc c h d r1] [])
| SS_ann : forall d r1 sig info h2 e, ready tbl h c d r1 -> ci_sign c = SOk sig info ->
    gen_ann h info (ci_pa c) = (h2, inl e) ->
    step_spec tbl h sp c (mk_state h2 sp) (mk_trace e None "" [eff_ref c] [mk_sc c h d r1] [])
| SS_pusherr : forall d r1 sig info h2 ra, ready tbl h c d r1 -> ci_sign c = SOk sig info ->
    gen_ann h info (ci_pa c) = (h2, inr ra) -> ci_push c = PushErr ->
    step_spec tbl h sp c (mk_state h2 sp)
      (mk_trace EPush None "" [eff_ref c] [mk_sc c h d r1] [mk_pc c sig h2 d ra])
| SS_pushok : forall d r1 sig info h2 ra dg, ready tbl h c d r1 -> ci_sign c = SOk sig info ->
    gen_ann h info (ci_pa c) = (h2, inr ra) -> ci_push c = PushOK dg ->
    step_spec tbl h sp c (mk_state h2 (sp ++ [mk_sto c sig h2 d ra])%list)
      (mk_trace ROk (Some (deep h2 d)) dg [eff_ref c] [mk_sc c h d r1] [mk_pc c sig h2 d ra])
| SS_refdel : forall d r1 sig info h2 ra dg, ready tbl h c d r1 -> ci_sign c = SOk sig info ->
    gen_ann h info (ci_pa c) = (h2, inr ra) -> ci_push c = PushRefDel dg ->
    step_spec tbl h sp c (mk_state h2 (sp ++ [mk_sto c sig h2 d ra])%list)
      (mk_trace RRefDel (Some (deep h2 d)) dg [eff_ref c] [mk_sc c h d r1] [mk_pc c sig h2 d ra]).

Lemma sign_oci_spec : forall tbl h sp c st' t,
  sign_oci false tbl (mk_state h sp) c = (st', t) -> step_spec tbl h sp c st' t.
Proof.
  intros tbl h sp c st' t H. unfold sign_oci in H. cbn [s_heap s_stored] in H.
  destruct (validate c) as [e|] eqn:Ev.
  { inversion H. apply SS_arg. exact Ev. }
  destruct (ci_repo_nil c) eqn:Er.
  { inversion H. apply SS_repo; assumption. }
  destruct (lookup_tbl (eff_ref c) tbl) as [d|] eqn:El.
  2:{ inversion H. apply SS_resolve; assumption. }
  destruct (negb (String.eqb (eff_ref c) (d_dg d)) && ci_isdigest c) eqn:Ep.
  { inversion H. eapply SS_pin; eassumption. }
  fold (meta_es c h) in H.
  destruct (add_meta false h (d_ann d) (meta_es c h)) as [[h1 r1] oe] eqn:Ea.
  pose proof (add_meta_false_heap _ _ _ _ _ _ Ea) as Eh. subst h1.
  destruct oe as [e|].
  { inversion H. eapply SS_meta; eassumption. }
  assert (ready tbl h c d r1) as R by (unfold ready; auto).
  destruct (ci_sign c) as [|sig info] eqn:Es.
  { inversion H. apply SS_signer; assumption. }
  destruct (gen_ann h info (ci_pa c)) as [h2 [e|ra]] eqn:Eg.
  { inversion H. eapply SS_ann; eassumption. }
  destruct (ci_push c) as [dg| |dg] eqn:Eq; inversion H.
  - eapply SS_pushok; eassumption.
  - eapply SS_pusherr; eassumption.
  - eapply SS_refdel; eassumption.
Qed.

(* ================= classes ================= *)

Lemma validate_class : forall c e, validate c = Some e -> reached_signer e = false.
Proof.
  intros c e. unfold validate.
  destruct (ci_signer_nil c); [intros H; inversion H; reflexivity|].
  destruct (ci_expiry c <? 0)%Z; [intros H; inversion H; reflexivity|].
  destruct (negb (Z.rem (ci_expiry c) 1000000000 =? 0)%Z); [intros H; inversion H; reflexivity|].
  destruct (String.eqb (ci_mt c) ""); [intros H; inversion H; reflexivity|].
  destruct (negb (valid_mt (ci_mt c))); [intros H; inversion H; reflexivity|]. discriminate.
Qed.

Lemma validate_none : forall c, validate c = None ->
  ci_signer_nil c = false /\ (ci_expiry c <? 0)%Z = false
  /\ (Z.rem (ci_expiry c) 1000000000 =? 0)%Z = true /\ valid_mt (ci_mt c) = true.
Proof.
  intros c. unfold validate.
  destruct (ci_signer_nil c); [discriminate|].
  destruct (ci_expiry c <? 0)%Z; [discriminate|].
  destruct (Z.rem (ci_expiry c) 1000000000 =? 0)%Z; [|discriminate]. cbn.
  destruct (String.eqb (ci_mt c) ""); [discriminate|].
  destruct (valid_mt (ci_mt c)); [auto | discriminate].
Qed.

Lemma validate_some_args_bad : forall c e, validate c = Some e -> args_bad c = true /\ In e arg_errors.
Proof.
  intros c e. unfold validate, args_bad, arg_errors.
  destruct (ci_signer_nil c); [intros H; inversion H; cbn; auto|].
  destruct (ci_expiry c <? 0)%Z; [intros H; inversion H; cbn; auto|].
  destruct (Z.rem (ci_expiry c) 1000000000 =? 0)%Z; [|intros H; inversion H; cbn; auto 10]. cbn.
  destruct (String.eqb (ci_mt c) "") eqn:E.
  { apply String.eqb_eq in E. rewrite E. intros H; inversion H; cbn; auto 10. }
  destruct (valid_mt (ci_mt c)); [discriminate|]. intros H; inversion H; cbn; auto 10.
Qed.

Lemma add_meta_class : forall h r es h' r' e,
  add_meta false h r es = (h', r', Some e) -> e = EMetaReserved \/ e = EMetaPresent.
Proof.
  intros h r es h' r' e H. rewrite add_meta_false in H. destruct es as [|x es]; [inversion H|].
  inversion H as [[E1 E2 E3]]. eapply (add_pure_class (x :: es)). exact E3.
Qed.

Lemma gen_ann_class : forall h info p h2 e,
  gen_ann h info p = (h2, inl e) -> e = EAnnInfoNil \/ e = EAnnTime.
Proof.
  intros h [si|] p h2 e H; [|cbn in H; inversion H; auto].
  unfold gen_ann in H.
  destruct (awrite k_thumb (json_strs (si_chain si)) h match p with PAMap a => AShared a | _ => AFresh [] end) as [h1 r1].
  destruct (si_time si); [|inversion H; auto].
  destruct (awrite k_created (rfc3339 z) h1 r1). inversion H.
Qed.

Lemma gen_ann_ok_inv : forall h info p h2 ra,
  gen_ann h info p = (h2, inr ra) -> exists si tm, info = Some si /\ si_time si = Some tm.
Proof.
  intros h [si|] p h2 ra H; [|cbn in H; inversion H].
  unfold gen_ann in H.
  destruct (awrite k_thumb (json_strs (si_chain si)) h match p with PAMap a => AShared a | _ => AFresh [] end) as [h1 r1].
  destruct (si_time si) as [tm|] eqn:Et; [|inversion H]. exists si, tm. auto.
Qed.

Ltac meta_cls :=
  match goal with H : add_meta false _ _ _ = (_, _, Some _) |- _ =>
    destruct (add_meta_class _ _ _ _ _ _ H) as [-> | ->] end.
Ltac ann_cls :=
  match goal with H : gen_ann _ _ _ = (_, inl _) |- _ =>
    destruct (gen_ann_class _ _ _ _ _ H) as [-> | ->] end.
Ltac val_cls :=
  match goal with H : validate _ = Some _ |- _ => pose proof (validate_class _ _ H) as Hvc end.

(* ================= what [ready] gives ================= *)

Lemma meta_es_nil : forall c h, meta_es c h = [] <-> meta_of c h = [].
Proof.
  intros c h. unfold meta_es, meta_of. destruct (ci_meta c) as [a|]; [|tauto].
  destruct (ci_first c) as [k|]; cbn; [|tauto].
  destruct (lookup k (hread a h)) eqn:L; [|tauto].
  split; [discriminate|]. intros E. rewrite E in L. discriminate.
Qed.

Lemma lookup_meta_es : forall c h x, lookup x (meta_es c h) = lookup x (meta_of c h).
Proof.
  intros c h x. unfold meta_es, meta_of. destruct (ci_meta c); [apply lookup_entries | reflexivity].
Qed.

Lemma keys_meta_es : forall c h x, In x (map fst (meta_es c h)) <-> In x (map fst (meta_of c h)).
Proof. intros. rewrite <- !lookup_In_keys, lookup_meta_es. tauto. Qed.

Lemma ready_signed : forall tbl h c d r1, ready tbl h c d r1 ->
  (forall x, lookup x (aread r1 h) = union_lookup (aread (d_ann d) h) (meta_of c h) x)
  /\ (forall k, In k (map fst (meta_of c h)) -> reserved k = false /\ lookup k (aread (d_ann d) h) = None)
  /\ (meta_of c h = [] -> r1 = d_ann d)
  /\ (meta_of c h <> [] -> exists m, r1 = AFresh m).
Proof.
  intros tbl h c d r1 (_ & _ & _ & _ & Ha). rewrite add_meta_false in Ha.
  destruct (meta_es c h) as [|e0 es0] eqn:Ees.
  - inversion Ha. subst r1.
    assert (meta_of c h = []) as Em by (apply meta_es_nil; exact Ees).
    rewrite Em. split; [|split; [|split]].
    + intros x. unfold union_lookup. destruct (lookup x (aread (d_ann d) h)); reflexivity.
    + intros k [].
    + reflexivity.
    + congruence.
  - rewrite <- Ees in Ha. inversion Ha as [[Hr Hn]].
    destruct (add_pure_ok _ _ Hn) as [A [B C]].
    split; [|split; [|split]].
    + intros x. cbn. rewrite C. unfold union_lookup. rewrite lookup_meta_es. reflexivity.
    + intros k Hk. apply A. apply keys_meta_es. exact Hk.
    + intros Em. apply meta_es_nil in Em. rewrite Em in Ees. discriminate.
    + intros _. eexists. reflexivity.
Qed.

(* ================= C11_signed ================= *)

Lemma signer_iff : forall tbl st c st' t,
  sign_oci false tbl st c = (st', t) -> (t_signs t <> [] <-> reached_signer (t_res t) = true).
Proof.
  intros tbl [h sp] c st' t H. apply sign_oci_spec in H.
  inversion H; subst; cbn; try (split; [congruence | discriminate]); try (split; [reflexivity | discriminate]).
  - val_cls. rewrite Hvc. split; [congruence | discriminate].
  - meta_cls; cbn; split; try congruence; discriminate.
  - ann_cls; cbn; split; try reflexivity; discriminate.
Qed.

Definition signed_spec (tbl : table) (h : heap) (c : call_in) (t : trace) : Prop :=
  exists d sc,
    lookup_tbl (eff_ref c) tbl = Some d
    /\ t_resolves t = [eff_ref c] /\ t_signs t = [sc]
    /\ dd_mt (sc_desc sc) = d_mt d /\ dd_dg (sc_desc sc) = d_dg d
    /\ dd_sz (sc_desc sc) = d_sz d /\ dd_rest (sc_desc sc) = d_rest d
    /\ (forall k, lookup k (dd_ann (sc_desc sc))
                  = union_lookup (aread (d_ann d) h) (meta_of c h) k)
    /\ (forall k, In k (map fst (meta_of c h)) ->
                  reserved k = false /\ lookup k (aread (d_ann d) h) = None)
    /\ (meta_of c h = [] -> dd_ref (sc_desc sc) = aref_m (d_ann d))
    /\ sc_mt sc = ci_mt c /\ sc_expiry sc = ci_expiry c /\ sc_agent sc = ci_agent c
    /\ sc_pcfg sc = opt_mref (ci_pcfg c)
    /\ (eff_ref c = d_dg d \/ ci_isdigest c = false)
    /\ valid_mt (ci_mt c) = true.

Lemma signed_core : forall tbl h c d r1 t,
  ready tbl h c d r1 -> t_resolves t = [eff_ref c] -> t_signs t = [mk_sc c h d r1] ->
  signed_spec tbl h c t.
Proof.
  intros tbl h c d r1 t R E1 E2. exists d, (mk_sc c h d r1).
  pose proof R as (Hv & _ & Hl & Hp & _).
  destruct (ready_signed _ _ _ _ _ R) as (A & B & C & _).
  repeat split; try assumption; try reflexivity.
  - apply B; assumption.
  - apply B; assumption.
  - intros Em. cbn. rewrite (C Em). reflexivity.
  - apply andb_false_iff in Hp. destruct Hp as [Hp|Hp]; [|auto].
    apply negb_false_iff in Hp. apply String.eqb_eq in Hp. auto.
  - apply validate_none in Hv. tauto.
Qed.

Theorem signed : forall tbl st c st' t,
  sign_oci false tbl st c = (st', t) -> reached_signer (t_res t) = true ->
  signed_spec tbl (s_heap st) c t.
Proof.
  intros tbl [h sp] c st' t H Hr. apply sign_oci_spec in H. cbn [s_heap].
  inversion H; subst; cbn in Hr; try discriminate;
    try (eapply signed_core; [eassumption | reflexivity | reflexivity]).
  - val_cls. rewrite Hvc in Hr. discriminate.
  - meta_cls; discriminate.
Qed.

(* ================= C11_refuses ================= *)

Lemma not_reached_refused : forall tbl st c st' t,
  sign_oci false tbl st c = (st', t) -> reached_signer (t_res t) = false -> refused st st' t.
Proof.
  intros tbl [h sp] c st' t H Hr. apply sign_oci_spec in H. unfold refused.
  inversion H; subst; cbn in Hr |- *; try discriminate; try (repeat split; assumption).
  ann_cls; discriminate.
Qed.

Lemma ready_pin : forall tbl h c d r1, ready tbl h c d r1 ->
  eff_ref c <> d_dg d -> ci_isdigest c = true -> False.
Proof.
  intros tbl h c d r1 (_ & _ & _ & Hp & _) Hne Hd. rewrite Hd, andb_true_r in Hp.
  apply negb_false_iff in Hp. apply String.eqb_eq in Hp. contradiction.
Qed.

Theorem refuses_digest : forall tbl st c st' t d,
  sign_oci false tbl st c = (st', t) ->
  lookup_tbl (eff_ref c) tbl = Some d -> eff_ref c <> d_dg d -> ci_isdigest c = true ->
  refused st st' t
  /\ (validate c = None -> ci_repo_nil c = false -> t_res t = EDigestMismatch).
Proof.
  intros tbl [h sp] c st' t d H Hl Hne Hd. pose proof H as H0. apply sign_oci_spec in H.
  assert (forall d0 r1, ready tbl h c d0 r1 -> False) as K.
  { intros d0 r1 R. pose proof R as (_ & _ & Hl' & _). rewrite Hl in Hl'. inversion Hl'. subst d0.
    exact (ready_pin _ _ _ _ _ R Hne Hd). }
  assert (negb (String.eqb (eff_ref c) (d_dg d)) && ci_isdigest c = true) as Hp.
  { rewrite Hd, andb_true_r. apply negb_true_iff. destruct (String.eqb (eff_ref c) (d_dg d)) eqn:E; [|reflexivity].
    apply String.eqb_eq in E. contradiction. }
  inversion H; subst; try (exfalso; eapply K; eassumption).
  - split; [eapply not_reached_refused; [exact H0 | cbn; eapply validate_class; eassumption]|]. congruence.
  - split; [eapply not_reached_refused; [exact H0 | reflexivity]|]. congruence.
  - congruence.
  - split; [eapply not_reached_refused; [exact H0 | reflexivity]|]. reflexivity.
  - match goal with H : lookup_tbl _ _ = Some ?d0, H' : negb (String.eqb _ (d_dg ?d0)) && _ = false |- _ =>
      rewrite Hl in H; inversion H; subst d0; congruence end.
Qed.

(* the classes a call can end in when it passed the argument checks, the repository
   resolved the reference and the digest pin *)
Lemma refuses_meta_core : forall tbl st c st' t d,
  sign_oci false tbl st c = (st', t) ->
  lookup_tbl (eff_ref c) tbl = Some d ->
  snd (add_pure (meta_es c (s_heap st)) (aread (d_ann d) (s_heap st))) <> None ->
  refused st st' t
  /\ (validate c = None -> ci_repo_nil c = false ->
      negb (String.eqb (eff_ref c) (d_dg d)) && ci_isdigest c = false ->
      t_res t = EMetaReserved \/ t_res t = EMetaPresent).
Proof.
  intros tbl [h sp] c st' t d H Hl Hbad. cbn [s_heap] in Hbad. pose proof H as H0. apply sign_oci_spec in H.
  assert (forall d0 r1, ready tbl h c d0 r1 -> False) as K.
  { intros d0 r1 (_ & _ & Hl' & _ & Ha). rewrite Hl in Hl'. inversion Hl'. subst d0.
    rewrite add_meta_false in Ha. destruct (meta_es c h) as [|e0 es0] eqn:Ees.
    - cbn in Hbad. congruence.
    - inversion Ha as [[E1 E2]]. apply Hbad. exact E2. }
  inversion H; subst; try (exfalso; eapply K; eassumption).
  - split; [eapply not_reached_refused; [exact H0 | cbn; eapply validate_class; eassumption]|]. congruence.
  - split; [eapply not_reached_refused; [exact H0 | reflexivity]|]. congruence.
  - congruence.
  - split; [eapply not_reached_refused; [exact H0 | reflexivity]|].
    match goal with H : lookup_tbl _ _ = Some ?d0 |- _ => rewrite Hl in H; inversion H; subst d0 end. congruence.
  - meta_cls; (split; [eapply not_reached_refused; [exact H0 | reflexivity]|]; auto).
Qed.

Definition meta_class (t : trace) (c : call_in) (d : desc) : Prop :=
  validate c = None -> ci_repo_nil c = false ->
  (eff_ref c = d_dg d \/ ci_isdigest c = false) ->
  t_res t = EMetaReserved \/ t_res t = EMetaPresent.

Lemma pin_false_of : forall c d, (eff_ref c = d_dg d \/ ci_isdigest c = false) ->
  negb (String.eqb (eff_ref c) (d_dg d)) && ci_isdigest c = false.
Proof.
  intros c d [E|E]; [rewrite E, str_eqb_refl; reflexivity | rewrite E; apply andb_false_r].
Qed.

Theorem refuses_reserved : forall tbl st c st' t d k,
  sign_oci false tbl st c = (st', t) ->
  lookup_tbl (eff_ref c) tbl = Some d ->
  In k (map fst (meta_of c (s_heap st))) -> reserved k = true ->
  refused st st' t /\ meta_class t c d.
Proof.
  intros tbl st c st' t d k H Hl Hin Hr.
  destruct (refuses_meta_core _ _ _ _ _ _ H Hl) as [A B].
  - eapply add_pure_reserved; [apply keys_meta_es; exact Hin | exact Hr].
  - split; [exact A|]. intros Hv Hn Hp. apply B; auto using pin_false_of.
Qed.

Theorem refuses_overwrite : forall tbl st c st' t d k,
  sign_oci false tbl st c = (st', t) ->
  lookup_tbl (eff_ref c) tbl = Some d ->
  In k (map fst (meta_of c (s_heap st))) -> lookup k (aread (d_ann d) (s_heap st)) <> None ->
  refused st st' t /\ meta_class t c d.
Proof.
  intros tbl st c st' t d k H Hl Hin Hp.
  destruct (refuses_meta_core _ _ _ _ _ _ H Hl) as [A B].
  - eapply add_pure_present; [apply keys_meta_es; exact Hin | exact Hp].
  - split; [exact A|]. intros Hv Hn Hq. apply B; auto using pin_false_of.
Qed.

(* a reference the repository does not resolve, and invalid options, are refused too *)
Theorem refuses_unresolved : forall tbl st c st' t,
  sign_oci false tbl st c = (st', t) -> lookup_tbl (eff_ref c) tbl = None -> refused st st' t.
Proof.
  intros tbl st c st' t H Hl. eapply not_reached_refused; [exact H|].
  destruct (reached_signer (t_res t)) eqn:E; [|reflexivity].
  destruct (signed _ _ _ _ _ H E) as (d & sc & Hl' & _). congruence.
Qed.

(* ================= C11_frame ================= *)

Theorem frame : forall tbl st c st' t,
  sign_oci false tbl st c = (st', t) ->
  map fst (s_heap st') = map fst (s_heap st)
  /\ (forall a, ci_pa c <> PAMap a -> hget a (s_heap st') = hget a (s_heap st))
  /\ ((forall a, ci_pa c <> PAMap a) -> s_heap st' = s_heap st)
  /\ (s_stored st' = s_stored st /\ t_res t <> ROk /\ t_res t <> RRefDel
      \/ exists x, s_stored st' = (s_stored st ++ [x])%list /\ (t_res t = ROk \/ t_res t = RRefDel)).
Proof.
  intros tbl [h sp] c st' t H. pose proof H as H0. apply sign_oci_spec in H.
  assert (forall e, reached_signer e = false -> e <> ROk /\ e <> RRefDel) as NR.
  { intros e He. split; intros ->; discriminate. }
  inversion H; subst; cbn [s_heap s_stored t_res];
    try (match goal with Hg : gen_ann _ _ _ = _ |- _ =>
           destruct (gen_ann_frame _ _ _ _ _ Hg) as (F1 & F2 & F3) end);
    repeat split; auto; try (left; repeat split; discriminate).
  - left. val_cls. repeat split; apply NR; exact Hvc.
  - left. meta_cls; repeat split; discriminate.
  - left. ann_cls; repeat split; discriminate.
  - right. eexists. split; [reflexivity | auto].
  - right. eexists. split; [reflexivity | auto].
Qed.

Lemma table_addrs_in : forall tbl ref d a,
  lookup_tbl ref tbl = Some d -> d_ann d = AShared a -> In a (table_addrs tbl).
Proof.
  induction tbl as [|[k d0] tbl IH]; cbn; intros ref d a H E; [discriminate|].
  apply in_or_app. destruct (String.eqb ref k).
  - inversion H. subst d0. rewrite E. left. left. reflexivity.
  - right. eapply IH; eassumption.
Qed.

Lemma deep_ext : forall h h' d,
  (forall a, d_ann d = AShared a -> hget a h' = hget a h) -> deep h' d = deep h d.
Proof.
  intros h h' d H. unfold deep. f_equal. destruct (d_ann d) as [|a|m]; cbn; try reflexivity.
  unfold hread. rewrite (H a eq_refl). reflexivity.
Qed.

(* what the repository resolves, deep, is unchanged *)
Theorem frame_view : forall tbl st c st' t ref d,
  sign_oci false tbl st c = (st', t) ->
  lookup_tbl ref tbl = Some d ->
  (forall a, ci_pa c = PAMap a -> d_ann d <> AShared a) ->
  deep (s_heap st') d = deep (s_heap st) d.
Proof.
  intros tbl st c st' t ref d H Hl Hs. destruct (frame _ _ _ _ _ H) as (_ & F & _).
  apply deep_ext. intros a Ea. apply F. intros Ep. exact (Hs a Ep Ea).
Qed.

Lemma wf_call_sep : forall h tbl c a, wf_call h tbl c = true -> ci_pa c = PAMap a ->
  hget a h <> None /\ ~ In a (table_addrs tbl) /\ ci_meta c <> Some a.
Proof.
  intros h tbl c a W E. unfold wf_call in W. rewrite E in W.
  apply andb_true_iff in W. destruct W as [W W3]. apply andb_true_iff in W. destruct W as [W1 W2].
  split; [destruct (hget a h); [discriminate | discriminate]|]. split.
  - intros Hin. apply negb_true_iff in W2. assert (existsb (N.eqb a) (table_addrs tbl) = true); [|congruence].
    apply existsb_exists. exists a. split; [exact Hin | apply N.eqb_refl].
  - intros Em. rewrite Em in W3. rewrite N.eqb_refl in W3. discriminate.
Qed.

(* the caller's option maps are unchanged (the signer's own map aside) *)
Theorem frame_options : forall tbl st c st' t,
  sign_oci false tbl st c = (st', t) -> wf_call (s_heap st) tbl c = true ->
  meta_of c (s_heap st') = meta_of c (s_heap st)
  /\ (forall a, ci_pcfg c = Some a -> (forall b, ci_pa c = PAMap b -> b <> a) ->
                hget a (s_heap st') = hget a (s_heap st)).
Proof.
  intros tbl st c st' t H W. destruct (frame _ _ _ _ _ H) as (_ & F & _). split.
  - unfold meta_of. destruct (ci_meta c) as [a|] eqn:Em; [|reflexivity].
    unfold hread. rewrite F; [reflexivity|]. intros Ep.
    destruct (wf_call_sep _ _ _ _ W Ep) as (_ & _ & N). congruence.
  - intros a _ Hs. apply F. intros Ep. exact (Hs a Ep eq_refl).
Qed.

(* ================= C11_pushed ================= *)

Definition pa_content (p : pa) (h : heap) : amap :=
  match p with PAMap a => hread a h | _ => [] end.

Lemma gen_ann_content : forall h si p h2 ra tm,
  (forall a, p = PAMap a -> hget a h <> None) ->
  gen_ann h (Some si) p = (h2, inr ra) -> si_time si = Some tm ->
  forall k, lookup k (aread ra h2) =
    if String.eqb k k_created then Some (rfc3339 tm)
    else if String.eqb k k_thumb then Some (json_strs (si_chain si))
    else lookup k (pa_content p h).
Proof.
  intros h si p h2 ra tm Hlive H Ht k.
  destruct p as [| |a].
  1,2: rewrite gen_ann_fresh in H by (intros a; discriminate); rewrite Ht in H; inversion H; subst;
       cbn [aread pa_content]; unfold two_ann; cbn [lookup];
       destruct (String.eqb k k_created) eqn:E1; destruct (String.eqb k k_thumb) eqn:E2; try reflexivity;
       apply String.eqb_eq in E1; apply String.eqb_eq in E2; subst k; discriminate.
  rewrite gen_ann_map in H by (apply Hlive; reflexivity). cbv zeta in H. rewrite Ht in H.
  inversion H. subst. cbn [aread pa_content]. rewrite hread_hupd_eq by (apply Hlive; reflexivity).
  rewrite !lookup_mset. reflexivity.
Qed.

Definition pushed_spec (tbl : table) (h : heap) (sp : list stored) (c : call_in)
           (st' : state) (t : trace) : Prop :=
  exists d sig si tm pc dg,
    lookup_tbl (eff_ref c) tbl = Some d
    /\ ci_sign c = SOk sig (Some si) /\ si_time si = Some tm
    /\ (ci_push c = PushOK dg /\ t_res t = ROk \/ ci_push c = PushRefDel dg /\ t_res t = RRefDel)
    /\ t_pushes t = [pc]
    /\ pc_mt pc = ci_mt c /\ pc_sig pc = sig
    /\ pc_subject pc = deep h d
    /\ lookup k_thumb (pc_ann pc) = Some (json_strs (si_chain si))
    /\ lookup k_created (pc_ann pc) = Some (rfc3339 tm)
    /\ (forall k, k <> k_thumb -> k <> k_created ->
                  lookup k (pc_ann pc) = lookup k (plugin_content c h))
    /\ t_art t = Some (deep h d) /\ t_sigdg t = dg
    /\ s_stored st' = (sp ++ [mk_stored (ci_mt c) sig (forget (deep h d)) (pc_ann pc)])%list.

Lemma neq_eqb_false : forall a b : string, a <> b -> String.eqb a b = false.
Proof. intros a b H. destruct (String.eqb a b) eqn:E; [apply String.eqb_eq in E; contradiction | reflexivity]. Qed.

Lemma pushed_core : forall tbl h c d r1 info h2 ra,
  wf_call h tbl c = true -> ready tbl h c d r1 ->
  gen_ann h info (ci_pa c) = (h2, inr ra) ->
  exists si tm, info = Some si /\ si_time si = Some tm
    /\ deep h2 d = deep h d
    /\ lookup k_thumb (aread ra h2) = Some (json_strs (si_chain si))
    /\ lookup k_created (aread ra h2) = Some (rfc3339 tm)
    /\ (forall k, k <> k_thumb -> k <> k_created ->
                  lookup k (aread ra h2) = lookup k (plugin_content c h)).
Proof.
  intros tbl h c d r1 info h2 ra W R Hg.
  destruct (gen_ann_ok_inv _ _ _ _ _ Hg) as (si & tm & -> & Ht). exists si, tm.
  assert (forall a, ci_pa c = PAMap a -> hget a h <> None) as Hlive.
  { intros a Ea. destruct (wf_call_sep _ _ _ _ W Ea) as (L & _). exact L. }
  pose proof (gen_ann_content _ _ _ _ _ _ Hlive Hg Ht) as C.
  destruct (gen_ann_frame _ _ _ _ _ Hg) as (_ & F & _).
  split; [reflexivity|]. split; [exact Ht|]. split; [|split; [|split]].
  - apply deep_ext. intros a Ea. apply F. intros Ep.
    destruct (wf_call_sep _ _ _ _ W Ep) as (_ & N & _). apply N.
    destruct R as (_ & _ & Hl & _). eapply table_addrs_in; eassumption.
  - rewrite C. reflexivity.
  - rewrite C. reflexivity.
  - intros k N1 N2. rewrite C. rewrite (neq_eqb_false _ _ N2), (neq_eqb_false _ _ N1).
    unfold plugin_content, pa_content. reflexivity.
Qed.

Theorem pushed : forall tbl st c st' t,
  sign_oci false tbl st c = (st', t) -> wf_call (s_heap st) tbl c = true ->
  t_res t = ROk \/ t_res t = RRefDel ->
  pushed_spec tbl (s_heap st) (s_stored st) c st' t.
Proof.
  intros tbl [h sp] c st' t H W Hr. apply sign_oci_spec in H. cbn [s_heap s_stored] in *.
  inversion H; subst; cbn in Hr; try (destruct Hr; discriminate).
  - val_cls. destruct Hr as [-> | ->]; discriminate.
  - meta_cls; destruct Hr; discriminate.
  - ann_cls; destruct Hr; discriminate.
  - match goal with R : ready _ _ _ ?d _, Hg : gen_ann _ _ _ = (_, inr _) |- _ =>
      destruct (pushed_core _ _ _ _ _ _ _ _ W R Hg) as (si & tm & -> & Ht & Ed & A & B & C);
      pose proof R as (_ & _ & Hl & _) end.
    exists d, sig, si, tm, (mk_pc c sig h2 d ra), dg. unfold mk_pc, mk_sto. cbn. rewrite Ed.
    repeat split; auto.
  - match goal with R : ready _ _ _ ?d _, Hg : gen_ann _ _ _ = (_, inr _) |- _ =>
      destruct (pushed_core _ _ _ _ _ _ _ _ W R Hg) as (si & tm & -> & Ht & Ed & A & B & C);
      pose proof R as (_ & _ & Hl & _) end.
    exists d, sig, si, tm, (mk_pc c sig h2 d ra), dg. unfold mk_pc, mk_sto. cbn. rewrite Ed.
    repeat split; auto.
Qed.

(* ================= C11_repeat ================= *)

Lemma gen_ann_idem : forall h info p h2 ra,
  (forall a, p = PAMap a -> hget a h <> None) ->
  gen_ann h info p = (h2, inr ra) -> gen_ann h2 info p = (h2, inr ra).
Proof.
  intros h info p h2 ra Hlive H.
  destruct (gen_ann_ok_inv _ _ _ _ _ H) as (si & tm & -> & Ht).
  destruct p as [| |a].
  1,2: rewrite gen_ann_fresh in H |- * by (intros a; discriminate); rewrite Ht in H |- *;
       inversion H; subst; reflexivity.
  assert (hget a h <> None) as La by (apply Hlive; reflexivity).
  rewrite gen_ann_map in H by exact La. cbv zeta in H. rewrite Ht in H. inversion H. subst h2 ra. clear H.
  set (m2 := mset k_created (rfc3339 tm) (mset k_thumb (json_strs (si_chain si)) (hread a h))).
  assert (hget a (hupd a m2 h) = Some m2) as G by (apply hget_hupd_eq; exact La).
  rewrite gen_ann_map by congruence. cbv zeta. rewrite Ht.
  assert (hread a (hupd a m2 h) = m2) as -> by (unfold hread; rewrite G; reflexivity).
  assert (mset k_thumb (json_strs (si_chain si)) m2 = m2) as ->.
  { apply mset_idem. unfold m2. rewrite lookup_mset, k_thumb_neq_created. apply lookup_mset_eq. }
  assert (mset k_created (rfc3339 tm) m2 = m2) as ->.
  { apply mset_idem. unfold m2. apply lookup_mset_eq. }
  rewrite (hupd_same _ _ _ G). reflexivity.
Qed.

Lemma repeat_step : forall tbl h sp c st1 t1,
  wf_call h tbl c = true ->
  sign_oci false tbl (mk_state h sp) c = (st1, t1) -> t_res t1 = ROk ->
  forall sp', exists x,
    sign_oci false tbl (mk_state (s_heap st1) sp') c = (mk_state (s_heap st1) (sp' ++ [x])%list, t1).
Proof.
  intros tbl h sp c st1 t1 W H Hr sp'. apply sign_oci_spec in H.
  inversion H; subst; cbn in Hr; try discriminate.
  - val_cls. rewrite Hr in Hvc. discriminate.
  - meta_cls; discriminate.
  - ann_cls; discriminate.
  - (* the successful call *)
    match goal with R : ready _ _ _ _ _ |- _ => pose proof R as (Hv & Hn & Hl & Hp & Ha) end.
    match goal with Hg : gen_ann _ _ _ = (_, inr _) |- _ => rename Hg into Hg0 end.
    assert (forall a, ci_pa c = PAMap a -> hget a h <> None) as Hlive.
    { intros a Ea. destruct (wf_call_sep _ _ _ _ W Ea) as (L & _). exact L. }
    destruct (gen_ann_frame _ _ _ _ _ Hg0) as (_ & F & _).
    pose proof (gen_ann_idem _ _ _ _ _ Hlive Hg0) as Hg1.
    cbn [s_heap].
    (* reads of the first part are the same in the new heap *)
    assert (forall b, In b (table_addrs tbl) -> hget b h2 = hget b h) as Ft.
    { intros b Hb. apply F. intros Ep. destruct (wf_call_sep _ _ _ _ W Ep) as (_ & N & _). contradiction. }
    assert (aread (d_ann d) h2 = aread (d_ann d) h) as Erc.
    { destruct (d_ann d) as [|b|m] eqn:Ed; cbn; try reflexivity.
      unfold hread. rewrite Ft; [reflexivity|]. eapply table_addrs_in; eassumption. }
    assert (meta_es c h2 = meta_es c h) as Ees.
    { unfold meta_es. destruct (ci_meta c) as [b|] eqn:Em; [|reflexivity].
      unfold hread. rewrite F; [reflexivity|]. intros Ep.
      destruct (wf_call_sep _ _ _ _ W Ep) as (_ & _ & N). congruence. }
    assert (add_meta false h2 (d_ann d) (meta_es c h2) = (h2, r1, None)) as Ha2.
    { rewrite Ees. rewrite add_meta_false in Ha |- *. rewrite Erc.
      destruct (meta_es c h); inversion Ha; reflexivity. }
    assert (mk_sc c h2 d r1 = mk_sc c h d r1) as Esc.
    { unfold mk_sc. f_equal. apply deep_ext. cbn [d_ann]. intros b Eb.
      match goal with R : ready _ _ _ _ _ |- _ => destruct (ready_signed _ _ _ _ _ R) as (_ & _ & C1 & C2) end.
      destruct (meta_of c h) eqn:Em.
      - rewrite (C1 eq_refl) in Eb. apply Ft. eapply table_addrs_in; eassumption.
      - destruct C2 as [m0 Em0]; [discriminate|]. congruence. }
    eexists. unfold sign_oci. cbn [s_heap s_stored].
    rewrite Hv, Hn, Hl, Hp. fold (meta_es c h2). rewrite Ha2.
    match goal with Es : ci_sign c = SOk _ _ |- _ => rewrite Es end.
    rewrite Hg1.
    match goal with Eq : ci_push c = PushOK _ |- _ => rewrite Eq end.
    fold (mk_sc c h2 d r1). rewrite Esc. reflexivity.
Qed.

Lemma repeat_tail : forall tbl probes c h1 t1,
  (forall sp', exists x, sign_oci false tbl (mk_state h1 sp') c = (mk_state h1 (sp' ++ [x])%list, t1)) ->
  forall n sp',
  Forall (fun o => co_trace o = t1 /\ co_heap o = h1)
         (run_calls false tbl probes (mk_state h1 sp') (repeat c n)).
Proof.
  intros tbl probes c h1 t1 Hs. induction n as [|n IH]; intros sp'; cbn [repeat run_calls]; [constructor|].
  destruct (Hs sp') as [x Hx]. rewrite Hx. constructor; [cbn; auto|]. apply IH.
Qed.

Theorem repeat_ok : forall tbl probes st c n,
  wf_call (s_heap st) tbl c = true ->
  t_res (snd (sign_oci false tbl st c)) = ROk ->
  Forall (fun o => co_trace o = snd (sign_oci false tbl st c)
                   /\ co_heap o = s_heap (fst (sign_oci false tbl st c)))
         (run_calls false tbl probes st (repeat c n)).
Proof.
  intros tbl probes [h sp] c n W Hr.
  destruct (sign_oci false tbl (mk_state h sp) c) as [st1 t1] eqn:E. cbn [fst snd] in *.
  destruct n as [|n]; cbn [repeat run_calls]; [constructor|].
  rewrite E. constructor; [cbn; auto|].
  destruct st1 as [h1 sp1]. cbn [s_heap].
  apply repeat_tail. intros sp'.
  exact (repeat_step _ _ _ _ _ _ W E Hr sp').
Qed.

(* ================= the in-place variant (before fix 14156eb) ================= *)

Definition rf_tbl : table :=
  [("v1", mk_desc "application/vnd.oci.image.manifest.v1+json" "sha256:aa" 7 "" (AShared 0))].
Definition rf_heap : heap := [(0%N, [("org.example.extra", "1")]); (1%N, [("k", "v")])].
Definition rf_call : call_in :=
  mk_call_in false false "v1" None false mt_jws 0 "" (Some 1%N) None None
             (SOk "sig" (Some (mk_sinfo ["ab"] (Some 0%Z)))) PANone (PushOK "sha256:m").

Lemma inplace_refuted :
  exists tbl st c,
    let r1 := sign_oci true tbl st c in
    let r2 := sign_oci true tbl (fst r1) c in
    t_res (snd r1) = ROk
    /\ (exists a, ci_pa c <> PAMap a /\ hget a (s_heap (fst r1)) <> hget a (s_heap st))
    /\ t_res (snd r2) = EMetaPresent.
Proof.
  exists rf_tbl, (mk_state rf_heap []), rf_call. cbv zeta. split; [reflexivity|]. split.
  - exists 0%N. split; [discriminate|]. vm_compute. discriminate.
  - reflexivity.
Qed.

(* the same history under the code now: both calls succeed, the heap is untouched *)
Lemma fixed_witness :
  let r1 := sign_oci false rf_tbl (mk_state rf_heap []) rf_call in
  let r2 := sign_oci false rf_tbl (fst r1) rf_call in
  t_res (snd r1) = ROk /\ t_res (snd r2) = ROk /\ s_heap (fst r2) = rf_heap /\ snd r2 = snd r1.
Proof. vm_compute. repeat split. Qed.

(* ================= the model meets the oracle ================= *)

Lemma list_eqb_refl : forall {A} (eqb : A -> A -> bool) (l : list A),
  (forall x, In x l -> eqb x x = true) -> list_eqb eqb l l = true.
Proof.
  intros A eqb l. induction l as [|x l IH]; intros H; cbn; [reflexivity|].
  rewrite H by (left; reflexivity). apply IH. intros y Hy. apply H. right. exact Hy.
Qed.

Lemma mref_eqb_refl : forall r, mref_eqb r r = true.
Proof. intros [|a|]; cbn; [reflexivity | apply N.eqb_refl | reflexivity]. Qed.

Lemma ddesc_eqb_refl : forall d, ddesc_eqb d d = true.
Proof.
  intros d. unfold ddesc_eqb. rewrite !str_eqb_refl, Z.eqb_refl, mref_eqb_refl, amap_eqv_refl. reflexivity.
Qed.

Lemma stored_eqb_refl : forall s, stored_eqb s s = true.
Proof.
  intros s. unfold stored_eqb. rewrite !str_eqb_refl, ddesc_eqb_refl, amap_eqv_refl. reflexivity.
Qed.

Lemma stored_list_refl : forall l, list_eqb stored_eqb l l = true.
Proof. intros l. apply list_eqb_refl. intros x _. apply stored_eqb_refl. Qed.

Lemma res_eqb_refl : forall r, res_eqb r r = true.
Proof. intros []; reflexivity. Qed.

Lemma view_eqb_refl : forall v, view_eqb v v = true.
Proof.
  intros v. apply list_eqb_refl. intros [r o] _. cbn. rewrite str_eqb_refl.
  destruct o as [d|]; cbn; [apply ddesc_eqb_refl | reflexivity].
Qed.

Lemma heap_same_refl : forall ex h, heap_same_except ex h h = true.
Proof.
  intros ex h. apply list_eqb_refl. intros [a m] _. cbn. rewrite N.eqb_refl, amap_eqv_refl, orb_true_r. reflexivity.
Qed.

Lemma heap_same_hupd : forall a m h, heap_same_except (Some a) h (hupd a m h) = true.
Proof.
  intros a m h. induction h as [|[a' m'] h IH]; [reflexivity|].
  cbn [hupd]. destruct (a =? a')%N eqn:E.
  - cbn. rewrite N.eqb_refl, E. cbn. apply (heap_same_refl (Some a) h).
  - cbn. rewrite N.eqb_refl, amap_eqv_refl, orb_true_r. cbn. exact IH.
Qed.

Lemma gen_ann_shape : forall h info p h2 x,
  gen_ann h info p = (h2, x) -> h2 = h \/ exists a m, p = PAMap a /\ h2 = hupd a m h.
Proof.
  intros h [si|] p h2 x H; [|cbn in H; inversion H; auto].
  destruct p as [| |a].
  1,2: rewrite gen_ann_fresh in H by (intros a; discriminate); destruct (si_time si); inversion H; auto.
  right. exists a. unfold gen_ann in H. cbn in H. destruct (si_time si); inversion H.
  - rewrite hupd_hupd. eexists. split; reflexivity.
  - eexists. split; reflexivity.
Qed.

Lemma gen_ann_heap_same : forall h info c h2 x,
  gen_ann h info (ci_pa c) = (h2, x) ->
  heap_same_except (match ci_pa c with PAMap a => Some a | _ => None end) h h2 = true.
Proof.
  intros h info c h2 x H. destruct (gen_ann_shape _ _ _ _ _ H) as [-> | (a & m & Ep & ->)].
  - apply heap_same_refl.
  - rewrite Ep. apply heap_same_hupd.
Qed.

Lemma gen_ann_err_inv : forall h info p h2 e,
  gen_ann h info p = (h2, inl e) ->
  (info = None /\ e = EAnnInfoNil /\ h2 = h)
  \/ (exists si, info = Some si /\ si_time si = None /\ e = EAnnTime).
Proof.
  intros h [si|] p h2 e H; [|cbn in H; inversion H; auto].
  right. exists si. unfold gen_ann in H.
  destruct (awrite k_thumb (json_strs (si_chain si)) h match p with PAMap a => AShared a | _ => AFresh [] end) as [h1 r1].
  destruct (si_time si) eqn:Et; [|inversion H; auto].
  destruct (awrite k_created (rfc3339 z) h1 r1). inversion H.
Qed.

Lemma existsb_res_in : forall e l, In e l -> existsb (res_eqb e) l = true.
Proof.
  intros e l H. apply existsb_exists. exists e. split; [exact H | apply res_eqb_refl].
Qed.

Lemma args_ok : forall c, validate c = None -> ci_repo_nil c = false -> args_bad c = false.
Proof.
  intros c Hv Hn. destruct (validate_none _ Hv) as (A & B & C & D).
  unfold args_bad. rewrite A, B, C, D, Hn. reflexivity.
Qed.

Lemma str_list_refl : forall l, list_eqb String.eqb l l = true.
Proof. intros l. apply list_eqb_refl. intros x _. apply str_eqb_refl. Qed.

Lemma existsb_false_of : forall {A} (f : A -> bool) l, (forall x, In x l -> f x = false) -> existsb f l = false.
Proof.
  intros A f l. induction l as [|x l IH]; intros H; cbn; [reflexivity|].
  rewrite H by (left; reflexivity). apply IH. intros y Hy. apply H. right. exact Hy.
Qed.

(* the refusal part of the oracle on an unchanged state *)
Lemma refused_ok : forall (sp : list stored) (h : heap) (e : res) (classes : list res),
  In e classes ->
  existsb (res_eqb e) classes
  && (list_eqb stored_eqb sp sp && is_nil (@nil push_call) && is_none (@None ddesc) && String.eqb "" "")
  && is_nil (@nil sign_call) && heap_same_except None h h = true.
Proof.
  intros sp h e classes H. rewrite existsb_res_in by exact H.
  rewrite stored_list_refl, heap_same_refl. reflexivity.
Qed.

Lemma is_resolved_deep : forall d h, is_resolved d (aread (d_ann d) h) (deep h d) = true.
Proof.
  intros d h. unfold is_resolved, deep. cbn.
  rewrite !str_eqb_refl, Z.eqb_refl, mref_eqb_refl, amap_eqv_refl. reflexivity.
Qed.

Lemma ann_ok_of : forall pc0 si tm m,
  lookup k_thumb m = Some (json_strs (si_chain si)) ->
  lookup k_created m = Some (rfc3339 tm) ->
  (forall k, k <> k_thumb -> k <> k_created -> lookup k m = lookup k pc0) ->
  ann_ok pc0 si tm m = true.
Proof.
  intros pc0 si tm m A B C. unfold ann_ok. rewrite A, B. rewrite !opt_str_eqb_refl. cbn [andb].
  apply forallb_forall. intros [k v] _. cbn [fst].
  destruct (String.eqb k k_thumb) eqn:E1; [reflexivity|].
  destruct (String.eqb k k_created) eqn:E2; [reflexivity|]. cbn.
  rewrite C; [apply opt_str_eqb_refl | |]; intros ->; rewrite str_eqb_refl in *; discriminate.
Qed.

(* the metadata part: what the signer received *)
Lemma signed_ok : forall tbl h c d r1, ready tbl h c d r1 ->
  let sc := mk_sc c h d r1 in
  String.eqb (dd_mt (sc_desc sc)) (d_mt d) && String.eqb (dd_dg (sc_desc sc)) (d_dg d)
  && (dd_sz (sc_desc sc) =? d_sz d)%Z && String.eqb (dd_rest (sc_desc sc)) (d_rest d)
  && amap_eqv (dd_ann (sc_desc sc)) (aread (d_ann d) h ++ meta_of c h)%list
  && String.eqb (sc_mt sc) (ci_mt c) && (sc_expiry sc =? ci_expiry c)%Z
  && String.eqb (sc_agent sc) (ci_agent c) && mref_eqb (sc_pcfg sc) (opt_mref (ci_pcfg c)) = true.
Proof.
  intros tbl h c d r1 R. cbn. destruct (ready_signed _ _ _ _ _ R) as (A & _).
  rewrite !str_eqb_refl, !Z.eqb_refl, mref_eqb_refl.
  rewrite amap_eqv_ext; [reflexivity|]. intros k. rewrite A, lookup_app. reflexivity.
Qed.

Lemma ready_not_bad : forall tbl h c d r1, ready tbl h c d r1 ->
  existsb (fun kv => reserved (fst kv)) (meta_of c h) = false
  /\ existsb (fun kv : string * string => is_some (lookup (fst kv) (aread (d_ann d) h))) (meta_of c h) = false.
Proof.
  intros tbl h c d r1 R. destruct (ready_signed _ _ _ _ _ R) as (_ & B & _).
  split; apply existsb_false_of; intros [k v] Hin;
    (assert (In k (map fst (meta_of c h))) as Hk by (apply in_map_iff; exists (k, v); auto));
    destruct (B _ Hk) as [B1 B2]; cbn [fst]; [exact B1 | rewrite B2; reflexivity].
Qed.

Lemma wf_meta_of : forall c h, wf_heap h = true -> nodup_str (map fst (meta_of c h)) = true.
Proof. intros c h W. unfold meta_of. destruct (ci_meta c); [apply wf_heap_hread; exact W | reflexivity]. Qed.

Lemma wf_meta_es : forall c h, wf_heap h = true -> nodup_str (map fst (meta_es c h)) = true.
Proof.
  intros c h W. unfold meta_es. destruct (ci_meta c); [|reflexivity].
  apply nodup_entries. apply wf_heap_hread. exact W.
Qed.

Lemma existsb_key : forall (f : string -> bool) (m : amap) k,
  In k (map fst m) -> f k = true -> existsb (fun kv => f (fst kv)) m = true.
Proof.
  intros f m k Hin Hf. apply in_map_iff in Hin. destruct Hin as [[k0 v0] [E Hin]]. cbn in E. subst k0.
  apply existsb_exists. exists (k, v0). split; [exact Hin | exact Hf].
Qed.

Lemma meta_bad : forall h c d r e,
  wf_heap h = true ->
  add_meta false h (d_ann d) (meta_es c h) = (h, r, Some e) ->
  let bad_res := existsb (fun kv => reserved (fst kv)) (meta_of c h) in
  let bad_pre := existsb (fun kv : string * string => is_some (lookup (fst kv) (aread (d_ann d) h))) (meta_of c h) in
  bad_res || bad_pre = true
  /\ In e ((if bad_res then [EMetaReserved] else []) ++ (if bad_pre then [EMetaPresent] else []))%list.
Proof.
  intros h c d r e W Ha. cbv zeta.
  rewrite add_meta_false in Ha. destruct (meta_es c h) as [|e0 es0] eqn:Ees; [inversion Ha|].
  rewrite <- Ees in Ha. inversion Ha as [[E1 E2]]. clear Ha E1.
  destruct (add_pure_class _ _ _ E2) as [-> | ->].
  - destruct (add_pure_reserved_inv _ _ E2) as (k & Hk & Hr). apply keys_meta_es in Hk.
    rewrite (existsb_key reserved _ _ Hk Hr). split; [reflexivity|]. left. reflexivity.
  - destruct (add_pure_present_inv _ _ (wf_meta_es c h W) E2) as (k & Hk & Hp). apply keys_meta_es in Hk.
    assert (is_some (lookup k (aread (d_ann d) h)) = true) as Hs
      by (destruct (lookup k (aread (d_ann d) h)); [reflexivity | congruence]).
    rewrite (existsb_key (fun k => is_some (lookup k (aread (d_ann d) h))) _ _ Hk Hs).
    split; [apply orb_true_r|]. apply in_or_app. right. left. reflexivity.
Qed.

Ltac spec_open :=
  unfold spec_call, view_ok;
  cbn [co_trace co_heap co_view co_stored t_res t_art t_sigdg t_resolves t_signs t_pushes s_heap s_stored];
  cbv beta zeta.

Lemma spec_call_model : forall tbl probes h sp c st' t,
  wf_heap h = true -> wf_call h tbl c = true ->
  sign_oci false tbl (mk_state h sp) c = (st', t) ->
  spec_call tbl probes h sp c (mk_co t (s_heap st') (view tbl probes (s_heap st')) (s_stored st')) = true.
Proof.
  intros tbl probes h sp c st' t W Wc H. apply sign_oci_spec in H.
  inversion H; subst; spec_open; rewrite ?view_eqb_refl.
  - (* argument errors *)
    match goal with Hv : validate c = Some _ |- _ => destruct (validate_some_args_bad _ _ Hv) as [Ab Ain] end.
    rewrite Ab, heap_same_refl, (refused_ok sp h _ _ Ain). reflexivity.
  - (* repo nil *)
    assert (args_bad c = true) as Ab.
    { unfold args_bad. match goal with Hn : ci_repo_nil c = true |- _ => rewrite Hn end. apply orb_true_r. }
    rewrite Ab, heap_same_refl.
    rewrite (refused_ok sp h ERepoNil arg_errors) by (cbn; auto 10). reflexivity.
  - (* unresolved *)
    rewrite args_ok by assumption. rewrite heap_same_refl, str_list_refl.
    match goal with Hl : lookup_tbl _ _ = None |- _ => rewrite Hl end.
    rewrite (refused_ok sp h EResolve [EResolve]) by (left; reflexivity). reflexivity.
  - (* digest pin *)
    rewrite args_ok by assumption. rewrite heap_same_refl, str_list_refl.
    match goal with Hl : lookup_tbl _ _ = Some _ |- _ => rewrite Hl end.
    match goal with Hp : negb _ && _ = true |- _ => rewrite Hp end.
    rewrite (refused_ok sp h EDigestMismatch [EDigestMismatch]) by (left; reflexivity). reflexivity.
  - (* metadata refused *)
    rewrite args_ok by assumption. rewrite heap_same_refl, str_list_refl.
    match goal with Hl : lookup_tbl _ _ = Some _ |- _ => rewrite Hl end.
    match goal with Hp : negb _ && _ = false |- _ => rewrite Hp end.
    fold (meta_of c h).
    match goal with Ha : add_meta false _ _ _ = (_, _, Some _) |- _ =>
      destruct (meta_bad _ _ _ _ _ W Ha) as [Hb Hin] end.
    rewrite Hb. rewrite (refused_ok sp h _ _ Hin). reflexivity.
  - (* signer error *)
    match goal with R : ready _ _ _ _ _ |- _ =>
      pose proof R as (Hv & Hn & Hl & Hp & _); destruct (ready_not_bad _ _ _ _ _ R) as [B1 B2];
      pose proof (signed_ok _ _ _ _ _ R) as S end.
    rewrite args_ok by assumption. rewrite heap_same_refl, str_list_refl, Hl, Hp.
    fold (meta_of c h). rewrite B1, B2. cbn [orb]. cbv zeta in S. rewrite S.
    match goal with Es : ci_sign c = SErr |- _ => rewrite Es end.
    rewrite stored_list_refl. reflexivity.
  - (* annotation errors *)
    match goal with R : ready _ _ _ _ _ |- _ =>
      pose proof R as (Hv & Hn & Hl & Hp & _); destruct (ready_not_bad _ _ _ _ _ R) as [B1 B2];
      pose proof (signed_ok _ _ _ _ _ R) as S end.
    match goal with Hg : gen_ann _ _ _ = _ |- _ => pose proof (gen_ann_heap_same _ _ _ _ _ Hg) as Hs;
      destruct (gen_ann_err_inv _ _ _ _ _ Hg) as [(-> & -> & ->) | (si & -> & Et & ->)] end.
    + rewrite args_ok by assumption. rewrite heap_same_refl, str_list_refl, Hl, Hp.
      fold (meta_of c h). rewrite B1, B2. cbn [orb]. cbv zeta in S. rewrite S.
      match goal with Es : ci_sign c = SOk _ _ |- _ => rewrite Es end.
      rewrite stored_list_refl. reflexivity.
    + rewrite args_ok by assumption. rewrite Hs, str_list_refl, Hl, Hp.
      fold (meta_of c h). rewrite B1, B2. cbn [orb]. cbv zeta in S. rewrite S.
      match goal with Es : ci_sign c = SOk _ _ |- _ => rewrite Es end.
      rewrite Et. rewrite stored_list_refl. reflexivity.
  - (* push error *)
    match goal with R : ready _ _ _ _ _ |- _ =>
      pose proof R as (Hv & Hn & Hl & Hp & _); destruct (ready_not_bad _ _ _ _ _ R) as [B1 B2];
      pose proof (signed_ok _ _ _ _ _ R) as S;
      match goal with Hg : gen_ann _ _ _ = (_, inr _) |- _ =>
        pose proof (gen_ann_heap_same _ _ _ _ _ Hg) as Hs;
        destruct (pushed_core _ _ _ _ _ _ _ _ Wc R Hg) as (si & tm & -> & Et & Ed & A1 & A2 & A3) end end.
    rewrite args_ok by assumption. rewrite Hs, str_list_refl, Hl, Hp.
    fold (meta_of c h). rewrite B1, B2. cbn [orb]. cbv zeta in S. rewrite S.
    match goal with Es : ci_sign c = SOk _ _ |- _ => rewrite Es end. rewrite Et.
    unfold mk_pc. cbn [pc_mt pc_sig pc_subject pc_ann]. rewrite Ed.
    rewrite !str_eqb_refl, is_resolved_deep, (ann_ok_of _ _ _ _ A1 A2 A3).
    match goal with Eq : ci_push c = PushErr |- _ => rewrite Eq end.
    rewrite stored_list_refl. reflexivity.
  - (* pushed *)
    match goal with R : ready _ _ _ _ _ |- _ =>
      pose proof R as (Hv & Hn & Hl & Hp & _); destruct (ready_not_bad _ _ _ _ _ R) as [B1 B2];
      pose proof (signed_ok _ _ _ _ _ R) as S;
      match goal with Hg : gen_ann _ _ _ = (_, inr _) |- _ =>
        pose proof (gen_ann_heap_same _ _ _ _ _ Hg) as Hs;
        destruct (pushed_core _ _ _ _ _ _ _ _ Wc R Hg) as (si & tm & -> & Et & Ed & A1 & A2 & A3) end end.
    rewrite args_ok by assumption. rewrite Hs, str_list_refl, Hl, Hp.
    fold (meta_of c h). rewrite B1, B2. cbn [orb]. cbv zeta in S. rewrite S.
    match goal with Es : ci_sign c = SOk _ _ |- _ => rewrite Es end. rewrite Et.
    unfold mk_pc, mk_sto. cbn [pc_mt pc_sig pc_subject pc_ann]. rewrite Ed.
    rewrite !str_eqb_refl, !is_resolved_deep, (ann_ok_of _ _ _ _ A1 A2 A3).
    match goal with Eq : ci_push c = PushOK _ |- _ => rewrite Eq end.
    rewrite stored_list_refl, str_eqb_refl. reflexivity.
  - (* pushed, referrers index deletion failed *)
    match goal with R : ready _ _ _ _ _ |- _ =>
      pose proof R as (Hv & Hn & Hl & Hp & _); destruct (ready_not_bad _ _ _ _ _ R) as [B1 B2];
      pose proof (signed_ok _ _ _ _ _ R) as S;
      match goal with Hg : gen_ann _ _ _ = (_, inr _) |- _ =>
        pose proof (gen_ann_heap_same _ _ _ _ _ Hg) as Hs;
        destruct (pushed_core _ _ _ _ _ _ _ _ Wc R Hg) as (si & tm & -> & Et & Ed & A1 & A2 & A3) end end.
    rewrite args_ok by assumption. rewrite Hs, str_list_refl, Hl, Hp.
    fold (meta_of c h). rewrite B1, B2. cbn [orb]. cbv zeta in S. rewrite S.
    match goal with Es : ci_sign c = SOk _ _ |- _ => rewrite Es end. rewrite Et.
    unfold mk_pc, mk_sto. cbn [pc_mt pc_sig pc_subject pc_ann]. rewrite Ed.
    rewrite !str_eqb_refl, !is_resolved_deep, (ann_ok_of _ _ _ _ A1 A2 A3).
    match goal with Eq : ci_push c = PushRefDel _ |- _ => rewrite Eq end.
    rewrite stored_list_refl, str_eqb_refl. reflexivity.
Qed.

Lemma hget_some_addrs : forall a h, is_some (hget a h) = existsb (N.eqb a) (map fst h).
Proof.
  intros a h. induction h as [|[a' m] h IH]; cbn; [reflexivity|].
  destruct (a =? a')%N; [reflexivity | exact IH].
Qed.

Lemma wf_call_addrs : forall h h' tbl c, map fst h' = map fst h -> wf_call h' tbl c = wf_call h tbl c.
Proof.
  intros h h' tbl c E. unfold wf_call. destruct (ci_pa c); try reflexivity.
  rewrite !hget_some_addrs, E. reflexivity.
Qed.

Lemma sign_oci_wf_heap : forall tbl h sp c st' t,
  wf_heap h = true -> sign_oci false tbl (mk_state h sp) c = (st', t) -> wf_heap (s_heap st') = true.
Proof.
  intros tbl h sp c st' t W H. apply sign_oci_spec in H.
  inversion H; subst; cbn [s_heap]; try exact W;
    match goal with Hg : gen_ann _ _ _ = _ |- _ => exact (wf_heap_gen_ann _ _ _ _ _ W Hg) end.
Qed.

Lemma spec_calls_model : forall tbl probes cs h sp,
  wf_heap h = true -> forallb (wf_call h tbl) cs = true ->
  spec_calls tbl probes h sp cs (run_calls false tbl probes (mk_state h sp) cs) = true.
Proof.
  intros tbl probes cs. induction cs as [|c cs IH]; intros h sp W Wc; [reflexivity|].
  cbn [forallb] in Wc. apply andb_true_iff in Wc. destruct Wc as [Wc1 Wc2].
  cbn [run_calls]. destruct (sign_oci false tbl (mk_state h sp) c) as [st' t] eqn:E.
  cbn [spec_calls]. rewrite (spec_call_model _ _ _ _ _ _ _ W Wc1 E). cbn [andb co_heap co_stored].
  pose proof (sign_oci_wf_heap _ _ _ _ _ _ W E) as W'.
  destruct (frame _ _ _ _ _ E) as (Fa & _). cbn [s_heap] in Fa.
  destruct st' as [h' sp']. cbn [s_heap s_stored] in *.
  apply IH; [exact W'|].
  rewrite forallb_forall in Wc2 |- *. intros c0 Hc0.
  rewrite (wf_call_addrs _ _ _ _ Fa). apply Wc2. exact Hc0.
Qed.

Theorem model_spec_ok : forall i, wf i = true -> spec_ok i (model i) = true.
Proof.
  intros i W. unfold wf in W. apply andb_true_iff in W. destruct W as [W1 W2].
  unfold spec_ok, model. apply spec_calls_model; assumption.
Qed.

(* ================= whole histories ================= *)

Theorem history_frame : forall tbl probes cs st o a,
  In o (run_calls false tbl probes st cs) ->
  (forall c, In c cs -> ci_pa c <> PAMap a) ->
  hget a (co_heap o) = hget a (s_heap st).
Proof.
  intros tbl probes cs. induction cs as [|c cs IH]; intros st o a Hin Hpa; [destruct Hin|].
  cbn [run_calls] in Hin. destruct (sign_oci false tbl st c) as [st' t] eqn:E.
  destruct (frame _ _ _ _ _ E) as (_ & F & _).
  assert (hget a (s_heap st') = hget a (s_heap st)) as E1 by (apply F; apply Hpa; left; reflexivity).
  destruct Hin as [<- | Hin]; [exact E1|].
  rewrite <- E1. apply (IH st' o a Hin). intros c0 Hc0. apply Hpa. right. exact Hc0.
Qed.

(* the reserved-prefix test is a prefix test with the constant list of /repo *)
Lemma reserved_is_prefix : forall k,
  reserved k = existsb (fun p => has_prefix p k) gen_reserved_annotation_prefixes.
Proof. reflexivity. Qed.
